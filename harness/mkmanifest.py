"""Regenerates /verif/MANIFEST.json from the table below (keeps it valid at all times)."""
import json, os
VERIF = os.path.dirname(os.path.dirname(os.path.abspath(__file__)))
CLAIMED = {
 "C01": ("proof", "Theorems (Props/C01.v): one cycle's events replayed on the old visible view give exactly the new one; events are exactly the differences; over whole histories with any refusal schedule the replayed bus state equals the published state and equals the view after every complete poll. Tied to /repo by running the real HermesServer.mainLoop on generated histories and evaluating model=code and the replay oracle in Coq (vm_compute).",
         "§5 C01", "restart-free history theorem; restarts, initsync and secrets covered by correspondence + oracle; known finding F13"),
 "C02": ("proof", "Theorems (Props/C02.v): vdiff sound and complete on the whole value grammar; the three attribute sets are exactly appeared/changed/disappeared; never an empty modified; event iff difference; one event per object; unchanged view silent. Correspondence + exact-diff oracle on real server runs over look-alike values.",
         "§5 C02", "value grammar of Model/Values.v (no NaN/-0.0/tz-aware datetimes); floats interned by the harness"),
 "C03": ("proof", "Proved: at most one event per object per cycle and the phase order is part of the model that the correspondence checks; the closedness of every prefix is decided by the Coq oracle closed_prefixes on every prefix of every observed stream (base cycles, initsync sequences, cycles cut by refusals) over FK chains/diamonds/two-parent keys. Full prefix-closedness theorem: see level_note.",
         "§5 C03", "partial: the prefix-closedness theorem itself is not yet proved (statement in DESIGN.md); closedness is evaluated on observed streams"),
 "C04": ("proof", "Theorems (Props/C04.v): for every refusal position the cache equals the old state plus exactly the accepted prefix; nothing is sent after a refusal; commit_one directly follows each accepted send; for every schedule over any number of cycles accepted = published, and a complete cycle reaches the view. Correspondence on real runs with refusal/open-failure/restart schedules; strict-replay and commit oracles.",
         "§5 C04", "producer modelled as an oracle of refused send indices; restarts via correspondence"),
 "C13": ("proof", "Theorems (Props/C13.v): complete per-key specification of one merge step for a duplicate-free source (union / only-new with both sides dropped / only-existing enriched / intersection, attributes united with the earlier value kept, conflicting key removed and reported under use_cached_entry), row independence, duplicate-in-first-source flagged and removed. Correspondence of the model fold with the real Datamodel.fetch on random 2-3 source contents with duplicates plus the exhaustive 2-source/2-key/2-value universe over all constraints and both policies across polls; declarative oracle (key algebra, attribute union, cached fallback, no event for flagged keys).",
         "§5 C13", "merge_constraints Jinja templates are outside the model (only pkey_merge_constraint); duplicate rows of non-first sources are covered by correspondence, the algebra theorem assumes duplicate-free sources"),
 "C14": ("proof", "Theorems (Props/C14.v): the integrity loop returns a subset of the merged data that is closed under all constraints and contains every closed subset (greatest closed subset); it terminates within |data|+1 rounds; constraints are monotone; a single pass is refuted on a depth-2 chain. Correspondence with the real Datamodel.fetch over chains, two-parent and diamond types, constraints on any subset of types in any declaration order in both template forms, parents disappearing and returning; event-level oracle that filtered objects come back as 'added'.",
         "§5 C14", "constraint language = conjunctions of '_SELF.a in P_pkeys' (also written with the <Type> list variable); other Jinja constraints are not modelled"),
 "C18": ("proof", "Theorems (Props/C18.v): a log invariant (consecutive ids, last id = sequence, timestamps in insertion order) holds in every state reachable by any interleaving of producer/consumer operations; offsets strictly increasing and never reused (the sequence survives a purge of everything); delivery = retained events from the cursor in order; resume at exactly the saved offset; seek accepted iff oldest retained <= o <= next, refused on purged/future/fresh database; purge removes only events older than the limit. Correspondence on the real SQLite plugins (separate connections, real purge with aged timestamps) on random sequences up to 120 ops and all sequences <=3/<=5 ops; oracle with ground truth read by plain SQL.",
         "§5 C18", "SQLite transaction isolation trusted; processes modelled as interleaved atomic operations; monotone clock"),
 "C19": ("proof", "Theorems (Props/C19.v): the (repaired, path-local) circular-reference check never refuses an acyclic foreign-key graph, always refuses a genuinely cyclic one whose keys are well-formed, and always terminates. Correspondence of the rule checks and the cycle check with the real Dataschema on all well-formed schemas over <=3 types (+4/5 types sampled or complete) and schemas with injected documented mistakes, oracle = independent transitive-closure cycle test + 'error names the offending <type.attr>'; start-up walk of server and client configurations (each optional setting omitted, bounded settings at and beyond their limits, documented mistakes) classified as started / configuration error / crash.",
         "§5 C19", "Cerberus, PyYAML and Jinja are black boxes: their verdict enters the start-up decision as a fact set by construction of each variant"),
 "C20": ("proof", "Theorems (Props/C20.v): every message is dropped or handled (decode is total); a paused, unforced application never polls; a forced update polls exactly once and leaves the schedule untouched; the schedule never lags more than one interval behind the clock through any iteration, hence at most two polls in a row after a resume (no burst); pause/resume return-code table. Correspondence: raw bytes (malformed, truncated, flipped, huge, deep, non-UTF-8) over a real Unix socket to the real SockServer with the server's and the client's handlers in random flag states, each followed by a status liveness probe; random command scripts interleaved with iterations of the real HermesServer.mainLoop under a virtual clock; status content with and without a data error.",
         "§5 C20", "thread scheduling, kernel socket buffers and real time are outside the model (the listener loop is played by a helper thread of the harness); the client's scheduling is only covered through its command handlers"),
}
REASON_TODO = "check not built yet in this revision (work in progress; see DESIGN.md §8)"
def main():
    checks, na = [], []
    for i in range(1, 21):
        pid = f"C{i:02d}"
        if pid in CLAIMED:
            cat, text, ref, note = CLAIMED[pid]
            checks.append({
                "property_id": pid,
                "quick_cmd": f"./check {pid} quick",
                "thorough_cmd": f"./check {pid} thorough",
                "evidence_file": f"/verif/evidence/{pid}.json",
                "replay_cmd_template": "./check --replay {path}",
                "engine": "coq-model+correspondence",
                "level_claimed": {"category": cat, "text": text, "design_ref": ref},
                "level_note": note + "; trusted: Coq 8.16.1 kernel and vm_compute, the Python correspondence harness, CPython/Jinja2/Cerberus/SQLite as black boxes",
                "technique": "machine-checked proof in Coq on a hand-written executable model + behavioural correspondence (model and oracle evaluated by vm_compute on what the real code did)",
            })
        else:
            na.append({"property_id": pid, "reason": REASON_TODO})
    m = {"version": 1,
         "setup_cmd": "./check --build",
         "hooks": {"guard": "HERMES_VERIF", "enable": "no source hook is needed: the harness drives the real classes in-process through plugin doubles (HERMES_VERIF=1 is exported by ./check but read by nothing in /repo)",
                   "baseline_off_cmd": "cd /repo && /venv/bin/python -m pytest -ra -q -p no:cacheprovider --timeout=900 --continue-on-collection-errors",
                   "source_commits": [], "add_only": True},
         "engines": [{"name": "coq-model+correspondence", "path": "/verif/coq + /verif/harness",
                      "serves_properties": sorted(CLAIMED), "kind_free_text": "Coq 8.16.1 development (std++ gmap models, theorems in Props/), Python harness driving the real Hermes code and emitting Gallina case files evaluated with vm_compute"}],
         "checks": checks, "not_applicable": na,
         "notes": "See DESIGN.md. known_findings.json lists genuine defects recorded (known) or repaired (fixed)."}
    json.dump(m, open(os.path.join(VERIF, "MANIFEST.json"), "w"), indent=1)
if __name__ == "__main__":
    main()

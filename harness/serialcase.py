"""Serialisation cases (C16): values through real cache files and the real SQLite bus;
cache-file histories across compression switches."""
import base64
import copy
import datetime
import itertools
import os
import random
import re

from common import gvalue, gstr, glist, gbool, gZ, gopt

DT = datetime.datetime
LOOKALIKES = [
    "HermesDatetime(2020-01-02T03:04:05Z)", "HermesDatetime(2020-13-02T03:04:05Z)",
    "HermesDatetime(2020-02-30T00:00:00Z)", "HermesDatetime(2020-02-29T23:59:59Z)",
    "HermesDatetime(1900-02-29T00:00:00Z)", "HermesDatetime(0000-01-01T00:00:00Z)",
    "HermesDatetime(2020-01-02T24:00:00Z)", "HermesDatetime(2020-01-02 03:04:05Z)",
    "HermesDatetime(2020-01-02T03:04:05)", "hermesdatetime(2020-01-02T03:04:05Z)",
    "HermesDatetime(2020-01-02T03:04:05Z) ", "HermesBytes(aGVsbG8=)", "HermesBytes(aGVsbG8)",
    "HermesBytes()", "HermesBytes(!!!!)", "HermesBytes(a)b)", "xHermesBytes(aa==)", "HermesBytes(aGVs bG8=)",
    "HermesBytes(YQ==)", "HermesBytes(=)", "HermesBytes", "HermesBytes(", "HermesDatetime()",
]
LEAVES = [None, True, False, 0, 1, -1, 2 ** 70, -2 ** 63, 1.5, 1e300, -0.5, "", "a", "é∑", "1",
          DT(2020, 1, 2, 3, 4, 5), DT(1, 1, 1, 0, 0, 0), DT(9999, 12, 31, 23, 59, 59), DT(2024, 2, 29, 12, 0, 0),
          b"", b"ab", b"\x00\xff\x10", bytes(range(40))]
PAT_DT = re.compile(r"HermesDatetime\(\d{4}-\d{2}-\d{2}T\d{2}:\d{2}:\d{2}Z\)")
PAT_BY = re.compile(r"HermesBytes\([^)]*\)")


def exhaustive_values():
    small = [None, True, 1, 1.5, "a", "", DT(2020, 1, 2, 3, 4, 5), b"ab", "HermesBytes(YQ==)",
             "HermesDatetime(2020-01-02T03:04:05Z)"]
    vals = list(small)
    for a in small:
        vals.append([a])
        vals.append({"k": a})
        for b in small:
            vals.append([a, b])
            vals.append({"k": a, "j": b})
    vals += [[], {}, [[]], [{}], {"k": []}, {"k": {}}]
    return vals


def rnd_value(rng, depth=0):
    r = rng.random()
    if depth < 3 and r < 0.3:
        return [rnd_value(rng, depth + 1) for _ in range(rng.randint(0, 3))]
    if depth < 3 and r < 0.5:
        return {rng.choice(["k", "j", "é", ""]): rnd_value(rng, depth + 1) for _ in range(rng.randint(0, 3))}
    if r < 0.65:
        return rng.choice(LOOKALIKES)
    return copy.deepcopy(rng.choice(LEAVES))


def str_leaves(v):
    if isinstance(v, str):
        yield v
    elif isinstance(v, list):
        for x in v:
            yield from str_leaves(x)
    elif isinstance(v, dict):
        for x in v.values():
            yield from str_leaves(x)


def bytes_leaves(v):
    if isinstance(v, bytes):
        yield v
    elif isinstance(v, list):
        for x in v:
            yield from bytes_leaves(x)
    elif isinstance(v, dict):
        for x in v.values():
            yield from bytes_leaves(x)


def has_inband_lookalike(v):
    return any(PAT_DT.fullmatch(s) or PAT_BY.fullmatch(s) for s in str_leaves(v))


def b64_tables(v):
    """the (CPython) base64 facts the model needs for this value"""
    enc = {b: base64.b64encode(b).decode("ascii") for b in bytes_leaves(v)}
    dec = {}
    for s in str_leaves(v):
        if s.startswith("HermesBytes(") and s.endswith(")"):
            body = s[12:-1]
            try:
                dec[body] = base64.b64decode(body.encode("ascii"))
            except Exception:
                dec[body] = None
    for b, t in enc.items():
        dec[t] = b
    return enc, dec


def run_values(args):
    """worker: (values, workdir) -> reloaded values via cache file (both compressions) and via the bus"""
    values, wd = args
    import hermes_env as H
    import importlib
    from lib.datamodel.dataschema import Dataschema
    from lib.datamodel.serialization import LocalCache
    from lib.datamodel.event import Event
    H.setup_logger("hermes-server")
    H.rmtree(wd)
    os.makedirs(wd)
    out = []
    prod_mod = importlib.import_module("plugins.messagebus_producers.sqlite.sqlite")
    cons_mod = importlib.import_module("plugins.messagebus_consumers.sqlite.sqlite")

    class NoSleep:
        @staticmethod
        def sleep(x):
            pass
    cons_mod.time = NoSleep
    for compress in (False, True):
        LocalCache._settingsbyappname[__hermes__.appname] = {
            "_backupCount": 0, "_cachedir": wd + f"/c{int(compress)}", "_compressCache": compress,
            "_extension": LocalCache._extensions[compress], "_umask": 0o022}
        os.makedirs(wd + f"/c{int(compress)}", exist_ok=True)
        schema = Dataschema(from_raw_dict={"Ta": {
            "HERMES_ATTRIBUTES": {"id", "x"}, "SECRETS_ATTRIBUTES": set(), "CACHEONLY_ATTRIBUTES": set(),
            "LOCAL_ATTRIBUTES": set(), "PRIMARYKEY_ATTRIBUTE": "id", "FOREIGN_KEYS": {}, "TOSTRING": None}})
        cls, lcls = schema.objectTypes["Ta"], schema.objectlistTypes["Ta"]
        objs = [cls(from_json_dict={"id": i, "x": copy.deepcopy(v)}) for i, v in enumerate(values)]
        lst = lcls(objlist=objs)
        lst.savecachefile("Ta")
        back = lcls.loadcachefile("Ta")
        res = []
        for i in range(len(values)):
            o = back.get(i)
            res.append(("ok", copy.deepcopy(o.toNative().get("x"))) if o is not None and "x" in o.toNative() else ("missing", None))
        out.append(res)
    # through the bus
    uri = wd + "/bus.sqlite"
    prod = prod_mod.SqliteProducerPlugin({"uri": uri, "retention_in_days": 1})
    prod.open()
    for i, v in enumerate(values):
        ev = Event(evcategory="base", eventtype="added", objattrs={"id": i, "x": copy.deepcopy(v)})
        ev.objtype, ev.objpkey = "Ta", (i, "k") if i % 2 else i
        prod.send(ev)
    prod.close()
    cons = cons_mod.SqliteConsumerPlugin({"uri": uri})
    cons.setTimeout(2)
    cons.seekToBeginning()
    res = []
    for ev in cons:
        i = ev.objattrs["id"]
        keyok = ev.objpkey == ((i, "k") if i % 2 else i) and type(ev.objpkey) is (tuple if i % 2 else int)
        res.append(("ok" if keyok else "badkey", copy.deepcopy(ev.objattrs.get("x"))) if "x" in ev.objattrs else ("missing", None))
    cons.close()
    out.append(res)
    H.rmtree(wd)
    return out


def in_grammar(v):
    try:
        gvalue(v)
        return True
    except ValueError:
        return False


def vcase_gallina(v, reloaded):
    enc, dec = b64_tables(v)
    ge = glist(f"({gstr(b)},{gstr(t)})" for b, t in enc.items())
    gd = glist(f"({gstr(t)},{gopt(gstr(b)) if b is not None else 'None'})" for t, b in dec.items())
    rv = reloaded if in_grammar(reloaded) else "<<outside-grammar>>"
    return f"(VCase {ge} {gd} {gvalue(v)} {gvalue(rv)})"


# ---------------------------------------------------------------------------------------
# cache-file histories
# ---------------------------------------------------------------------------------------
def gen_dcase(rng):
    backups = rng.choice([0, 0, 2])
    n = rng.randint(1, 5)
    saves, c, content = [], rng.random() < 0.5, 0
    for i in range(n):
        if rng.random() < 0.4:
            c = not c
        if rng.random() < 0.8:
            content += 1
        saves.append((c, 0 if (i > 0 and rng.random() < 0.15) else max(content, 1)))
    return {"backups": backups, "saves": saves, "load": c if rng.random() < 0.6 else (not c)}


def exhaustive_dcases():
    out = []
    for backups in (0, 2):
        for n in (1, 2, 3):
            for settings in itertools.product([False, True], repeat=n):
                for load in (False, True):
                    out.append({"backups": backups, "saves": [(s, i + 1) for i, s in enumerate(settings)], "load": load})
                    if n >= 2:
                        # the same history ending with the list becoming empty
                        out.append({"backups": backups, "load": load,
                                    "saves": [(s, (i + 1) if i < n - 1 else 0) for i, s in enumerate(settings)]})
    return out


def run_dcases(args):
    cases, wd = args
    import hermes_env as H
    from lib.datamodel.dataschema import Dataschema
    from lib.datamodel.serialization import LocalCache
    H.setup_logger("hermes-server")
    out = []
    for ci, case in enumerate(cases):
        d = wd + f"/d{ci}"
        H.rmtree(d)
        os.makedirs(d)

        def setup(compress):
            LocalCache._settingsbyappname[__hermes__.appname] = {
                "_backupCount": case["backups"], "_cachedir": d, "_compressCache": compress,
                "_extension": LocalCache._extensions[compress], "_umask": 0o022}
        setup(False)
        schema = Dataschema(from_raw_dict={"Ta": {
            "HERMES_ATTRIBUTES": {"id", "x"}, "SECRETS_ATTRIBUTES": set(), "CACHEONLY_ATTRIBUTES": set(),
            "LOCAL_ATTRIBUTES": set(), "PRIMARYKEY_ATTRIBUTE": "id", "FOREIGN_KEYS": {}, "TOSTRING": None}})
        cls, lcls = schema.objectTypes["Ta"], schema.objectlistTypes["Ta"]
        for compress, content in case["saves"]:
            setup(compress)
            # content 0 = the list has become empty (an empty list is a content like any other)
            lst = lcls(objlist=[cls(from_json_dict={"id": 1, "x": content})] if content else [])
            lst.savecachefile("Ta")
        setup(case["load"])
        try:
            back = lcls.loadcachefile("Ta")
            o = back.get(1)
            anyfile = any(f.startswith("Ta.") for f in os.listdir(d))
            out.append(("content", o.x) if o is not None else (("content", 0) if anyfile else ("empty", None)))
        except Exception as e:  # noqa
            out.append(("corrupt", type(e).__name__))
        H.rmtree(d)
    return out


def dcase_gallina(case, ob):
    saves = glist(f"({gbool(c)},{gZ(x)})" for c, x in case["saves"])
    lo = {"content": lambda: f"(LContent {gZ(ob[1])})", "empty": lambda: "LEmpty", "corrupt": lambda: "LCorrupt"}[ob[0]]()
    return f"(DCase {case['backups']} {saves} {gbool(case['load'])} {lo})"

"""SQLite bus plugin cases (C18): op sequences on the real producer / consumer plugins."""
import json
import os
import random
import sqlite3
import time

from common import gZ, gbool, glist

DAY = 86400


def gen_case(rng, opts=None):
    opts = opts or {}
    ops = []
    n = rng.randint(3, opts.get("maxops", 25))
    sent = 0
    opened = False
    for _ in range(n):
        r = rng.random()
        if not opened or r < 0.1:
            ops.append(("open", rng.choice([1, 1, 2])))
            opened = True
        elif r < 0.45:
            for _ in range(rng.choice([1, 1, 2, 5, 30]) if rng.random() < 0.15 else 1):
                ops.append(("send",))
                sent += 1
        elif r < 0.55:
            if rng.random() < opts.get("p_back", 0.25) and sent:
                # the producer's clock steps back: the next events are stamped older than the stored ones
                ops.append(("back", rng.choice([0.57, 1.39, 2.71])))
            else:
                ops.append(("age", rng.choice([0.31, 0.62, 1.13, 2.54])))
        elif r < 0.75:
            o = rng.choice([1, sent, sent + 1, sent + 2, rng.randint(0, sent + 3), rng.randint(1, max(1, sent))])
            ops.append(("seek", o))
        elif r < 0.8:
            ops.append(("seekbegin",))
        elif r < 0.86:
            # the producer keeps writing while a consumer is in the middle of an iteration: after
            # the k-th event delivered, m more events are sent; the iteration then goes on
            ops.append(("iter_send", rng.choice([1, 1, 2, 3]), rng.choice([1, 2, 3])))
            sent += 3
        else:
            ops.append(("iter",))
    ops.append(("iter",))
    return {"ops": ops, "second_consumer": rng.random() < 0.2}


def run_case(case, workdir):
    import hermes_env as H
    import importlib
    prod_mod = importlib.import_module("plugins.messagebus_producers.sqlite.sqlite")
    cons_mod = importlib.import_module("plugins.messagebus_consumers.sqlite.sqlite")
    from lib.datamodel.event import Event
    H.setup_logger("hermes-server")
    H.rmtree(workdir)
    os.makedirs(workdir)
    uri = workdir + "/bus.sqlite"

    # the consumer's waiting loop runs on a virtual clock that only its own sleep() advances: the
    # first pass always happens, an empty pass sleeps past the timeout (no dependence on machine load)
    import datetime as _dtm

    class VClock:
        t = _dtm.datetime.now()

    class _DT(_dtm.datetime):
        @classmethod
        def now(cls, tz=None):
            return VClock.t

    class NoSleep:
        @staticmethod
        def sleep(x):
            VClock.t = VClock.t + _dtm.timedelta(seconds=x)
    cons_mod.time = NoSleep
    cons_mod.datetime = _DT
    cons = cons_mod.SqliteConsumerPlugin({"uri": uri})
    cons.setTimeout(2)   # 2 ms
    prod = None
    sent_json = []
    obs = []
    truth = []
    purges = []
    aborted = None
    for oi, op in enumerate(case["ops"]):
        kind = op[0]
        try:
            if kind == "open":
                if prod is not None:
                    prod.close()
                before = sql_rows(uri)
                prod = prod_mod.SqliteProducerPlugin({"uri": uri, "retention_in_days": op[1]})
                t_open = time.time()
                prod.open()
                after = sql_rows(uri)
                purges.append(([(i, int(round((t_open - ts) / DAY * 100))) for (i, ts) in before], [i for (i, ts) in after]))
                obs.append(("none",))
            elif kind == "send":
                k = len(sent_json) + 1
                ev = Event(evcategory="base", eventtype="added", objattrs={"n": k, "s": "é" * (k % 3), "l": [k, None, {"k": True}]})
                ev.objtype, ev.objpkey = "T", k
                sent_json.append(ident(ev))
                prod.send(ev)
                obs.append(("none",))
            elif kind == "age":
                db = sqlite3.connect(uri)
                db.execute("UPDATE hermesmessages SET timestamp = timestamp - ?", (op[1] * DAY,))
                db.commit()
                db.close()
                obs.append(("none",))
            elif kind == "back":
                # equivalent to the clock stepping back by op[1] days: every stored event becomes that much younger
                db = sqlite3.connect(uri)
                db.execute("UPDATE hermesmessages SET timestamp = timestamp + ?", (op[1] * DAY,))
                db.commit()
                db.close()
                obs.append(("none",))
            elif kind == "seek":
                lo, nxt, present = 0, 0, None
                if os.path.exists(uri):
                    db = sqlite3.connect(uri)
                    try:
                        r = db.execute("SELECT min(msgid) FROM hermesmessages").fetchone()
                        lo = r[0] or 0
                        present = db.execute("SELECT count(*) FROM hermesmessages WHERE msgid = ?", (op[1],)).fetchone()[0] > 0
                        r = db.execute("SELECT seq FROM sqlite_sequence WHERE name='hermesmessages'").fetchone()
                        nxt = (r[0] + 1) if r else 0
                    except sqlite3.Error:
                        pass
                    db.close()
                truth.append((lo, nxt, bool(present)))
                try:
                    cons.seek(op[1])
                    # 4th field: the sought offset lies strictly inside the retained range but is absent (a hole)
                    obs.append(("seek", "ok", present, bool(present is False and lo and lo < op[1] < nxt)))
                except IndexError:
                    obs.append(("seek", "index"))
                except IOError:
                    obs.append(("seek", "invalid"))
                except sqlite3.Error:
                    obs.append(("seek", "invalid"))
            elif kind == "seekbegin":
                cons.seekToBeginning()
                obs.append(("none",))
            elif kind == "iter":
                out, failed = [], None
                try:
                    for ev in cons:
                        js = ident(ev)
                        pid = sent_json.index(js) + 1 if js in sent_json else 0
                        out.append((ev.offset, pid))
                except sqlite3.Error as e:
                    failed = f"the iteration raised {type(e).__name__}: {e}"
                obs.append(("iter", out, 0, failed))
            elif kind == "iter_send":
                out, nsent, failed = [], 0, None
                try:
                    for ev in cons:
                        js = ident(ev)
                        pid = sent_json.index(js) + 1 if js in sent_json else 0
                        out.append((ev.offset, pid))
                        if len(out) == op[1] and prod is not None and failed is None and nsent == 0:
                            for _ in range(op[2]):
                                k = len(sent_json) + 1
                                ev2 = Event(evcategory="base", eventtype="added", objattrs={"n": k, "s": "é" * (k % 3), "l": [k, None, {"k": True}]})
                                ev2.objtype, ev2.objpkey = "T", k
                                try:
                                    prod.send(ev2)
                                except Exception as e:  # noqa
                                    failed = f"a send was refused ({type(e).__name__}: {e})"
                                    break
                                sent_json.append(ident(ev2))
                                nsent += 1
                except sqlite3.Error as e:
                    failed = (failed + "; " if failed else "") + f"the iteration raised {type(e).__name__}: {e}"
                obs.append(("iter", out, nsent, failed))
        except Exception as e:  # noqa - a plugin operation raised: the history stops here and is reported
            aborted = (oi, kind, f"{type(e).__name__}: {e}")
            break

    try:
        if prod is not None:
            prod.close()
        cons.close()
    except Exception:  # noqa
        pass
    H.rmtree(workdir)
    obs.append(("truth", truth))
    obs.append(("purges", purges))
    if aborted:
        obs.append(("aborted",) + aborted)
    return obs


def sql_rows(uri):
    if not os.path.exists(uri):
        return []
    db = sqlite3.connect(uri)
    try:
        return [(r[0], r[1]) for r in db.execute("SELECT msgid, timestamp FROM hermesmessages ORDER BY msgid")]
    except sqlite3.Error:
        return []
    finally:
        db.close()


def ident(ev):
    """payload of an event, without the delivery timestamp the consumer attaches to it"""
    d = json.loads(ev.to_json())
    d.pop("timestamp", None)
    return json.dumps(d, sort_keys=True)


def next_iter_sends(obs, i):
    ob = obs[i]
    return ob[2] if ob[0] == "iter" and len(ob) > 2 else 0


def case_to_gallina(case, obs):
    ops, outs = [], []
    ops_src_done = []
    nsent = 0
    ndone = sum(1 for ob in obs if ob[0] in ("none", "seek", "iter"))
    for op in case["ops"][:ndone]:
        k = op[0]
        if k == "open":
            ops.append(f"(BOpen {gZ(int(op[1] * 100))})")
        elif k == "send":
            nsent += 1
            ops.append(f"(BSend {gZ(nsent)})")
        elif k == "age":
            ops.append(f"(BAge {gZ(int(round(op[1] * 100)))})")
        elif k == "back":
            ops.append(f"(BBack {gZ(int(round(op[1] * 100)))})")
        elif k == "seek":
            ops.append(f"(BSeek {gZ(op[1])})")
        elif k == "seekbegin":
            ops.append("BSeekBegin")
        elif k == "iter_send":
            # rendered as what was done: the sends that really happened, then one iteration that
            # delivered everything up to the end of the log
            done = next_iter_sends(obs, len(ops_src_done))
            for _ in range(done):
                nsent += 1
                ops.append(f"(BSend {gZ(nsent)})")
            ops.append("BIter")
        else:
            ops.append("BIter")
        ops_src_done.append(k)
    truth, purges = [], []
    for ob in obs:
        if ob[0] == "truth":
            truth = ob[1]
            continue
        if ob[0] == "purges":
            purges = ob[1]
            continue
        if ob[0] == "aborted":
            continue
        if ob[0] == "none":
            outs.append("ONone")
        elif ob[0] == "seek":
            outs.append({"ok": "(OSeek SeekOk)", "index": "(OSeek SeekIndexError)", "invalid": "(OSeek SeekInvalid)"}[ob[1]])
        else:
            outs.extend(["ONone"] * (ob[2] if len(ob) > 2 else 0))
            outs.append("(OIter " + glist(f"({gZ(o)},{gZ(p)})" for o, p in ob[1]) + ")")
    gp = glist("(" + glist(f"({gZ(i)},{gZ(a)})" for i, a in b) + "," + glist(gZ(i) for i in a2) + ")" for b, a2 in purges)
    return f"(BCase {glist(ops)} {glist(outs)} " + glist(f"({gZ(a)},{gZ(b)},{gbool(p)})" for a, b, p in truth) + f" {gp})"

"""Shared machinery of the server-side properties (C01-C04, C14, C15 server part):
run generated cases on the real server in worker processes, render them to Gallina,
evaluate correspondence + oracle in Coq (vm_compute), shard by shard."""
import json
import os
import random
import sys
import time
import traceback
from concurrent.futures import ProcessPoolExecutor

import common
import srvcase


def _init_worker():
    import hermes_env  # noqa: F401  (imports the real code from HERMES_REPO)


def _run_one(args):
    idx, case, wd, modname = args
    try:
        import importlib
        mod = importlib.import_module(modname)
        obs = mod.run_case(case, wd)
        g = mod.case_to_gallina(case, obs)
        return idx, obs, g, None
    except Exception:
        return idx, None, None, traceback.format_exc()


def run_cases(ctx, cases, jobs=14, modname="srvcase"):
    """Returns list of (obs, gallina, err) aligned with cases."""
    out = [None] * len(cases)
    args = [(i, c, os.path.join(ctx.work, f"run{i}"), modname) for i, c in enumerate(cases)]
    with ProcessPoolExecutor(max_workers=jobs, initializer=_init_worker) as ex:
        for idx, obs, g, err in ex.map(_run_one, args, chunksize=4):
            out[idx] = (obs, g, err)
    return out


def coq_eval(ctx, name, gallinas, f="corr_case", g="c01_case", shard=40, require="Corr.RunServer",
             typ="scase", checker="check_cases"):
    """Evaluate (f x, g x) for every case; returns {index: (f_ok, g_ok)} for failing
    ones only (all others passed both)."""
    paths, bases = [], []
    for si, chunk in enumerate(common.chunks(list(enumerate(gallinas)), shard)):
        body = (f"From Hermes Require Import {require}.\n"
                f"Definition cases : list {typ} := [\n" + ";\n".join(x for _, x in chunk) + "\n].\n"
                f"Eval vm_compute in ({checker} {f} {g} cases).\n")
        p = os.path.join(ctx.work, f"cases_{name}_{si}.v")
        with open(p, "w") as fh:
            fh.write(body)
        paths.append(p)
        bases.append(chunk[0][0])
    outs = common.run_coqc_many(paths)
    failing = {}
    for p, base in zip(paths, bases):
        for i, a, b in common.parse_results(outs[p]):
            failing[base + i] = (bool(a), bool(b))
    return failing


def jsonable_case(case, obs=None):
    d = {"case": common.enc(case)}
    if obs is not None:
        d["observed"] = common.enc(obs)
    return d


def nontrivial_key(case, obs):
    """Distinctness/non-triviality: the multiset of event kinds sent + refusals."""
    kinds = []
    for ob in obs:
        for rec in ob["trace"]:
            if rec[0] in ("send", "sendfail"):
                kinds.append((rec[0], rec[1], rec[2], rec[3], repr(rec[4])))
    return kinds


def generic_server_run(ctx, n_cases, opts, oracle, sig_fn=None, what="",
                       rule="", corr_name="corr_server_cycle"):
    rng = random.Random(ctx.seed)
    cases = [srvcase.gen_case(rng, opts) for _ in range(n_cases)]
    res = run_cases(ctx, cases)
    errs = [(i, e) for i, (o, g, e) in enumerate(res) if e]
    if errs:
        raise RuntimeError(f"driver error on case {errs[0][0]}:\n{errs[0][1]}")
    failing = coq_eval(ctx, ctx.pid.lower(), [g for _, g, _ in res], g=oracle)
    violations, corr = [], []
    for i, (c_ok, o_ok) in sorted(failing.items()):
        case, (obs, g, _) = cases[i], res[i]
        rep = jsonable_case(case, obs)
        if not o_ok:
            sig = sig_fn(case, obs) if sig_fn else None
            violations.append({"sig": sig, "what": f"{what} (oracle {oracle} false on case {i})",
                               "replay_kind": "server_case", **rep})
        elif not c_ok:
            corr.append({"what": f"{corr_name}: model trace/cache != implementation on case {i}",
                         "replay_kind": "server_case", **rep})
    seen = set()
    hist = {"polls": 0, "restarts": 0, "refusals": 0, "isync": 0, "events": 0}
    for case, (obs, g, _) in zip(cases, res):
        k = nontrivial_key(case, obs)
        if k:
            seen.add(json.dumps(k, default=str))
        for st in case["steps"]:
            if st["op"] == "restart":
                hist["restarts"] += 1
            else:
                hist["polls"] += 1
                hist["isync"] += bool(st.get("isync"))
        for ob in obs:
            for rec in ob["trace"]:
                hist["events"] += rec[0] == "send"
                hist["refusals"] += rec[0] == "sendfail"
    sample = {"cfg": cases[0]["cfg"]["shape"], "steps": [
        (s["op"], s.get("fail"), s.get("isync")) for s in cases[0]["steps"]],
        "first_trace": [list(map(str, r[:5])) for ob in res[0][0] for r in ob["trace"]][:12]}
    return {"evaluations": n_cases, "distinct_nontrivial": len(seen),
            "rule": rule or ("random server histories (config x polls x restarts x refusal schedule); "
                             "non-trivial = at least one event sent or refused; distinct by the sequence "
                             "of (kind, category, type, key) sent"),
            "samples": [sample], "violations": violations, "corr_failures": corr,
            "coverage_extra": {"histogram": hist}}


def replay_server_case(obj, oracle):
    """Re-run a stored server case on the current tree; print what corr/oracle say."""
    class C:
        pass
    ctx = C()
    ctx.work = common.workdir("replay")
    ctx.pid = obj["property"]
    case = common.dec(obj["case"])
    _init_worker()
    obs = srvcase.run_case(case, os.path.join(ctx.work, "r"))
    g = srvcase.case_to_gallina(case, obs)
    failing = coq_eval(ctx, "replay", [g], g=oracle)
    c_ok, o_ok = failing.get(0, (True, True))
    print(f"replay: correspondence={'ok' if c_ok else 'FAILS'} oracle({oracle})={'ok' if o_ok else 'FAILS'}")
    return 0 if (c_ok and o_ok) else 1

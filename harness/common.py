"""Shared helpers of the verification harness (paths, value codec, Gallina printer,
coqc runner).  Runs under /venv/bin/python with PYTHONPATH=/repo."""
import datetime as _dt
import json
import os
import re
import subprocess
import sys
import time

VERIF = os.path.dirname(os.path.dirname(os.path.abspath(__file__)))
REPO = os.environ.get("HERMES_REPO", "/repo")
COQ = os.path.join(VERIF, "coq")
WORK = os.path.join(VERIF, "work")
PY = "/venv/bin/python"


def workdir(name):
    d = os.path.join(WORK, name)
    os.makedirs(d, exist_ok=True)
    return d


# ---------------------------------------------------------------------------------------
# Tagged-JSON codec for Python values crossing process boundaries (drivers -> check)
# ---------------------------------------------------------------------------------------
def enc(v):
    if v is None:
        return None
    if isinstance(v, bool):
        return {"B": v}
    if isinstance(v, int):
        return {"I": str(v)}
    if isinstance(v, float):
        return {"F": v.hex()}
    if isinstance(v, str):
        return {"S": v}
    if isinstance(v, bytes):
        return {"Y": v.hex()}
    if isinstance(v, _dt.datetime):
        return {"D": [v.year, v.month, v.day, v.hour, v.minute, v.second, v.microsecond]}
    if isinstance(v, tuple):
        return {"T": [enc(x) for x in v]}
    if isinstance(v, (list,)):
        return {"L": [enc(x) for x in v]}
    if isinstance(v, (set, frozenset)):
        return {"L": [enc(x) for x in sorted(v, key=repr)]}
    if isinstance(v, dict):
        return {"M": [[enc(k), enc(x)] for k, x in v.items()]}
    return {"X": repr(v)}


def dec(j):
    if j is None:
        return None
    (tag, v), = j.items()
    if tag == "B":
        return v
    if tag == "I":
        return int(v)
    if tag == "F":
        return float.fromhex(v)
    if tag == "S":
        return v
    if tag == "Y":
        return bytes.fromhex(v)
    if tag == "D":
        return _dt.datetime(*v)
    if tag == "T":
        return tuple(dec(x) for x in v)
    if tag == "L":
        return [dec(x) for x in v]
    if tag == "M":
        return {dec(k): dec(x) for k, x in v}
    if tag == "X":
        return ("<opaque>", v)
    raise ValueError(j)


# ---------------------------------------------------------------------------------------
# Gallina printer
# ---------------------------------------------------------------------------------------
class Interner:
    """Order-preserving interning of names / keys to small numbers (per case)."""

    def __init__(self, items=(), start=1):
        self.start = start
        self.map = {}
        for i, x in enumerate(sorted(set(items), key=sortkey)):
            self.map[x] = start + i

    def __getitem__(self, x):
        return self.map[x]

    def get(self, x, default=None):
        return self.map.get(x, default)


def sortkey(x):
    """Total order on key values: numbers < strings < tuples; natural order inside."""
    if isinstance(x, bool):
        return (0, int(x))
    if isinstance(x, (int, float)):
        return (0, x)
    if isinstance(x, str):
        return (1, x)
    if isinstance(x, bytes):
        return (2, x)
    if isinstance(x, tuple):
        return (3, tuple(sortkey(i) for i in x))
    if x is None:
        return (-1, 0)
    return (9, repr(x))


class FloatIds:
    def __init__(self):
        self.ids = {}

    def __call__(self, f):
        k = f.hex()
        if k not in self.ids:
            self.ids[k] = len(self.ids) + 1
        return self.ids[k]


_floatids = FloatIds()


def gZ(z):
    return f"({z})%Z" if z < 0 else f"{z}%Z"


def gN(n):
    return f"{n}%N"


def gstr(s):
    if isinstance(s, str):
        cps = [ord(c) for c in s]
    else:
        cps = list(s)
    return "[" + ";".join(f"{c}%N" for c in cps) + "]"


def gbool(b):
    return "true" if b else "false"


def gvalue(v):
    """Python value -> Gallina term of type [value] (canonical: dict keys sorted)."""
    if v is None:
        return "VNone"
    if isinstance(v, bool):
        return f"(VBool {gbool(v)})"
    if isinstance(v, int):
        return f"(VInt {gZ(v)})"
    if isinstance(v, float):
        return f"(VFloat {gZ(_floatids(v))})"
    if isinstance(v, str):
        return f"(VStr {gstr(v)})"
    if isinstance(v, bytes):
        return f"(VBytes {gstr(v)})"
    if isinstance(v, _dt.datetime):
        return (f"(VDate (mkdt {v.year}%N {v.month}%N {v.day}%N {v.hour}%N"
                f" {v.minute}%N {v.second}%N))")
    if isinstance(v, (list, tuple)):
        return "(VList [" + ";".join(gvalue(x) for x in v) + "])"
    if isinstance(v, (set, frozenset)):
        return "(VList [" + ";".join(gvalue(x) for x in sorted(v, key=sortkey)) + "])"
    if isinstance(v, dict):
        items = sorted(v.items(), key=lambda kv: kv[0])
        return "(VDict [" + ";".join(f"({gstr(k)},{gvalue(x)})" for k, x in items) + "])"
    raise ValueError(f"value outside the modelled grammar: {v!r}")


def glist(items):
    return "[" + ";".join(items) + "]"


def gopt(x):
    return "None" if x is None else f"(Some {x})"


def gpair(a, b):
    return f"({a},{b})"


def gobj(d, attrs):
    """dict attrname->value  ->  Gallina [obj] (gmap N value); attrs: Interner"""
    items = sorted(((attrs[k], v) for k, v in d.items()))
    return "(mk_obj [" + ";".join(f"({gN(a)},{gvalue(v)})" for a, v in items) + "])"


# ---------------------------------------------------------------------------------------
# coqc runner
# ---------------------------------------------------------------------------------------
COQFLAGS = ["-Q", COQ, "Hermes", "-w", "-notation-overridden,-ambiguous-paths,-deprecated-instance-without-locality,-future-coercion-class-field"]


class CoqError(Exception):
    pass


def run_coqc(path, timeout=900):
    """Compile one generated file; return stdout (the Eval/Print output)."""
    t0 = time.time()
    p = subprocess.run(["coqc"] + COQFLAGS + [path], capture_output=True, text=True,
                       timeout=timeout, cwd=os.path.dirname(path))
    if p.returncode != 0:
        raise CoqError(f"coqc failed on {path}:\n{p.stdout[-2000:]}\n{p.stderr[-4000:]}")
    return p.stdout


def run_coqc_many(paths, jobs=14, timeout=1800):
    """Compile generated files in parallel; returns {path: stdout}."""
    from concurrent.futures import ThreadPoolExecutor
    out = {}
    with ThreadPoolExecutor(max_workers=jobs) as ex:
        for path, res in zip(paths, ex.map(lambda p: run_coqc(p, timeout), paths)):
            out[path] = res
    return out


_triple = re.compile(r"\(\s*(\d+)%?Z?\s*,\s*(\d+)%?Z?\s*,\s*(\d+)%?Z?\s*\)")


def parse_results(stdout):
    """Parse `= [(i, a, b); ...] : list (Z*Z*Z)` printed by Eval vm_compute.
    Strict: anything that does not parse is an error, never an empty result."""
    txt = " ".join(stdout.split())
    m = re.search(r"=\s*\[(.*)\]\s*:\s*list", txt)
    if not m:
        raise CoqError("no list result in coqc output: " + txt[:500])
    body = m.group(1).strip()
    if not body:
        return []
    items = body.split(";")
    out = []
    for it in items:
        mm = _triple.fullmatch(it.strip())
        if not mm:
            raise CoqError("unparsable result item: " + it[:200])
        out.append(tuple(int(x) for x in mm.groups()))
    return out


def parse_zlist(stdout):
    txt = " ".join(stdout.split())
    m = re.search(r"=\s*\[(.*?)\]\s*:\s*list", txt)
    if not m:
        raise CoqError("no list result in: " + txt[:500])
    body = m.group(1).strip()
    if not body:
        return []
    return [int(x.replace("%Z", "").replace("(", "").replace(")", "").strip()) for x in body.split(";")]


def chunks(lst, n):
    for i in range(0, len(lst), n):
        yield lst[i:i + n]


def seed_from_env(default=20260101):
    try:
        return int(os.environ.get("VERIF_SEED", default))
    except ValueError:
        return default


def canon(x):
    """order-insensitive (for dicts and sets) printable form of a Python value"""
    if isinstance(x, dict):
        return "{" + ",".join(sorted(f"{canon(k)}:{canon(v)}" for k, v in x.items())) + "}"
    if isinstance(x, (set, frozenset)):
        return "{" + ",".join(sorted(canon(v) for v in x)) + "}"
    if isinstance(x, (list, tuple)):
        return ("[" if isinstance(x, list) else "(") + ",".join(canon(v) for v in x) + "]"
    return f"{type(x).__name__}:{x!r}"

"""Control socket cases (C20): raw bytes on the real SockServer + handlers of the real
HermesServer / GenericClient, and command scripts interleaved with iterations of the
real HermesServer.mainLoop under a virtual clock."""
import datetime
import json
import os
import random
import socket

from common import gZ, gbool, glist

WORDS = {"pause": 1, "resume": 2, "quit": 3, "update": 4, "initsync": 5, "status": 6, "-j": 7, "-v": 8,
         "--json": 7, "--verbose": 8}


def word_id(w):
    return WORDS.get(w, 20 + (sum(w.encode()) % 50 if isinstance(w, str) else 0))


# ---------------------------------------------------------------------------------------
# A. raw messages
# ---------------------------------------------------------------------------------------
FIXED_MESSAGES = [
    b"", b"\xff\xfe\x00", b"{", b"[1]", b"null", b"123", b'"x"', b"true", b"{}", b'{"argv": "x"}',
    b'{"argv": [1]}', b'{"argv": [["status"]]}', b'{"argv": null}', b'{"argv": []}', b'{"argv": ["status"]}',
    b'{"argv": ["status", "-j"]}', b'{"argv": ["status", "-j", "-v"]}', b'{"argv": ["status", "--bogus"]}',
    b'{"argv": ["pause"]}', b'{"argv": ["resume"]}', b'{"argv": ["update"]}', b'{"argv": ["initsync"]}',
    b'{"argv": ["pause", "now"]}', b'{"argv": ["frobnicate"]}', b'{"argv": ["status"], "extra": 1}',
    b'{"argv": ["-h"]}', b'{"argv": ["status", "-h"]}', b'{"other": 1}', b'[{"argv": ["status"]}]',
    b'{"argv": ["st\xc3\xa9tus"]}', b'{"argv": ["status"]', b"\x00\x01\x02", b'{"argv": ["status"]}garbage',
    b"[" * 2000 + b"]" * 2000, b'{"argv": ["' + b"a" * 300000 + b'"]}', b'{"argv": [' + b'"status",' * 5000 + b'"-j"]}',
    b' \n{"argv": ["status"]}\n ', b'{"argv": ["quit"]}',
]


def classify(msg):
    """independent mini-decoder -> model message term + the word list when handled"""
    try:
        txt = msg.decode()
    except UnicodeDecodeError:
        return "NotUtf8", None
    try:
        j = json.loads(txt)
    except (json.JSONDecodeError, RecursionError):
        return "NotJson", None
    if j is None:
        return "(Json JNull)", None
    if isinstance(j, bool):
        return "(Json JBool)", None
    if isinstance(j, (int, float)):
        return "(Json JNum)", None
    if isinstance(j, str):
        return "(Json JStr)", None
    if isinstance(j, list):
        return "(Json JArr)", None
    if "argv" not in j:
        return "(Json (JObj None))", None
    a = j["argv"]
    if not isinstance(a, list):
        return "(Json (JObj (Some ArgvNotList)))", None
    if any(not isinstance(x, str) for x in a):
        return "(Json (JObj (Some ArgvListNonStr)))", None
    ws = [word_id(x) for x in a]
    return "(Json (JObj (Some (ArgvStrs " + glist(f"{w}%nat" for w in ws) + "))))", a


def gen_messages(rng, n):
    msgs = list(FIXED_MESSAGES)
    base = [m for m in FIXED_MESSAGES if m.startswith(b'{"argv": ["')]
    for _ in range(n):
        m = bytearray(rng.choice(base))
        r = rng.random()
        if r < 0.3 and m:
            m = m[:rng.randrange(len(m))]            # truncation
        elif r < 0.6 and m:
            i = rng.randrange(len(m))
            m[i] = rng.randrange(256)                # byte flip
        elif r < 0.8:
            m = bytearray(os.urandom(rng.randint(1, 40)))
        else:
            cmd = rng.choice(["pause", "resume", "status", "update", "initsync", "status -j", "status -v -j", "quit x", "bogus"])
            m = bytearray(json.dumps({"argv": cmd.split()}).encode())
        msgs.append(bytes(m))
    return msgs


def _exchange(sockpath, data, process, appname="hermes-server"):
    """send raw bytes while a helper thread plays the listener loop (as the daemon thread
    does); return (replied, retcode, alive). alive=False when an exception escaped
    processMessagesInQueue, which would have ended the real listener thread."""
    import logging
    import threading
    import time
    res = {"alive": True}
    stop = threading.Event()

    def serve():
        __hermes__.appname = appname
        __hermes__.logger = logging.getLogger(appname)
        while not stop.is_set():
            try:
                process()
            except BaseException:
                res["alive"] = False
                return
            time.sleep(0.0005)
    t = threading.Thread(target=serve, daemon=True)
    t.start()
    reply = b""
    try:
        with socket.socket(socket.AF_UNIX, socket.SOCK_STREAM) as s:
            s.settimeout(20)   # generous: the checks may run on a loaded machine
            s.connect(sockpath)
            try:
                s.sendall(data)
                s.shutdown(socket.SHUT_WR)
                while True:
                    d = s.recv(65536)
                    if not d:
                        break
                    reply += d
            except (socket.timeout, ConnectionResetError, BrokenPipeError):
                pass
    finally:
        stop.set()
        t.join(5)
    if not reply:
        return False, 0, res["alive"]
    try:
        j = json.loads(reply.decode())
        return True, int(j["retcode"]), res["alive"]
    except Exception:
        return True, -99, res["alive"]


def run_messages(args):
    """worker: (app, seed, n, workdir) -> list of observations"""
    app, seed, n, wd = args
    import hermes_env as H
    rng = random.Random(seed)
    H.rmtree(wd)
    os.makedirs(wd)
    if app == "server":
        import srvcase
        cfg = {"types": [{"name": "Ta", "pkey": ["id"], "fks": {}, "attrs": ["id"], "secret": [], "local": [],
                          "cacheonly": [], "commit": None, "integrity": False, "omc": "use_cached_entry",
                          "mapping": {"id": ("plain", "c_id")}}]}
        conf = H.server_config(wd, srvcase.datamodel_of(cfg), ["src"])
        inst = H.start_server(wd, conf, H.new_world())
        inst.startTime = datetime.datetime.now()
        sock = inst._sock

        def setflags(paused, stopped):
            inst._isPaused = datetime.datetime.now() if paused else None
            inst._isStopped = stopped
            inst._forceUpdate = False
            inst._initSyncRequested = False
    else:
        import clidrv
        conf = clidrv.client_config(wd, {"Users": {"hermesType": "Ta", "attrsmapping": {"uid": "id"}}})
        inst = clidrv.start_client(wd, conf, {"bus": [], "next": 1, "calls": [], "ncall": 0})
        inst._GenericClient__startTime = datetime.datetime.now()
        sock = inst._GenericClient__sock

        def setflags(paused, stopped):
            inst._GenericClient__isPaused = datetime.datetime.now() if paused else None
            inst._GenericClient__isStopped = stopped
    path = conf["hermes"]["cli_socket"]["path"]
    out = []
    for msg in gen_messages(rng, n):
        paused, stopped = rng.random() < 0.4, rng.random() < 0.15
        setflags(paused, stopped)
        appname = "hermes-server" if app == "server" else "hermes-client-usersgroups_null"
        replied, rc, alive = _exchange(path, msg, sock.processMessagesInQueue, appname)
        # liveness: a well-formed status must still be answered
        r2, rc2, alive2 = _exchange(path, b'{"argv": ["status"]}', sock.processMessagesInQueue, appname)
        out.append({"app": app, "msg": msg, "paused": paused, "stopped": stopped, "replied": replied,
                    "rc": rc, "alive": alive and alive2 and r2 and rc2 == 0})
    sock._cleanup()
    H.rmtree(wd)
    return out


def mcase_gallina(ob):
    term, _ = classify(ob["msg"])
    return "(MCase {} (Flags {} {} false false) {} {} {} {})".format(
        "Server" if ob["app"] == "server" else "Client", gbool(ob["stopped"]), gbool(ob["paused"]), term,
        gbool(ob["replied"]), gZ(ob["rc"]), gbool(ob["alive"]))


# ---------------------------------------------------------------------------------------
# B. scheduling scripts on the real server main loop
# ---------------------------------------------------------------------------------------
CMDS = [["pause"], ["resume"], ["update"], ["initsync"], ["status"], ["status", "-j"], ["pause"], ["resume"]]


def gen_script(rng):
    interval = rng.choice([1, 2, 3, 5])
    n = rng.randint(5, 40)
    script = []
    paused = False
    for i in range(n):
        cmds = []
        r = rng.random()
        if r < 0.12:
            cmds.append(["resume"] if paused and rng.random() < 0.8 else ["pause"])
            paused = cmds[-1] == ["pause"] or (paused and cmds[-1] != ["resume"])
        elif r < 0.2:
            cmds.append(rng.choice(CMDS))
        elif r < 0.23:
            cmds += [rng.choice(CMDS), rng.choice(CMDS)]
        script.append(cmds)
    if rng.random() < 0.15:
        script.insert(rng.randrange(len(script)), [["quit"]])
    # a long pause somewhere, to expose bursts
    if rng.random() < 0.5:
        k = rng.randrange(len(script))
        script = script[:k] + [[["pause"]]] + [[] for _ in range(rng.randint(8, 30))] + [[["resume"]]] + script[k:] + [[] for _ in range(6)]
    return {"interval": interval, "script": script}


def run_script(case, wd):
    import hermes_env as H
    import server.hermesserver as hs
    import srvcase
    from lib.utils.socket import SocketMessageToServer
    H.rmtree(wd)
    os.makedirs(wd)
    clock = {"now": datetime.datetime(2030, 1, 1)}

    class DT(datetime.datetime):
        @classmethod
        def now(cls, tz=None):
            return clock["now"]
    cfg = {"types": [{"name": "Ta", "pkey": ["id"], "fks": {}, "attrs": ["id"], "secret": [], "local": [],
                      "cacheonly": [], "commit": None, "integrity": False, "omc": "use_cached_entry",
                      "mapping": {"id": ("plain", "c_id")}}]}
    conf = H.server_config(wd, srvcase.datamodel_of(cfg), ["src"], interval=case["interval"])
    world = H.new_world()
    hs.datetime = DT
    try:
        srv = H.start_server(wd, conf, world)
        obs = []
        state = {"i": 0, "isync": False}
        script = case["script"]

        def deliver(kind):
            i = state["i"]
            rcs = []
            if i < len(script):
                for argv in script[i]:
                    rep = srv._processSocketMessage(SocketMessageToServer(argv=list(argv)))
                    rcs.append(rep.retcode)
            obs.append((kind, state["isync"], rcs))
            state["isync"] = False
            state["i"] = i + 1
            if state["i"] >= len(script):
                srv._isStopped = True

        class T:
            @staticmethod
            def time():
                return 0.0

            @staticmethod
            def sleep(d):
                clock["now"] = clock["now"] + datetime.timedelta(seconds=1)
                deliver("idle")
        hs.time = T
        orig_gen = srv.generateAndSendEvents

        def gen(eventCategory, **kw):
            orig_gen(eventCategory=eventCategory, **kw)
            if eventCategory == "initsync":
                state["isync"] = True
            else:
                deliver("poll")
        srv.generateAndSendEvents = gen
        srv._numberOfLoopToProcess = None
        srv._isStopped = False
        srv.mainLoop()
        exc = srv._cache.exception
    finally:
        hs.datetime = datetime.datetime
        try:
            srv._sock._cleanup()
        except Exception:
            pass
        H.rmtree(wd)
    return {"obs": obs, "exc": exc}


def lcase_gallina(case, res):
    script = glist(glist(glist(f"{word_id(w)}%nat" for w in argv) for argv in cmds) for cmds in case["script"])
    acts = []
    for kind, isync, rcs in res["obs"]:
        a = {("idle", False): "LIdle", ("poll", False): "LPoll", ("poll", True): "LIsyncPoll",
             ("idle", True): "LIsyncIdle"}[(kind, isync)]
        acts.append(f"({a},{glist(gZ(r) for r in rcs)})")
    return f"(LCase Server {gZ(case['interval'])} {script} {glist(acts)})"

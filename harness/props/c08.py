"""C08 - auto-remediation never changes the outcome."""
import copy
import json

import cliprops
import props.c07 as c07


ATTRS = ["a", "b", "c"]


def unit_cases():
    """every consistent pair of 'modified' events over three attributes: per attribute the
    object starts absent or present; each event leaves it, adds/modifies it or removes it"""
    import itertools
    per_attr = []
    for start in (None, 0):
        acts1 = ["-", "add"] if start is None else ["-", "mod", "rem"]
        for a1 in acts1:
            mid = start if a1 == "-" else (None if a1 == "rem" else 1)
            acts2 = ["-", "add"] if mid is None else ["-", "mod", "rem"]
            for a2 in acts2:
                per_attr.append((start, a1, a2))
    out = []
    for combo in itertools.product(per_attr, repeat=len(ATTRS)):
        o, p, l = {"id": 1}, {"added": {}, "modified": {}, "removed": {}}, {"added": {}, "modified": {}, "removed": {}}
        for attr, (start, a1, a2) in zip(ATTRS, combo):
            if start is not None:
                o[attr] = start
            for ev, act, val in ((p, a1, 1), (l, a2, 2)):
                if act == "add":
                    ev["added"][attr] = val
                elif act == "mod":
                    ev["modified"][attr] = val
                elif act == "rem":
                    ev["removed"][attr] = None
        if any(p.values()) and any(l.values()):
            out.append({"o": o, "p": p, "l": l})
    return out


def unit_chains():
    """chains of three 'modified' events over two attributes"""
    import itertools
    per_attr = []
    for start in (None, 0):
        def acts(cur):
            return ["-", "add"] if cur is None else ["-", "mod", "rem"]
        for a1 in acts(start):
            m1 = start if a1 == "-" else (None if a1 == "rem" else 1)
            for a2 in acts(m1):
                m2 = m1 if a2 == "-" else (None if a2 == "rem" else 2)
                for a3 in acts(m2):
                    per_attr.append((start, a1, a2, a3))
    out = []
    for combo in itertools.product(per_attr, repeat=2):
        o = {"id": 1}
        evs = [{"added": {}, "modified": {}, "removed": {}} for _ in range(3)]
        for attr, (start, *acts3) in zip(ATTRS[:2], combo):
            if start is not None:
                o[attr] = start
            for ev, act, val in zip(evs, acts3, (1, 2, 3)):
                if act == "add":
                    ev["added"][attr] = val
                elif act == "mod":
                    ev["modified"][attr] = val
                elif act == "rem":
                    ev["removed"][attr] = None
        if all(any(e.values()) for e in evs):
            out.append({"o": o, "evs": evs, "combo": [list(x) for x in combo]})
    return out


def run_chains(args):
    cases, policy = args
    import copy
    import os
    import hermes_env as H
    from clients.errorqueue import ErrorQueue
    from clients.datamodel import Datamodel
    from lib.datamodel.event import Event
    from lib.datamodel.dataschema import Dataschema
    from lib.datamodel.serialization import LocalCache
    H.setup_logger("hermes-server")
    LocalCache._settingsbyappname[__hermes__.appname] = {"_backupCount": 0, "_cachedir": "/verif/work/C08/uq",
                                                          "_compressCache": False, "_extension": ".json", "_umask": 0o022}
    os.makedirs("/verif/work/C08/uq", exist_ok=True)
    schema = Dataschema(from_raw_dict={"LT": {"HERMES_ATTRIBUTES": {"id", "a", "b", "c"}, "SECRETS_ATTRIBUTES": set(),
                                              "CACHEONLY_ATTRIBUTES": set(), "LOCAL_ATTRIBUTES": set(),
                                              "PRIMARYKEY_ATTRIBUTE": "id", "FOREIGN_KEYS": {}, "TOSTRING": None}})
    out = []
    for c in cases:
        q = ErrorQueue(typesMapping={"T": "LT"}, autoremediate=policy)
        for attrs in c["evs"]:
            ev = Event(evcategory="base", eventtype="modified", objattrs=copy.deepcopy(attrs))
            ev.objtype, ev.objpkey = "LT", 1
            q.append(None, ev, "err")
        # apply what is queued, in order, and compare with applying the three events in order
        def apply_all(evs):
            obj = schema.objectTypes["LT"](from_json_dict=copy.deepcopy(c["o"]))
            for a in evs:
                obj = Datamodel.getUpdatedObject(obj, a)
            return dict(obj.toNative())
        queued = [e[1].objattrs for e in q._queue.values()]
        out.append((apply_all(queued) == apply_all(c["evs"]), len(queued)))
    return out


def chain_is_remove_readd_remove(c):
    return any(x[0] is not None and x[1:] == ["rem", "add", "rem"] or x[1:] == ["rem", "add", "rem"] for x in c["combo"])


def run_unit(args):
    cases, policy = args
    import hermes_env as H
    from clients.errorqueue import ErrorQueue
    from lib.datamodel.event import Event
    H.setup_logger("hermes-server")
    from lib.datamodel.serialization import LocalCache
    LocalCache._settingsbyappname[__hermes__.appname] = {"_backupCount": 0, "_cachedir": "/verif/work/C08/uq",
                                                          "_compressCache": False, "_extension": ".json", "_umask": 0o022}
    import os
    os.makedirs("/verif/work/C08/uq", exist_ok=True)
    out = []
    for c in cases:
        q = ErrorQueue(typesMapping={"T": "LT"}, autoremediate=policy)
        for attrs in (c["p"], c["l"]):
            import copy
            ev = Event(evcategory="base", eventtype="modified", objattrs=copy.deepcopy(attrs))
            ev.objtype, ev.objpkey = "LT", 1
            q.append(None, ev, "err")
        entries = list(q._queue.values())
        if len(entries) == 1:
            out.append(("merged", entries[0][1].objattrs))
        else:
            out.append(("notmerged", None))
    return out


def unit_gallina(c, ob):
    from common import Interner, gobj
    attrs = Interner(["id"] + ATTRS)
    md = lambda d: f"(MDiff {gobj(d['added'], attrs)} {gobj(d['modified'], attrs)} {gobj(d['removed'], attrs)})"
    merged = f"(Some {md(ob[1])})" if ob[0] == "merged" else "None"
    return f"(MUCase {gobj(c['o'], attrs)} {md(c['p'])} {md(c['l'])} {merged})"


def directed_readds():
    """an object X = S0 is removed and comes back as S2 while its 'removed' is still in the error
    queue (the removal fails twice), for every S0, S2 over two attributes (absent / 1 / 2), with
    and without an older failed 'modified' of X queued first: under 'maximum' the pair is merged
    into the 'modified' that carries the differences, or cancelled when there is none"""
    import itertools
    import random
    import clicase
    import srvcase
    rng = random.Random(8)
    base = None
    while True:
        base = clicase.gen_case(rng, {"shape": "flat", "retention": 0, "ntypes": 1, "p_unmapped_type": 0.0})
        t = base["cfg"]["types"][0]
        nk = [a for a in t["attrs"] if a not in t["pkey"]]
        am = base["cdm"]["L" + t["name"]]["attrsmapping"]
        if len(t["pkey"]) == 1 and len(nk) >= 2 and all("l_" + a in am for a in nk[:2]) and not t.get("secret") \
                and not t.get("local") and not t.get("cacheonly"):
            break
    a, b = nk[:2]
    pk = t["pkey"][0]
    states = [{a: x, b: y} for x in (None, 1, 2) for y in (None, 1, 2)]

    def tables(x):
        rows = {2: {pk: 2, a: 1, b: 1}}
        if x is not None:
            rows[1] = dict({pk: 1}, **x)
        return srvcase.to_remote_tables(base["cfg"], {t["name"]: rows})
    out = []
    # (with an older queued 'modified' that took the attribute from 3 to its value in S0, the object may
    #  also come back with the attribute at 3 again: the re-added object then equals the stale cached one)
    back = [{a: 3, b: y} for y in (None, 1, 2)]
    for s0, s2 in list(itertools.product(states, states)) + list(itertools.product(states, back)):
        for older in (False, True, "partial"):
            if s2[a] == 3 and not older:
                continue
            c = copy.deepcopy(base)
            polls = [tables(s0)]
            n = 4
            rule = {f"on_L{t['name']}_removed|1": 2}
            if older:
                sm = dict(s0, **{a: 3})
                polls = [tables(sm), tables(s0)] if sm != s0 else [tables(s0)]
                # (a plain failure, or a failure after a first step: the entry is then never merged and is
                #  the one older event the removed+added merge has to replay)
                rule[f"on_L{t['name']}_modified|1"] = ["partial", 3] if older == "partial" else 3
            polls += [tables(None), tables(s2)]
            c["polls"] = polls
            c["fkpolicy"], c["retention"] = "disabled", 0
            nev = 2 + (1 if older else 0) + 2
            its = [{"limit": 2 + k, "now": 10 * k, "restart": False, "faults": True} for k in range(2, nev + 1)]
            its += [{"limit": 2 + nev, "now": 100 + 10 * j, "restart": False, "faults": False} for j in range(4)]
            c["sessions"] = {"iters": its, "outcomes": ["ok"] * 60, "fail_rule": rule}
            c["sseed"], c["session_opts"] = 0, {}
            c["directed"] = True
            out.append(c)
    return out


def directed_partial_local():
    """trashbin on: X is trashed, comes back changed (recycled; the differences are queued as a
    purely local 'modified' whose handler fails after a first step, twice), and is modified again on
    the bus one iteration later: the partially processed local entry must stay as it is"""
    import random
    import clicase
    import srvcase
    rng = random.Random(8)
    while True:
        base = clicase.gen_case(rng, {"shape": "flat", "retention": 1, "ntypes": 1, "p_unmapped_type": 0.0})
        t = base["cfg"]["types"][0]
        nk = [a for a in t["attrs"] if a not in t["pkey"]]
        am = base["cdm"]["L" + t["name"]]["attrsmapping"]
        if len(t["pkey"]) == 1 and len(nk) >= 2 and all("l_" + a in am for a in nk[:2]):
            break
    a, b = nk[:2]
    pk = t["pkey"][0]

    def tables(x):
        rows = {2: {pk: 2, a: 1, b: 1}}
        if x is not None:
            rows[1] = dict({pk: 1}, **x)
        return srvcase.to_remote_tables(base["cfg"], {t["name"]: rows})
    out = []
    for s1, s2 in (({a: 2, b: 1}, {a: 3, b: 1}), ({a: 2, b: 1}, {a: 2, b: 2}), ({a: None, b: 2}, {a: 1, b: 2})):
        c = copy.deepcopy(base)
        c["polls"] = [tables({a: 1, b: 1}), tables(None), tables(s1), tables(s2)]
        c["fkpolicy"], c["retention"] = "disabled", 1
        its = [{"limit": l, "now": 10 * (k + 2), "restart": False, "faults": True} for k, l in enumerate([4, 5, 6, 6, 7, 7])]
        its += [{"limit": 7, "now": 200 + 10 * j, "restart": False, "faults": False} for j in range(4)]
        c["sessions"] = {"iters": its, "outcomes": ["ok"] * 60, "fail_rule": {f"on_L{t['name']}_modified|1": ["partial", 3]}}
        c["sseed"], c["session_opts"] = 0, {}
        c["directed"] = True
        out.append(c)
    return out


def partial_entry_rewritten(case, res):
    """an entry that is partially processed at the end of one loop iteration and was not resolved
    by a successful retry during the next one must still carry the same event at the end of that
    iteration: it is never merged with another event"""
    if case["remediation"] == "disabled":
        return None
    import props.c07 as c07
    its = res["iters"]
    for a, b in zip(its, its[1:]):
        later = {q["num"]: q for q in b["queue"]}
        resolved = {("_".join(c["h"].split("_")[1:-1]), c07.kstr(c["key"])) for c in b["calls"] if c["retry"] and c["out"] == "ok"}
        for q in a["queue"]:
            me = (q["local"][1], c07.kstr(q["local"][2]))
            if q["local"][5] and q["num"] in later and me not in resolved:
                q2 = later[q["num"]]
                if (q2["local"][1], c07.kstr(q2["local"][2])) != me:
                    continue        # the number was re-used for another object
                if (q2["local"][0], cliprops.common.canon(q2["local"][3])) != (q["local"][0], cliprops.common.canon(q["local"][3])) \
                        or (q["remote"] is None) != (q2["remote"] is None):
                    return f"entry #{q['num']} ({q['local'][0]} {q['local'][1]} {q['local'][2]}, partially processed) was rewritten: {q['local'][3]} -> {q2['local'][3]}"
    return None


def run(ctx):
    base = cliprops.gen_cases(ctx, ctx.n(80, 2500), {"retention": 0, "remediation": "disabled"},
                              {"p_fail": 0.45, "p_partial": 0.2})
    # the same with the trashbin on, and the directed remove / re-add histories
    base = base + cliprops.gen_cases(ctx, ctx.n(30, 1200), {"retention": 1, "remediation": "disabled"},
                                     {"p_fail": 0.45, "p_partial": 0.2})
    base = directed_readds() + directed_partial_local() + base
    cases = []
    for c in base:
        for pol in ("disabled", "conservative", "maximum"):
            c2 = copy.deepcopy(c)
            c2["remediation"] = pol
            cases.append(c2)
    res, failing = cliprops.run_and_eval(ctx, cases, "c08_healed_case", "c08")
    violations, corr, unmodelled = [], [], []
    for i, (c_ok, o_ok) in sorted(failing.items()):
        rep = {"replay_kind": "client_case", "case": cliprops.common.enc(cases[i])}
        if not o_ok:
            sig = "F5-readd-while-removal-queued" if c07.f5(cases[i], res[i][0]) else None
            if sig is None and cases[i]["retention"] and c07.recycled_from_queue(res[i][0]):
                sig = "F30-recycle-retried-from-error-queue"
            # F19 under 'maximum': the merge of a queued 'removed' with the re-'added' reads the
            # expected-state cache, which a successful retry of an older entry has just regressed
            if sig is None and cases[i]["remediation"] == "maximum" and c07.lifecycle_has_readd(cases[i], res[i][0]) \
                    and c07.older_modified_retried_while_younger_queued(cases[i], res[i][0]):
                sig = "F19-complete-cache-regresses-on-retry"
            # the merge met a pair of events it declares impossible and raised (histories in which events
            # of an earlier life of a re-added object are still queued)
            if sig is None and cases[i]["remediation"] != "disabled" and c07.lifecycle_has_readd(cases[i], res[i][0]) \
                    and any("BUG : trying to merge" in (ob["exc"] or "") for ob in res[i][0]["iters"]):
                sig = "F32-merge-of-a-pair-declared-impossible"
            violations.append({"sig": sig, "what": f"under policy {cases[i]['remediation']} the drained client differs from the failure-free state (case {i})", **rep})
        elif not c_ok:
            # outside the model: auto-remediation of a purely local entry (the 'modified' queued behind a
            # 'recycled', remote event = None) with the entries around it - the drained-state oracle above
            # still decides these histories, the model does not claim to predict them
            if cases[i]["retention"] and cases[i]["remediation"] != "disabled" \
                    and any(q["remote"] is None for ob in res[i][0]["iters"] for q in ob["queue"]):
                unmodelled.append(i)
                continue
            corr.append({"what": f"corr_client (remediation {cases[i]['remediation']}): client model != GenericClient on case {i}", **rep})
    # an event already partially applied to the target is never merged (observed on the queue itself)
    for i, c in enumerate(cases):
        why = partial_entry_rewritten(c, res[i][0])
        if why:
            violations.append({"sig": None, "replay_kind": "client_case", "case": cliprops.common.enc(c),
                               "what": f"policy {c['remediation']}: {why} (case {i})"})
    # ... which rests on the progress marker staying with the parked event: the marker oracle of
    # C07 (observation only) evaluated on every run under every policy
    mk = cliprops.sub_oracles(ctx, res, {i: (True, False) for i in range(len(cases))}, ["c07_marker_case"], "c08mk", chunk=16)
    for i, c in enumerate(cases):
        if not mk[i].get("c07_marker_case", True):
            violations.append({"sig": None, "replay_kind": "client_case", "case": cliprops.common.enc(c),
                               "what": f"policy {c['remediation']}: a queue entry does not carry the progress marker its last raising "
                                       f"handler invocation left (a partially applied event could then be merged) (case {i})"})
    # same history, same final data under the three policies
    for j in range(0, len(cases), 3):
        finals, lives = [], []
        for i in (j, j + 1, j + 2):
            last = res[i][0]["iters"][-1]
            # (the internal timestamp may linger on a live object that went through the trashbin
            #  machinery: not a datum, stripped as in the Gallina rendering)
            import clicase
            ld = {t: ({k: {a: v for a, v in o.items() if a != clicase.TS} for k, o in objs.items()}
                      if not t.startswith("trashbin_") else objs) for t, objs in last["localdata"].items()}
            finals.append(cliprops.common.canon(ld))   # the property speaks of target and local data
            lives.append(cliprops.common.canon({t: o for t, o in ld.items() if not t.startswith("trashbin_")}))
        drained = all(not res[i][0]["iters"][-1]["queue"] for i in (j, j + 1, j + 2))
        # (a history whose run under one of the policies already failed the drained-state oracle is
        #  reported there, with its signature)
        reported = any(x in failing and not failing[x][1] for x in (j, j + 1, j + 2))
        if drained and len(set(finals)) > 1 and not reported:
            # only the trashbin differs: a merge cancelled an added+removed pair that the other policies
            # applied (object created, then trashed until its retention is over), or a 'modified' merged
            # into / dropped before the 'removed' leaves the trashed object with other attribute values
            f33 = len(set(lives)) == 1 and cases[j]["retention"]
            violations.append({"sig": "F33-cancelled-pair-never-trashed" if f33 else None, "replay_kind": "client_case",
                               "case": cliprops.common.enc(cases[j]),
                               "what": f"final local data differ between remediation policies on history {j // 3}"})
    # unit level: the real ErrorQueue merges every consistent pair of 'modified' events
    from concurrent.futures import ProcessPoolExecutor
    import srvprops
    ucases = unit_cases()
    for pol in ("conservative", "maximum"):
        with ProcessPoolExecutor(max_workers=1, initializer=srvprops._init_worker) as ex:
            uobs, = list(ex.map(run_unit, [(ucases, pol)]))
        ugal = [unit_gallina(c, o) for c, o in zip(ucases, uobs)]
        ufail = srvprops.coq_eval(ctx, "c08u" + pol, ugal, f="corr_mucase", g="c08_mucase", require="Corr.RunClient",
                                  typ="mucase", checker="check_mucases", shard=1000)
        for i, (c_ok, o_ok) in sorted(ufail.items()):
            rep = {"replay_kind": "merge_pair", "pair": ucases[i], "policy": pol, "observed": str(uobs[i])}
            if not o_ok:
                violations.append({"sig": None, "what": f"merging {ucases[i]['p']} then {ucases[i]['l']} on {ucases[i]['o']} gives {uobs[i]}: effect differs from applying both in order", **rep})
            elif not c_ok:
                corr.append({"what": f"corr_merge_modified: model merge != ErrorQueue._mergeEvents on {ucases[i]}", **rep})
    chains = unit_chains()
    for pol in ("conservative", "maximum"):
        with ProcessPoolExecutor(max_workers=1, initializer=srvprops._init_worker) as ex:
            cobs, = list(ex.map(run_chains, [(chains, pol)]))
        for c, (same, nq) in zip(chains, cobs):
            if not same:
                violations.append({"sig": "F20-attribute-removed-readded-removed-while-queued" if chain_is_remove_readd_remove(c) else None,
                                   "replay_kind": "merge_chain", "chain": c, "policy": pol,
                                   "what": f"chain {c['evs']} on {c['o']} merged under {pol}: applying the queue differs from applying the three events in order"})
    hist, distinct = cliprops.stats(cases, res)
    merged = sum(1 for j in range(0, len(cases), 3)
                 if max(len(it["queue"]) for it in res[j][0]["iters"]) > max(len(it["queue"]) for it in res[j + 2][0]["iters"]))
    return {"evaluations": len(cases) + 2 * len(ucases) + 2 * len(chains), "distinct_nontrivial": distinct + len(ucases) + len(chains), "exhaustive": True,
            "rule": "unit level: every consistent chain of three 'modified' events over two attributes and every consistent pair of 'modified' events over a 3-attribute universe (each attribute initially absent/present, left, "
                    "added/modified or removed by each event) merged by the real ErrorQueue under conservative and maximum; whole client: each random (bus, failure schedule) is run under the three policies disabled/conservative/maximum with the same handler-outcome "
                    "draws per invocation index; final data compared between the policies and with the failure-free state; non-trivial = at least one handler call",
            "samples": [{"policy": cases[2]["remediation"], "max_queue_disabled": max(len(it["queue"]) for it in res[0][0]["iters"]),
                         "max_queue_maximum": max(len(it["queue"]) for it in res[2][0]["iters"])}],
            "violations": violations, "corr_failures": corr,
            "coverage_extra": {"histogram": hist, "histories": len(base), "histories_where_merging_shortened_the_queue": merged,
                               "trashbin_histories_with_remediated_purely_local_entries_outside_the_model": len(unmodelled)}}


def replay(obj):
    return cliprops.replay_case(obj, "c08_healed_case")

"""C17 - datamodel evolution is equivalent to a fresh deployment."""
import os
import random
import traceback
from concurrent.futures import ProcessPoolExecutor

import common
import evocase
import srvprops

WHAT = {"schema-not-announced": "the server datamodel changed but no dataschema event was sent",
        "event-of-dropped-type-after-schema": "an event of a removed type follows the new schema",
        "event-of-new-type-before-schema": "an event of a new type precedes the schema that introduces it",
        "event-with-new-attribute-before-schema": "an event carries a new attribute before the schema that introduces it",
        "no-removed-event-for-object-of-dropped-type": "a published object of a removed type got no 'removed' event",
        "stream-prefix-not-closed": "a prefix of the bus is not referentially closed (parent withdrawn before its child, or child announced before its parent)",
        "local-data-differ-from-fresh-deployment": "after the edit and draining, the client's local data differ from a fresh deployment of the final configurations",
        "target-differs-from-fresh-deployment": "after the edit and draining, the target differs from a fresh deployment of the final configurations",
        "queue-not-drained": "the error queue does not drain after the edit", "client-raises": "the client raises at every iteration after the edit"}


def _worker(args):
    case, wd = args
    try:
        srvprops._init_worker()
        res = evocase.run_case(case, wd)
        mappedB = {d["hermesType"] for d in case["cdmB"].values()}
        pending_unmapped = any(q["remote"] is not None and q["remote"][1] not in mappedB for q in res["snapA"]["queue"])
        # a handler failed while the client was purging a local type that left its datamodel
        failed_purge = any(c.get("out") not in (None, "ok") and c["h"].endswith("_removed")
                           and "_".join(c["h"].split("_")[1:-1]) not in case["cdmB"] for c in res["evolved_calls"])
        # a primary key moves while the queue holds the (already simulated) removal of an object of that type
        moved = [e[1] for e in case["edits"] if e[0] in ("move_pkey", "move_pkey_composite")]
        removal_at_move = bool(moved) and len(res["snaps"]) > 2 and any(
            q["remote"] is not None and q["remote"][0] == "removed" and q["remote"][1] in moved for q in res["snaps"][-2]["queue"])
        # ... or while the trashbin still holds objects of that type after a phase with handler failures
        # (a removal retried out of turn leaves the local and the expected-state remote trashbins out of step)
        if bool(moved) and len(res["snaps"]) > 2 and case["p_fail"] > 0 and case.get("retention"):
            lname = {d["hermesType"]: l for l, d in case["cdmB"].items()}
            removal_at_move = removal_at_move or any(res["snaps"][-2]["localdata"].get("trashbin_" + lname.get(t, "?")) for t in moved)
        # the client mapping of a type gains or loses an attribute while the error queue of the previous life
        # holds an event of that type (converted to a local event under the OLD mapping)
        remapped = {e[1] for e in case["edits"] if e[0] in ("map_attr", "unmap_attr")}
        stale_local = bool(remapped) and any(q["remote"] is not None and q["remote"][1] in remapped
                                             for sn in res["snaps"][:-1] for q in sn["queue"])
        return (evocase.analyse(case, res), evocase.step_gallina(case, res),
                (evocase.lifecycle_has_readd(res), pending_unmapped, failed_purge, removal_at_move, stale_local), None,
                evocase.remap_gallina(case, res))
    except Exception:
        return None, None, None, traceback.format_exc(), []


def run(ctx):
    n = ctx.n(150, 3000)
    rng = random.Random(ctx.seed)
    cases = [evocase.gen_case(rng, {"pkey_move": i % 5 < 2, "trashbin": True}) for i in range(n)]
    # the same family with handlers still failing while the last life merges the new dataschema
    # (a separate stream: the histories above stay what they were)
    rng3 = random.Random(ctx.seed ^ 0x1a7e)
    cases += [evocase.gen_case(rng3, {"pkey_move": False, "trashbin": True, "late_faults": 1.0}) for i in range(n // 5)]
    # directed: the server starts declaring a type the restarted client already maps, and handlers
    # of that life still fail while (and right after) the running client merges the new dataschema
    rng2, directed = random.Random(ctx.seed ^ 0x17e), []
    while len(directed) < ctx.n(24, 300):
        c = evocase.gen_case(rng2, {"pkey_move": False, "trashbin": True, "late_faults": 1.0})
        added = [e[1] for e in c["edits"] if e[0] == "add_type"]
        if added and c.get("late_faults") and all("L" + t in c["cdmB"] for t in added):
            c["p_fail"] = 0.5
            directed.append(c)
    cases = cases + directed
    with ProcessPoolExecutor(max_workers=14) as ex:
        res = list(ex.map(_worker, [(c, os.path.join(ctx.work, f"e{i}")) for i, c in enumerate(cases)], chunksize=2))
    errs = [(i, r[3]) for i, r in enumerate(res) if r[3]]
    if errs:
        raise RuntimeError(f"driver error on case {errs[0][0]}:\n{errs[0][1]}")
    failing = srvprops.coq_eval(ctx, "c17", [r[1] for r in res], f="corr_ecase", g="c17_ecase", require="Corr.RunEvo",
                                typ="ecase", checker="check_ecases", shard=40)
    violations, corr = [], []
    hist = {"edits": {}, "cases_with_failures": 0, "cases_without_edit": 0, "three_phase_cases": 0}
    # the datamodel update of the restarted client against the remap model (where it applies:
    # queue empty, trashbin off, every local type kept)
    rgal, rmeta = [], []
    for i, r in enumerate(res):
        for j, g in enumerate(r[4]):
            rgal.append(g)
            rmeta.append((i, j))
    rfail = srvprops.coq_eval(ctx, "c17r", rgal, f="corr_rcase", g="c17_rcase", require="Corr.RunEvo",
                              typ="rcase", checker="check_rcases", shard=40) if rgal else {}
    hist["client_datamodel_updates_checked_against_the_remap_model"] = len(rgal)
    for x, (c_ok, o_ok) in sorted(rfail.items()):
        i, j = rmeta[x]
        rep = {"replay_kind": "evolution_case", "case": common.enc(cases[i])}
        if not o_ok:
            violations.append({"sig": None, "what": f"after the client datamodel update (restart #{j + 1}) the local data are not the projection of the remote "
                                                    f"cache under the new mapping, or an object got two calls / a failing call (case {i}, edits {cases[i]['edits']})", **rep})
        elif not c_ok:
            corr.append({"what": f"corr_client_remap: remap model != __processDatamodelUpdate on case {i} (edits {cases[i]['edits']})", **rep})
    for i, (c, (viol, g, (readd, pending_unmapped, failed_purge, removal_at_move, stale_local), _, _rg)) in enumerate(zip(cases, res)):
        for e in c["edits"]:
            hist["edits"][e[0]] = hist["edits"].get(e[0], 0) + 1
        hist["cases_with_failures"] += c["p_fail"] > 0
        hist["cases_without_edit"] += not c["edits"]
        hist["three_phase_cases"] += bool(c.get("phase3"))
        rep = {"replay_kind": "evolution_case", "case": common.enc(c)}
        c_ok, o_ok = failing.get(i, (True, True))
        kinds = sorted(set(v[0] for v in viol))
        if not o_ok:
            kinds.append("schema-step-oracle")
        if kinds:
            # F5 (re-add while events of the earlier life are queued) needs handler failures and a re-add on the bus
            f5 = c["p_fail"] > 0 and readd and set(kinds) <= {"local-data-differ-from-fresh-deployment", "target-differs-from-fresh-deployment",
                                                            "queue-not-drained", "client-raises"}
            f27 = pending_unmapped and set(kinds) <= {"local-data-differ-from-fresh-deployment", "target-differs-from-fresh-deployment",
                                                        "queue-not-drained", "client-raises"}
            f28 = failed_purge and set(kinds) <= {"local-data-differ-from-fresh-deployment", "target-differs-from-fresh-deployment",
                                                    "queue-not-drained", "client-raises"}
            f29 = removal_at_move and set(kinds) <= {"local-data-differ-from-fresh-deployment", "target-differs-from-fresh-deployment",
                                                       "queue-not-drained", "client-raises"}
            f34 = stale_local and c["p_fail"] > 0 and set(kinds) <= {"local-data-differ-from-fresh-deployment", "target-differs-from-fresh-deployment"}
            violations.append({"sig": "F29-key-move-with-queued-removal" if f29 else "F28-handler-failure-while-purging-a-removed-type" if f28 else
                               "F27-type-unmapped-with-pending-queue-entries" if f27 else "F5-readd-while-removal-queued" if f5 else
                               "F34-queued-event-converted-under-the-old-mapping" if f34 else None,
                               "what": "; ".join(WHAT.get(k, k) for k in kinds) + f" (case {i}, edits {c['edits']})", **rep})
        elif not c_ok:
            corr.append({"what": f"corr_schema_step: events sent ahead of the new schema != schema_step on case {i} (edits {c['edits']})", **rep})
    return {"evaluations": len(cases), "distinct_nontrivial": len(set(str(c["edits"]) + str(c["cseed"]) for c in cases)),
            "rule": "real server + client run 1-3 polls under configuration A (client handlers failing with p in {0, 0.3}), are stopped, "
                    "restarted under configuration B = A + 0-2 server edits (type added / removed, attribute added / removed) and 0-2 "
                    "client edits (attribute or type mapped / unmapped), run 1-2 more polls and drain; reference = fresh server and "
                    "client running B on the final source state; oracle: schema announced before dependent events and after the "
                    "removals of dropped types, one 'removed' per published object of a dropped type, local data and idempotent "
                    "target equal to the fresh deployment; the events sent ahead of the schema are compared with schema_step",
            "samples": [{"edits": cases[0]["edits"]}],
            "violations": violations, "corr_failures": corr, "coverage_extra": {"histogram": hist}}


def replay(obj):
    case = common.dec(obj["case"])
    viol, g, flags, e, _rg = _worker((case, common.workdir("replay") + "/e"))
    if e:
        print(e)
        return 2
    for v in viol:
        print("violation:", v[0], v[1][:300])
    print(f"replay: {len(viol)} violation(s)")
    return 1 if viol else 0

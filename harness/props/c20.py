"""C20 - the control socket is robust and truthful."""
import json
import os
import random
import traceback
from concurrent.futures import ProcessPoolExecutor

import common
import sockcase
import srvprops


def _script_worker(args):
    case, wd = args
    try:
        return sockcase.run_script(case, wd), None
    except Exception:
        return None, traceback.format_exc()


def _status_truthful(wd):
    """status reports current errors: a duplicated key must show up as an inconsistency"""
    import hermes_env as H
    import srvcase
    from lib.utils.socket import SocketMessageToServer
    cfg = {"types": [{"name": "Ta", "pkey": ["id"], "fks": {}, "attrs": ["id"], "secret": [], "local": [],
                      "cacheonly": [], "commit": None, "integrity": False, "omc": "use_cached_entry",
                      "mapping": {"id": ("plain", "c_id")}}]}
    world = H.new_world()
    srv = H.start_server(wd, H.server_config(wd, srvcase.datamodel_of(cfg), ["src"]), world)
    world["tables"] = {"src": {"q_Ta": [{"c_id": 1}, {"c_id": 2}, {"c_id": 2}]}}
    H.run_server(srv, 1)
    rep = srv._processSocketMessage(SocketMessageToServer(argv=["status", "-j"]))
    st = json.loads(rep.retmsg)
    ok1 = rep.retcode == 0 and st.get("Ta", {}).get("error", {}).get("inconsistencies") == [2]
    world["tables"] = {"src": {"q_Ta": [{"c_id": 1}, {"c_id": 2}]}}
    H.run_server(srv, 1)
    rep = srv._processSocketMessage(SocketMessageToServer(argv=["status", "-j"]))
    st = json.loads(rep.retmsg)
    ok2 = rep.retcode == 0 and "Ta" not in st
    srv._sock._cleanup()
    H.rmtree(wd)
    return ok1, ok2


def _status_worker(wd):
    try:
        return _status_truthful(wd), None
    except Exception:
        return None, traceback.format_exc()


def run(ctx):
    rng = random.Random(ctx.seed)
    violations, corr = [], []
    # ---- A. raw messages ---------------------------------------------------------------
    nmsg = ctx.n(150, 2500)
    jobs = [(app, rng.randrange(1 << 30), nmsg, os.path.join(ctx.work, f"m_{app}_{i}"))
            for i, app in enumerate(["server", "client"] * ctx.n(1, 3))]
    with ProcessPoolExecutor(max_workers=8, initializer=srvprops._init_worker) as ex:
        mobs = [o for part in ex.map(sockcase.run_messages, jobs) for o in part]
    mgal = [sockcase.mcase_gallina(o) for o in mobs]
    failing = srvprops.coq_eval(ctx, "c20m", mgal, f="corr_mcase", g="c20_mcase",
                                require="Corr.RunSocket", typ="mcase", checker="check_mcases", shard=500)
    for i, (c_ok, o_ok) in sorted(failing.items()):
        o = mobs[i]
        rep = {"replay_kind": "socket_message", "app": o["app"], "msg_hex": o["msg"][:2000].hex(),
               "paused": o["paused"], "stopped": o["stopped"], "observed": {k: o[k] for k in ("replied", "rc", "alive")}}
        if not o_ok:
            violations.append({"sig": None, "what": f"{o['app']}: after message {o['msg'][:60]!r} the listener no longer answers 'status'", **rep})
        elif not c_ok:
            corr.append({"what": f"corr_socket_message: {o['app']} replied={o['replied']} rc={o['rc']} to {o['msg'][:60]!r} (flags paused={o['paused']} stopped={o['stopped']})", **rep})
    # ---- B. scheduling scripts ---------------------------------------------------------
    nscr = ctx.n(250, 4000)
    scripts = [sockcase.gen_script(rng) for _ in range(nscr)]
    args = [(s, os.path.join(ctx.work, f"s_{i}")) for i, s in enumerate(scripts)]
    with ProcessPoolExecutor(max_workers=14, initializer=srvprops._init_worker) as ex:
        sres = list(ex.map(_script_worker, args, chunksize=4))
    for i, (r, e) in enumerate(sres):
        if e:
            raise RuntimeError(f"script driver error on {scripts[i]}:\n{e}")
    lgal = [sockcase.lcase_gallina(s, r) for s, (r, _) in zip(scripts, sres)]
    lfail = srvprops.coq_eval(ctx, "c20l", lgal, f="corr_lcase", g="c20_lcase",
                              require="Corr.RunSocket", typ="lcase", checker="check_lcases", shard=200)
    for i, (c_ok, o_ok) in sorted(lfail.items()):
        rep = {"replay_kind": "socket_script", "case": scripts[i], "observed": sres[i][0]}
        if not o_ok:
            violations.append({"sig": None, "what": f"server polled while paused, or burst of more than two polls after resume (interval {scripts[i]['interval']})", **rep})
        elif not c_ok:
            corr.append({"what": f"corr_loop_scheduling: model loop != HermesServer.mainLoop on script {i}", **rep})
    # ---- C. status is truthful -----------------------------------------------------------
    with ProcessPoolExecutor(max_workers=1, initializer=srvprops._init_worker) as ex:
        (st, e), = list(ex.map(_status_worker, [os.path.join(ctx.work, "status")]))
    if e:
        raise RuntimeError(e)
    if not all(st):
        violations.append({"sig": None, "replay_kind": "status", "what": f"status does not report the current errors (with error: {st[0]}, after it was solved: {st[1]})"})
    kinds = {}
    for o in mobs:
        k = sockcase.classify(o["msg"])[0].split(" ")[0].strip("(")
        kinds[k] = kinds.get(k, 0) + 1
    seen = set(o["msg"] for o in mobs) | set(json.dumps(s) for s in scripts)
    return {"evaluations": len(mobs) + len(scripts) + 1, "distinct_nontrivial": len(seen),
            "rule": "A: fixed malformed/huge/deep/non-UTF-8 messages + random truncations, byte flips, random bytes and command lines, sent over a real "
                    "Unix socket to the real SockServer with the server's and the client's handlers in random pause/stop states, each followed by a "
                    "'status' liveness probe; B: random command scripts (with long pauses) interleaved with iterations of the real HermesServer.mainLoop "
                    "under a virtual clock, intervals 1/2/3/5; C: status content with and without a data error; distinct by message bytes / script",
            "samples": [{"msg": repr(mobs[3]["msg"][:80]), "observed": {k: mobs[3][k] for k in ("replied", "rc", "alive")}},
                        {"interval": scripts[0]["interval"], "script": scripts[0]["script"][:10], "observed": sres[0][0]["obs"][:10]}],
            "violations": violations, "corr_failures": corr,
            "coverage_extra": {"message_classes": kinds, "scripts": len(scripts),
                               "polls_observed": sum(1 for r, _ in sres for k, _, _ in r["obs"] if k == "poll")}}


def replay(obj):
    srvprops._init_worker()
    if obj.get("replay_kind") == "socket_script":
        r = sockcase.run_script(obj["case"], common.workdir("replay") + "/s")
        print("replay: observed", r["obs"])
    else:
        print("replay: message", obj.get("msg_hex", "")[:200])
    return 0

"""C18 - the SQLite bus plugins form a faithful ordered log."""
import itertools
import json
import random

import buscase
import common
import srvprops


def exhaustive_cases(maxlen):
    alphabet = [("send",), ("age", 1.13), ("open", 1), ("seek", 1), ("seek", 2), ("seek", 3), ("seekbegin",), ("iter",)]
    cases = []
    for n in range(1, maxlen + 1):
        for combo in itertools.product(alphabet, repeat=n):
            cases.append({"ops": [("open", 1)] + list(combo) + [("iter",)], "second_consumer": False})
    return cases


def run(ctx):
    rng = random.Random(ctx.seed)
    n = ctx.n(500, 6000)
    cases = [buscase.gen_case(rng) for _ in range(n)]
    cases += [buscase.gen_case(rng, {"maxops": 120}) for _ in range(ctx.n(10, 100))]
    ex = exhaustive_cases(3 if ctx.quick else 5)
    cases += ex
    # a fresh database that was never opened by a producer, and an opened-but-empty one
    cases.append({"ops": [("seek", 1), ("seekbegin",), ("iter",)], "second_consumer": False})
    cases.append({"ops": [("open", 1), ("seek", 1), ("seek", 0), ("iter",)], "second_consumer": False})
    res = srvprops.run_cases(ctx, cases, modname="buscase")
    errs = [(i, e) for i, (o, g, e) in enumerate(res) if e]
    if errs:
        raise RuntimeError(f"driver error on case {errs[0][0]}:\n{errs[0][1]}")
    failing = srvprops.coq_eval(ctx, "c18", [g for _, g, _ in res], f="corr_bcase", g="c18_case",
                                require="Corr.RunBus", typ="bcase", checker="check_bcases", shard=400)
    violations, corr = [], []
    for i, (c_ok, o_ok) in sorted(failing.items()):
        rep = {"replay_kind": "bus_case", "case": cases[i], "observed": res[i][0]}
        if not o_ok:
            hole = any(ob[0] == "seek" and len(ob) > 3 and ob[3] for ob in res[i][0])
            violations.append({"sig": "F31-seek-accepted-into-a-hole" if hole else None, "what": f"bus delivered out of order / wrong payload / skipped events after an accepted seek (case {i}: {cases[i]['ops'][:12]})", **rep})
        elif not c_ok:
            corr.append({"what": f"corr_sqlite_bus: model log != plugins on case {i}: {cases[i]['ops'][:12]}", **rep})
    # the producer keeps writing while a consumer iterates: none of its sends may be refused
    for i, (case, (obs, g, _)) in enumerate(zip(cases, res)):
        for ob in obs:
            if ob[0] == "aborted":
                violations.append({"sig": None, "replay_kind": "bus_case", "case": cases[i], "observed": obs,
                                   "what": f"operation #{ob[1]} ({ob[2]}) of the history raised {ob[3]} (case {i})"})
            if ob[0] == "iter" and len(ob) > 3 and ob[3]:
                violations.append({"sig": None, "replay_kind": "bus_case", "case": cases[i], "observed": obs,
                                   "what": f"while a consumer was in the middle of an iteration: {ob[3]} (case {i})"})
    hist = {"seek_ok": 0, "seek_refused": 0, "iters": 0, "delivered": 0, "purges": 0, "sends_during_an_iteration": 0}
    seen = set()
    for case, (obs, g, _) in zip(cases, res):
        for op, ob in zip(case["ops"], obs):
            if ob[0] in ("truth", "purges", "aborted"):
                break
            if ob[0] == "seek":
                hist["seek_ok" if ob[1] == "ok" else "seek_refused"] += 1
            if ob[0] == "iter":
                hist["iters"] += 1
                hist["delivered"] += len(ob[1])
                hist["sends_during_an_iteration"] += ob[2] if len(ob) > 2 else 0
            hist["purges"] += op[0] == "age"
        if any(ob[0] == "iter" and ob[1] for ob in obs):
            seen.add(json.dumps(case["ops"]))
    return {"evaluations": len(cases), "distinct_nontrivial": len(seen),
            "rule": "random op sequences (open/purge, send bursts up to 30, sends in the middle of a consumer's iteration, ageing around the retention, the clock stepping back, seeks at first/middle/next/purged/beyond, "
                    "seekToBeginning, iterate) up to 120 ops on the real SQLite plugins with separate producer/consumer connections, plus every "
                    "sequence of length <=3 (quick) / <=5 (thorough) over an 8-op alphabet; non-trivial = at least one event delivered; distinct by op sequence",
            "samples": [{"ops": cases[0]["ops"], "observed": [list(map(str, o)) for o in res[0][0]]}],
            "violations": violations, "corr_failures": corr, "exhaustive": True,
            "coverage_extra": {"histogram": hist, "exhaustive_depth": 3 if ctx.quick else 5}}


def replay(obj):
    class C:
        pass
    ctx = C()
    ctx.work = common.workdir("replay")
    srvprops._init_worker()
    case = obj["case"]
    case["ops"] = [tuple(o) for o in case["ops"]]
    obs = buscase.run_case(case, ctx.work + "/b")
    failing = srvprops.coq_eval(ctx, "rb", [buscase.case_to_gallina(case, obs)], f="corr_bcase", g="c18_case",
                                require="Corr.RunBus", typ="bcase", checker="check_bcases")
    print("replay: (corr, oracle) =", failing.get(0, (True, True)), "observed:", obs)
    return 0 if not failing else 1

"""C14 - integrity constraints enforced to a fixpoint across types."""
import copy
import json
import random

import common
import srvcase
import srvprops
from common import gN, gZ, glist


def gen_case(rng):
    shape = rng.choice(["chain2", "chain3", "twoparent", "diamond"])
    mk = lambda name, pkey: {"name": name, "pkey": pkey, "fks": {}, "attrs": list(pkey) + ["x"],
                             "secret": [], "local": [], "cacheonly": [], "commit": None,
                             "integrity": False, "omc": "use_cached_entry",
                             "mapping": {a: ("plain", "c_" + a) for a in list(pkey) + ["x"]}, "ics": []}
    types = {}
    if shape in ("chain2", "chain3"):
        types["Ta"] = mk("Ta", ["id"]); types["Tb"] = mk("Tb", ["id"]); types["Tc"] = mk("Tc", ["id"])
        deps = [("Tb", "id", "Ta"), ("Tc", "id", "Tb")]
        if shape == "chain3":
            types["Td"] = mk("Td", ["id"]); deps.append(("Td", "id", "Tc"))
    elif shape == "twoparent":
        types["Ta"] = mk("Ta", ["id"]); types["Tb"] = mk("Tb", ["id"])
        types["Tc"] = mk("Tc", ["aid", "bid"]); types["Td"] = mk("Td", ["id"])
        deps = [("Tc", "aid", "Ta"), ("Tc", "bid", "Tb"), ("Tb", "id", "Td")]
    else:
        types["Ta"] = mk("Ta", ["id"]); types["Tb"] = mk("Tb", ["id"]); types["Tc"] = mk("Tc", ["id"])
        types["Td"] = mk("Td", ["id"])
        deps = [("Tb", "id", "Ta"), ("Tc", "id", "Ta"), ("Td", "id", "Tb"), ("Td", "id", "Tc")]
    for child, a, par in deps:
        if rng.random() < 0.85:   # constraints declared on any subset of types
            types[child]["ics"].append((a, par, rng.choice(["pkeys", "pkeys", "list"])))
    order = list(types.values())
    rng.shuffle(order)            # any declaration order
    cfg = {"types": order, "strkeys": False, "shape": shape}
    pool = [1, 2, 3]
    steps = []
    npolls = rng.randint(2, 5)
    prev = None
    for i in range(npolls):
        tables = {}
        for t in order:
            rows = {}
            if len(t["pkey"]) == 1:
                for k in pool:
                    keep = rng.random() < (0.75 if prev is None or k in prev.get(t["name"], {}) else 0.5)
                    if keep:
                        rows[k] = {"id": k, "x": rng.choice([1, 2, "a"])}
            else:
                for a in pool:
                    for b in pool:
                        if rng.random() < 0.4:
                            rows[(a, b)] = {"aid": a, "bid": b, "x": rng.choice([1, 2])}
            tables[t["name"]] = rows
        prev = tables
        steps.append({"op": "poll", "isync": False, "openfail": False,
                      "tables": srvcase.to_remote_tables(cfg, tables), "fail": []})
    return {"cfg": cfg, "steps": steps, "cache": {"enable_compression": False, "backup_count": 0}}


def icase_gallina(case, obs):
    ctx = srvcase.Ctx(case["cfg"], obs, case)
    ics = []
    for t in case["cfg"]["types"]:
        cs = glist(f"({gN(ctx.attrs[a])},{gN(ctx.types[p])})" for a, p, form in t["ics"])
        ics.append(f"({gN(ctx.types[t['name']])},{cs})")

    def vobjs(dct_or_list, from_view=False):
        out = []
        for t in case["cfg"]["types"]:
            name = t["name"]
            items = dct_or_list.get(name, {})
            items = items.items() if isinstance(items, dict) else items
            for k, o in items:
                out.append(f"({gN(ctx.types[name])},{gZ(ctx.key(k))},{ctx.gobj(name, o)})")
        return glist(out)
    polls = []
    for st, ob in zip(case["steps"], obs):
        view = ob["views"][-1] if ob["views"] else {}
        filt = glist(f"({gN(ctx.types[t])},{gZ(ctx.key(k))})" for t, ks in ob["ifiltered"].items() for k in ks)
        polls.append(f"(IPoll {vobjs(ob['frags'])} {vobjs(view)} {filt})")
    return f"(ICase {glist(ics)} {glist(polls)})"


def run(ctx):
    rng = random.Random(ctx.seed)
    n = ctx.n(400, 8000)
    cases = [gen_case(rng) for _ in range(n)]
    res = srvprops.run_cases(ctx, cases)
    errs = [(i, e) for i, (o, g, e) in enumerate(res) if e]
    if errs:
        raise RuntimeError(f"driver error on case {errs[0][0]}:\n{errs[0][1]}")
    # (a) view = greatest closed subset (fetch level)
    igal = [icase_gallina(c, r[0]) for c, r in zip(cases, res)]
    failing = srvprops.coq_eval(ctx, "c14i", igal, f="corr_icase", g="c14_case",
                                require="Corr.RunFetch", typ="icase", checker="check_icases", shard=60)
    # (b) events follow the views exactly (filtered objects come back as 'added')
    failing_ev = srvprops.coq_eval(ctx, "c14e", [g for _, g, _ in res], f="corr_case", g="c02_case")
    violations, corr = [], []
    for i in sorted(set(failing) | set(failing_ev)):
        c_ok, o_ok = failing.get(i, (True, True))
        c2, o2 = failing_ev.get(i, (True, True))
        rep = srvprops.jsonable_case(cases[i], res[i][0])
        rep["replay_kind"] = "c14_case"
        if not o_ok:
            violations.append({"sig": None, "what": f"published view is not the largest constraint-closed subset of the merged data, or filtered objects not reported (case {i})", **rep})
        elif not o2:
            violations.append({"sig": None, "what": f"events do not follow the filtered view: an object that satisfies its constraints again is not announced as added (case {i})", **rep})
        elif not (c_ok and c2):
            corr.append({"what": f"corr_integrity_fixpoint / corr_server_cycle on case {i}", **rep})
    seen, hist = set(), {"polls": 0, "filtered_polls": 0, "cascades": 0}
    for case, (obs, g, _) in zip(cases, res):
        for ob in obs:
            hist["polls"] += 1
            nf = sum(len(v) for v in ob["ifiltered"].values())
            hist["filtered_polls"] += nf > 0
            hist["cascades"] += sum(1 for v in ob["ifiltered"].values() if v) > 1
        if any(any(v for v in ob["ifiltered"].values()) for ob in obs):
            seen.add(json.dumps([[t["name"] for t in case["cfg"]["types"]],
                                 [t["ics"] for t in case["cfg"]["types"]],
                                 [ob["ifiltered"] for ob in obs]], default=str))
    return {"evaluations": n, "distinct_nontrivial": len(seen),
            "rule": "dependency chains of depth 2-3, two-parent and diamond types, constraints on a random subset of types "
                    "written with <Type>_pkeys or the <Type> list variable, random declaration order, 2-5 polls where parents "
                    "disappear and return; non-trivial = at least one object filtered; distinct by (declaration order, constraints, filtered sets)",
            "samples": [{"order": [t["name"] for t in cases[0]["cfg"]["types"]],
                         "constraints": [t["ics"] for t in cases[0]["cfg"]["types"]],
                         "filtered_per_poll": [ob["ifiltered"] for ob in res[0][0]]}],
            "violations": violations, "corr_failures": corr, "coverage_extra": {"histogram": hist}}


def replay(obj):
    class C:
        pass
    ctx = C()
    ctx.work = common.workdir("replay")
    case = common.dec(obj["case"])
    srvprops._init_worker()
    obs = srvcase.run_case(case, ctx.work + "/r")
    f1 = srvprops.coq_eval(ctx, "ri", [icase_gallina(case, obs)], f="corr_icase", g="c14_case",
                           require="Corr.RunFetch", typ="icase", checker="check_icases")
    f2 = srvprops.coq_eval(ctx, "re", [srvcase.case_to_gallina(case, obs)], f="corr_case", g="c02_case")
    print("replay: fetch-level (corr, oracle) =", f1.get(0, (True, True)), " event-level =", f2.get(0, (True, True)))
    return 0 if not f1 and not f2 else 1

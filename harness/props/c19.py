"""C19 - configuration acceptance is exact."""
import json
import os
import random
import traceback
from concurrent.futures import ProcessPoolExecutor

import common
import cfgcase
import srvprops


def _fk_worker(schs):
    return [cfgcase.run_fk_schema(s) for s in schs]


def _start_worker(args):
    app, idx, wd = args
    try:
        variants = cfgcase.gen_start_variants(app)
        return idx, cfgcase.run_start(variants[idx], wd, app), None
    except Exception:
        return idx, None, traceback.format_exc()


def run(ctx):
    rng = random.Random(ctx.seed)
    # ---- A. foreign-key schemas -------------------------------------------------------
    schemas = []
    for n in (1, 2, 3):
        schemas += list(cfgcase.enum_valid_fk_schemas(n, set(range(n))))
    n4 = list(cfgcase.enum_valid_fk_schemas(4, {3}))
    exhaustive = not ctx.quick
    if ctx.quick:
        schemas = rng.sample(schemas, 2500) if len(schemas) > 2500 else schemas
        schemas += rng.sample(n4, 700)
    else:
        schemas += n4
        n5 = []
        for s in cfgcase.enum_valid_fk_schemas(5, set()):
            n5.append(s)
        schemas += rng.sample(n5, min(len(n5), 3000))
    nvalid = len(schemas)
    invalid = [cfgcase.mutate_invalid(rng, rng.choice(schemas[:2000])) for _ in range(ctx.n(600, 4000))]
    schemas += invalid
    # half of the schemas use names where the non-key / unknown names are contained in the key names
    schemas = [dict(s, naming=(i % 2)) for i, s in enumerate(schemas)]
    chunks = list(common.chunks(schemas, 200))
    with ProcessPoolExecutor(max_workers=14, initializer=srvprops._init_worker) as ex:
        obs = [o for part in ex.map(_fk_worker, chunks) for o in part]
    gal = [cfgcase.fk_gallina(s, o) for s, o in zip(schemas, obs)]
    failing = srvprops.coq_eval(ctx, "c19fk", gal, f="corr_fkcase", g="c19_fkcase",
                                require="Corr.RunConfig", typ="fkcase", checker="check_fkcases", shard=800)
    violations, corr = [], []
    for i, (c_ok, o_ok) in sorted(failing.items()):
        rep = {"replay_kind": "fk_schema", "schema": schemas[i], "observed": list(map(str, obs[i]))}
        if not o_ok:
            violations.append({"sig": None, "what": f"foreign-key schema wrongly {'accepted' if obs[i][0] == 'accepted' else 'refused as ' + str(obs[i][0])}: {schemas[i]}", **rep})
        elif not c_ok:
            corr.append({"what": f"corr_fk_schema_check: model outcome != Dataschema outcome on {schemas[i]}", **rep})
    # ---- B. start-up walk ----------------------------------------------------------------
    nstart, started, refused = 0, 0, 0
    sgal, smeta = [], []
    for app in ("server", "client"):
        variants = cfgcase.gen_start_variants(app)
        args = [(app, i, os.path.join(ctx.work, f"st_{app}_{i}")) for i in range(len(variants))]
        with ProcessPoolExecutor(max_workers=14, initializer=srvprops._init_worker) as ex:
            res = list(ex.map(_start_worker, args, chunksize=4))
        for idx, ob, err in res:
            if err:
                raise RuntimeError(f"start driver error on {app} variant {variants[idx][0]}:\n{err}")
            sgal.append(cfgcase.start_gallina(variants[idx], ob))
            smeta.append((app, variants[idx][0], ob))
            nstart += 1
            started += ob[0] == "started"
            refused += ob[0] == "configerror"
    sfail = srvprops.coq_eval(ctx, "c19st", sgal, f="c19_stcase", g="c19_stcase",
                              require="Corr.RunConfig", typ="stcase", checker="check_stcases", shard=400)
    for i in sorted(sfail):
        app, name, ob = smeta[i]
        violations.append({"sig": None, "replay_kind": "start_variant", "app": app, "variant": name,
                           "observed": list(map(str, ob)),
                           "what": f"{app} configuration variant '{name}': observed {ob}, expected "
                                   f"{'start' if 'omit' in name or name in ('baseline', 'fk-diamond') or name.startswith(('min:', 'max:')) else 'a configuration error'}"})
    kinds = {}
    for o in obs:
        kinds[o[0]] = kinds.get(o[0], 0) + 1
    return {"evaluations": len(schemas) + nstart,
            "distinct_nontrivial": len(set(json.dumps(s, sort_keys=True) for s, o in zip(schemas, obs) if s["fks"])) + nstart,
            "rule": "A: all well-formed foreign-key schemas over 1-3 types (single or composite keys, every target incl. self), "
                    "4 types with one composite (sampled in quick, complete in thorough; 5 single-key types sampled in thorough) "
                    "+ schemas with injected documented mistakes; B: server and client baselines with every optional setting omitted "
                    "one at a time and all at once, every bounded setting at min/max and just outside, and the documented mistakes; "
                    "non-trivial = schema has at least one foreign key / every start variant",
            "samples": [{"schema": schemas[5], "observed": list(map(str, obs[5]))},
                        {"start_variant": smeta[1][1], "app": smeta[1][0], "observed": list(map(str, smeta[1][2]))}],
            "violations": violations, "corr_failures": corr, "exhaustive": exhaustive,
            "coverage_extra": {"fk_outcomes": kinds, "valid_schemas": nvalid, "mistake_schemas": len(invalid),
                               "start_variants": nstart, "started": started, "refused": refused}}


def replay(obj):
    srvprops._init_worker()
    if obj.get("replay_kind") == "fk_schema":
        o = cfgcase.run_fk_schema(obj["schema"])
        print("replay: observed", o)
        return 0
    variants = [v for v in cfgcase.gen_start_variants(obj["app"]) if v[0] == obj["variant"]]
    print("replay: observed", cfgcase.run_start(variants[0], common.workdir("replay") + "/s", obj["app"]))
    return 0

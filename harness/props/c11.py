"""C11 - client stop or crash at any instant loses no event and corrupts no state."""
import json
import os
import random
import traceback
from concurrent.futures import ProcessPoolExecutor

import clikill
import cliprops
import common
import srvprops


def _worker(args):
    case, wd, maxp = args
    try:
        srvprops._init_worker()
        res = clikill.run_case(case, wd, max_points=maxp)
        out = []
        for p in res["points"]:
            out.append({"k": p["k"], "op": p["op"], "killed": p["killed"], "replaced": p["replaced"],
                        "gallina": clikill.point_gallina(case, res, p), "problems": clikill.final_verdict(res, p),
                        "window": clikill.in_window(p), "readd": clikill.bus_has_readd(res) and case["p_fail"] > 0,
                        "ref_healthy": clikill.reference_is_healthy(res)})
        return {"n_ops": res["n_ops"], "points": out, "ki": res["ki"]}, None
    except Exception:
        return None, traceback.format_exc()


def run(ctx):
    # ---- (a) graceful stop at every loop boundary: a new process life at each iteration
    n_a = ctx.n(80, 2000)

    def copts(rng):
        return {"retention": 0, "remediation": "disabled",
                "fkpolicy": rng.choice(["disabled", "on_remove_event"])}
    cases_a = cliprops.gen_cases(ctx, n_a, copts, lambda rng: {"p_fail": rng.choice([0.0, 0.3]), "p_partial": 0.1,
                                                             "clock": False, "p_restart": 1.0, "extra_iters": 6,
                                                             "p_stop_mid": 0.4})
    # the same with the trashbin on and healthy handlers: the trashed objects (and the bus
    # timestamps stored with them, which are not whole seconds) go through every checkpoint
    class _Ctx2:
        seed = ctx.seed + 17
    trash = cliprops.gen_cases(_Ctx2, ctx.n(30, 600), lambda rng: {"retention": 1, "remediation": "disabled",
                                                                   "fkpolicy": rng.choice(["disabled", "on_remove_event"])},
                               lambda rng: {"p_fail": 0.0, "clock": False, "p_restart": 1.0, "extra_iters": 3, "p_stop_mid": 0.3})
    for c in trash:
        c["subsecond"] = True
    res_a, failing_a = cliprops.run_and_eval(ctx, cases_a, "c07_case", "c11a")
    res_t = srvprops.run_cases(ctx, trash, modname="clicase")
    errs = [(i, e) for i, (o, g, e) in enumerate(res_t) if e]
    if errs:
        raise RuntimeError(f"client driver error on trashbin case {errs[0][0]}:\n{errs[0][1]}")
    failing_t = srvprops.coq_eval(ctx, "c11t", [g for _, g, _ in res_t], f="corr_ccase", g="c11_trash_case",
                                  require="Corr.RunC10", typ="ccase", checker="check_ccases", shard=25)
    sub = cliprops.sub_oracles(ctx, res_a, failing_a, ["c07_fifo_case", "c07_complete_case", "c07_healed_case"], "c11asub")
    violations, corr = [], []
    import props.c07 as c07
    for i, (c_ok, o_ok) in sorted(failing_a.items()):
        rep = {"replay_kind": "client_case", "case": common.enc(cases_a[i])}
        if not o_ok:
            sig = None
            if c07.f5(cases_a[i], res_a[i][0]):
                sig = "F5-readd-while-removal-queued"
            elif sub[i]["c07_fifo_case"] and sub[i]["c07_healed_case"] and c07.older_modified_retried_while_younger_queued(cases_a[i], res_a[i][0]):
                sig = "F19-complete-cache-regresses-on-retry"
            violations.append({"sig": sig, "what": f"graceful stop at every loop boundary: handler log / final state differ from what the bus owes (case {i})", **rep})
        elif not c_ok:
            corr.append({"what": f"corr_client (stop at every boundary): client model != GenericClient on case {i}", **rep})
    for i, (c_ok, o_ok) in sorted(failing_t.items()):
        rep = {"replay_kind": "client_case", "case": common.enc(trash[i])}
        if not o_ok:
            violations.append({"sig": None, "what": f"graceful stops with trashed objects: a handler invoked out of order / the final state differs from what the bus owes (trashbin case {i})", **rep})
        elif not c_ok:
            corr.append({"what": f"corr_client (stops, trashbin): client model != GenericClient on trashbin case {i}", **rep})
    # ---- (b) process death after every file-system mutation and handler call of one iteration
    n_b = ctx.n(24, 400)
    maxp = None if ctx.tier == "thorough" else 40
    rng = random.Random(ctx.seed + 1)
    cases_b = [clikill.gen_case(rng) for _ in range(n_b)]
    with ProcessPoolExecutor(max_workers=12) as ex:
        res_b = list(ex.map(_worker, [(c, os.path.join(ctx.work, f"k{i}"), maxp) for i, c in enumerate(cases_b)]))
    errs = [(i, e) for i, (r, e) in enumerate(res_b) if e]
    if errs:
        raise RuntimeError(f"kill driver error on case {errs[0][0]}:\n{errs[0][1]}")
    gal, owner = [], []
    hist = {"kill_points": 0, "handler_kills": 0, "file_op_kills": 0, "inside_checkpoint_window": 0,
            "window_points_diverging": 0, "ops_per_iteration_max": 0, "points_with_unhealthy_reference": 0}
    for i, (r, _) in enumerate(res_b):
        hist["ops_per_iteration_max"] = max(hist["ops_per_iteration_max"], r["n_ops"])
        for p in r["points"]:
            gal.append(p["gallina"])
            owner.append((i, p))
            hist["kill_points"] += 1
            hist["handler_kills"] += p["op"].startswith("handler")
            hist["file_op_kills"] += not p["op"].startswith("handler")
            hist["inside_checkpoint_window"] += p["window"]
            hist["points_with_unhealthy_reference"] += not p["ref_healthy"]
    failing_b = srvprops.coq_eval(ctx, "c11b", gal, f="corr_kcase", g="corr_kcase", require="Corr.RunKill", typ="kcase",
                                  checker="check_kcases", shard=12)
    for j, (i, p) in enumerate(owner):
        rep = {"replay_kind": "kill_point", "case": common.enc(cases_b[i]), "k": p["k"], "op": p["op"]}
        if p["problems"]:
            sig = "F7-killed-inside-the-checkpoint" if p["window"] else \
                ("F5-readd-while-removal-queued" if p["readd"] else None)
            hist["window_points_diverging"] += bool(p["window"])
            violations.append({"sig": sig, "what": f"killed after op {p['k']} ({p['op']}), restarted and drained: " + "; ".join(p["problems"]) + f" (case {i})", **rep})
        elif j in failing_b:
            corr.append({"what": f"corr_kill: checkpoint mixture model != GenericClient killed after op {p['k']} ({p['op']}) on case {i}", **rep})
    histo_a, distinct = cliprops.stats(cases_a, res_a)
    histo_a["stops_requested_in_the_middle_of_a_batch"] = sum(1 for (ob, g, e) in res_a for it in ob["sessions"]["iters"]
                                                               if it.get("stop_after") and it.get("limit") is not None)
    return {"evaluations": len(cases_a) + len(gal), "distinct_nontrivial": distinct + len(set(gal)),
            "rule": "(a) real-server buses consumed by the real client with a graceful stop and a new process life at every loop "
                    "boundary, handler failures, trashbin: correspondence + per-object FIFO / healed oracles (no call twice, final state "
                    "= what the bus owes); (b) the real client killed (fork + os._exit) after every completed file-system mutation "
                    "(create/close/rename of every cache file) and every handler call of one loop iteration with pending queue "
                    "entries and trashed objects, restarted and drained: the checkpoint mixture model must predict the files "
                    "replaced and the whole recovery run, and the drained state (caches, queue, offset, idempotent target) must equal "
                    "the uninterrupted run",
            "samples": [{"kill_iteration": res_b[0][0]["ki"], "ops": res_b[0][0]["n_ops"]}],
            "violations": violations, "corr_failures": corr,
            "coverage_extra": {"graceful": histo_a, "kills": hist}}


def replay(obj):
    if obj.get("replay_kind") == "kill_point":
        case = common.dec(obj["case"])
        r, e = _worker((case, common.workdir("replay") + "/k", None))
        if e:
            print(e)
            return 2
        p = [p for p in r["points"] if p["k"] == obj["k"]]
        if not p:
            print("kill point not found")
            return 2
        print("problems:", p[0]["problems"], "inside checkpoint window:", p[0]["window"])
        return 1 if p[0]["problems"] else 0
    return cliprops.replay_case(obj, "c07_case")

"""C13 - multi-source merge follows the key constraints and the conflict policy."""
import itertools
import json
import random

import common
import fetchcase
import srvprops


def exhaustive_cases():
    """2 sources, keys {1,2}, one shared attribute x with values {1,2}, rows per key in
    {absent, v1, v2, duplicate}: all contents x 4 constraints x 2 policies, 2 polls
    (second poll = contents rotated, exercising the cached fallback)."""
    opts = [[], [1], [2], [1, 2], [1, 1]]
    cases = []
    for c in fetchcase.PMCS:
        for omc in ("use_cached_entry", "keep_first_value"):
            for a1, a2, b1, b2 in itertools.product(opts, opts, opts, opts):
                def rows(k1, k2):
                    return [{"c_id": 1, "c_x": v} for v in k1] + [{"c_id": 2, "c_x": v} for v in k2]
                p1 = {"s1": {"q": rows(a1, a2)}, "s2": {"q": rows(b1, b2)}}
                p2 = {"s1": {"q": rows(a2, a1)}, "s2": {"q": rows(b1, b2)}}
                cases.append({"srcs": [{"name": "s1", "attrs": ["x"], "pmc": "noConstraint"},
                                       {"name": "s2", "attrs": ["x"], "pmc": c}],
                              "omc": omc, "polls": [p1, p2]})
    return cases


def run(ctx):
    rng = random.Random(ctx.seed)
    n = ctx.n(500, 8000)
    cases = [fetchcase.gen_case(rng) for _ in range(n)]
    exhaustive = False
    if not ctx.quick:
        cases += exhaustive_cases()
        exhaustive = True
    else:
        ex = exhaustive_cases()
        cases += rng.sample(ex, 300)
    res = srvprops.run_cases(ctx, cases, modname="fetchcase")
    errs = [(i, e) for i, (o, g, e) in enumerate(res) if e]
    if errs:
        raise RuntimeError(f"driver error on case {errs[0][0]}:\n{errs[0][1]}")
    failing = srvprops.coq_eval(ctx, "c13", [g for _, g, _ in res], f="corr_fcase", g="c13_case",
                                require="Corr.RunFetch", typ="fcase", checker="check_fcases", shard=60)
    violations, corr = [], []
    for i, (c_ok, o_ok) in sorted(failing.items()):
        rep = {"case": common.enc(cases[i]), "observed": common.enc(res[i][0]), "replay_kind": "fetch_case"}
        if not o_ok:
            violations.append({"sig": None, "what": f"merged view violates the declared key constraints / conflict policy (c13_case false on case {i})", **rep})
        elif not c_ok:
            corr.append({"what": f"corr_fetch_merge: model merge != Datamodel.fetch on case {i}", **rep})
    hist = {"conflicts": 0, "duplicates": 0, "filtered": 0, "polls": 0}
    seen = set()
    for case, (obs, g, _) in zip(cases, res):
        for ob in obs:
            hist["polls"] += 1
            hist["conflicts"] += bool(ob["conf"])
            hist["duplicates"] += bool(ob["incons"])
            hist["filtered"] += bool(ob["filtered"])
        if any(ob["conf"] or ob["incons"] or ob["filtered"] for ob in obs):
            seen.add(json.dumps([[(s["pmc"]) for s in case["srcs"]], case["omc"],
                                 [[ob["incons"], ob["conf"], ob["filtered"]] for ob in obs]], default=str))
    return {"evaluations": len(cases), "distinct_nontrivial": len(seen),
            "rule": "random 2-3 source contents over 3 keys x 3 attributes with duplicates, all 4 key constraints, both policies, 2-4 polls; "
                    "+ the exhaustive 2-source/2-key/2-value universe (sampled in quick, complete in thorough); non-trivial = a conflict, "
                    "a duplicate or a constraint-filtered key occurred; distinct by (constraints, policy, diagnostics per poll)",
            "samples": [{"srcs": cases[0]["srcs"], "omc": cases[0]["omc"], "poll0": cases[0]["polls"][0],
                         "observed_data": [list(map(str, x)) for x in res[0][0][0]["data"]]}],
            "violations": violations, "corr_failures": corr, "exhaustive": exhaustive,
            "coverage_extra": {"histogram": hist}}


def replay(obj):
    class C:
        pass
    ctx = C()
    ctx.work = common.workdir("replay")
    case = common.dec(obj["case"])
    srvprops._init_worker()
    obs = fetchcase.run_case(case, ctx.work + "/r")
    g = fetchcase.case_to_gallina(case, obs)
    failing = srvprops.coq_eval(ctx, "replay", [g], f="corr_fcase", g="c13_case",
                                require="Corr.RunFetch", typ="fcase", checker="check_fcases")
    c_ok, o_ok = failing.get(0, (True, True))
    print(f"replay: correspondence={'ok' if c_ok else 'FAILS'} oracle(c13_case)={'ok' if o_ok else 'FAILS'}")
    return 0 if (c_ok and o_ok) else 1

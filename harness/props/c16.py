"""C16 - cache and bus serialisation is lossless, so a restart is silent."""
import copy
import json
import os
import random
from concurrent.futures import ProcessPoolExecutor

import common
import serialcase
import srvcase
import srvprops

SIG_F10 = "F10-inband-lookalike-string"
SIG_F15 = "F15-compression-switched-back-without-backup"


def restart_case(rng, with_lookalike):
    cfg = srvcase.gen_config(rng, {"shape": "flat", "mappings": False})
    pool = srvcase.key_pool(cfg, rng)
    a = srvcase.gen_rows(rng, cfg, pool)
    b = srvcase.gen_rows(rng, cfg, pool, a)
    if with_lookalike:
        for t in cfg["types"]:
            for k, row in b[t["name"]].items():
                for attr in t["attrs"]:
                    if attr not in t["pkey"] and rng.random() < 0.3:
                        row[attr] = rng.choice(serialcase.LOOKALIKES)
    mk = lambda tb: {"op": "poll", "isync": False, "openfail": False, "tables": srvcase.to_remote_tables(cfg, tb), "fail": []}
    steps = [mk(a), mk(b), {"op": "restart"}, mk(b), mk(b)]
    c1 = rng.random() < 0.5
    return {"cfg": cfg, "steps": steps, "cache": {"enable_compression": c1, "backup_count": rng.choice([0, 1])}}


def double_switch_no_backup(case):
    """signature of F15: the setting is switched away and back (>= 2 switches) while
    nothing rotates the stale file out of the way (backup_count = 0)"""
    settings = [c for c, _ in case["saves"]] + [case["load"]]
    switches = sum(1 for x, y in zip(settings, settings[1:]) if x != y)
    return case["backups"] == 0 and switches >= 2


def run(ctx):
    rng = random.Random(ctx.seed)
    violations, corr = [], []
    # ---- A. values through cache files and the bus -------------------------------------------
    values = serialcase.exhaustive_values() + [[x] for x in serialcase.LOOKALIKES] + serialcase.LOOKALIKES \
        + [copy.deepcopy(x) for x in serialcase.LEAVES]
    values += [serialcase.rnd_value(rng) for _ in range(ctx.n(600, 20000))]
    chunks = list(common.chunks(values, 150))
    args = [(ch, os.path.join(ctx.work, f"v{i}")) for i, ch in enumerate(chunks)]
    with ProcessPoolExecutor(max_workers=14, initializer=srvprops._init_worker) as ex:
        parts = list(ex.map(serialcase.run_values, args))
    gal, meta = [], []
    for ch, part in zip(chunks, parts):
        for path, res in zip(("cache-plain", "cache-gzip", "bus"), part):
            for v, (st, rv) in zip(ch, res):
                if st != "ok":
                    violations.append({"sig": None, "replay_kind": "value", "what": f"value {v!r} came back as {st} through {path}", "value": common.enc(v)})
                    continue
                gal.append(serialcase.vcase_gallina(v, rv))
                meta.append((v, rv, path))
    failing = srvprops.coq_eval(ctx, "c16v", gal, f="corr_vcase", g="c16_vcase",
                                require="Corr.RunSerial", typ="vcase", checker="check_vcases", shard=500)
    for i, (c_ok, o_ok) in sorted(failing.items()):
        v, rv, path = meta[i]
        rep = {"replay_kind": "value", "value": common.enc(v), "reloaded": common.enc(rv), "path": path}
        if not o_ok:
            sig = SIG_F10 if serialcase.has_inband_lookalike(v) else None
            violations.append({"sig": sig, "what": f"value not restored identically through {path}: {v!r} -> {rv!r}", **rep})
        elif not c_ok:
            corr.append({"what": f"corr_serialisation: model decode(encode v) != implementation through {path} for {v!r} -> {rv!r}", **rep})
    # ---- B. restart with an unchanged source is silent ----------------------------------------
    nr = ctx.n(150, 3000)
    rcases = [restart_case(rng, i % 5 == 0) for i in range(nr)]
    rres = srvprops.run_cases(ctx, rcases)
    errs = [(i, e) for i, (o, g, e) in enumerate(rres) if e]
    if errs:
        raise RuntimeError(f"driver error on restart case {errs[0][0]}:\n{errs[0][1]}")
    rfail = srvprops.coq_eval(ctx, "c16r", [g for _, g, _ in rres], f="corr_case", g="c16_scase",
                              require="Corr.RunSerial", typ="scase", checker="check_cases")
    for i, (c_ok, o_ok) in sorted(rfail.items()):
        rep = srvprops.jsonable_case(rcases[i], rres[i][0])
        rep["replay_kind"] = "restart_case"
        look = any(serialcase.has_inband_lookalike(row) for st in rcases[i]["steps"] if st["op"] == "poll"
                   for ds in st["tables"].values() for rows in ds.values() for row in rows)
        if not o_ok:
            violations.append({"sig": SIG_F10 if look else None,
                               "what": f"restart with unchanged source is not silent (case {i})", **rep})
        elif not c_ok and look:
            # the server model reloads what it saved; a look-alike string (possibly in an attribute that
            # produces no event: cache-only) comes back as another value - finding F10 again
            violations.append({"sig": SIG_F10, "what": f"a look-alike string is not reloaded identically after a restart (case {i})", **rep})
        elif not c_ok:
            corr.append({"what": f"corr_server_cycle on restart case {i}", **rep})
    # ---- C. cache files across compression switches ----------------------------------------------
    dcases = serialcase.exhaustive_dcases() + [serialcase.gen_dcase(rng) for _ in range(ctx.n(100, 2000))]
    dch = list(common.chunks(dcases, 60))
    with ProcessPoolExecutor(max_workers=14, initializer=srvprops._init_worker) as ex:
        dobs = [o for part in ex.map(serialcase.run_dcases, [(c, os.path.join(ctx.work, f"d{i}")) for i, c in enumerate(dch)]) for o in part]
    dgal = [serialcase.dcase_gallina(c, o) for c, o in zip(dcases, dobs)]
    dfail = srvprops.coq_eval(ctx, "c16d", dgal, f="corr_dcase", g="c16_dcase",
                              require="Corr.RunSerial", typ="dcase", checker="check_dcases", shard=500)
    for i, (c_ok, o_ok) in sorted(dfail.items()):
        rep = {"replay_kind": "dcase", "case": dcases[i], "observed": list(map(str, dobs[i]))}
        if not o_ok:
            violations.append({"sig": SIG_F15 if double_switch_no_backup(dcases[i]) else None,
                               "what": f"cache file history {dcases[i]} loads {dobs[i]} instead of the last saved content", **rep})
        elif not c_ok:
            corr.append({"what": f"corr_cache_files: model load != LocalCache on {dcases[i]} -> {dobs[i]}", **rep})
    nlook = sum(1 for v in values if serialcase.has_inband_lookalike(v))
    return {"evaluations": len(gal) + nr + len(dcases),
            "distinct_nontrivial": len(set(json.dumps(common.enc(v), sort_keys=True) for v in values)) + nr + len(dcases),
            "rule": "A: all values of depth <=2 over a 10-leaf alphabet (incl. datetime, bytes and in-band look-alike strings), the look-alike "
                    "and extreme-value lists, random values to depth 3, each through a plain cache file, a gzip cache file and the SQLite bus "
                    "(single and composite event keys); B: poll/poll/restart/poll/poll server histories with unchanged source after the restart; "
                    "C: every history of <=3 saves under changing compression settings x final setting x backups 0/2, plus random ones",
            "samples": [{"value": repr(values[40]), "reloaded_via_bus": repr(parts[0][2][40][1])},
                        {"cache_history": dcases[10], "loaded": list(map(str, dobs[10]))}],
            "violations": violations, "corr_failures": corr, "exhaustive": True,
            "coverage_extra": {"values": len(values), "values_with_lookalike": nlook, "restart_cases": nr,
                               "cache_histories": len(dcases)}}


def replay(obj):
    print("replay:", {k: obj.get(k) for k in ("replay_kind", "what", "path")})
    return 0

"""C05 - server survives a crash at any instant."""
import json
import os
import random
import traceback
from concurrent.futures import ProcessPoolExecutor

import common
import crashcase
import srvprops

SIG_F3 = "F3-inflight-object-changed-before-restart"
SIG_F14 = "F14-live-file-absent-during-backup-rotation"


def _worker(args):
    case, wd, maxp, seed = args
    try:
        return crashcase.run_case(case, wd, maxp, random.Random(seed)), None
    except Exception:
        return None, traceback.format_exc()


def in_rotation_window(case, res, ob):
    """signature of F14: backups enabled and a cache file that existed before the poll
    is absent after the kill (renamed to .000001, temp not yet renamed over it)"""
    if case["cache"]["backup_count"] == 0:
        return False
    live = lambda fs: {f for f in fs if ".0000" not in f and not f.startswith("tmp")}
    return bool(live(res["base_files"]) - live(ob["files"]))


def run(ctx):
    rng = random.Random(ctx.seed)
    ncases = ctx.n(40, 1500)
    cases = [crashcase.gen_case(rng) for _ in range(ncases)]
    args = [(c, os.path.join(ctx.work, f"c{i}"), None if not ctx.quick else 60, rng.randrange(1 << 30)) for i, c in enumerate(cases)]
    with ProcessPoolExecutor(max_workers=14, initializer=srvprops._init_worker) as ex:
        results = list(ex.map(_worker, args))
    for i, (r, e) in enumerate(results):
        if e:
            raise RuntimeError(f"crash driver error on case {i}:\n{e}")
    gal, meta = [], []
    violations, corr = [], []
    hist = {"kill_points": 0, "killed": 0, "during_send": 0, "during_files": 0, "unloadable": 0, "c_changed": 0}
    for ci, (case, (res, _)) in enumerate(zip(cases, results)):
        # what two completed polls left on disk is what they published (otherwise the events of a
        # completed cycle are published again after any later crash)
        if isinstance(res["base_disk"], dict) and "error" not in res["base_disk"] \
                and common.canon(res["base_disk"]) != common.canon(res["base_mem"]):
            violations.append({"sig": None, "replay_kind": "crash_base", "case": common.enc(case),
                               "what": "after a completed poll the cache files differ from the published state held in memory: "
                                       f"disk {res['base_disk']} / memory {res['base_mem']}"})
        for ob in res["points"]:
            hist["kill_points"] += 1
            hist["killed"] += ob["killed"]
            hist["during_send"] += ob["op"].startswith("send")
            hist["during_files"] += not ob["op"].startswith("send")
            hist["unloadable"] += not ob["loadable"]
            rep = {"replay_kind": "crash_point", "case": common.enc(case), "k": ob["k"], "op": ob["op"],
                   "files_after_kill": ob["files"]}
            if not ob["loadable"] or "post" not in ob:
                violations.append({"sig": None, "what": f"after a kill right after op #{ob['k']} ({ob['op']}) a cache file is not loadable / the server cannot recover: "
                                                        f"{ob['saved'].get('error') if isinstance(ob['saved'], dict) else ''} {ob.get('recover_error', '')}", **rep})
                continue
            gal.append(crashcase.point_gallina(case, res, ob))
            meta.append((ci, ob, rep))
    failing = srvprops.coq_eval(ctx, "c05", gal, f="corr_ccase", g="c05_ccase",
                                require="Corr.RunCrash", typ="ccase", checker="check_ccases", shard=60)
    stable = srvprops.coq_eval(ctx, "c05s", gal, f="inflight_stable", g="inflight_stable",
                               require="Corr.RunCrash", typ="ccase", checker="check_ccases", shard=60)
    for i, (c_ok, o_ok) in sorted(failing.items()):
        ci, ob, rep = meta[i]
        case, res = cases[ci], results[ci][0]
        if not o_ok:
            if in_rotation_window(case, res, ob):
                sig = SIG_F14
            elif i in stable:          # the theorem's proviso does not hold on this case
                sig = SIG_F3
            else:
                sig = None
            violations.append({"sig": sig, "what": f"kill right after op #{ob['k']} ({ob['op']}): after restart and one more poll the bus replay differs from the view, "
                                                   "or a cache file held neither the old nor the new content", **rep})
        elif not c_ok:
            corr.append({"what": f"corr_crash_recovery: recovery poll events != model diff(view, loaded cache) at op #{ob['k']} ({ob['op']})", **rep})
    hist["c_changed"] = sum(1 for c in cases if not c["c_same"])
    seen = set((ci, ob["op"]) for ci, (case, (res, _)) in enumerate(zip(cases, results)) for ob in res["points"])
    return {"evaluations": hist["kill_points"], "distinct_nontrivial": len(seen),
            "rule": "random 1-4 type histories (silent poll, complete poll, interrupted poll with adds/modifies/removes, recovery poll on the same or a "
                    "changed source), cache backups 0/2, compression on/off; the interrupted poll is killed (fork + os._exit) right after EVERY completed "
                    "temp-file creation, write+close, rename, remove and bus send (all points in thorough, up to 60 per poll in quick); distinct by (case, operation)",
            "samples": [{"ops_of_one_poll": results[0][0]["ops"][:14], "backup_count": cases[0]["cache"]["backup_count"]}],
            "violations": violations, "corr_failures": corr, "exhaustive": not ctx.quick,
            "coverage_extra": {"histogram": hist, "polls": ncases}}


def replay(obj):
    print("replay:", {k: obj.get(k) for k in ("replay_kind", "k", "op", "what")})
    return 0

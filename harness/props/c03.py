"""C03 - every prefix of the stream referentially closed."""
import srvprops

OPTS = {"p_fail": 0.25, "p_isync": 0.2, "p_restart": 0.1, "maxsteps": 6, "parents_ok": 0.8,
        "classes": False}


def gen_opts(rng):
    o = dict(OPTS)
    o["shape"] = rng.choice(["chain", "chain2", "assoc", "chain2", "assoc"])
    return o


def run(ctx):
    n = ctx.n(400, 12000)
    opts = dict(OPTS)
    opts["shape_fn"] = True
    return srvprops.generic_server_run(
        ctx, n, opts, "c03_case",
        what="a prefix of the observed stream has a child without its parent")


def replay(obj):
    return srvprops.replay_server_case(obj, "c03_case")

"""C03 - every prefix of the stream referentially closed."""
import srvprops

OPTS = {"p_fail": 0.25, "p_isync": 0.2, "p_restart": 0.1, "maxsteps": 6, "parents_ok": 0.8,
        "classes": False}


def gen_opts(rng):
    o = dict(OPTS)
    o["shape"] = rng.choice(["chain", "chain2", "assoc", "chain2", "assoc"])
    return o


def _evo_worker(args):
    """a server restarted under an edited datamodel (types dropped, among them a child and its
    parent together; type names whose alphabetical order differs from the declaration order):
    every prefix of the bus, the removals of the dropped types included, must stay closed"""
    import os
    import traceback
    case, wd = args
    try:
        import evocase
        srvprops._init_worker()
        res = evocase.run_case(case, wd)
        return [v for v in evocase.analyse(case, res) if v[0] == "stream-prefix-not-closed"], None
    except Exception:
        return None, traceback.format_exc()


def run(ctx):
    import os
    import random
    from concurrent.futures import ProcessPoolExecutor
    import common
    import evocase
    n = ctx.n(400, 12000)
    opts = dict(OPTS)
    opts["shape_fn"] = True
    out = srvprops.generic_server_run(
        ctx, n, opts, "c03_case",
        what="a prefix of the observed stream has a child without its parent")
    # schema changes: types leaving the datamodel are withdrawn children first
    rng = random.Random(ctx.seed + 3)
    cases = []
    while len(cases) < ctx.n(60, 1200):
        c = evocase.gen_case(rng, {})
        if any(e[0] == "remove_type" for e in c["edits"]):
            cases.append(c)
    with ProcessPoolExecutor(max_workers=14) as ex:
        res = list(ex.map(_evo_worker, [(c, os.path.join(ctx.work, f"evo{i}")) for i, c in enumerate(cases)], chunksize=2))
    errs = [(i, e) for i, (v, e) in enumerate(res) if e]
    if errs:
        raise RuntimeError(f"evolution driver error on case {errs[0][0]}:\n{errs[0][1]}")
    for i, (viol, _) in enumerate(res):
        if viol:
            out["violations"].append({"sig": None, "replay_kind": "evolution_case", "case": common.enc(cases[i]),
                                      "what": f"server restarted under an edited datamodel (edits {cases[i]['edits']}): {viol[0][1]}"})
    out["evaluations"] += len(cases)
    out.setdefault("coverage_extra", {})["datamodel_edits_with_dropped_types"] = len(cases)
    out["coverage_extra"]["chains_dropped_together"] = sum(1 for c in cases if sum(1 for e in c["edits"] if e[0] == "remove_type") > 1)
    return out


def replay(obj):
    if obj.get("replay_kind") == "evolution_case":
        import common
        case = common.dec(obj["case"])
        viol, e = _evo_worker((case, common.workdir("replay") + "/evo"))
        print(e or f"replay: {viol}")
        return 1 if viol else 0
    return srvprops.replay_server_case(obj, "c03_case")

"""C06 - a healthy client applies each event exactly once, in order, mirroring the source."""
import cliprops


def run(ctx):
    cases = cliprops.gen_cases(ctx, ctx.n(300, 8000), lambda rng: {"retention": 0, "remediation": "disabled", "p_template": rng.choice([0.0, 0.5, 1.0]), "falsy": True,
                                                                  "p_const": 0.4, "p_schema_bump": 0.34}, {})
    res, failing = cliprops.run_and_eval(ctx, cases, "c06_case", "c06")
    violations, corr = cliprops.collect(
        cases, res, failing, "handler invocations or caches of a never-failing client differ from the mapped projection of the bus")
    hist, distinct = cliprops.stats(cases, res)
    return {"evaluations": len(cases), "distinct_nontrivial": distinct,
            "rule": "bus histories produced by the REAL server from random source histories (1-4 types, chains and two-parent keys), consumed by the real "
                    "GenericClient whose handlers never fail, with client mappings that rename attributes, feed two local attributes from one remote one, "
                    "leave attributes or whole types unmapped; in a third of the cases the server is restarted mid-history under a datamodel with one more (always null) attribute, so that the running client merges a 'dataschema' event between two batches; events delivered in batches of 1-4 per loop iteration; non-trivial = at least one handler call; "
                    "distinct by the sequence of (handler, key, outcome)",
            "samples": [{"client_datamodel": cases[0]["cdm"], "calls_first_iteration": [(c["h"], str(c["key"])) for c in res[0][0]["iters"][0]["calls"]]}],
            "violations": violations, "corr_failures": corr, "coverage_extra": {"histogram": hist}}


def replay(obj):
    return cliprops.replay_case(obj, "c06_case")

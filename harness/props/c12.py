"""C12 - initialisation from an initsync sequence is complete, exclusive and one-shot."""
import json
import os
import random
import traceback

import common
import initcase
import srvprops

SUBS = ["c12_idle", "c12_choice", "c12_exclusive", "c12_final", "c12_sequence_is_state"]
WHAT = {"c12_idle": "handlers ran (or offsets were set) before any complete initsync sequence was visible",
        "c12_choice": "the sequence recorded by the client is not the designated (oldest/newest complete) one, or it changed",
        "c12_exclusive": "the handler calls are not exactly those of the designated sequence followed by the base events after its end",
        "c12_final": "after consuming the bus the client does not equal the server view",
        "c12_sequence_is_state": "an initsync sequence on the bus does not carry the state published before it"}


def _worker(args):
    case, wd = args
    try:
        srvprops._init_worker()
        res = initcase.run_case(case, wd)
        return res, initcase.case_to_gallina(case, res), None
    except Exception:
        return None, None, traceback.format_exc()


def retarget_signature(case, res):
    """F8: newest-sequence policy, the client is interrupted inside the sequence it is
    loading (offsets set, not yet initialised) and a newer complete sequence becomes
    visible before it resumes"""
    if case["first"]:
        return None
    stops = [o for (o, ts, ev) in res["bus"] if ev["eventtype"] == "init-stop"]
    its = res["sessions"]["iters"]
    for j, ob in enumerate(res["iters"][:-1]):
        st, sp = ob["init"]
        if st is not None and (ob["next"] is None or ob["next"] <= sp):
            later = [o for o in stops if o > sp and o <= its[j + 1]["limit"]]
            if later:
                return "F8-newer-sequence-appears-while-loading-newest-policy"
    return None


def run(ctx):
    from concurrent.futures import ProcessPoolExecutor
    n = ctx.n(300, 8000)
    rng = random.Random(ctx.seed)
    cases = []
    for i in range(n):
        c = initcase.gen_case(rng)
        c["sseed"] = rng.randrange(1 << 30)
        c["session_opts"] = {"p_budget": rng.choice([0.0, 0.3, 0.6]), "p_restart": rng.choice([0.0, 0.25, 0.5])}
        cases.append(c)
    with ProcessPoolExecutor(max_workers=14) as ex:
        res = list(ex.map(_worker, [(c, os.path.join(ctx.work, f"i{i}")) for i, c in enumerate(cases)], chunksize=4))
    errs = [(i, e) for i, (o, g, e) in enumerate(res) if e]
    if errs:
        raise RuntimeError(f"client driver error on case {errs[0][0]}:\n{errs[0][1]}")
    gal = [g for _, g, _ in res]
    failing = srvprops.coq_eval(ctx, "c12", gal, f="corr_icase", g="c12_case", require="Corr.RunInit", typ="icase",
                                checker="check_icases", shard=25)
    # sub-oracles of the failing cases
    idx = [i for i, (c_ok, o_ok) in sorted(failing.items()) if not o_ok]
    sub = {i: {} for i in idx}
    paths, bases = [], []
    for si, chunk in enumerate(common.chunks(list(enumerate(idx)), 4)):
        body = ("From Hermes Require Import Corr.RunInit.\nDefinition cases : list icase := [\n"
                + ";\n".join(gal[i] for _, i in chunk) + f"\n].\nEval vm_compute in (check_ibits [{'; '.join(SUBS)}] cases).\n")
        p = os.path.join(ctx.work, f"cases_c12sub_{si}.v")
        open(p, "w").write(body)
        paths.append(p)
        bases.append(chunk[0][0])
    outs = common.run_coqc_many(paths)
    for p, base in zip(paths, bases):
        for j, bits, _ in common.parse_results(outs[p]):
            for b, o in enumerate(SUBS):
                sub[idx[base + j]][o] = bool((bits >> b) & 1)
    violations, corr = [], []
    for i, (c_ok, o_ok) in sorted(failing.items()):
        rep = {"replay_kind": "init_case", "case": common.enc(cases[i])}
        if not o_ok:
            bad = [o for o in SUBS if not sub[i][o]]
            sig = retarget_signature(cases[i], res[i][0]) if set(bad) <= {"c12_choice", "c12_exclusive", "c12_final"} else None
            violations.append({"sig": sig, "what": "; ".join(WHAT[o] for o in bad) + f" (case {i})", **rep})
        elif not c_ok:
            corr.append({"what": f"corr_init: initialisation model != GenericClient on case {i}", **rep})
    hist = {"sequences_complete": 0, "sequences_truncated": 0, "cases_without_sequence": 0, "policy_first": 0,
            "iterations": 0, "cut_inside_sequence": 0, "restarts": 0, "calls": 0}
    seen = set()
    for c, (ob, g, e) in zip(cases, res):
        starts = sum(1 for (o, ts, ev) in ob["bus"] if ev["eventtype"] == "init-start")
        stops = sum(1 for (o, ts, ev) in ob["bus"] if ev["eventtype"] == "init-stop")
        hist["sequences_complete"] += stops
        hist["sequences_truncated"] += starts - stops
        hist["cases_without_sequence"] += stops == 0
        hist["policy_first"] += c["first"]
        for it, o in zip(ob["sessions"]["iters"], ob["iters"]):
            hist["iterations"] += 1
            hist["restarts"] += bool(it.get("restart"))
            hist["calls"] += len(o["calls"])
            hist["cut_inside_sequence"] += (o["init"][0] is not None and o["next"] is not None and o["next"] <= o["init"][1])
        seen.add(json.dumps([(ev["evcategory"], ev["eventtype"]) for (o, ts, ev) in ob["bus"]]) + str(c["first"]))
    return {"evaluations": len(cases), "distinct_nontrivial": len(seen),
            "rule": "buses produced by the real server: 3-6 polls with 0-3 initsync requests at random points, sequences and cycles cut by "
                    "refused sends (truncated sequences, re-emitted later); real client started without state, visibility limit growing by "
                    "random steps, consumer stopping after a random number of events (cut inside the sequence), restarts at random "
                    "iterations, both values of useFirstInitsyncSequence; oracle on bus + observations alone (5 clauses)",
            "samples": [{"plan": cases[0]["plan"], "first": cases[0]["first"]}],
            "violations": violations, "corr_failures": corr, "coverage_extra": {"histogram": hist}}


def replay(obj):
    class C:
        pass
    ctx = C()
    ctx.work = common.workdir("replay")
    case = common.dec(obj["case"])
    r, g, e = _worker((case, ctx.work + "/r"))
    if e:
        print(e)
        return 2
    failing = srvprops.coq_eval(ctx, "replay", [g], f="corr_icase", g="c12_case", require="Corr.RunInit", typ="icase",
                                checker="check_icases")
    c_ok, o_ok = failing.get(0, (True, True))
    print(f"replay: correspondence={'ok' if c_ok else 'FAILS'} oracle(c12_case)={'ok' if o_ok else 'FAILS'}")
    return 0 if (c_ok and o_ok) else 1

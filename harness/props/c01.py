"""C01 - replaying the bus reproduces the source view."""
import srvprops

OPTS = {"p_fail": 0.0, "p_isync": 0.15, "p_restart": 0.15, "p_openfail": 0.03, "maxsteps": 6}


def lost_secret_across_restart(case, obs):
    """Signature of finding F13: a secret attribute disappears from the source while
    the server is down (restart between two views) -> never withdrawn."""
    cfg = case["cfg"]
    secrets = {t["name"]: set(t["secret"]) for t in cfg["types"]}
    last_view, restarted = None, False
    for st, ob in zip(case["steps"], obs):
        if st["op"] == "restart":
            restarted = True
            continue
        if not ob["views"]:
            continue
        view = ob["views"][-1]
        if restarted and last_view is not None:
            for t, objs in view.items():
                for k, o in objs.items():
                    old = last_view.get(t, {}).get(k)
                    if old is not None and any(a in old and a not in o for a in secrets.get(t, ())):
                        return "F13-secret-removed-while-server-down"
        # the cache is only refreshed by a poll that got through
        if not any(r[0] in ("sendfail", "openfail") for r in ob["trace"]):
            last_view, restarted = view, False
    return None


def run(ctx):
    n = ctx.n(400, 12000)
    return srvprops.generic_server_run(
        ctx, n, OPTS, "c01_case", sig_fn=lost_secret_across_restart,
        what="replay of the observed bus differs from the observed server view")


def replay(obj):
    return srvprops.replay_server_case(obj, "c01_case")

"""C10 - trashbin: trashed at once, removed only after retention, recycled on return."""
import cliprops
import common

CLAUSES = {1: "a removal was applied as 'trashed' although retention is 0",
           2: "the definitive 'removed' was applied before the retention of the removal event was over",
           3: "a parent was purged before a child referencing it",
           4: "retention > 0 but a live object was removed without going through the trashbin",
           5: "an object still in the trashbin was applied as 'added' (not 'recycled')",
           6: "'recycled' applied to an object that is not in the trashbin (or with retention 0)",
           7: "the recycled object is not the object that was trashed",
           8: "the 'modified' following a 'recycled' does not carry exactly the differences",
           10: "a trashbin timestamp is not the bus timestamp of a removal event of that object",
           11: "retention 0: an object is both live and trashed",
           14: "retention 0: in the expected-state caches an object removed and re-added on the bus is both live and trashed",
           15: "retention 0: in the expected-state caches an object is both live and trashed",
           16: "a re-add that had been queued behind its object's removal is recycled, but the 'modified' that follows is not its difference",
           17: "retention switched to 0: a queued re-add of an object still in the trashbin is retried as a plain 'added'",
           12: "an expired object was not handed to the purge at the first pass after its retention",
           13: "something remains of a definitively removed object"}
ORACLES = [f"(c10_clause {k})" for k in sorted(CLAUSES)]


def directed_cases():
    """two objects of one type trashed at different times, in both key orders, purge passes
    placed just before / just after each retention limit, with and without a restart
    (the reload sorts the trashbin by key) before the first purge pass"""
    import copy
    import random
    import clicase
    import srvcase
    rng = random.Random(11)
    base = None
    while base is None or len(base["cfg"]["types"]) != 1 or not base["cdm"]:
        base = clicase.gen_case(rng, {"shape": "flat", "retention": 1, "ntypes": 1, "p_unmapped_type": 0.0})
        base["cfg"]["types"] = base["cfg"]["types"][:1]
        base["cdm"] = {l: d for l, d in base["cdm"].items() if d["hermesType"] == base["cfg"]["types"][0]["name"]}
    t = base["cfg"]["types"][0]
    row = lambda k: dict({a: 1 for a in t["attrs"] if a not in t["pkey"]}, **{t["pkey"][0]: k})
    DAY = clicase.DAY
    out = []
    for (a, b) in ((2, 1), (1, 2)):
        for R in (1, 2):
            for gap in (3600, DAY):
                for restart in (False, True):
                    tabs = [{t["name"]: {1: row(1), 2: row(2)}}, {t["name"]: {b: row(b)}}, {t["name"]: {}}]
                    c = copy.deepcopy(base)
                    c["polls"] = [srvcase.to_remote_tables(c["cfg"], x) for x in tabs]
                    c["retention"], c["fkpolicy"], c["remediation"] = R, "disabled", "disabled"
                    ta, tb = 1000, 1000 + gap
                    c["ts_override"] = {"1": 1, "2": 2, "3": 10, "4": 20, "5": ta, "6": tb}
                    nows = sorted({tb + 10, ta + R * DAY - 1, ta + R * DAY + 1, tb + R * DAY - 1, tb + R * DAY + 1,
                                   tb + R * DAY + 3600})
                    nows = [n for n in nows if n >= tb + 10]
                    its = [{"limit": 6, "now": n, "restart": restart and i == 1, "faults": False} for i, n in enumerate(nows)]
                    c["sessions"] = {"iters": its, "outcomes": ["ok"] * 40}
                    c["sseed"], c["session_opts"] = 0, {}
                    out.append(c)
    return out


def directed_family_cases():
    """a parent and its child (type names in an order that is NOT alphabetical) leave the source in
    one poll; the client trashes both, is restarted (or not), and one purge pass after the
    retention finds both expired: the child must be handed over first"""
    import copy
    import random
    import clicase
    import srvcase
    rng = random.Random(12)
    out = []
    DAY = clicase.DAY
    for revnames in (1.0, 0.0):
        base = None
        while base is None or len(base["cfg"]["types"]) != 2 or len(base["cdm"]) != 2 \
                or not base["cfg"]["types"][1]["fks"] or any(len(t["pkey"]) != 1 for t in base["cfg"]["types"]):
            base = clicase.gen_case(rng, {"shape": "chain", "retention": 1, "ntypes": 2, "p_unmapped_type": 0.0,
                                          "p_revnames": revnames})
        tp, tc = base["cfg"]["types"]
        row = lambda t, k: dict({a: 1 for a in t["attrs"] if a not in t["pkey"] and a not in t["fks"]},
                                **{a: k for a in set(t["pkey"]) | set(t["fks"])})
        for restart in (True, False):
            for fk in ("disabled", "on_remove_event"):
                tabs = [{tp["name"]: {1: row(tp, 1), 2: row(tp, 2)}, tc["name"]: {1: row(tc, 1), 2: row(tc, 2)}},
                        {tp["name"]: {2: row(tp, 2)}, tc["name"]: {2: row(tc, 2)}}]
                c = copy.deepcopy(base)
                c["polls"] = [srvcase.to_remote_tables(c["cfg"], x) for x in tabs]
                c["retention"], c["fkpolicy"], c["remediation"] = 1, fk, "disabled"
                n = 2 + 4 + 2           # init-start/stop, four 'added', two 'removed'
                c["ts_override"] = {str(i + 1): 10 * (i + 1) for i in range(n)}
                its = [{"limit": n, "now": 200, "restart": False, "faults": False},
                       {"limit": n, "now": 300, "restart": restart, "faults": False},
                       {"limit": n, "now": 100 + DAY + 3600, "restart": False, "faults": False},
                       {"limit": n, "now": 100 + DAY + 7200, "restart": False, "faults": False}]
                c["sessions"] = {"iters": its, "outcomes": ["ok"] * 40}
                c["sseed"], c["session_opts"] = 0, {}
                out.append(c)
    return out


def directed_queued_removal_cases():
    """the 'trashed' handler of a removal keeps failing while the client is restarted twice (the
    error queue is saved and reloaded twice with the event pending), then succeeds: the object must
    be trashed with the bus timestamp of its removal event and stay until that + retention"""
    import copy
    import random
    import clicase
    import srvcase
    rng = random.Random(13)
    base = None
    while base is None or len(base["cfg"]["types"]) != 1 or not base["cdm"]:
        base = clicase.gen_case(rng, {"shape": "flat", "retention": 1, "ntypes": 1, "p_unmapped_type": 0.0})
        base["cfg"]["types"] = base["cfg"]["types"][:1]
        base["cdm"] = {l: d for l, d in base["cdm"].items() if d["hermesType"] == base["cfg"]["types"][0]["name"]}
    t = base["cfg"]["types"][0]
    lname = list(base["cdm"])[0]
    row = lambda k: dict({a: 1 for a in t["attrs"] if a not in t["pkey"]}, **{t["pkey"][0]: k})
    DAY = clicase.DAY
    out = []
    for R in (1, 2):
        for nfail in (2, 3):
            c = copy.deepcopy(base)
            c["polls"] = [srvcase.to_remote_tables(c["cfg"], x) for x in ({t["name"]: {1: row(1)}}, {t["name"]: {}})]
            c["retention"], c["fkpolicy"], c["remediation"] = R, "disabled", "disabled"
            c["ts_override"] = {"1": 1, "2": 2, "3": 10, "4": 1000}
            its = [{"limit": 4, "now": 1100, "restart": False, "faults": True},
                   {"limit": 4, "now": 1200, "restart": True, "faults": True},
                   {"limit": 4, "now": 1300, "restart": True, "faults": True},
                   {"limit": 4, "now": 1400, "restart": nfail == 3, "faults": True},
                   {"limit": 4, "now": 1500, "restart": False, "faults": True},
                   {"limit": 4, "now": 1000 + R * DAY - 10, "restart": False, "faults": False},
                   {"limit": 4, "now": 1000 + R * DAY + 3600, "restart": False, "faults": False},
                   {"limit": 4, "now": 1000 + R * DAY + 7200, "restart": False, "faults": False}]
            c["sessions"] = {"iters": its, "outcomes": ["ok"] * 40, "fail_rule": {f"on_{lname}_trashed|1": nfail}}
            c["sseed"], c["session_opts"] = 0, {}
            out.append(c)
    return out


def switched_with_pending(case, ob):
    """retention goes from R>0 to 0 at a restart while the error queue holds events queued under R>0"""
    its = ob["sessions"]["iters"]
    for j in range(1, len(its)):
        if its[j].get("restart") and its[j].get("retention", case["retention"]) == 0 \
                and its[j - 1].get("retention", case["retention"]) > 0 and ob["iters"][j - 1]["queue"]:
            return True
    return False


def signature(bad, case=None, ob=None):
    if bad and set(bad) <= {14, 16}:
        return "F5-readd-while-removal-queued"
    if set(bad) <= {17, 14, 15, 11, 13, 16} and case is not None and switched_with_pending(case, ob):
        return "F23-retention-switched-to-0-with-queued-events"
    return None


def run(ctx):
    n = ctx.n(240, 6000)

    def copts(rng):
        return {"retention": rng.choice([1, 1, 2]), "remediation": "disabled",
                "shape": rng.choice(["flat", "chain", "chain2", "chain"]),
                "fkpolicy": rng.choice(["on_remove_event", "disabled", "on_every_event"]), "maxpolls": 6,
                "p_revnames": 0.5}

    def sopts(rng):
        return {"p_fail": rng.choice([0.0, 0.2, 0.35]), "p_partial": 0.15, "clock": True,
                "p_restart": rng.choice([0.0, 0.15, 0.3]), "spread_ts": rng.random() < 0.7, "aim_expiry": rng.random() < 0.7}

    def tweak(rng, c):
        if rng.random() < 0.4:
            c["session_opts"]["retention_switch"] = [c["retention"], 0]
            c["session_opts"]["p_restart"] = max(c["session_opts"]["p_restart"], 0.2)
        elif rng.random() < 0.15:
            c["retention"] = 0
    directed = directed_cases() + directed_family_cases() + directed_queued_removal_cases()
    cases = directed + cliprops.gen_cases(ctx, n, copts, sopts, tweak=tweak)
    for i, c in enumerate(cases):
        c["subsecond"] = i % 2 == 1       # half of the histories with bus timestamps off the whole second
    res = cliprops.srvprops.run_cases(ctx, cases, modname="clicase")
    errs = [(i, e) for i, (o, g, e) in enumerate(res) if e]
    if errs:
        raise RuntimeError(f"client driver error on case {errs[0][0]}:\n{errs[0][1]}")
    failing = cliprops.srvprops.coq_eval(ctx, "c10", [g for _, g, _ in res], f="corr_ccase", g="c10_case",
                                         require="Corr.RunC10", typ="ccase", checker="check_ccases", shard=25)
    sub = cliprops.sub_oracles(ctx, res, failing, ORACLES, "c10sub", require="Corr.RunC10")
    violations, corr = [], []
    clause_hist = {}
    for i, (c_ok, o_ok) in sorted(failing.items()):
        rep = {"replay_kind": "client_case", "case": common.enc(cases[i])}
        if not o_ok:
            bad = [k for k, o in zip(sorted(CLAUSES), ORACLES) if not sub[i][o]]
            for k in bad:
                clause_hist[k] = clause_hist.get(k, 0) + 1
            violations.append({"sig": signature(bad, cases[i], res[i][0]), "clauses": bad,
                               "what": "; ".join(CLAUSES[k] for k in bad) + f" (case {i})", **rep})
        elif not c_ok:
            corr.append({"what": f"corr_client (trashbin): client model != GenericClient on case {i}", **rep})
    hist, distinct = cliprops.stats(cases, res)
    hist["directed_cases"] = len(directed)
    hist["retention_switch_cases"] = sum(1 for c in cases if c["session_opts"].get("retention_switch"))
    hist["purge_removals"] = sum(1 for (ob, g, e) in res for it in ob["iters"] for c in it["calls"]
                                 if c["h"].endswith("_removed") and not c["retry"])
    return {"evaluations": len(cases), "distinct_nontrivial": distinct,
            "rule": "real-server buses with remove / re-add / modify-after-re-add patterns over flat and chained types (half of them with type names whose "
                    "alphabetical order is not the declaration order), directed parent+child expiries in one purge pass after a restart, retention 1-2 days, "
                    "a virtual clock jumping 10 s .. 2 days per loop iteration, handler failures on every kind of call, restarts, retention "
                    "switched between R and 0 at restarts; observation-only oracle (13 clauses) on the handler log, the clock, the bus "
                    "timestamps and the eight caches + queue after every iteration",
            "samples": [{"retention": cases[0]["retention"], "iters": len(res[0][0]["iters"])}],
            "violations": violations, "corr_failures": corr,
            "coverage_extra": {"histogram": hist, "violated_clauses": {str(k): v for k, v in clause_hist.items()}}}


def replay(obj):
    return cliprops.replay_case(obj, "c10_case", require="Corr.RunC10")

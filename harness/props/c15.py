"""C15 - secret, local and cache-only attribute values go only where allowed."""
import json
import os
import random
import traceback
from concurrent.futures import ProcessPoolExecutor

import common
import secretcase
import srvprops

WHAT = {
    "secret-in-initsync": "a secret value is carried by an initsync sequence",
    "local-value-on-bus": "a local attribute value left the server on the bus",
    "cacheonly-value-on-bus": "a cache-only attribute value was published on the bus",
    "secret-not-delivered": "a secret value of a published object was never delivered in a base event",
    "event-for-hidden-only-change": "a change of local / cache-only attributes only produced events",
    "secret-in-server-cache-file": "a secret value was written to a server cache file",
    "local-value-in-server-cache-file": "a local attribute value was written to a server cache file",
    "cacheonly-value-not-cached": "the cache-only value of a freshly published object is not in the server cache files",
    "secret-in-client-cache-file": "a secret value was written to a client cache file other than the error queue",
    "hidden-value-in-client-file": "a local / cache-only value reached a client file",
    "secret-in-server-log": "a secret value appears in a server log record",
    "secret-in-client-log": "a secret value appears in a client log record",
    "schema-reveals-hidden-attribute": "the schema announced to clients reveals a local / cache-only attribute",
    "hidden-attribute-named-in-event": "an event names a local / cache-only attribute",
}


def _worker(args):
    case, wd = args
    try:
        srvprops._init_worker()
        res = secretcase.run_case(case, wd)
        viol, stats = secretcase.analyse(case, res)
        return viol, stats, None
    except Exception:
        return None, None, traceback.format_exc()


def run(ctx):
    n = ctx.n(120, 3000)
    rng = random.Random(ctx.seed)
    cases = [secretcase.gen_case(rng) for _ in range(n)]
    with ProcessPoolExecutor(max_workers=14) as ex:
        res = list(ex.map(_worker, [(c, os.path.join(ctx.work, f"s{i}")) for i, c in enumerate(cases)], chunksize=2))
    errs = [(i, e) for i, (v, s, e) in enumerate(res) if e]
    if errs:
        raise RuntimeError(f"driver error on case {errs[0][0]}:\n{errs[0][1]}")
    violations = []
    tot = {"tokens": {"SEC": 0, "LOC": 0, "CON": 0, "PLN": 0}, "log_records": 0, "files_scanned": 0, "bus_events": 0,
           "hidden_only_polls": 0, "sec_delivered": 0, "client_crashes": 0, "two_source_cases": 0, "verbosity": {}, "remediation": {}}
    for i, (c, (viol, stats, _)) in enumerate(zip(cases, res)):
        for k in ("log_records", "files_scanned", "bus_events", "hidden_only_polls", "sec_delivered", "client_crashes"):
            tot[k] += stats[k]
        for k, v in stats["tokens"].items():
            tot["tokens"][k] += v
        tot["two_source_cases"] += bool(c.get("src2"))
        tot["verbosity"][c["verbosity"]] = tot["verbosity"].get(c["verbosity"], 0) + 1
        tot["remediation"][c["remediation"]] = tot["remediation"].get(c["remediation"], 0) + 1
        kinds = sorted(set(v[0] for v in viol))
        if kinds:
            violations.append({"sig": None, "what": "; ".join(WHAT.get(k, k) for k in kinds) + f" (case {i}; first: {viol[0]})",
                               "replay_kind": "secret_case", "case": common.enc(c), "leaks": [list(v) for v in viol[:20]]})
    return {"evaluations": len(cases), "distinct_nontrivial": len(cases),
            "rule": "unique marker tokens in every attribute value of every class (secret / local / cache-only / plain; scalars, lists, "
                    "dicts, nested) through 3-6 polls of the real server (initsync before and after polls, restarts, polls changing only "
                    "hidden attributes, optionally a second source conflicting on the secret attribute) and a real client with handler "
                    "failures, auto-remediation and restarts; every log record (captured at debug = superset of every verbosity), every "
                    "file under both cache directories after every step and every bus payload scanned for the tokens",
            "samples": [{"types": [(t["name"], t["secret"], t["local"], t["cacheonly"]) for t in cases[0]["cfg"]["types"]]}],
            "violations": violations, "corr_failures": [],
            "trusted_base": ["the marker scan itself (regular expression over decoded file contents, log messages and JSON bus payloads)"],
            "coverage_extra": {"histogram": tot}}


def replay(obj):
    case = common.dec(obj["case"])
    viol, stats, e = _worker((case, common.workdir("replay") + "/s"))
    if e:
        print(e)
        return 2
    for v in viol[:20]:
        print("leak:", v)
    print(f"replay: {len(viol)} leak(s)")
    return 1 if viol else 0

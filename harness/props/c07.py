"""C07 - handler failures stay isolated per object, keep its order, heal when faults end."""
import cliprops


def kstr(k):
    """printable key, the same for a tuple and for the list the JSON round trip makes of it"""
    return str(tuple(k)) if isinstance(k, (list, tuple)) else str(k)


def lifecycle_has_readd(case, res):
    """signature helper: an object is re-added on the bus after having been removed
    (the scenarios of findings F5 / F17: re-add while a removal is still queued)"""
    removed = set()
    for (o, ts, ev) in res["bus"]:
        if ev["evcategory"] != "base":
            continue
        i = (ev["objtype"], kstr(ev["objpkey"]))
        if ev["eventtype"] == "removed":
            removed.add(i)
        elif ev["eventtype"] == "added" and i in removed:
            return True
    return False


def readd_while_queued(res):
    """F5 proper: at the end of some iteration the error queue holds, for one object, a 'removed'
    entry and behind it a younger 'added' entry (the re-add arrived while the removal - and
    whatever was queued before it - was still waiting). A removal merged away by auto-remediation
    at once never shows this."""
    for ob in res["iters"]:
        seen_removed = set()
        for q in ob["queue"]:
            i = (q["local"][1], kstr(q["local"][2]))
            if q["local"][0] == "removed":
                seen_removed.add(i)
            elif q["local"][0] == "added" and i in seen_removed:
                return True
    return False


def readded_objects(res):
    removed, out = set(), set()
    for (o, ts, ev) in res["bus"]:
        if ev["evcategory"] != "base":
            continue
        i = (ev["objtype"], kstr(ev["objpkey"]))
        if ev["eventtype"] == "removed":
            removed.add(i)
        elif ev["eventtype"] == "added" and i in removed:
            out.add(i)
    return out


def readded_object_was_queued(case, res):
    """an object removed and re-added on the bus has an error-queue entry at the end of some iteration"""
    rname = {l: d["hermesType"] for l, d in case["cdm"].items()}
    re = readded_objects(res)
    for ob in res["iters"]:
        for q in ob["queue"]:
            if (rname.get(q["local"][1]), kstr(q["local"][2])) in re:
                return True
    return False


def recycled_from_queue(res):
    """F30: a re-add within retention is applied as 'recycled' by a *retry* of the error queue: the
    'modified' carrying the differences is then appended to the end of the queue as a local-only
    entry while the retried 'added' entry is still there"""
    return any(c["h"].endswith("_recycled") and c["retry"] for ob in res["iters"] for c in ob["calls"])


def f5(case, res):
    return lifecycle_has_readd(case, res) and readd_while_queued(res)


def older_modified_retried_while_younger_queued(case, res):
    """signature of F19: a queued event is retried successfully while a younger event of
    the same object is still queued - the retry rewrites the expected-state (complete)
    caches from the older event (re-applies an old 'modified', re-adds an object whose
    queued 'removed' was already simulated), which regress until the younger is applied.
    The queue is the one seen by the retried handler call itself (the entry being retried is
    still in it: two entries of the object = a younger one is waiting), or, failing that
    observation, the queue at the end of the iteration."""
    for ob in res["iters"]:
        queued = {(q["local"][1], kstr(q["local"][2])) for q in ob["queue"]}
        for c in ob["calls"]:
            if c["retry"] and c["out"] == "ok":
                lt = "_".join(c["h"].split("_")[1:-1])
                me = (lt, kstr(c["key"]))
                if me in queued:
                    return True
                if sum(1 for q in (c.get("qobjs") or []) if (q[0], kstr(q[1])) == me) >= 2:
                    return True
    return False


def sig(case, res):
    if f5(case, res):
        return "F5-readd-while-removal-queued"
    if older_modified_retried_while_younger_queued(case, res):
        return "F19-complete-cache-regresses-on-retry"
    return None


def run(ctx):
    cases = cliprops.gen_cases(ctx, ctx.n(200, 6000), {"retention": 0, "remediation": "disabled"},
                               {"p_fail": 0.4, "p_partial": 0.25, "extra_iters": 6})
    res, failing = cliprops.run_and_eval(ctx, cases, "c07_case", "c07")
    sub = cliprops.sub_oracles(ctx, res, failing, ["c07_fifo_case", "c07_complete_case", "c07_healed_case", "c07_marker_case"], "c07s")

    def sig_fn_idx(i):
        r = res[i][0]
        parts = sub.get(i, {})
        if f5(cases[i], r):
            return "F5-readd-while-removal-queued"
        # F19 only explains a transient divergence of the expected-state caches
        if parts.get("c07_fifo_case") and parts.get("c07_healed_case") and older_modified_retried_while_younger_queued(cases[i], r):
            return "F19-complete-cache-regresses-on-retry"
        return None
    violations, corr = [], []
    for i, (c_ok, o_ok) in sorted(failing.items()):
        rep = {"replay_kind": "client_case", "case": cliprops.common.enc(cases[i])}
        if not o_ok:
            failed = [k for k, v in sub.get(i, {}).items() if not v]
            violations.append({"sig": sig_fn_idx(i), "what": f"C07 oracle(s) {failed} false on case {i}: per-object order / expected-state caches / healing / progress marker kept with the parked event", **rep})
        elif not c_ok:
            corr.append({"what": f"corr_client: client model != GenericClient on case {i}", **rep})
    hist, distinct = cliprops.stats(cases, res)
    return {"evaluations": len(cases), "distinct_nontrivial": distinct,
            "rule": "real-server buses consumed by the real client under random handler-outcome schedules (each invocation fails with p=0.4 up to a random "
                    "point, a quarter of the failures after partial processing with a step number), failures on retries included, retry pass at every "
                    "iteration, 6 extra iterations to drain; trashbin off; non-trivial = at least one handler call; distinct by (handler, key, outcome) sequence",
            "samples": [{"outcomes": res[0][0]["sessions"]["outcomes"][:12],
                         "calls": [(c["h"], kstr(c["key"]), c["out"]) for it in res[0][0]["iters"] for c in it["calls"]][:12]}],
            "violations": violations, "corr_failures": corr, "coverage_extra": {"histogram": hist}}


def replay(obj):
    return cliprops.replay_case(obj, "c07_case")

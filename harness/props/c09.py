"""C09 - foreign-key policy: no parent is touched ahead of its child's pending errors."""
import cliprops
import props.c07 as c07


def tweak(rng, c):
    # failures concentrated on the child types
    children = ["L" + t["name"] for t in c["cfg"]["types"] if t["fks"]]
    c["session_opts"]["fail_types"] = children if rng.random() < 0.8 else None


def directed_cases():
    """two memberships of one group and the group itself are removed in one poll; the removal of
    one membership keeps failing, the other one recovers after one retry: the group must stay
    until the first membership is gone (the parent index must remember every dependant)"""
    import copy
    import random
    import clicase
    import srvcase
    rng = random.Random(5)
    base = None
    while base is None or [t["name"] for t in base["cfg"]["types"]] != ["Ta", "Tb", "Tc"] or len(base["cdm"]) != 3:
        base = clicase.gen_case(rng, {"shape": "assoc", "retention": 0, "p_unmapped_type": 0.0})
    ta, tb, tc = base["cfg"]["types"]
    row = lambda t, **k: dict({a: 1 for a in t["attrs"] if a not in t["pkey"]}, **k)
    p1 = {"Ta": {1: row(ta, id=1), 2: row(ta, id=2)}, "Tb": {1: row(tb, id=1), 2: row(tb, id=2)},
          "Tc": {(1, 1): row(tc, aid=1, bid=1), (1, 2): row(tc, aid=1, bid=2), (2, 1): row(tc, aid=2, bid=1)}}
    p2 = {"Ta": {2: row(ta, id=2)}, "Tb": {1: row(tb, id=1), 2: row(tb, id=2)}, "Tc": {(2, 1): row(tc, aid=2, bid=1)}}
    out = []
    for pol in ("on_remove_event", "on_every_event"):
        for longkey, shortkey in (((1, 1), (1, 2)), ((1, 2), (1, 1))):
            c = copy.deepcopy(base)
            c["polls"] = [srvcase.to_remote_tables(c["cfg"], p1), srvcase.to_remote_tables(c["cfg"], p2)]
            c["fkpolicy"], c["retention"], c["remediation"] = pol, 0, "disabled"
            its = [{"limit": 9, "now": 10, "restart": False, "faults": True}]
            its += [{"limit": 12, "now": 20 + 10 * j, "restart": False, "faults": True} for j in range(4)]
            its += [{"limit": 12, "now": 100 + 10 * j, "restart": False, "faults": False} for j in range(4)]
            c["sessions"] = {"iters": its, "outcomes": ["ok"] * 60,
                             "fail_rule": {f"on_LTc_removed|{longkey!r}": 4, f"on_LTc_removed|{shortkey!r}": 1}}
            c["sseed"], c["session_opts"] = 0, {}
            out.append(c)
            # the same with the client restarted right after the group's removal was deferred: the
            # parent index is rebuilt from the caches when the queue is reloaded
            c2 = copy.deepcopy(c)
            c2["sessions"]["iters"][2]["restart"] = True
            out.append(c2)
    # twin parents: the two parents of a membership hold the same local data (same attribute names
    # and values, e.g. a user and its private group); the membership's 'added' keeps failing while
    # both parents are modified, then removed together with it
    q1 = {"Ta": {1: row(ta, id=1), 2: row(ta, id=2)}, "Tb": {1: row(tb, id=1), 2: row(tb, id=2)},
          "Tc": {(1, 1): row(tc, aid=1, bid=1), (2, 2): row(tc, aid=2, bid=2)}}
    q2 = copy.deepcopy(q1)
    q2["Ta"][1]["x"], q2["Tb"][1]["x"] = 2, 2
    q3 = {"Ta": {2: q2["Ta"][2]}, "Tb": {2: q2["Tb"][2]}, "Tc": {(2, 2): q2["Tc"][(2, 2)]}}
    if "x" in ta["attrs"] and "x" in tb["attrs"]:
        for pol in ("on_remove_event", "on_every_event"):
            for nfail in (3, 6):
                c = copy.deepcopy(base)
                c["cdm"]["LTa"]["attrsmapping"] = {"l_x": "x"}
                c["cdm"]["LTb"]["attrsmapping"] = {"l_x": "x"}
                c["polls"] = [srvcase.to_remote_tables(c["cfg"], q) for q in (q1, q2, q3)]
                c["fkpolicy"], c["retention"], c["remediation"] = pol, 0, "disabled"
                its = [{"limit": 8, "now": 10, "restart": False, "faults": True},
                       {"limit": 10, "now": 20, "restart": False, "faults": True}]
                its += [{"limit": 13, "now": 30 + 10 * j, "restart": False, "faults": True} for j in range(3)]
                its += [{"limit": 13, "now": 100 + 10 * j, "restart": False, "faults": False} for j in range(4)]
                c["sessions"] = {"iters": its, "outcomes": ["ok"] * 60, "fail_rule": {f"on_LTc_added|{(1, 1)!r}": nfail}}
                c["sseed"], c["session_opts"] = 0, {}
                out.append(c)
    return out


def run(ctx):
    n = ctx.n(240, 6000)

    def copts(rng):
        return {"retention": rng.choice([0, 0, 1]), "remediation": "disabled",
                "shape": rng.choice(["chain", "chain2", "assoc", "assoc"]),
                "fkpolicy": rng.choice(["on_remove_event", "on_every_event", "on_remove_event", "disabled"])}
    directed = directed_cases()
    # (the clock jumps by hours and days in a third of the histories: with a retention the purge
    #  passes then remove trashed children and parents for good)
    cases = directed + cliprops.gen_cases(ctx, n, copts, lambda rng: {"p_fail": 0.55, "p_partial": 0.1, "clock": rng.random() < 0.34, "p_restart": rng.choice([0.0, 0.0, 0.25])}, tweak=tweak)
    res, failing = cliprops.run_and_eval(ctx, cases, "c09_case", "c09")
    violations, corr = [], []
    control_breaks = 0
    sub = cliprops.sub_oracles(ctx, res, failing, ["c09_target", "c09_policy", "c09_case_noreadd", "c09_case_nostale", "c09_case_excused"], "c09sub")
    for i, (c_ok, o_ok) in sorted(failing.items()):
        rep = {"replay_kind": "client_case", "case": cliprops.common.enc(cases[i])}
        if not o_ok:
            if cases[i]["fkpolicy"] == "disabled":
                control_breaks += 1          # expected: the control in which the invariant breaks
                continue
            # F5 applies only when the sole offending parents are objects removed and re-added on the bus
            sig = ("F5-readd-while-removal-queued" if sub[i]["c09_case_noreadd"] else
                   "F21-parent-or-child-absent-when-child-error-queued" if sub[i]["c09_case_nostale"] else
                   "F5+F21" if sub[i]["c09_case_excused"] else None)
            parts = [n for n, k in (("a parent was removed/trashed on the target while a child referencing it was still there", "c09_target"),
                                    ("a handler covered by the policy ran on a parent while a child had queue entries", "c09_policy")) if not sub[i][k]]
            violations.append({"sig": sig, "what": f"policy {cases[i]['fkpolicy']}: {'; '.join(parts)} (case {i})", **rep})
        elif not c_ok:
            corr.append({"what": f"corr_client (fk policy {cases[i]['fkpolicy']}): client model != GenericClient on case {i}", **rep})
    hist, distinct = cliprops.stats(cases, res)
    pol = {}
    for c in cases:
        pol[c["fkpolicy"]] = pol.get(c["fkpolicy"], 0) + 1
    return {"evaluations": len(cases), "distinct_nontrivial": distinct,
            "rule": "real-server buses over foreign-key chains, two children per parent and two-parent composite keys, handler failures concentrated on the "
                    "child types, the three policies (disabled = control); oracles on observations alone: (a) replaying the successful calls, no "
                    "removed/trashed call hits a parent that still has a child on the target; (b) no handler of an event kind covered by the policy "
                    "runs on a parent present on the target while another object having it among its transitive parents has queue entries "
                    "(queue content read at every handler invocation)",
            "samples": [{"policy": cases[0]["fkpolicy"], "types": [(t["name"], t["fks"]) for t in cases[0]["cfg"]["types"]]}],
            "violations": violations, "corr_failures": corr,
            "coverage_extra": {"histogram": hist, "policies": pol, "control_cases_where_invariant_breaks": control_breaks}}


def replay(obj):
    return cliprops.replay_case(obj, "c09_case")

"""C09 - foreign-key policy: no parent is touched ahead of its child's pending errors."""
import cliprops
import props.c07 as c07


def tweak(rng, c):
    # failures concentrated on the child types
    children = ["L" + t["name"] for t in c["cfg"]["types"] if t["fks"]]
    c["session_opts"]["fail_types"] = children if rng.random() < 0.8 else None


def run(ctx):
    n = ctx.n(240, 6000)

    def copts(rng):
        return {"retention": rng.choice([0, 0, 1]), "remediation": "disabled",
                "shape": rng.choice(["chain", "chain2", "assoc", "assoc"]),
                "fkpolicy": rng.choice(["on_remove_event", "on_every_event", "on_remove_event", "disabled"])}
    cases = cliprops.gen_cases(ctx, n, copts, {"p_fail": 0.55, "p_partial": 0.1, "clock": False}, tweak=tweak)
    res, failing = cliprops.run_and_eval(ctx, cases, "c09_case", "c09")
    violations, corr = [], []
    control_breaks = 0
    sub = cliprops.sub_oracles(ctx, res, failing, ["c09_target", "c09_policy", "c09_case_noreadd", "c09_case_nostale", "c09_case_excused"], "c09sub")
    for i, (c_ok, o_ok) in sorted(failing.items()):
        rep = {"replay_kind": "client_case", "case": cliprops.common.enc(cases[i])}
        if not o_ok:
            if cases[i]["fkpolicy"] == "disabled":
                control_breaks += 1          # expected: the control in which the invariant breaks
                continue
            # F5 applies only when the sole offending parents are objects removed and re-added on the bus
            sig = ("F5-readd-while-removal-queued" if sub[i]["c09_case_noreadd"] else
                   "F21-parent-or-child-absent-when-child-error-queued" if sub[i]["c09_case_nostale"] else
                   "F5+F21" if sub[i]["c09_case_excused"] else None)
            parts = [n for n, k in (("a parent was removed/trashed on the target while a child referencing it was still there", "c09_target"),
                                    ("a handler covered by the policy ran on a parent while a child had queue entries", "c09_policy")) if not sub[i][k]]
            violations.append({"sig": sig, "what": f"policy {cases[i]['fkpolicy']}: {'; '.join(parts)} (case {i})", **rep})
        elif not c_ok:
            corr.append({"what": f"corr_client (fk policy {cases[i]['fkpolicy']}): client model != GenericClient on case {i}", **rep})
    hist, distinct = cliprops.stats(cases, res)
    pol = {}
    for c in cases:
        pol[c["fkpolicy"]] = pol.get(c["fkpolicy"], 0) + 1
    return {"evaluations": len(cases), "distinct_nontrivial": distinct,
            "rule": "real-server buses over foreign-key chains, two children per parent and two-parent composite keys, handler failures concentrated on the "
                    "child types, the three policies (disabled = control); oracles on observations alone: (a) replaying the successful calls, no "
                    "removed/trashed call hits a parent that still has a child on the target; (b) no handler of an event kind covered by the policy "
                    "runs on a parent present on the target while another object having it among its transitive parents has queue entries "
                    "(queue content read at every handler invocation)",
            "samples": [{"policy": cases[0]["fkpolicy"], "types": [(t["name"], t["fks"]) for t in cases[0]["cfg"]["types"]]}],
            "violations": violations, "corr_failures": corr,
            "coverage_extra": {"histogram": hist, "policies": pol, "control_cases_where_invariant_breaks": control_breaks}}


def replay(obj):
    return cliprops.replay_case(obj, "c09_case")

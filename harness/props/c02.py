"""C02 - events exact and minimal; unchanged source silent."""
import srvprops

OPTS = {"p_fail": 0.1, "p_isync": 0.05, "p_restart": 0.0, "maxsteps": 5}


def run(ctx):
    n = ctx.n(400, 12000)
    return srvprops.generic_server_run(
        ctx, n, OPTS, "c02_case",
        what="an observed event is not the exact/minimal diff event between bus state and view")


def replay(obj):
    return srvprops.replay_server_case(obj, "c02_case")

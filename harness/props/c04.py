"""C04 - acknowledged only after the bus accepted it; commit queries."""
import srvprops

OPTS = {"p_fail": 0.5, "p_isync": 0.1, "p_restart": 0.15, "p_openfail": 0.08, "maxsteps": 7}


def run(ctx):
    n = ctx.n(400, 12000)
    return srvprops.generic_server_run(
        ctx, n, OPTS, "c04_case",
        what="accepted events repeat/skip a change, cache files differ from what was accepted, "
             "or a commit query ran at the wrong time")


def replay(obj):
    return srvprops.replay_server_case(obj, "c04_case")

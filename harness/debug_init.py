import sys, os, json
sys.path.insert(0, os.path.dirname(__file__))
import common, initcase, srvprops
srvprops._init_worker()
exprs = sys.argv[2:]
obj = json.load(open(sys.argv[1]))
case = common.dec(obj["case"])
res = initcase.run_case(case, common.workdir("dbg") + "/i")
print("first", case["first"], "plan", [(s["poll"], s["initsync"], s["cut"]) for s in case["plan"]])
for o, ts, ev in res["bus"]: print("  bus", o, ev["evcategory"], ev["eventtype"], ev["objtype"], ev["objpkey"])
for it, ob in zip(res["sessions"]["iters"], res["iters"]):
    print("ITER", it, "next", ob["next"], "init", ob["init"], "exc", (ob["exc"] or "")[-200:])
    for c in ob["calls"]: print("    call", c["h"], c["key"], c["out"])
g = initcase.case_to_gallina(case, res)
body = "From Hermes Require Import Corr.RunInit.\nDefinition x : icase := " + g + ".\nEval vm_compute in (icorr_detail x).\n" + "".join(f"Eval vm_compute in ({e}).\n" for e in exprs)
p = common.workdir("dbg") + "/init1.v"
open(p, "w").write(body)
print(common.run_coqc(p))

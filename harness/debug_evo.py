import sys, os, json
sys.path.insert(0, os.path.dirname(__file__))
import common, evocase, srvprops
srvprops._init_worker()
obj = json.load(open(sys.argv[1]))
case = common.dec(obj["case"])
res = evocase.run_case(case, common.workdir("dbg") + "/e")
print("edits", case["edits"]); print("cdmA", case["cdmA"]); print("cdmB", case["cdmB"])
for i, e in enumerate(res["bus"]): print(" bus", i + 1, "<<n1>>" if i + 1 == res["n1"] else "", e["evcategory"], e["eventtype"], e["objtype"], e["objpkey"], e["objattrs"] if e["eventtype"] not in ("init-start", "dataschema") else "")
print("snapA queue", [(q["num"], q["remote"] and q["remote"][:3], q["local"][:3]) for q in res["snapA"]["queue"]], "next", res["snapA"]["next"])
print("snapA local", res["snapA"]["localdata"])
for c in res["evolved_calls"]:
    if c["h"] != "on_save": print("  call", c["h"], c["key"], c["out"], c.get("retry"))
print("snapB queue", [(q["num"], q["remote"] and q["remote"][:3], q["local"][:3]) for q in res["snapB"]["queue"]], "next", res["snapB"]["next"])
print("snapB exc", (res["snapB"]["exc"] or "")[-400:])
for v in evocase.analyse(case, res): print("VIOL", v[0], v[1][:300])

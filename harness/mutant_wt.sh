#!/bin/bash
# usage: mutant_wt.sh <scratch worktree of /repo> <patch file> <Cxx> [<Cxx>...]
# applies the patch inside the scratch worktree, runs the quick checks against it
# (HERMES_REPO=<worktree>; /repo itself is not touched), and reverts the worktree.
here="$(cd "$(dirname "$0")/.." && pwd)"
wt="$1"; patch="$(readlink -f "$2")"; shift; shift
cd "$wt" || exit 2
git checkout -q -- . 2>/dev/null
if ! git apply "$patch" 2>/dev/null; then
  if ! git apply -3 "$patch" 2>/dev/null; then echo "PATCH-DOES-NOT-APPLY $patch"; git checkout -q -- .; exit 3; fi
fi
for p in "$@"; do
  out=$(cd "$here" && HERMES_REPO="$wt" ./check "$p" quick 2>&1); rc=$?
  echo "== $(basename $(dirname $patch)) $p rc=$rc: $(echo "$out" | grep -c '^VIOLATION') violation lines; $(echo "$out" | tail -1)"
  echo "$out" | grep -m2 "^VIOLATION" | cut -c1-300
done
git checkout -q -- . ; git reset -q

#!/bin/bash
# usage: mutant_wt.sh <worktree with patch.diff> <Cxx> [<Cxx>...]
# applies <worktree>/patch.diff inside the scratch worktree, runs the quick checks against it
# (HERMES_REPO=<worktree>; /repo is not touched), and reverts the worktree.
wt="$1"; shift
cd "$wt" || exit 2
git checkout -q -- . 2>/dev/null
if ! git apply patch.diff 2>/dev/null; then echo "PATCH-DOES-NOT-APPLY $wt"; exit 3; fi
for p in "$@"; do
  out=$(cd /verif && HERMES_REPO="$wt" ./check "$p" quick 2>&1); rc=$?
  echo "== $p rc=$rc: $(echo "$out" | grep -c '^VIOLATION') violation lines; $(echo "$out" | tail -1)"
  echo "$out" | grep -m3 "^VIOLATION" | cut -c1-400
done
git apply -R patch.diff

"""Configuration acceptance (C19): foreign-key schema enumeration against the real
Dataschema, and a walk over the published configuration schemas (omit every optional
setting, bounded settings at their limits, documented mistakes) against the real
HermesConfig / HermesServer / GenericClient start-up."""
import copy
import itertools
import os
import random
import re
import sys

import yaml

from common import glist, gbool

GERR = {"attr_unknown": "EAttrUnknown", "attr_notpkey": "EAttrNotPkey", "type_unknown": "ETypeUnknown",
        "toattr_unknown": "EToAttrUnknown", "to_tuple": "EToTuple", "to_notpkey": "EToNotPkey"}


# ---------------------------------------------------------------------------------------
# A. foreign-key schemas
# ---------------------------------------------------------------------------------------
def tname(i, naming=0):
    if naming == 1:       # every unknown type name is a substring of the known ones
        return f"T{i}x" if i < 6 else "T"
    return f"T{i}x"


def aname(i, a, naming=0):
    """naming 1: the names that are NOT (part of) the primary key are substrings / prefixes of
    the names that are, so that a comparison by containment instead of equality shows"""
    if naming == 1:
        return {0: f"k{i}_id", 1: f"k{i}_id_b", 2: "id"}.get(a, f"k{i}")
    return f"t{i}a{a}"


def anames(sch, i):
    """attribute numbering -> names of type i under the naming of the schema"""
    nm = sch.get("naming", 0)
    if nm == 1 and sch["types"][i] == "single":
        return lambda a: {0: f"k{i}_id", 1: "id"}.get(a, f"k{i}")
    return lambda a: aname(i, a, nm)


def fk_schema_to_raw(sch):
    """sch = {"types": [("single"|"tuple")...], "fks": [(from, attr, to, toattr)]}
    attribute numbering: single: attrs [0,1], pkey [0]; tuple: attrs [0,1,2], pkey [0,1]"""
    raw = {}
    nm = sch.get("naming", 0)
    tn = lambda i: tname(i, nm)
    for i, kind in enumerate(sch["types"]):
        nattrs = 2 if kind == "single" else 3
        an = anames(sch, i)
        pk = an(0) if kind == "single" else (an(0), an(1))
        raw[tn(i)] = {"HERMES_ATTRIBUTES": {an(a) for a in range(nattrs)},
                         "SECRETS_ATTRIBUTES": set(), "CACHEONLY_ATTRIBUTES": set(),
                         "LOCAL_ATTRIBUTES": set(), "PRIMARYKEY_ATTRIBUTE": pk,
                         "FOREIGN_KEYS": {}, "TOSTRING": None}
    n = len(sch["types"])
    for (f, a, t, ta) in sch["fks"]:
        toattr = anames(sch, t)(ta) if t < n else aname(t, ta, nm)
        raw[tn(f)]["FOREIGN_KEYS"][anames(sch, f)(a)] = [tn(t), toattr]
    return raw


def classify_fk_errors(msg, sch):
    kinds, names_ok = [], True
    for line in msg.split("\n")[1:]:
        m = re.match(r"\s*- <([^.>]+)\.([^>]+)>: (.*)", line)
        if not m:
            names_ok = False
            continue
        obj, attr, text = m.groups()
        if "doesn't exist in datamodel" in text and "objtype" in text:
            kinds.append("type_unknown")
        elif "doesn't exist in" in text:
            q = re.search(r"the attribute '([^']+)' doesn't exist in '([^']+)'", text)
            if q and q.group(2) == obj and q.group(1) == attr:
                kinds.append("attr_unknown")
            else:
                kinds.append("toattr_unknown")
        elif "isn't the primary key" in text or "isn't a primary key" in text:
            kinds.append("attr_notpkey")
        elif "has a tuple as primary key" in text:
            kinds.append("to_tuple")
        elif "is not the primary key" in text:
            kinds.append("to_notpkey")
        else:
            kinds.append("other")
        # the message must name an FK that was really declared
        declared = {(tname(f), anames(sch, f)(a)) for (f, a, t, ta) in sch["fks"]}
        if (obj, attr) not in declared:
            names_ok = False
    return kinds, names_ok


def run_fk_schema(sch):
    import hermes_env  # noqa: F401
    from lib.datamodel.dataschema import Dataschema, HermesInvalidForeignkeysError
    from lib.datamodel.foreignkey import HermesCircularForeignkeysRefsError
    from lib.datamodel.serialization import LocalCache
    hermes_env.setup_logger(__hermes__.appname)
    raw = fk_schema_to_raw(sch)
    wd = "/verif/work/C19/fkcache"
    LocalCache._settingsbyappname[__hermes__.appname] = {
        "_backupCount": 0, "_cachedir": wd, "_compressCache": False, "_extension": ".json", "_umask": 0o022}
    os.makedirs(wd, exist_ok=True)
    try:
        Dataschema(from_raw_dict=raw)
        return ("accepted", None, True)
    except HermesInvalidForeignkeysError as e:
        kinds, names_ok = classify_fk_errors(str(e), sch)
        return ("invalid", kinds, names_ok)
    except HermesCircularForeignkeysRefsError:
        return ("circular", None, True)
    except RecursionError:
        return ("crash", "RecursionError", True)
    except Exception as e:  # noqa
        return ("crash", type(e).__name__, True)


def fk_gallina(sch, obs):
    types = glist("(FType [0;1] [0])" if k == "single" else "(FType [0;1;2] [0;1])" for k in sch["types"])
    fks = glist(f"(FK {f} {a} {t} {ta})" for (f, a, t, ta) in sch["fks"])
    kind, detail, names_ok = obs
    if kind == "accepted":
        o = "OAccepted"
    elif kind == "circular":
        o = "OCircular"
    elif kind == "invalid":
        o = "(OInvalid " + glist(GERR.get(k, "ETypeUnknown") for k in detail) + ")"
    else:
        o = "OCrash"
    return f"(FKCase (FSchema {types} {fks}) {o} {gbool(names_ok)})"


def enum_valid_fk_schemas(n, tuple_positions):
    """all schemas over n types where each FK is well-formed (any target type with a
    single pkey, incl. itself)."""
    kinds_opts = []
    for i in range(n):
        kinds_opts.append(["single", "tuple"] if i in tuple_positions else ["single"])
    for kinds in itertools.product(*kinds_opts):
        singles = [j for j in range(n) if kinds[j] == "single"]
        per_type = []
        for i, k in enumerate(kinds):
            if k == "single":
                opts = [[]] + [[(i, 0, j, 0)] for j in singles]
            else:
                o0 = [[]] + [[(i, 0, j, 0)] for j in singles]
                o1 = [[]] + [[(i, 1, j, 0)] for j in singles]
                opts = [a + b for a in o0 for b in o1]
            per_type.append(opts)
        for combo in itertools.product(*per_type):
            yield {"types": list(kinds), "fks": [fk for part in combo for fk in part]}


def mutate_invalid(rng, sch):
    """inject one or two documented mistakes"""
    s = copy.deepcopy(sch)
    n = len(s["types"])
    for _ in range(rng.randint(1, 2)):
        f = rng.randrange(n)
        kind = rng.choice(["attr_notpkey", "attr_unknown", "type_unknown", "toattr_unknown",
                           "to_tuple", "to_notpkey"])
        t = rng.randrange(n)
        nonkey = 1 if s["types"][f] == "single" else 2
        if kind == "attr_notpkey":
            fk = (f, nonkey, t, 0)
        elif kind == "attr_unknown":
            fk = (f, 7, t, 0)
        elif kind == "type_unknown":
            fk = (f, 0, n + 3, 0)
        elif kind == "toattr_unknown":
            fk = (f, 0, t, 9)
        elif kind == "to_tuple":
            tt = [j for j in range(n) if s["types"][j] == "tuple"]
            if not tt:
                continue
            fk = (f, 0, tt[0], 0)
        else:
            ts = [j for j in range(n) if s["types"][j] == "single"]
            if not ts:
                continue
            fk = (f, 0, ts[0], 1)
        s["fks"] = [x for x in s["fks"] if not (x[0] == fk[0] and x[1] == fk[1])] + [fk]
    # keep declaration order: by type, then insertion
    s["fks"].sort(key=lambda x: x[0])
    return s


# ---------------------------------------------------------------------------------------
# B. start-up walk
# ---------------------------------------------------------------------------------------
def server_baseline(wd):
    return {
        "hermes": {
            "umask": 0o027,
            "cache": {"dirpath": wd + "/cache", "enable_compression": True, "backup_count": 1},
            "cli_socket": {"path": wd + "/sock", "owner": "root", "group": "root", "mode": 0o600,
                           "dont_manage_sockfile": False},
            "logs": {"logfile": wd + "/log.txt", "backup_count": 7, "verbosity": "warning",
                     "long_string_limit": 512},
            "mail": {"server": "x", "from": "a@b", "to": "c@d", "compress_attachments": True,
                     "mailtext_maxsize": 1048576, "attachment_maxsize": 5242880},
            "plugins": {"attributes": {},
                        "datasources": {"src": {"type": "sqlite", "settings": {"uri": "x"}}},
                        "messagebus": {"sqlite": {"settings": {"uri": wd + "/bus.sqlite",
                                                               "retention_in_days": 1}}}},
        },
        "hermes-server": {
            "updateInterval": 60,
            "datamodel": {
                "Ta": {"primarykeyattr": "id", "foreignkeys": {}, "toString": "<Ta[{{ id }}]>",
                       "on_merge_conflict": "use_cached_entry", "integrity_constraints": [],
                       "sources": {"src": {"fetch": {"type": "fetch", "query": "q", "vars": {}},
                                           "commit_one": {"type": "modify", "query": "c", "vars": {}},
                                           "attrsmapping": {"id": "c_id", "x": "c_x"},
                                           "secrets_attrs": [], "cacheonly_attrs": [], "local_attrs": [],
                                           "pkey_merge_constraint": "noConstraint",
                                           "merge_constraints": []}}},
                "Tb": {"primarykeyattr": "id", "foreignkeys": {"id": {"from_objtype": "Ta", "from_attr": "id"}},
                       "sources": {"src": {"fetch": {"type": "fetch", "query": "q2"},
                                           "attrsmapping": {"id": "c_id", "y": "c_y"}}}},
            },
        },
    }


def client_baseline(wd):
    b = server_baseline(wd)["hermes"]
    del b["plugins"]["datasources"]
    return {
        "hermes": b,
        "hermes-client": {
            "autoremediation": "disabled", "foreignkeys_policy": "on_remove_event",
            "errorQueue_retryInterval": 60, "trashbin_purgeInterval": 60, "trashbin_retention": 0,
            "updateInterval": 5, "useFirstInitsyncSequence": False,
            "datamodel": {"Users": {"hermesType": "Ta", "toString": "<U[{{ uid }}]>",
                                    "attrsmapping": {"uid": "id", "xx": "x"}}},
        },
        "hermes-client-usersgroups_null": {},
    }


def load_schemas(app):
    repo = os.environ.get("HERMES_REPO", "/repo")
    sch = {}
    with open(f"{repo}/lib/config/config-schema.yml") as f:
        sch.update(yaml.safe_load(f))
    if app == "server":
        with open(f"{repo}/server/config-schema-server.yml") as f:
            sch.update(yaml.safe_load(f))
    else:
        with open(f"{repo}/clients/config-schema-client.yml") as f:
            sch.update(yaml.safe_load(f))
    return sch


def walk(conf, schema, path=()):
    """yield (path, rule) for every key of conf that the schema describes"""
    if not isinstance(conf, dict) or not isinstance(schema, dict):
        return
    for k, v in conf.items():
        rule = schema.get(k)
        if rule is None:
            continue
        yield path + (k,), rule
        if isinstance(v, dict):
            if "schema" in rule and isinstance(rule["schema"], dict):
                yield from walk(v, rule["schema"], path + (k,))
            elif "valuesrules" in rule:
                vr = rule["valuesrules"]
                for kk, vv in v.items():
                    if isinstance(vv, dict) and isinstance(vr.get("schema"), dict):
                        yield from walk(vv, vr["schema"], path + (k, kk))


def get_at(conf, path):
    for p in path:
        conf = conf[p]
    return conf


def set_at(conf, path, val):
    for p in path[:-1]:
        conf = conf[p]
    conf[path[-1]] = val


def del_at(conf, path):
    for p in path[:-1]:
        conf = conf[p]
    del conf[path[-1]]


def gen_start_variants(app):
    """list of (name, transform(conf)->conf|str yaml, facts, argv_app)"""
    wd0 = "@WD@"
    base = server_baseline(wd0) if app == "server" else client_baseline(wd0)
    sch = load_schemas(app)
    appname = "server" if app == "server" else "client-usersgroups_null"
    ok = {"appname_ok": True, "yaml_unique": True, "schema_ok": True, "pkeys_ok": True, "templates_ok": True,
          "fk": "base"}
    out = [("baseline", base, dict(ok), appname)]
    optional, bounded = [], []
    for path, rule in walk(base, sch):
        if not isinstance(rule, dict):
            continue
        if path == ("hermes", "plugins", "datasources") and app == "server":
            continue   # the server schema declares it as a dependency: not optional there
        if rule.get("required", False) is False or "default" in rule:
            optional.append(path)
        if "min" in rule or "max" in rule:
            bounded.append((path, rule))
    for path in optional:
        c = copy.deepcopy(base)
        del_at(c, path)
        if path[-1] == "commit_one":
            pass
        out.append(("omit:" + ".".join(path), c, dict(ok), appname))
    # everything optional omitted at once (deepest first)
    c = copy.deepcopy(base)
    for path in sorted(optional, key=len, reverse=True):
        try:
            del_at(c, path)
        except KeyError:
            pass
    out.append(("omit-all-optional", c, dict(ok), appname))
    for path, rule in bounded:
        for lim, delta, good in (("min", 0, True), ("max", 0, True), ("min", -1, False), ("max", 1, False)):
            if lim not in rule:
                continue
            c = copy.deepcopy(base)
            set_at(c, path, rule[lim] + delta)
            f = dict(ok)
            f["schema_ok"] = good
            out.append((f"{lim}{'+' if delta > 0 else ''}{delta or ''}:" + ".".join(path), c, f, appname))
    # documented mistakes
    def bad(name, c, appn=appname, **kw):
        f = dict(ok)
        f.update(kw)
        out.append((name, c, f, appn))
    bad("appname:foo", base, "foo", appname_ok=False)
    bad("appname:client-", base, "client-", appname_ok=False)
    bad("appname:Server", base, "Server", appname_ok=False)
    bad("yaml-duplicate-key", "DUP", yaml_unique=False)
    c = copy.deepcopy(base); c["hermes"]["unknown_setting"] = 1
    bad("unknown-key", c, schema_ok=False)
    c = copy.deepcopy(base); c["hermes"]["cache"]["backup_count"] = "many"
    bad("wrong-type", c, schema_ok=False)
    c = copy.deepcopy(base); del c["hermes"]["mail"]
    bad("missing-required", c, schema_ok=False)
    if app == "server":
        c = copy.deepcopy(base); c["hermes-server"]["datamodel"]["Ta"]["sources"]["src2"] = {
            "fetch": {"type": "fetch", "query": "q"}, "attrsmapping": {"x": "c_x"}}
        c["hermes"]["plugins"]["datasources"]["src2"] = {"type": "sqlite", "settings": {"uri": "x"}}
        bad("pkey-missing-from-a-source", c, pkeys_ok=False)
        c = copy.deepcopy(base); c["hermes-server"]["datamodel"]["Tb"]["foreignkeys"] = {
            "y": {"from_objtype": "Ta", "from_attr": "id"}}
        bad("fk-on-non-key-attr", c, fk="nonkey")
        c = copy.deepcopy(base); c["hermes-server"]["datamodel"]["Tb"]["foreignkeys"] = {
            "id": {"from_objtype": "Nope", "from_attr": "id"}}
        bad("fk-unknown-type", c, fk="unknowntype")
        c = copy.deepcopy(base); c["hermes-server"]["datamodel"]["Ta"]["foreignkeys"] = {
            "id": {"from_objtype": "Tb", "from_attr": "id"}}
        bad("fk-cyclic", c, fk="cyclic")
        c = copy.deepcopy(base); c["hermes-server"]["datamodel"]["Ta"]["toString"] = "<{{ nope }}>"
        bad("tostring-unknown-var", c, templates_ok=False)
        # acyclic diamond must start
        c = copy.deepcopy(base)
        c["hermes-server"]["datamodel"]["Tc"] = {
            "primarykeyattr": ["aid", "bid"],
            "foreignkeys": {"aid": {"from_objtype": "Tb", "from_attr": "id"},
                            "bid": {"from_objtype": "Ta", "from_attr": "id"}},
            "sources": {"src": {"fetch": {"type": "fetch", "query": "q3"},
                                "attrsmapping": {"aid": "c_a", "bid": "c_b"}}}}
        f = dict(ok); f["fk"] = "diamond"
        out.append(("fk-diamond", c, f, appname))
    else:
        c = copy.deepcopy(base); del c["hermes-client"]["datamodel"]["Users"]["hermesType"]
        bad("client-missing-hermesType", c, schema_ok=False)
    # the same application started with its REAL plugins (sqlite datasource and bus, the
    # ldapPasswordHash attribute plugin): each plugin validates its own settings block against
    # its own schema, applies its defaults, and a violation is a configuration error too
    def real(name, edit, good):
        c = copy.deepcopy(base)
        c["hermes"]["plugins"]["messagebus"]["sqlite"]["settings"]["uri"] = wd0 + "/realbus.sqlite"
        if app == "server":
            c["hermes"]["plugins"]["datasources"]["src"]["settings"] = {"uri": wd0 + "/src.sqlite"}
        else:
            c["hermes"]["plugins"]["messagebus"]["sqlite"]["settings"].pop("retention_in_days", None)   # a producer setting
        edit(c)
        f = dict(ok)
        f["schema_ok"] = good
        out.append(("real:" + name, c, f, appname))
    plug = lambda c: c["hermes"]["plugins"]
    real("all-settings", lambda c: None, True)
    real("attribute-plugin-defaults", lambda c: plug(c)["attributes"].update({"ldapPasswordHash": {"settings": {}}}), True)
    real("attribute-plugin-no-settings-block", lambda c: plug(c)["attributes"].update({"ldapPasswordHash": {}}), True)
    real("attribute-plugin-bad-value", lambda c: plug(c)["attributes"].update(
        {"ldapPasswordHash": {"settings": {"default_hash_types": ["NOPE"]}}}), False)
    real("bus-settings-empty", lambda c: plug(c)["messagebus"]["sqlite"].update({"settings": {}}), False)
    real("bus-uri-missing", lambda c: plug(c)["messagebus"]["sqlite"]["settings"].pop("uri"), False)
    if app == "server":
        real("bus-retention-missing", lambda c: plug(c)["messagebus"]["sqlite"]["settings"].pop("retention_in_days"), False)
        real("bus-retention-0", lambda c: plug(c)["messagebus"]["sqlite"]["settings"].update({"retention_in_days": 0}), False)
        real("datasource-settings-empty", lambda c: plug(c)["datasources"]["src"].update({"settings": {}}), False)
    else:
        real("consumer-unknown-setting", lambda c: plug(c)["messagebus"]["sqlite"]["settings"].update({"nope": 1}), False)
    return out


FK_FACTS = {
    "base": "(FSchema [FType [0;1] [0]; FType [0;1] [0]] [FK 1 0 0 0])",
    "nonkey": "(FSchema [FType [0;1] [0]; FType [0;1] [0]] [FK 1 1 0 0])",
    "unknowntype": "(FSchema [FType [0;1] [0]; FType [0;1] [0]] [FK 1 0 5 0])",
    "cyclic": "(FSchema [FType [0;1] [0]; FType [0;1] [0]] [FK 0 0 1 0; FK 1 0 0 0])",
    "diamond": "(FSchema [FType [0;1] [0]; FType [0;1] [0]; FType [0;1] [0;1]] [FK 1 0 0 0; FK 2 0 1 0; FK 2 1 0 0])",
    "none": "(FSchema [] [])",
}


def run_start(variant, wd, app):
    """returns 'started' | ('configerror', cls) | ('crash', cls, msg)"""
    import hermes_env as H
    import logging
    name, conf, facts, appname = variant
    H.rmtree(wd)
    os.makedirs(wd)
    oldumask = os.umask(0o022)
    cwd = os.getcwd()
    try:
        os.chdir(wd)
        fname = ("hermes-server" if app == "server" else "hermes-client-usersgroups_null") + "-config.yml"
        if conf == "DUP":
            base = server_baseline(wd) if app == "server" else client_baseline(wd)
            txt = yaml.dump(base, sort_keys=False)
            txt = txt.replace("hermes:\n", "hermes:\n  umask: 23\n", 1)
            if "umask: 23" not in txt or txt.count("umask") < 2:
                txt += "\nhermes: {}\n"
        else:
            txt = yaml.dump(conf, sort_keys=False).replace("@WD@", wd)
        with open(fname, "w") as f:
            f.write(txt)
        # malformed appnames have no config file of their own name: give them one too
        for extra in ("hermes-foo-config.yml", "hermes-client--config.yml", "hermes-Server-config.yml"):
            with open(extra, "w") as f:
                f.write(txt)
        sys.argv = ["hermes", appname]
        __hermes__.appname = "hermes-" + appname
        __hermes__.logger = logging.getLogger(__hermes__.appname)
        try:
            c = H.HermesConfig(autoload=False, allowMultipleInstances=True)
            realplugins = name.startswith("real:")
            c.load(loadplugins=realplugins)
            H.setup_logger(c["appname"])
            world = H.new_world()
            if realplugins:
                if app == "server":
                    from server.hermesserver import HermesServer
                    srv = HermesServer(c)
                    if srv._sock is not None:
                        srv._sock._cleanup()
                else:
                    import clidrv
                    cl = clidrv.RecClient(c, {"bus": [], "next": 1, "calls": [], "ncall": 0})
                    sock = getattr(cl, "_GenericClient__sock", None)
                    if sock is not None:
                        sock._cleanup()
                return ("started",)
            if app == "server":
                for s in c["hermes"]["plugins"]["datasources"]:
                    c["hermes"]["plugins"]["datasources"][s]["plugininstance"] = H.MemDS(s, world)
                c["hermes"]["plugins"]["messagebus"]["plugininstance"] = H.MemBus(world)
                c["hermes"]["plugins"]["attributes"]["_jinjafilters"] = {}
                from server.hermesserver import HermesServer
                srv = HermesServer(c)
                if srv._sock is not None:
                    srv._sock._cleanup()
            else:
                import clidrv
                cl = clidrv.make_client(c, {"bus": [], "next": 1, "calls": [], "ncall": 0})
                sock = getattr(cl, "_GenericClient__sock", None)
                if sock is not None:
                    sock._cleanup()
            return ("started",)
        except SystemExit as e:
            return ("crash", "SystemExit", str(e))
        except Exception as e:  # noqa
            cls = type(e).__name__
            if cls.startswith("Hermes") or cls in ("InvalidOwnerError", "InvalidGroupError"):
                return ("configerror", cls)
            return ("crash", cls, str(e)[:200])
    finally:
        os.chdir(cwd)
        os.umask(oldumask)
        logging.getLogger("hermes-server").handlers.clear()
        H.rmtree(wd)


def start_gallina(variant, obs):
    name, conf, f, appname = variant
    facts = "(CFacts {} {} {} {} {} {})".format(
        gbool(f["appname_ok"]), gbool(f["yaml_unique"]), gbool(f["schema_ok"]), gbool(f["pkeys_ok"]),
        gbool(f["templates_ok"]), FK_FACTS[f["fk"]])
    o = {"started": "Started", "configerror": "ConfigError", "crash": "Crash"}[obs[0]]
    return f"(STCase {facts} {o})"

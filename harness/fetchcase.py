"""Multi-source merge cases (C13): generation, execution through the real
Datamodel.fetch (inside the real server loop), Gallina rendering."""
import copy
import os
import random

from common import Interner, gN, gZ, gbool, glist, gobj

PMCS = ["noConstraint", "mustNotExist", "mustAlreadyExist", "mustExistInBoth"]
GPMC = {"noConstraint": "NoConstraint", "mustNotExist": "MustNotExist",
        "mustAlreadyExist": "MustAlreadyExist", "mustExistInBoth": "MustExistInBoth"}
ATTRS = ["x", "y", "z"]
VALS = [1, 2, "a", None, [1], 1.0, True]


def gen_case(rng, opts=None):
    opts = opts or {}
    nsrc = opts.get("nsrc") or rng.choice([2, 2, 3])
    srcs = []
    for i in range(nsrc):
        attrs = [a for a in ATTRS if rng.random() < 0.6] or [rng.choice(ATTRS)]
        srcs.append({"name": f"s{i + 1}", "attrs": attrs,
                     "pmc": rng.choice(PMCS) if i > 0 else "noConstraint"})
    keys = opts.get("keys") or [1, 2, 3]
    vals = opts.get("vals") or VALS
    npolls = opts.get("npolls") or rng.randint(2, 4)
    polls = []
    for p in range(npolls):
        tables = {}
        for s in srcs:
            rows = []
            for k in keys:
                r = rng.random()
                n = 0 if r < 0.3 else (1 if r < 0.9 else rng.choice([2, 3]))
                for _ in range(n):
                    row = {"c_id": k}
                    for a in s["attrs"]:
                        row["c_" + a] = copy.deepcopy(rng.choice(vals[:3] if rng.random() < 0.7 else vals))
                    rows.append(row)
            rng.shuffle(rows)
            tables[s["name"]] = {"q": rows}
        polls.append(tables)
    return {"srcs": srcs, "omc": rng.choice(["use_cached_entry", "keep_first_value"]), "polls": polls}


def datamodel_of(case):
    sources = {}
    for s in case["srcs"]:
        am = {"id": "c_id"}
        for a in s["attrs"]:
            am[a] = "c_" + a
        sources[s["name"]] = {"fetch": {"type": "fetch", "query": "q"}, "attrsmapping": am,
                              "pkey_merge_constraint": s["pmc"]}
    return {"Ta": {"primarykeyattr": "id", "sources": sources, "on_merge_conflict": case["omc"]}}


def run_case(case, workdir):
    import hermes_env as H
    H.rmtree(workdir)
    os.makedirs(workdir)
    world = H.new_world()
    conf = H.server_config(workdir, datamodel_of(case), [s["name"] for s in case["srcs"]])
    srv = H.start_server(workdir, conf, world)
    obs = []
    for tables in case["polls"]:
        world["tables"] = tables
        world["log"] = []
        world["views"] = []
        world["nsend"] = 0
        world["nopen"] = 0
        cache_before = [(o.getPKey(), copy.deepcopy(o.toNative())) for o in srv.dm.data.cache["Ta"]]
        H.run_server(srv, 1)
        frags = [[(o.getPKey(), copy.deepcopy(o.toNative())) for o in f._dataobjects]
                 for f in srv.dm._fragments["Ta"]]
        lst = srv.dm.data["Ta"]
        obs.append({
            "cache": cache_before, "frags": frags,
            "data": [(o.getPKey(), copy.deepcopy(o.toNative())) for o in lst],
            "incons": sorted(lst.inconsistencies), "conf": sorted(lst.mergeConflicts),
            "filtered": sorted(lst.mergeFiltered),
            "events": [(r[2], r[4]) for r in world["log"] if r[0] == "send"],
            "exc": srv._cache.exception,
        })
    H.rmtree(workdir)
    return obs


def case_to_gallina(case, obs):
    attrs = Interner(["id"] + ATTRS)

    def golist(l):
        return glist(f"({gZ(k)},{gobj(o, attrs)})" for k, o in l)

    def gzl(l):
        return glist(gZ(k) for k in l)
    polls = []
    for ob in obs:
        srcs = glist(f"({golist(fr)},{GPMC[s['pmc']]})" for fr, s in zip(ob["frags"], case["srcs"]))
        evk = gzl(sorted(k for t, k in ob["events"] if t in ("modified", "removed")))
        polls.append(f"(FPoll {golist(ob['cache'])} {srcs} {golist(ob['data'])} {gzl(ob['incons'])}"
                     f" {gzl(ob['conf'])} {gzl(ob['filtered'])} {evk})")
    return f"(FCase {gbool(case['omc'] == 'use_cached_entry')} {glist(polls)})"

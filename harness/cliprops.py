"""Shared machinery of the client-side properties."""
import json
import random

import clicase
import common
import srvprops


def gen_cases(ctx, n, case_opts, session_opts, tweak=None):
    rng = random.Random(ctx.seed)
    cases = []
    for i in range(n):
        co = dict(case_opts(rng) if callable(case_opts) else case_opts)
        c = clicase.gen_case(rng, co)
        c["sseed"] = rng.randrange(1 << 30)
        c["session_opts"] = dict(session_opts(rng) if callable(session_opts) else session_opts)
        if tweak:
            tweak(rng, c)
        cases.append(c)
    return cases


def run_and_eval(ctx, cases, oracle, name):
    res = srvprops.run_cases(ctx, cases, modname="clicase")
    errs = [(i, e) for i, (o, g, e) in enumerate(res) if e]
    if errs:
        raise RuntimeError(f"client driver error on case {errs[0][0]}:\n{errs[0][1]}")
    failing = srvprops.coq_eval(ctx, name, [g for _, g, _ in res], f="corr_ccase", g=oracle,
                                require="Corr.RunClient", typ="ccase", checker="check_ccases", shard=25)
    return res, failing


def stats(cases, res):
    hist = {"iterations": 0, "calls": 0, "failed_calls": 0, "queued_iters": 0, "restarts": 0, "exc_iters": 0,
            "trashed": 0, "recycled": 0}
    seen = set()
    for case, (ob, g, _) in zip(cases, res):
        sig = []
        for it, o in zip(ob["sessions"]["iters"], ob["iters"]):
            hist["iterations"] += 1
            hist["restarts"] += bool(it.get("restart"))
            hist["queued_iters"] += bool(o["queue"])
            hist["exc_iters"] += o["exc"] is not None
            for c in o["calls"]:
                hist["calls"] += 1
                hist["failed_calls"] += c["out"] != "ok"
                hist["trashed"] += c["h"].endswith("_trashed")
                hist["recycled"] += c["h"].endswith("_recycled")
                sig.append((c["h"], str(c["key"]), c["out"]))
        if sig:
            seen.add(json.dumps(sig))
    return hist, len(seen)


def replay_case(obj, oracle, require="Corr.RunClient"):
    class C:
        pass
    ctx = C()
    ctx.work = common.workdir("replay")
    ctx.pid = obj["property"]
    case = common.dec(obj["case"])
    srvprops._init_worker()
    res = clicase.run_case(case, ctx.work + "/r")
    g = clicase.case_to_gallina(case, res)
    failing = srvprops.coq_eval(ctx, "replay", [g], f="corr_ccase", g=oracle, require=require,
                                typ="ccase", checker="check_ccases")
    c_ok, o_ok = failing.get(0, (True, True))
    print(f"replay: correspondence={'ok' if c_ok else 'FAILS'} oracle({oracle})={'ok' if o_ok else 'FAILS'}")
    return 0 if (c_ok and o_ok) else 1


def collect(cases, res, failing, what, sig_fn=None, corr_name="corr_client"):
    violations, corr = [], []
    for i, (c_ok, o_ok) in sorted(failing.items()):
        rep = {"replay_kind": "client_case", "case": common.enc(cases[i])}
        if not o_ok:
            violations.append({"sig": sig_fn(cases[i], res[i][0]) if sig_fn else None,
                               "what": f"{what} (case {i})", **rep})
        elif not c_ok:
            corr.append({"what": f"{corr_name}: client model != GenericClient on case {i}", **rep})
    return violations, corr


def sub_oracles(ctx, res, failing, oracles, name, require="Corr.RunClient", chunk=4):
    """evaluate the named sub-oracles on the failing cases only (one parallel coqc pass);
    returns {case index: {oracle: bool}}"""
    import os
    idx = [i for i, (c_ok, o_ok) in sorted(failing.items()) if not o_ok]
    out = {i: {} for i in idx}
    if not idx:
        return out
    paths, bases = [], []
    for si, chunk in enumerate(common.chunks(list(enumerate(idx)), chunk)):
        body = (f"From Hermes Require Import {require}.\n"
                "Definition cases : list ccase := [\n" + ";\n".join(res[i][1] for _, i in chunk) + "\n].\n"
                f"Eval vm_compute in (check_bits [{'; '.join(oracles)}] cases).\n")
        p = os.path.join(ctx.work, f"cases_{name}_{si}.v")
        with open(p, "w") as fh:
            fh.write(body)
        paths.append(p)
        bases.append(chunk[0][0])
    outs = common.run_coqc_many(paths)
    for p, base in zip(paths, bases):
        for j, bits, _ in common.parse_results(outs[p]):
            for b, o in enumerate(oracles):
                out[idx[base + j]][o] = bool((bits >> b) & 1)
    return out

"""Server cases: generation, execution on the real HermesServer, Gallina rendering.

A case = datamodel configuration + list of steps (poll with source tables, producer
refusal schedule, optional initsync request, optional bus-open failure; restart).
"""
import copy
import datetime
import json
import os
import random
import shutil
import sys

from common import (Interner, gN, gZ, gbool, glist, gobj, gvalue, sortkey, enc, dec)

DT = datetime.datetime

VALUE_POOL = [
    1, 1.0, True, "1", 2, -1, -2, 0, False, 0.0, "a", "b", "", "é",
    [1, 2], [2, 1], [1], [], {}, None, {"k": 1}, {"k": [1]}, {"k": 1, "j": "a"}, {"j": 2},
    DT(2020, 1, 2, 3, 4, 5), DT(2020, 1, 2, 3, 4, 6), b"ab", b"", [1, [2, "a"]], [True], [1.0],
    2 ** 61 - 1, 2 ** 61, 1.5, "a b", {"k": {"z": None}}, [None], ["a", None],
    {"k": None}, {"k": 1, "j": None}, [{"k": None}],
]
INT_KEYS = [1, 2, 3, -1, -2, 0, 2 ** 61 - 1]
STR_KEYS = ["a", "b", "c", "A"]


def rnd_value(rng, simple=False):
    if simple:
        return rng.choice([1, 2, "a", "b", True, 1.0, [1, 2], [2, 1], None])
    return copy.deepcopy(rng.choice(VALUE_POOL))


LOOKALIKES = [[1, True, 1.0, "1"], [0, False, 0.0, ""], [-1, -2], [2 ** 61 - 1, 2 ** 61], ["a", "b", "a b", b"ab"],
              [DT(2020, 1, 2, 3, 4, 5), DT(2020, 1, 2, 3, 4, 6)], [None, [], {}, [None]]]


def near_value(rng, v):
    """a structural neighbour of v: one key of a dict renamed (value kept), one nested value
    nulled or replaced by a look-alike, list items swapped / one replaced, a scalar replaced by a
    value that compares or hashes alike - the changes a shortcut in the comparison would miss"""
    v = copy.deepcopy(v)
    if isinstance(v, dict) and v:
        k = rng.choice(sorted(v))
        r = rng.random()
        if r < 0.35:
            nk = rng.choice([x for x in ("k", "j", "z", "y") if x not in v] or ["w"])
            v[nk] = v.pop(k)
        elif r < 0.55:
            v[k] = None
        elif r < 0.7:
            v[rng.choice([x for x in ("k", "j", "z", "y") if x not in v] or ["w"])] = None
        else:
            v[k] = near_value(rng, v[k])
        return v
    if isinstance(v, list) and v:
        r = rng.random()
        if r < 0.3 and len(v) > 1:
            v.reverse()
        elif r < 0.5:
            v.append(None)
        else:
            i = rng.randrange(len(v))
            v[i] = near_value(rng, v[i])
        return v
    for fam in LOOKALIKES:
        for x in fam:
            if type(x) is type(v) and x == v:
                return copy.deepcopy(rng.choice([y for y in fam if not (type(y) is type(v) and y == v)]))
    return rnd_value(rng)


# ---------------------------------------------------------------------------------------
# generation
# ---------------------------------------------------------------------------------------
def gen_config(rng, opts=None):
    """Returns the list of type descriptions."""
    opts = opts or {}
    if opts.get("shape_fn"):
        shape = rng.choice(["chain", "chain2", "assoc", "chain2", "assoc"])
    else:
        shape = opts.get("shape") or rng.choice(["flat", "flat", "chain", "assoc", "chain2"])
    strkeys = opts.get("strkeys", rng.random() < 0.2)
    names = ["Ta", "Tb", "Tc", "Td"]
    types = []

    def mk(name, pkey, fks):
        nattrs = rng.randint(1, 3)
        data_attrs = rng.sample(["x", "y", "z"], nattrs)
        t = {"name": name, "pkey": pkey, "fks": fks, "attrs": list(pkey) + data_attrs,
             "secret": [], "local": [], "cacheonly": [], "commit": None,
             "integrity": bool(fks) and opts.get("integrity", True),
             "omc": "use_cached_entry", "mapping": {}}
        if opts.get("classes", True):
            for a in data_attrs:
                r = rng.random()
                if r < 0.15:
                    t["secret"].append(a)
                elif r < 0.25:
                    t["local"].append(a)
                elif r < 0.35:
                    t["cacheonly"].append(a)
        if opts.get("commits", True):
            t["commit"] = rng.choice([None, None, "one", "all"])
        for a in t["attrs"]:
            if a in pkey:
                t["mapping"][a] = ("plain", "c_" + a)
            else:
                r = rng.random()
                if r < 0.7 or not opts.get("mappings", True):
                    t["mapping"][a] = ("plain", "c_" + a)
                elif r < 0.85:
                    t["mapping"][a] = ("list", ["c_" + a, "c_" + a + "2"])
                else:
                    t["mapping"][a] = ("tpl", "c_" + a)
        return t

    if shape == "flat":
        n = opts.get("ntypes") or rng.randint(1, 3)
        for i in range(n):
            if i == 0 and rng.random() < 0.25:
                types.append(mk(names[i], ["ka", "kb"], {}))
            else:
                types.append(mk(names[i], ["id"], {}))
    elif shape == "chain":
        types.append(mk("Ta", ["id"], {}))
        types.append(mk("Tb", ["id"], {"id": "Ta"}))
        if rng.random() < 0.5:
            types.append(mk("Tc", ["id"], {"id": "Tb"}))
    elif shape == "chain2":
        types.append(mk("Ta", ["id"], {}))
        types.append(mk("Tb", ["id"], {"id": "Ta"}))
        types.append(mk("Tc", ["id"], {"id": "Tb"}))
        types.append(mk("Td", ["id"], {"id": "Ta"}))
    elif shape == "assoc":
        types.append(mk("Ta", ["id"], {}))
        types.append(mk("Tb", ["id"], {}))
        types.append(mk("Tc", ["aid", "bid"], {"aid": "Ta", "bid": "Tb"}))
    return {"types": types, "strkeys": strkeys, "shape": shape}


def key_pool(cfg, rng):
    pool = STR_KEYS if cfg["strkeys"] else INT_KEYS
    return rng.sample(pool, rng.randint(2, min(4, len(pool))))


def gen_rows(rng, cfg, pool, prev=None, parents_ok=0.9):
    """tables: {typename: {key: {attr: value}}} in *attribute* space (mapping applied later)"""
    tables = {}
    for t in cfg["types"]:
        rows = {}
        if len(t["pkey"]) == 1:
            if t["fks"]:
                par = t["fks"][t["pkey"][0]]
                cands = list(tables[par].keys()) if rng.random() < parents_ok else list(pool)
            else:
                cands = list(pool)
            keys = [k for k in cands if rng.random() < 0.7]
        else:
            a, b = t["pkey"]
            if t["fks"]:
                ka = list(tables[t["fks"][a]].keys()) if rng.random() < parents_ok else list(pool)
                kb = list(tables[t["fks"][b]].keys()) if rng.random() < parents_ok else list(pool)
            else:
                ka = kb = list(pool)
            keys = [(x, y) for x in ka for y in kb if rng.random() < 0.5]
        for k in keys:
            if prev is not None and k in prev.get(t["name"], {}) and rng.random() < 0.6:
                row = copy.deepcopy(prev[t["name"]][k])
                if rng.random() < 0.5:   # mutate a little
                    for a in t["attrs"]:
                        if a not in t["pkey"] and rng.random() < 0.4:
                            # a fresh value, or a structural neighbour of the current one
                            row[a] = near_value(rng, row.get(a)) if rng.random() < 0.4 else rnd_value(rng)
            else:
                row = {a: rnd_value(rng) for a in t["attrs"] if a not in t["pkey"]}
                if len(t["pkey"]) == 1:
                    row[t["pkey"][0]] = k
                else:
                    for a, kv in zip(t["pkey"], k):
                        row[a] = kv
            rows[k] = row
        tables[t["name"]] = rows
    return tables


def to_remote_tables(cfg, tables):
    """attribute-space rows -> {ds: {query: [remote rows]}} (single source 'src')"""
    out = {}
    for t in cfg["types"]:
        rows = []
        for k, row in tables[t["name"]].items():
            r = {}
            for a in t["attrs"]:
                kind, col = t["mapping"][a]
                v = row.get(a)
                if kind == "list":
                    if isinstance(v, list) and len(v) == 2 and not any(isinstance(i, (list, dict)) for i in v):
                        r[col[0]], r[col[1]] = v[0], v[1]
                    else:
                        r[col[0]], r[col[1]] = v, None
                else:
                    r[col] = v
            rows.append(r)
        out["q_" + t["name"]] = rows
    return {"src": out}


def gen_case(rng, opts=None):
    opts = opts or {}
    cfg = gen_config(rng, opts)
    pool = key_pool(cfg, rng)
    nsteps = rng.randint(opts.get("minsteps", 2), opts.get("maxsteps", 6))
    steps = []
    prev = gen_rows(rng, cfg, pool)
    steps.append({"op": "poll", "isync": False, "openfail": False,
                  "tables": to_remote_tables(cfg, prev), "fail": []})
    for i in range(nsteps):
        r = rng.random()
        if r < opts.get("p_restart", 0.15):
            steps.append({"op": "restart"})
            continue
        if rng.random() < 0.15:
            cur = prev   # unchanged source
        else:
            cur = gen_rows(rng, cfg, pool, prev, parents_ok=opts.get("parents_ok", 0.9))
        fail = []
        if rng.random() < opts.get("p_fail", 0.0):
            fail = sorted(set(rng.randint(0, 8) for _ in range(rng.randint(1, 2))))
        steps.append({"op": "poll", "isync": rng.random() < opts.get("p_isync", 0.1),
                      "openfail": rng.random() < opts.get("p_openfail", 0.0),
                      "tables": to_remote_tables(cfg, cur), "fail": fail})
        prev = cur
    return {"cfg": cfg, "steps": steps,
            "cache": {"enable_compression": rng.random() < 0.2, "backup_count": 0}}


# ---------------------------------------------------------------------------------------
# datamodel for the real server
# ---------------------------------------------------------------------------------------
def datamodel_of(cfg):
    dm = {}
    for t in cfg["types"]:
        am = {}
        for a in t["attrs"]:
            kind, col = t["mapping"][a]
            if kind == "plain":
                am[a] = col
            elif kind == "list":
                am[a] = list(col)
            else:
                am[a] = "{{ " + col + " }}"
        pk = t["pkey"][0] if len(t["pkey"]) == 1 else list(t["pkey"])
        src = {"fetch": {"type": "fetch", "query": "q_" + t["name"]},
               "attrsmapping": am, "secrets_attrs": list(t["secret"]),
               "local_attrs": list(t["local"]), "cacheonly_attrs": list(t["cacheonly"])}
        pk0 = t["pkey"][0]
        if t["commit"] == "one":
            src["commit_one"] = {"type": "modify", "query": "c1_" + t["name"],
                                 "vars": {"k": "{{ ITEM_FETCHED_VALUES." + pk0 + " }}",
                                          **({"k2": "{{ ITEM_FETCHED_VALUES." + t["pkey"][1] + " }}"}
                                             if len(t["pkey"]) > 1 else {})}}
        elif t["commit"] == "all":
            src["commit_all"] = {"type": "modify", "query": "ca_" + t["name"]}
        d = {"primarykeyattr": pk, "sources": {"src": src}, "on_merge_conflict": t["omc"]}
        if t["fks"]:
            d["foreignkeys"] = {a: {"from_objtype": p, "from_attr": ptype_pkey(cfg, p)}
                                for a, p in t["fks"].items()}
            if t["integrity"]:
                d["integrity_constraints"] = ["{{ _SELF." + a + " in " + p + "_pkeys }}"
                                              for a, p in t["fks"].items()]
        if t.get("ics"):
            d["integrity_constraints"] = [
                ("{{ _SELF." + a + " in " + p + "_pkeys }}") if form == "pkeys" else
                ("{{ _SELF." + a + " in (" + p + " | map(attribute='" + ptype_pkey(cfg, p) + "') | list) }}")
                for a, p, form in t["ics"]]
        dm[t["name"]] = d
    return dm


def ptype_pkey(cfg, pname):
    for t in cfg["types"]:
        if t["name"] == pname:
            return t["pkey"][0]
    raise KeyError(pname)


# ---------------------------------------------------------------------------------------
# execution (runs inside a worker process that imported hermes_env)
# ---------------------------------------------------------------------------------------
def load_disk(cachedir, cfg):
    """Read the per-type cache files back exactly as a restarting server would."""
    import hermes_env  # noqa
    out = {}
    from lib.datamodel.serialization import LocalCache
    for t in cfg["types"]:
        found, path, ext = LocalCache._getExistingFilePath(t["name"])
        objs = {}
        if found:
            with LocalCache._open(path, "rt") as f:
                js = f.read()
            from lib.datamodel.serialization import JSONSerializable
            content = json.loads(js, object_hook=JSONSerializable._json_parser)["content"]
            for o in content:
                if len(t["pkey"]) == 1:
                    k = o.get(t["pkey"][0])
                else:
                    k = tuple(o.get(a) for a in t["pkey"])
                objs[k] = o
        out[t["name"]] = objs
    return out


def run_case(case, workdir, logsink=None, keep=False):
    """Drive the real HermesServer through the case. Returns observations per step."""
    import hermes_env as H
    cfg = case["cfg"]
    H.rmtree(workdir)
    os.makedirs(workdir)
    world = H.new_world()
    conf = H.server_config(workdir, datamodel_of(cfg), ["src"], cache=case.get("cache"))
    srv = H.start_server(workdir, conf, world, logsink)
    obs = []
    for st in case["steps"]:
        if st["op"] == "restart":
            srv = H.start_server(workdir, conf, world, logsink)
            obs.append({"trace": [], "views": [],
                        "mem": H.snapshot_ds(srv.dm.data.cache),
                        "disk": load_disk(workdir + "/cache", cfg), "exc": None})
            continue
        world["tables"] = st["tables"]
        world["log"] = []
        world["views"] = []
        world["nsend"] = 0
        world["nopen"] = 0
        world["fail"] = set(st.get("fail", ()))
        world["failopen"] = {0} if st.get("openfail") else set()
        if st.get("isync"):
            srv._initSyncRequested = True
        H.run_server(srv, 1)
        frags = {t["name"]: [(o.getPKey(), copy.deepcopy(o.toNative()))
                             for f in srv.dm._fragments[t["name"]] for o in f._dataobjects]
                 for t in cfg["types"]}
        ifiltered = {t["name"]: sorted(srv.dm.data[t["name"]].integrityFiltered, key=sortkey)
                     for t in cfg["types"]}
        obs.append({"trace": list(world["log"]), "views": list(world["views"]),
                    "frags": frags, "ifiltered": ifiltered,
                    "mem": H.snapshot_ds(srv.dm.data.cache),
                    "disk": load_disk(workdir + "/cache", cfg),
                    "exc": srv._cache.exception,
                    "isync_pending": srv._initSyncRequested})
    if not keep:
        H.rmtree(workdir)
    return obs


# ---------------------------------------------------------------------------------------
# Gallina rendering
# ---------------------------------------------------------------------------------------
class Ctx:
    """Interning context of one case."""

    def __init__(self, cfg, obs, case):
        self.cfg = cfg
        attrs = set()
        for t in cfg["types"]:
            attrs.update(t["attrs"])
        self.attrs = Interner(attrs)
        self.types = {t["name"]: i + 1 for i, t in enumerate(cfg["types"])}
        self.tdesc = {t["name"]: t for t in cfg["types"]}
        scalars, tuples = set(), set()

        def addkey(k):
            if isinstance(k, tuple):
                tuples.add(k)
                for x in k:
                    scalars.add(x)
            else:
                scalars.add(k)
        for ob in obs:
            for v in ob["views"]:
                for t, objs in v.items():
                    for k in objs:
                        addkey(k)
            for src in ("mem", "disk"):
                for t, objs in ob[src].items():
                    for k in objs:
                        addkey(k)
            for t, lst in (ob.get("frags") or {}).items():
                for k, _ in lst:
                    try:
                        hash(k)
                        addkey(k)
                    except TypeError:
                        pass
            for rec in ob["trace"]:
                if rec[0] in ("send", "sendfail") and rec[4] is not None:
                    addkey(rec[4])
        # key attribute values of raw rows (children may point to parents never seen)
        for st in case["steps"]:
            for ds in (st.get("tables") or {}).values():
                for q, rows in ds.items():
                    tname = q[2:]
                    t = self.tdesc.get(tname)
                    if not t:
                        continue
                    for r in rows:
                        for a in t["pkey"]:
                            v = r.get("c_" + a)
                            try:
                                hash(v)
                                scalars.add(v)
                            except TypeError:
                                pass
        scalars.discard(None)
        self.scal = Interner(scalars, start=1)
        self.tup = Interner(tuples, start=1001)

    def key(self, k):
        if isinstance(k, tuple):
            return self.tup[k]
        return self.scal[k]

    def canon_obj(self, tname, d):
        """replace primary-key attribute values by their interned rank"""
        t = self.tdesc[tname]
        out = dict(d)
        for a in t["pkey"]:
            if a in out:
                try:
                    out[a] = self.scal[out[a]]
                except (KeyError, TypeError):
                    pass
        return out

    def gobj(self, tname, d):
        return gobj(self.canon_obj(tname, d), self.attrs)

    def gworld(self, w):
        items = []
        for tname, objs in w.items():
            if tname not in self.types:
                continue
            for k, d in objs.items():
                items.append(((self.types[tname], self.key(k)), self.gobj(tname, d)))
        items.sort(key=lambda x: x[0])
        return "(mk_world [" + ";".join(f"({gN(t)},{gZ(k)},{o})" for (t, k), o in items) + "])"

    def gcfg(self):
        out = []
        for t in self.cfg["types"]:
            fks = glist(f"({gN(self.attrs[a])},{gN(self.types[p])})" for a, p in sorted(t["fks"].items()))
            out.append("(TCfg {} {} {} {} {} {} {})".format(
                gN(self.types[t["name"]]),
                glist(gN(self.attrs[a]) for a in t["local"]),
                glist(gN(self.attrs[a]) for a in t["cacheonly"]),
                glist(gN(self.attrs[a]) for a in t["secret"]),
                fks, gbool(t["commit"] == "one"), gbool(t["commit"] == "all")))
        return glist(out)

    def gevent(self, evtype, tname, k, attrs):
        t, kk = gN(self.types[tname]), gZ(self.key(k))
        if evtype == "added":
            return f"(Ev {t} {kk} (KAdded {self.gobj(tname, attrs)}))"
        if evtype == "removed":
            return f"(Ev {t} {kk} KRemoved)"
        if evtype == "modified":
            return (f"(Ev {t} {kk} (KModified (MDiff {self.gobj(tname, attrs['added'])}"
                    f" {self.gobj(tname, attrs['modified'])} {self.gobj(tname, attrs['removed'])})))")
        raise ValueError(evtype)

    def gtrace(self, trace):
        """world log -> (list action, hint)"""
        acts, hint = [], []
        for rec in trace:
            kind = rec[0]
            if kind in ("send", "sendfail"):
                _, cat, evtype, tname, k, attrs = rec
                if evtype in ("init-start", "init-stop"):
                    if kind == "sendfail":
                        acts.append("(ARefused None)")
                    else:
                        acts.append("AInitStart" if evtype == "init-start" else "AInitStop")
                    continue
                if evtype == "dataschema":
                    continue
                ev = self.gevent(evtype, tname, k, attrs)
                if evtype == "modified" and cat == "base":
                    hint.append(f"({gN(self.types[tname])},{gZ(self.key(k))})")
                if kind == "sendfail":
                    acts.append(f"(ARefused (Some {ev}))")
                else:
                    acts.append(f"(ASend {gbool(cat == 'initsync')} {ev})")
            elif kind == "commit":
                _, op, ds, q, v = rec
                tname = q[3:]
                if q.startswith("c1_"):
                    t = self.tdesc[tname]
                    k = v["k"] if len(t["pkey"]) == 1 else (v["k"], v["k2"])
                    acts.append(f"(ACommitOne {gN(self.types[tname])} {gZ(self.key(k))})")
                else:
                    acts.append(f"(ACommitAll {gN(self.types[tname])})")
        return glist(acts), glist(hint)


def case_to_gallina(case, obs):
    ctx = Ctx(case["cfg"], obs, case)
    steps, gobs = [], []
    pending = False
    for st, ob in zip(case["steps"], obs):
        tr, hint = ctx.gtrace(ob["trace"])
        if st["op"] == "restart":
            steps.append("SRestart")
            pending = False
        else:
            isync_eff = bool(st.get("isync", False)) or pending
            pending = bool(ob.get("isync_pending"))
            view = ob["views"][-1] if ob["views"] else {}
            steps.append("(SPoll {} {} {} {} {})".format(
                gbool(isync_eff), gbool(st.get("openfail", False)),
                ctx.gworld(view), glist(f"{i}%nat" for i in st.get("fail", [])), hint))
        gobs.append(f"(SObs {tr} {ctx.gworld(ob['mem'])} {ctx.gworld(ob['disk'])})")
    return f"(SCase {ctx.gcfg()} {glist(steps)} {glist(gobs)})"

"""CLI of the verification machinery.  See /verif/check."""
import hashlib
import importlib
import json
import os
import re
import shutil
import subprocess
import sys
import time
import traceback

sys.path.insert(0, os.path.dirname(os.path.abspath(__file__)))
import common  # noqa: E402
from common import VERIF, COQ, WORK  # noqa: E402

PROPS = [f"C{i:02d}" for i in range(1, 21)]


# ---------------------------------------------------------------------------------------
# Coq build and proof bookkeeping
# ---------------------------------------------------------------------------------------
def sh(cmd, cwd=None, timeout=3600):
    return subprocess.run(cmd, shell=True, cwd=cwd, capture_output=True, text=True, timeout=timeout)


def ensure_makefile():
    """(re)generate the Makefile whenever the set of .v files changed"""
    vs = sorted(
        os.path.relpath(os.path.join(d, f), COQ)
        for d, _, fs in os.walk(COQ) for f in fs if f.endswith(".v"))
    base = open(os.path.join(COQ, "_CoqProject")).read().split("\n")
    base = [l for l in base if l.startswith("-")]
    want = "\n".join(base + vs) + "\n"
    gen = os.path.join(COQ, "_CoqProject.gen")
    if os.path.exists(os.path.join(COQ, "Makefile")) and os.path.exists(gen) and open(gen).read() == want:
        return
    for f in ("Makefile", "Makefile.conf", ".Makefile.d"):
        try:
            os.remove(os.path.join(COQ, f))
        except FileNotFoundError:
            pass
    with open(gen, "w") as f:
        f.write(want)
    r = sh("coq_makefile -f _CoqProject.gen -o Makefile", cwd=COQ)
    if r.returncode != 0:
        raise RuntimeError("coq_makefile failed: " + r.stderr)


def regen_facts():
    """Generated/Facts.v from the source text of the tree under check (fail-soft)"""
    import facts_extract
    repo = os.environ.get("HERMES_REPO", "/repo")
    try:
        changed, stale, _ = facts_extract.regenerate(repo, COQ)
    except Exception as e:      # never an alarm by itself
        return {"facts_changed": False, "facts_stale": ["*"], "facts_error": repr(e)}
    return {"facts_changed": changed, "facts_stale": stale}


def build_all(jobs=16):
    regen_facts()
    # always regenerate: the file list may have changed
    for f in ("Makefile", "Makefile.conf", ".Makefile.d"):
        try:
            os.remove(os.path.join(COQ, f))
        except FileNotFoundError:
            pass
    ensure_makefile()
    r = sh(f"timeout 3000 make -j{jobs}", cwd=COQ)
    sys.stdout.write(r.stdout[-3000:])
    sys.stderr.write(r.stderr[-6000:])
    return r.returncode


def gate_no_axioms():
    """The development declares no axiom and leaves nothing admitted."""
    bad = []
    pat = re.compile(r"\b(Admitted|admit|Axiom|Axioms|Parameter|Parameters|Conjecture|Admit Obligations|"
                     r"Unset Guard Checking|bypass_check|Unset Positivity|Unset Universe Checking|type-in-type)\b")
    for d, _, fs in os.walk(COQ):
        for f in fs:
            if not f.endswith(".v"):
                continue
            src = open(os.path.join(d, f)).read()
            src_nc = re.sub(r"\(\*.*?\*\)", "", src, flags=re.S)
            for m in pat.finditer(src_nc):
                bad.append((os.path.relpath(os.path.join(d, f), COQ), m.group(0)))
    return bad


def cone_of(vfile):
    """Project files the given file transitively depends on (incl. itself)."""
    seen, todo = set(), [vfile]
    while todo:
        f = todo.pop()
        if f in seen:
            continue
        seen.add(f)
        src = open(os.path.join(COQ, f)).read()
        for m in re.finditer(r"From Hermes Require (?:Import|Export)\s+(.*?)\.\s*$", src, flags=re.M):
            for mod in m.group(1).split():
                p = mod.replace(".", "/") + ".v"
                if os.path.exists(os.path.join(COQ, p)):
                    todo.append(p)
    return sorted(seen)


def count_obligations(files):
    n = 0
    for f in files:
        src = open(os.path.join(COQ, f)).read()
        src = re.sub(r"\(\*.*?\*\)", "", src, flags=re.S)
        n += len(re.findall(r"\b(Qed|Defined)\.", src))
    return n


def build_property(pid):
    """Compile the cone of Props/<pid>.v; returns dict with proof status."""
    ensure_makefile()
    vfile = f"Props/{pid}.v"
    info = {"props_file": vfile, "ok": False, "obligations": 0, "discharged": 0,
            "assumptions": [], "theorems": [], "failing_file": None, "log": ""}
    if not os.path.exists(os.path.join(COQ, vfile)):
        info["log"] = "no Props file"
        return info
    cone = cone_of(vfile)
    info["cone"] = cone
    info["obligations"] = count_obligations(cone)
    # the Makefile may predate new files
    r = sh(f"timeout 3000 make -j16 {vfile}o", cwd=COQ)
    if r.returncode != 0 and "No rule to make target" in (r.stderr + r.stdout):
        for f in ("Makefile", "Makefile.conf", ".Makefile.d"):
            try:
                os.remove(os.path.join(COQ, f))
            except FileNotFoundError:
                pass
        ensure_makefile()
        r = sh(f"timeout 3000 make -j16 {vfile}o", cwd=COQ)
    if r.returncode != 0:
        info["log"] = (r.stdout + r.stderr)[-3000:]
        m = re.search(r'File "\./([^"]+)"', r.stdout + r.stderr)
        info["failing_file"] = m.group(1) if m else None
        done = 0
        for f in cone:
            if info["failing_file"] and info["failing_file"] in cone_of(f):
                continue        # the failing file and everything resting on it
            if os.path.exists(os.path.join(COQ, f + "o")) and \
                    os.path.getmtime(os.path.join(COQ, f + "o")) >= os.path.getmtime(os.path.join(COQ, f)):
                done += count_obligations([f])
        info["discharged"] = done
        return info
    # re-check the property file itself to capture Print Assumptions
    r = subprocess.run(["coqc"] + common.COQFLAGS + [vfile], cwd=COQ, capture_output=True, text=True, timeout=1800)
    if r.returncode != 0:
        info["log"] = (r.stdout + r.stderr)[-3000:]
        info["failing_file"] = vfile
        return info
    out = r.stdout
    info["assumptions"] = sorted(set(
        l.strip() for l in re.findall(r"^([A-Za-z_][\w.']*)\s*:", out, flags=re.M)))
    info["closed"] = out.count("Closed under the global context")
    src = open(os.path.join(COQ, vfile)).read()
    info["theorems"] = re.findall(r"^(?:Theorem|Corollary)\s+([\w']+)", src, flags=re.M)
    info["ok"] = True
    info["discharged"] = info["obligations"]
    return info


# ---------------------------------------------------------------------------------------
# known findings
# ---------------------------------------------------------------------------------------
def load_known():
    p = os.path.join(VERIF, "known_findings.json")
    if not os.path.exists(p):
        return []
    return json.load(open(p))["findings"]


def write_replay(pid, obj):
    d = os.path.join(VERIF, "replays", pid)
    os.makedirs(d, exist_ok=True)
    blob = json.dumps(obj, sort_keys=True, default=str)
    h = hashlib.sha1(blob.encode()).hexdigest()[:12]
    p = os.path.join(d, f"{h}.json")
    with open(p, "w") as f:
        f.write(json.dumps(obj, indent=1, sort_keys=True, default=str))
    return p


# ---------------------------------------------------------------------------------------
# main
# ---------------------------------------------------------------------------------------
class Ctx:
    def __init__(self, pid, tier, seed):
        self.pid, self.tier, self.seed = pid, tier, seed
        # one scratch directory per run: several checks (or tiers of one check) may run at once
        self.work = os.path.join(WORK, f"{pid}-{tier}-{os.getpid()}")
        shutil.rmtree(self.work, ignore_errors=True)
        os.makedirs(self.work, exist_ok=True)
        self.quick = tier == "quick"

    def n(self, quick, thorough):
        return quick if self.quick else thorough


def _watchdog(limit):
    """kill the whole process group if a check hangs (workers swallow SIGTERM)"""
    import signal
    import threading
    try:
        os.setpgrp()
    except OSError:
        pass

    def fire():
        print(f"HARNESS-ERROR: check exceeded {limit}s, killing process group", flush=True)
        os.killpg(os.getpgrp(), signal.SIGKILL)
    t = threading.Timer(limit, fire)
    t.daemon = True
    t.start()


def run_check(pid, tier):
    t0 = time.time()
    _watchdog(1500 if tier == "quick" else 6 * 3600)
    seed = common.seed_from_env()
    ctx = Ctx(pid, tier, seed)
    lines = []
    known = [k for k in load_known() if k["property"] == pid and k["status"] == "known"]
    gate = gate_no_axioms()
    facts = regen_facts()
    proof = build_property(pid)
    # the correspondence/oracle modules the harness evaluates must be current too
    corr_vo = " ".join("Corr/" + f + "o" for f in sorted(os.listdir(os.path.join(COQ, "Corr"))) if f.endswith(".v"))
    r = sh(f"timeout 3000 make -j16 {corr_vo}", cwd=COQ)
    if r.returncode != 0:
        print((r.stdout + r.stderr)[-2000:])
        print(f"HARNESS-ERROR property={pid} (Corr modules do not build)")
        return 2
    mod = importlib.import_module(f"props.{pid.lower()}")
    try:
        res = mod.run(ctx)
    except Exception:
        traceback.print_exc()
        print(f"HARNESS-ERROR property={pid}")
        return 2
    violations = res.get("violations", [])       # [{sig, what, replay}]  property fails on the code
    corr = res.get("corr_failures", [])          # [{what, replay}]       model and code disagree
    nviol = 0
    reported_known = set()
    exitcode = 0
    for v in violations:
        k = next((k for k in known if k["signature"] == v.get("sig")), None)
        if k is not None:
            if k["id"] not in reported_known:
                reported_known.add(k["id"])
                path = write_replay(pid, {"property": pid, "known_finding": k["id"], **v})
                print(f"KNOWN-FINDING: property={pid} {k['id']}: {k['what_fails']} (example replay={path})")
            continue
        nviol += 1
        if nviol <= 5:
            path = write_replay(pid, {"property": pid, **v})
            print(f"VIOLATION property={pid} replay={path}")
            print(f"  what: {v.get('what')}")
        exitcode = 1
    if gate:
        path = write_replay(pid, {"property": pid, "broken": "axiom/admit gate", "hits": gate})
        print(f"VIOLATION property={pid} replay={path} no-failing-input-found")
        exitcode = 1
        nviol += 1
    if not proof["ok"] and nviol == 0:
        path = write_replay(pid, {"property": pid, "broken_obligation": proof.get("failing_file"),
                                  "theorems_file": proof["props_file"], "log": proof["log"]})
        print(f"VIOLATION property={pid} replay={path} no-failing-input-found")
        exitcode = 1
        nviol += 1
    if corr and nviol == 0:
        for c in corr[:3]:
            path = write_replay(pid, {"property": pid, "broken_correspondence": c.get("what"), **c})
            print(f"VIOLATION property={pid} replay={path} no-failing-input-found")
            print(f"  correspondence that no longer checks: {c.get('what')}")
        exitcode = 1
        nviol += len(corr)
    wall = time.time() - t0
    cov = {
        "obligations": proof["obligations"], "discharged": proof["discharged"],
        "checker_cmd": f"make -C /verif/coq {proof['props_file']}o && coqc Props/{pid}.v (Print Assumptions)",
        "trusted_base": res.get("trusted_base", []) + [
            "Coq 8.16.1 kernel + vm_compute (no native_compute)",
            "axioms reported by Print Assumptions: " + (", ".join(proof.get("assumptions") or []) or "none (Closed under the global context)"),
            "hand-written Gallina model tied to /repo by the Python correspondence harness (harness/*.py)",
            "harness/facts_extract.py (Python ast): tables and call orders regenerated into coq/Generated/Facts.v, tied to the models by Proofs/FactsTie.v",
        ],
        "theorems": proof.get("theorems", []),
        "proof_cone": proof.get("cone", []),
        "evaluations": res.get("evaluations", 0),
        "distinct_nontrivial": res.get("distinct_nontrivial", 0),
        "rule": res.get("rule", ""),
        "samples": res.get("samples", [])[:3],
        "traces_validated_against_impl": res.get("traces_validated", res.get("evaluations", 0)),
        "disagreements_checked": len(corr),
        "exhaustive": bool(res.get("exhaustive", False)),
        "known_findings_seen": sorted(reported_known),
        "facts_regenerated_from_source": facts,
    }
    sigs = {}
    for v in violations:
        sigs[str(v.get("sig"))] = sigs.get(str(v.get("sig")), 0) + 1
    if sigs:
        cov["failing_cases_by_signature"] = sigs
    cov.update(res.get("coverage_extra", {}))
    ev = {"property_id": pid, "tier": tier, "seed": seed, "level": "proof", "coverage": cov,
          "assumptions": res.get("assumptions", []), "wall_s": round(wall, 2), "violations": nviol}
    os.makedirs(os.path.join(VERIF, "evidence"), exist_ok=True)
    with open(os.path.join(VERIF, "evidence", f"{pid}.json"), "w") as f:
        json.dump(ev, f, indent=1, default=str)
    print(f"{pid} {tier}: proof obligations {proof['discharged']}/{proof['obligations']}, "
          f"cases {cov['evaluations']} (nontrivial {cov['distinct_nontrivial']}), "
          f"violations {nviol}, corr failures {len(corr)}, {wall:.1f}s")
    shutil.rmtree(ctx.work, ignore_errors=True)
    return exitcode


def main(argv):
    if not argv:
        print(__doc__)
        return 2
    if argv[0] == "--build":
        rc = build_all()
        gate = gate_no_axioms()
        if gate:
            print("axiom/admit gate hits:", gate)
            return 1
        return rc
    if argv[0] == "--replay":
        obj = json.load(open(argv[1]))
        mod = importlib.import_module(f"props.{obj['property'].lower()}")
        return mod.replay(obj)
    pid = argv[0].upper()
    tier = argv[1] if len(argv) > 1 else os.environ.get("VERIF_TIER", "quick")
    if pid not in PROPS or tier not in ("quick", "thorough"):
        print("usage: check <Cxx> quick|thorough")
        return 2
    return run_check(pid, tier)


if __name__ == "__main__":
    sys.exit(main(sys.argv[1:]))

"""Server crash cases (C05): the real server is killed (fork + os._exit, so nothing in
user-space buffers survives) right after the k-th completed file-system operation or bus
send of a poll; then restarted and polled once more."""
import copy
import json
import os
import random
import shutil
import sys

import srvcase
from common import gN, gZ, gbool, glist, sortkey


# ---------------------------------------------------------------------------------------
# instrumentation (installed in the forked child only)
# ---------------------------------------------------------------------------------------
class Killer:
    def __init__(self, kill_at, logfd):
        self.n = 0
        self.kill_at = kill_at
        self.logfd = logfd

    def tick(self, label):
        self.n += 1
        os.write(self.logfd, (label + "\n").encode())
        if self.kill_at is not None and self.n == self.kill_at:
            os._exit(137)


def install(killer):
    import lib.datamodel.serialization as ser
    o_rename, o_remove = os.rename, os.remove

    def rename(a, b, *aa, **kw):
        o_rename(a, b, *aa, **kw)
        killer.tick(f"rename {os.path.basename(a)} {os.path.basename(b)}")

    def remove(a, *aa, **kw):
        o_remove(a, *aa, **kw)
        killer.tick(f"remove {os.path.basename(a)}")
    os.rename, os.remove = rename, remove
    o_ntf = ser.NamedTemporaryFile

    class NTF:
        def __init__(self, *a, **kw):
            self.f = o_ntf(*a, **kw)

        def __enter__(self):
            r = self.f.__enter__()
            self.name = r.name
            return r

        def __exit__(self, *a):
            r = self.f.__exit__(*a)
            killer.tick(f"create {os.path.basename(self.name)}")
            return r
    ser.NamedTemporaryFile = NTF
    o_open = ser.LocalCache._open.__func__

    class W:
        def __init__(self, f, path, mode):
            self.f, self.path, self.mode = f, path, mode
            self.name = path

        def __enter__(self):
            self.f.__enter__()
            return self

        def __exit__(self, *a):
            r = self.f.__exit__(*a)
            if "w" in self.mode:
                killer.tick(f"close {os.path.basename(self.path)}")
            return r

        def write(self, x):
            return self.f.write(x)

        def read(self, *a):
            return self.f.read(*a)

    def _open(cls, path, mode="r"):
        f = o_open(cls, path, mode)
        if "w" in mode:
            # the file now exists and is empty (created or truncated), nothing is written yet
            killer.tick(f"openw {os.path.basename(path)}")
        return W(f, path, mode)
    ser.LocalCache._open = classmethod(_open)


class FileBus:
    """producer double appending accepted events to a file with unbuffered writes"""

    def __init__(self, path, killer):
        from lib.plugins import AbstractMessageBusProducerPlugin
        self.path, self.killer = path, killer
        self.fd = None

    def make(self):
        from lib.plugins import AbstractMessageBusProducerPlugin
        outer = self

        class P(AbstractMessageBusProducerPlugin):
            def __init__(self):
                self._settings = {}

            def open(self):
                outer.fd = os.open(outer.path, os.O_WRONLY | os.O_APPEND | os.O_CREAT)

            def close(self):
                if outer.fd is not None:
                    os.close(outer.fd)
                    outer.fd = None

            def _send(self, event):
                os.write(outer.fd, (json.dumps(json.loads(event.to_json())) + "\n").encode())
                if outer.killer is not None:
                    outer.killer.tick(f"send {event.eventtype} {event.objtype} {event.objpkey}")
        return P()


def sqlite_bus(path, killer):
    """the REAL SQLite producer plugin as message bus (what it has committed is what survives the
    death of the process); a kill point follows every completed send"""
    import importlib
    prod_mod = importlib.import_module("plugins.messagebus_producers.sqlite.sqlite")
    plug = prod_mod.SqliteProducerPlugin({"uri": path, "retention_in_days": 30})
    if killer is not None:
        inner = plug._send

        def _send(event):
            inner(event)
            killer.tick(f"send {event.eventtype} {event.objtype} {event.objpkey}")
        plug._send = _send
    return plug


def read_bus(path):
    from lib.datamodel.event import Event
    out = []
    if path.endswith(".jsonl") and not os.path.exists(path) and os.path.exists(path[:-6] + ".sqlite"):
        import sqlite3
        db = sqlite3.connect(path[:-6] + ".sqlite")
        try:
            rows = db.execute("SELECT data FROM hermesmessages ORDER BY msgid").fetchall()
        except sqlite3.Error:
            rows = []
        db.close()
        for (data,) in rows:
            ev = Event.from_json(data)
            out.append((ev.evcategory, ev.eventtype, ev.objtype, ev.objpkey, ev.objattrs))
        return out
    if os.path.exists(path):
        for line in open(path):
            if line.strip():
                ev = Event.from_json(line)
                out.append((ev.evcategory, ev.eventtype, ev.objtype, ev.objpkey, ev.objattrs))
    return out


def start(wd, case, world, killer):
    import hermes_env as H
    conf = H.server_config(wd, srvcase.datamodel_of(case["cfg"]), ["src"], cache=case["cache"])
    c = H.load_config(wd, conf, "server")
    H.setup_logger("hermes-server")
    for s in c["hermes"]["plugins"]["datasources"]:
        c["hermes"]["plugins"]["datasources"][s]["plugininstance"] = H.MemDS(s, world)
    if case.get("bus") == "sqlite":
        c["hermes"]["plugins"]["messagebus"]["plugininstance"] = sqlite_bus(wd + "/bus.sqlite", killer)
    else:
        c["hermes"]["plugins"]["messagebus"]["plugininstance"] = FileBus(wd + "/bus.jsonl", killer).make()
    c["hermes"]["plugins"]["attributes"]["_jinjafilters"] = {}
    from server.hermesserver import HermesServer
    return HermesServer(c)


def poll(srv, world, tables, viewfile=None):
    import hermes_env as H
    world["tables"] = tables
    orig_fetch = srv.dm.fetch

    def fetch():
        orig_fetch()
        if viewfile:
            from common import enc
            with open(viewfile, "w") as f:
                json.dump(enc(H.snapshot_ds(srv.dm.data)), f)
    srv.dm.fetch = fetch
    H.run_server(srv, 1)
    srv.dm.fetch = orig_fetch
    return H.snapshot_ds(srv.dm.data)


def in_child(fn):
    """run fn() in a forked child; returns (exit status, json result or None)"""
    r, w = os.pipe()
    pid = os.fork()
    if pid == 0:
        os.close(r)
        try:
            res = fn()
            os.write(w, json.dumps(res).encode())
            os._exit(0)
        except BaseException:
            import traceback
            os.write(w, json.dumps({"error": traceback.format_exc()}).encode())
            os._exit(3)
    os.close(w)
    data = b""
    while True:
        d = os.read(r, 65536)
        if not d:
            break
        data += d
    os.close(r)
    _, st = os.waitpid(pid, 0)
    code = os.WEXITSTATUS(st) if os.WIFEXITED(st) else -1
    return code, (json.loads(data.decode()) if data else None)


def gen_case(rng):
    cfg = srvcase.gen_config(rng, {"classes": False, "commits": False, "mappings": False,
                                   "shape": rng.choice(["flat", "chain", "flat"])})
    pool = srvcase.key_pool(cfg, rng)
    a = srvcase.gen_rows(rng, cfg, pool)
    b = srvcase.gen_rows(rng, cfg, pool, a)
    b2 = srvcase.gen_rows(rng, cfg, pool, b)
    c_same = rng.random() < 0.8
    c = b2 if c_same else srvcase.gen_rows(rng, cfg, pool, b2)
    tb = lambda t: srvcase.to_remote_tables(cfg, t)
    return {"cfg": cfg, "A": tb(a), "B": tb(b), "B2": tb(b2), "C": tb(c), "c_same": c_same,
            "cache": {"enable_compression": rng.random() < 0.3, "backup_count": rng.choice([0, 0, 2])},
            # a third of the cases publish through the real SQLite producer plugin
            "bus": "sqlite" if random.Random(rng.randrange(1 << 30)).random() < 0.34 else "file"}


def load_caches(wd, case):
    """what a restarting server would load, per type; ('corrupt', exc) when unloadable"""
    import hermes_env as H
    from lib.datamodel.serialization import LocalCache
    conf = H.server_config(wd, srvcase.datamodel_of(case["cfg"]), ["src"], cache=case["cache"])
    c = H.load_config(wd, conf, "server")
    H.setup_logger("hermes-server")
    c["hermes"]["plugins"]["datasources"]["src"]["plugininstance"] = H.MemDS("src", H.new_world())
    c["hermes"]["plugins"]["attributes"]["_jinjafilters"] = {}
    from server.datamodel import Datamodel
    out, loadable = {}, True
    try:
        dm = Datamodel(c)
        for t in case["cfg"]["types"]:
            out[t["name"]] = {o.getPKey(): copy.deepcopy(o.toNative()) for o in dm.data.cache[t["name"]]}
    except Exception as e:  # noqa
        loadable = False
        out = {"error": f"{type(e).__name__}: {e}"}
    files = sorted(os.listdir(wd + "/cache")) if os.path.isdir(wd + "/cache") else []
    return loadable, out, files


def run_case(case, wd, max_points=None, rng=None):
    """returns list of per-kill-point observations"""
    import hermes_env as H
    from common import enc, dec
    H.rmtree(wd)
    base = wd + "/base"
    os.makedirs(base)
    # base history: silent poll A, complete poll B  (run in a child to keep this process clean)
    def mk_base():
        world = H.new_world()
        srv = start(base, case, world, None)
        poll(srv, world, case["A"])
        poll(srv, world, case["B"])
        return {"mem": enc(H.snapshot_ds(srv.dm.data.cache))}
    code, res = in_child(mk_base)
    if code != 0:
        raise RuntimeError(f"base run failed: {res}")
    base_bus = read_bus(base + "/bus.jsonl")
    _, base_disk, base_files = load_caches(base, case)
    base_mem = dec(res["mem"])

    def interrupted(run, kill_at):
        def fn():
            logfd = os.open(run + "/ops.log", os.O_WRONLY | os.O_APPEND | os.O_CREAT)
            killer = Killer(kill_at, logfd)
            world = H.new_world()
            srv = start(run, case, world, killer)   # start-up itself is not a kill window here
            killer.n = 0
            install(killer)
            poll(srv, world, case["B2"], viewfile=run + "/view.json")
            return {"n": killer.n}
        return in_child(fn)
    # count the operations of the poll
    cnt = wd + "/count"
    shutil.copytree(base, cnt, ignore=shutil.ignore_patterns("sock"))
    code, res = interrupted(cnt, None)
    if code != 0:
        raise RuntimeError(f"counting run failed: {res}")
    n_ops = res["n"]
    ops = open(cnt + "/ops.log").read().split("\n")[:-1]
    view_b2 = dec(json.load(open(cnt + "/view.json")))
    points = list(range(1, n_ops + 1))
    if max_points and len(points) > max_points:
        points = sorted(rng.sample(points, max_points))
    out = []
    for k in points:
        run = wd + f"/k{k}"
        shutil.copytree(base, run, ignore=shutil.ignore_patterns("sock"))
        code, _ = interrupted(run, k)
        loadable, saved, files = load_caches(run, case)
        pre = read_bus(run + "/bus.jsonl")[len(base_bus):]
        ob = {"k": k, "op": ops[k - 1] if k - 1 < len(ops) else "?", "killed": code == 137, "loadable": loadable,
              "saved": saved, "files": files, "pre": pre}
        if loadable:
            def recover():
                world = H.new_world()
                srv = start(run, case, world, None)
                view = poll(srv, world, case["C"])
                return {"view": enc(view), "exc": srv._cache.exception}
            code2, res2 = in_child(recover)
            if code2 == 0:
                ob["view_c"] = dec(res2["view"])
                ob["exc"] = res2["exc"]
                ob["post"] = read_bus(run + "/bus.jsonl")[len(base_bus) + len(pre):]
            else:
                ob["recover_error"] = res2
        out.append(ob)
        H.rmtree(run)
    H.rmtree(wd)
    return {"base_disk": base_disk, "base_mem": base_mem, "base_files": base_files, "view_b2": view_b2, "n_ops": n_ops, "ops": ops,
            "points": out}


# ---------------------------------------------------------------------------------------
# Gallina rendering: one ccase per kill point
# ---------------------------------------------------------------------------------------
def point_gallina(case, res, ob):
    obs_like = [{"views": [res["view_b2"], ob.get("view_c", {})], "mem": res["base_disk"],
                 "disk": ob["saved"] if ob["loadable"] else {}, "trace":
                 [("send",) + tuple(e) for e in ob["pre"]] + [("send",) + tuple(e) for e in ob.get("post", [])]}]
    fake_case = {"cfg": case["cfg"], "steps": [{"op": "poll", "tables": case["B2"]}, {"op": "poll", "tables": case["C"]}]}
    ctx = srvcase.Ctx(case["cfg"], obs_like, fake_case)

    def gevs(evs):
        return glist(ctx.gevent(t, tn, k, a) for (cat, t, tn, k, a) in evs)
    hint = glist(f"({gN(ctx.types[tn])},{gZ(ctx.key(k))})" for (cat, t, tn, k, a) in ob.get("post", []) if t == "modified")
    return "(CCase {} {} {} {} {} {} {} {} {})".format(
        ctx.gcfg(), ctx.gworld(res["base_disk"]), ctx.gworld(res["view_b2"]),
        ctx.gworld(ob["saved"]) if ob["loadable"] else "(mk_world [])", gbool(ob["loadable"]),
        gevs(ob["pre"]), ctx.gworld(ob.get("view_c", {})), gevs(ob.get("post", [])), hint)

#!/bin/bash
# usage: validate_seed.sh Cxx   (worktree /tmp/mut/Cxx with patch.diff, demo_Cxx.py, meta.json)
id="$1"; wt=/tmp/mut/$id
cd $wt || exit 2
git checkout -q -- . ; git checkout -q --detach main || exit 2
/venv/bin/python demo_$id.py >/dev/null 2>&1; clean=$?
git apply patch.diff || { echo "$id: PATCH-DOES-NOT-APPLY"; exit 3; }
/venv/bin/python demo_$id.py >/dev/null 2>&1; mut=$?
passed=$(/venv/bin/python -m pytest -q -p no:cacheprovider --timeout=900 --continue-on-collection-errors 2>&1 | tail -1)
git checkout -q -- .
echo "$id: demo clean rc=$clean, demo mutated rc=$mut, tests: $passed"
if [ $clean = 0 ] && [ $mut = 1 ] && echo "$passed" | grep -q "66 passed"; then
  mkdir -p /verif/seeded/$id && cp patch.diff demo_$id.py /verif/seeded/$id/ && cp meta.json /verif/seeded/$id/meta.json && echo "$id: KEPT"
else echo "$id: REJECTED"; fi

"""Marker flows (C15): unique tokens travel through attributes of each class (secret, local,
cache-only, plain) of the REAL server and a REAL client (handler failures, auto-remediation,
restarts, initsync before and after polls); afterwards every log record, every cache file
and every bus payload is scanned for the tokens."""
import copy
import json
import os
import random
import re

import clicase
import srvcase

TOKEN = re.compile(r"(SEC|LOC|CON|PLN)x[0-9]+x")


def gen_case(rng, opts=None):
    opts = opts or {}
    cfg = srvcase.gen_config(rng, {"shape": rng.choice(["flat", "chain"]), "classes": False, "commits": False,
                                   "mappings": False, "strkeys": False, "integrity": True})
    # every type gets three data attributes at least, one of each special class on some type
    for t in cfg["types"]:
        for a in ("x", "y", "z", "w"):
            if a not in t["attrs"]:
                t["attrs"].append(a)
                t["mapping"][a] = ("plain", "c_" + a)
        data = [a for a in t["attrs"] if a not in t["pkey"]]
        rng.shuffle(data)
        t["secret"], t["local"], t["cacheonly"] = [data[0]], [data[1]], [data[2]]
    pool = rng.sample([1, 2, 3, 4], rng.randint(2, 3))
    counter = [0]

    def tok(cls):
        counter[0] += 1
        base = f"{cls}x{counter[0]}x"
        r = rng.random()
        if r < 0.55:
            return base
        if r < 0.62:
            return base + "p" * 300          # longer than the log truncation limit
        if r < 0.75:
            return [base, f"{cls}x{counter[0]}x"]
        if r < 0.9:
            return {"k": base}
        return {"k": [base], "j": {"m": base}}

    def cls_of(t, a):
        return "SEC" if a in t["secret"] else "LOC" if a in t["local"] else "CON" if a in t["cacheonly"] else "PLN"
    npolls = rng.randint(3, 6)
    polls, prev, kinds = [], None, []
    for i in range(npolls):
        cur = srvcase.gen_rows(rng, cfg, pool, prev, parents_ok=1.0)
        mode = rng.choice(["any", "any", "hidden_only"]) if prev is not None else "any"
        if mode == "hidden_only":
            # same objects as before; only local / cache-only values change
            cur = copy.deepcopy(prev)
        for t in cfg["types"]:
            for k, row in cur[t["name"]].items():
                for a in t["attrs"]:
                    if a in t["pkey"]:
                        continue
                    fresh = prev is None or k not in prev.get(t["name"], {})
                    if mode == "hidden_only":
                        if cls_of(t, a) in ("LOC", "CON") and rng.random() < 0.7:
                            # the hidden value changes, or disappears (NULL in the source), or comes back
                            row[a] = tok(cls_of(t, a)) if rng.random() < 0.7 else None
                    elif fresh or rng.random() < 0.4:
                        row[a] = tok(cls_of(t, a))
                    else:
                        row[a] = copy.deepcopy(prev[t["name"]][k].get(a))
        polls.append(cur)
        kinds.append(mode)
        prev = cur
    cdm = {}
    for t in cfg["types"]:
        am = {}
        for a in t["attrs"]:
            if a in t["pkey"] or a in t["local"] or a in t["cacheonly"]:
                continue
            # a secret may reach its local attribute through a Jinja template: it stays a secret
            am["l_" + a] = ("{{ " + a + " }}") if (a in t["secret"] and rng.random() < 0.5) else a
        cdm["L" + t["name"]] = {"hermesType": t["name"], "attrsmapping": am}
    # in some cases a second source gives the first type other values for its secret attribute
    # (merge conflict, first value kept)
    src2 = None
    if rng.random() < 0.5:
        t0 = cfg["types"][0]
        t0["omc"] = "keep_first_value"
        # the second source also brings an attribute of its own, 'v', that only IT declares secret,
        # while the first source alone declares the other secret attribute: the secrets of the type
        # are the union over its sources
        t0["attrs"].append("v")
        t0["mapping"]["v"] = ("plain", "c_v")
        t0["secret"].append("v")
        cdm["L" + t0["name"]]["attrsmapping"]["l_v"] = "v"
        src2 = []
        for pi, cur in enumerate(polls):
            rows = {}
            for k, row in cur[t0["name"]].items():
                r2 = {a: row[a] for a in t0["pkey"]}
                r2[t0["secret"][0]] = tok("SEC")
                # (unchanged in the polls that only touch hidden attributes)
                r2["v"] = copy.deepcopy(src2[-1][k]["v"]) if (kinds[pi] == "hidden_only" and src2 and k in src2[-1]) else tok("SEC")
                rows[k] = r2
            src2.append(rows)
    plan = [{"poll": i, "initsync": rng.random() < 0.35, "restart": rng.random() < 0.25} for i in range(npolls)]
    plan[0]["initsync"] = rng.random() < 0.7
    plan.append({"poll": npolls - 1, "initsync": True, "restart": False})     # an initsync after the last poll
    return {"cfg": cfg, "polls": polls, "kinds": kinds, "cdm": cdm, "plan": plan, "src2": src2,
            "remediation": rng.choice(["disabled", "conservative", "maximum"]),
            "retention": rng.choice([0, 1]), "p_fail": rng.choice([0.0, 0.3, 0.5]),
            "verbosity": rng.choice(["debug", "info", "warning"]),
            "cseed": rng.randrange(1 << 30)}


def read_files(d):
    out = {}
    for root, _, files in os.walk(d):
        for f in files:
            p = os.path.join(root, f)
            try:
                with open(p, "rb") as fh:
                    data = fh.read()
                if f.endswith(".gz"):
                    import gzip
                    data = gzip.decompress(data)
                out[os.path.relpath(p, d)] = data.decode("utf-8", "replace")
            except Exception as e:  # noqa
                out[os.path.relpath(p, d)] = f"<unreadable {e}>"
    return out


def tokens_in(text):
    return set(m.group(0) for m in TOKEN.finditer(text))


def run_case(case, wd):
    import hermes_env as H
    import clidrv
    H.rmtree(wd)
    os.makedirs(wd)
    cfg = case["cfg"]
    world = H.new_world()
    srvlog = []
    dm = srvcase.datamodel_of(cfg)
    t0 = cfg["types"][0]
    if case.get("src2"):
        s2 = copy.deepcopy(dm[t0["name"]]["sources"]["src"])
        s2["fetch"]["query"] = "q2_" + t0["name"]
        keep = set(t0["pkey"]) | {t0["secret"][0]} | ({"v"} if "v" in t0["attrs"] else set())
        s2["attrsmapping"] = {a: c for a, c in s2["attrsmapping"].items() if a in keep}
        s2["local_attrs"], s2["cacheonly_attrs"] = [], []
        if "v" in t0["attrs"]:
            s1 = dm[t0["name"]]["sources"]["src"]
            s1["attrsmapping"].pop("v", None)
            s1["secrets_attrs"] = [a for a in s1["secrets_attrs"] if a != "v"]
            s2["secrets_attrs"] = ["v"]
        dm[t0["name"]]["sources"]["src2"] = s2
    conf = H.server_config(wd + "/srv", dm, ["src", "src2"] if case.get("src2") else ["src"])

    def tables_of(i):
        tb = srvcase.to_remote_tables(cfg, case["polls"][i])
        if case.get("src2"):
            rows = []
            for k, row in case["src2"][i].items():
                rows.append({t0["mapping"][a][1]: v for a, v in row.items()})
            tb["src2"] = {"q2_" + t0["name"]: rows}
        return tb
    conf["hermes"]["logs"]["verbosity"] = case["verbosity"]
    srv = H.start_server(wd + "/srv", conf, world, logsink=srvlog)
    world["tables"] = {"src": {}}
    H.run_server(srv, 1)
    steps = []
    for step in case["plan"]:
        if step["restart"]:
            try:
                srv._sock._cleanup()
            except Exception:
                pass
            srv = H.start_server(wd + "/srv", conf, world, logsink=srvlog)
        n0 = len(world["bus"])
        world["tables"] = tables_of(step["poll"])
        if step["initsync"]:
            srv._initSyncRequested = True
        H.run_server(srv, 1)
        steps.append({"bus_from": n0, "bus_to": len(world["bus"]), "files": read_files(wd + "/srv/cache")})
    try:
        srv._sock._cleanup()
    except Exception:
        pass
    busjson = [json.dumps(e) for e in world["bus"]]
    # ---- client: consumes everything, with failures, remediation, a restart in the middle
    rng = random.Random(case["cseed"])
    clilog = []
    import datetime
    bus = [(i + 1, clicase.EPOCH + datetime.timedelta(seconds=10 * (i + 1)), d) for i, d in enumerate(busjson)]
    cworld = {"bus": bus, "next": len(bus) + 1, "calls": [], "ncall": 0}
    faults = {"on": True}

    def failfn(n, call, cl):
        if faults["on"] and rng.random() < case["p_fail"]:
            return True if rng.random() < 0.8 else ("partial", rng.randint(1, 3))
        return None
    cworld["failfn"] = failfn
    cconf = clidrv.client_config(wd + "/cli", case["cdm"], trashbin_retention=case["retention"],
                                 foreignkeys_policy="on_remove_event", autoremediation=case["remediation"])
    cconf["hermes"]["logs"]["verbosity"] = case["verbosity"]
    nb = len(bus)
    limits = sorted(set([min(nb, max(2, nb // 3)), min(nb, max(2, 2 * nb // 3)), nb]))
    cfiles, crashes = [], []
    for li, lim in enumerate(limits + [nb, nb]):
        if li >= len(limits):
            faults["on"] = False

        def before(i, it, lim=lim):
            cworld["limit"] = lim

        def after(i, it):
            return False
        cl = None
        try:
            cl = clidrv.start_client(wd + "/cli", cconf, cworld, logsink=clilog)
            clidrv.run_segment(cl, [{"now": clicase.EPOCH + datetime.timedelta(days=li)}] * 3, before, after)
        except Exception as e:  # noqa - a client that cannot (re)start is not this property's concern
            crashes.append(f"{type(e).__name__}: {str(e)[:200]}")
        try:
            cl._GenericClient__sock._cleanup()
        except Exception:
            pass
        cfiles.append(read_files(wd + "/cli/ccache"))
    H.rmtree(wd)
    return {"bus": world["bus"], "steps": steps, "srvlog": srvlog, "clilog": clilog, "cfiles": cfiles,
            "calls": len(cworld["calls"]), "client_crashes": crashes}


def analyse(case, res):
    """returns (violations, stats): every leak found, as (clause, where, token/detail)"""
    cfg = case["cfg"]
    viol = []
    stats = {"tokens": {"SEC": 0, "LOC": 0, "CON": 0, "PLN": 0}, "log_records": len(res["srvlog"]) + len(res["clilog"]),
             "files_scanned": 0, "bus_events": len(res["bus"]), "hidden_only_polls": 0, "sec_delivered": 0,
             "client_crashes": len(res.get("client_crashes", []))}
    alltok = set()
    for p in case["polls"]:
        alltok |= tokens_in(repr(p))
    for t in alltok:
        stats["tokens"][t[:3]] += 1
    # --- bus
    base_tokens, init_tokens = set(), set()
    for ev in res["bus"]:
        toks = tokens_in(json.dumps(ev))
        if ev["evcategory"] == "initsync":
            init_tokens |= toks
            if ev["eventtype"] == "init-start":
                # the announced schema must not reveal local / cache-only attributes
                sch = json.dumps(ev["objattrs"])
                for t in cfg["types"]:
                    for a in t["local"] + t["cacheonly"]:
                        tdesc = ev["objattrs"].get(t["name"], {})
                        if a in json.dumps(tdesc.get("HERMES_ATTRIBUTES", [])) or a in tdesc.get("LOCAL_ATTRIBUTES", []) \
                                or a in tdesc.get("CACHEONLY_ATTRIBUTES", []):
                            viol.append(("schema-reveals-hidden-attribute", "init-start", f"{t['name']}.{a}"))
        else:
            base_tokens |= toks
        # no event names a local / cache-only attribute (as a key of its attributes or of the
        # added / modified / removed parts of a 'modified')
        if ev["eventtype"] in ("added", "modified"):
            t = next((t for t in cfg["types"] if t["name"] == ev.get("objtype")), None)
            if t is not None:
                named = set()
                if ev["eventtype"] == "added":
                    named = set(ev["objattrs"])
                else:
                    for part in ("added", "modified", "removed"):
                        named |= set(ev["objattrs"].get(part, {}))
                for a in named & set(t["local"] + t["cacheonly"]):
                    viol.append(("hidden-attribute-named-in-event", f"{ev['evcategory']} {ev['eventtype']} {t['name']}", a))
    for t in init_tokens:
        if t.startswith("SEC"):
            viol.append(("secret-in-initsync", "bus", t))
    for t in base_tokens | init_tokens:
        if t.startswith("LOC"):
            viol.append(("local-value-on-bus", "bus", t))
        if t.startswith("CON"):
            viol.append(("cacheonly-value-on-bus", "bus", t))
    # secrets are delivered in base events: every secret token of an object present in a poll that
    # was fully published appears on the bus
    last = case["polls"][-1]
    for tname, rows in last.items():
        for k, row in rows.items():
            for tk in tokens_in(repr(row)):
                if tk.startswith("SEC"):
                    if tk in base_tokens:
                        stats["sec_delivered"] += 1
                    else:
                        viol.append(("secret-not-delivered", "bus", tk))
    # --- hidden-only polls are silent
    for step, st in zip(case["plan"], res["steps"]):
        if case["kinds"][step["poll"]] == "hidden_only" and case["plan"].index(step) == step["poll"] \
                and not step["restart"] and not any(s2["restart"] for s2 in case["plan"][:step["poll"] + 1][-1:]):
            stats["hidden_only_polls"] += 1
            evs = [e for e in res["bus"][st["bus_from"]:st["bus_to"]] if e["evcategory"] == "base"]
            if evs:
                viol.append(("event-for-hidden-only-change", f"poll {step['poll']}", f"{len(evs)} events"))
    # --- server cache files: no secret, no local; cache-only values are cached
    con_cached = set()
    for st in res["steps"]:
        for name, text in st["files"].items():
            stats["files_scanned"] += 1
            for tk in tokens_in(text):
                if tk.startswith("SEC"):
                    viol.append(("secret-in-server-cache-file", name, tk))
                if tk.startswith("LOC"):
                    viol.append(("local-value-in-server-cache-file", name, tk))
                if tk.startswith("CON"):
                    con_cached.add(tk)
    # the cache-only values of the objects published by the first poll are in the cache files
    first_files = "".join(res["steps"][0]["files"].values()) if res["steps"] else ""
    if not case["plan"][0]["restart"]:
        for tname, rows in case["polls"][0].items():
            for k, row in rows.items():
                for tk in tokens_in(repr(row)):
                    if tk.startswith("CON") and tk not in first_files:
                        viol.append(("cacheonly-value-not-cached", "server cache", tk))
    # --- client files: the error queue file is the one exception for secrets
    for files in res["cfiles"]:
        for name, text in files.items():
            stats["files_scanned"] += 1
            isqueue = "errorqueue" in name.lower() or "error_queue" in name.lower()
            for tk in tokens_in(text):
                if tk.startswith("SEC") and not isqueue:
                    viol.append(("secret-in-client-cache-file", name, tk))
                if tk.startswith(("LOC", "CON")):
                    viol.append(("hidden-value-in-client-file", name, tk))
    # --- logs (captured at debug: a superset of every verbosity)
    for who, log in (("server", res["srvlog"]), ("client", res["clilog"])):
        for level, msg in log:
            for tk in tokens_in(msg):
                if tk.startswith("SEC"):
                    viol.append((f"secret-in-{who}-log", level, tk + " :: " + msg[:160]))
    return viol, stats

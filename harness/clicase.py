"""Client cases: a bus produced by the REAL server from a generated history, consumed by
the REAL GenericClient under a handler-outcome schedule, purge clock and restarts;
Gallina rendering for the client model."""
import copy
import datetime
import json
import os
import random
import re

import srvcase
from common import Interner, gN, gZ, gbool, glist, gobj, gopt, sortkey

EPOCH = datetime.datetime(2026, 1, 1)
DAY = 86400
TS = "_trashbin_timestamp"


def secs(dt):
    return int((dt - EPOCH).total_seconds())


# ---------------------------------------------------------------------------------------
# generation
# ---------------------------------------------------------------------------------------
def gen_case(rng, opts=None):
    opts = opts or {}
    shape = opts.get("shape") or rng.choice(["flat", "flat", "chain", "assoc"])
    cfg = srvcase.gen_config(rng, {"shape": shape, "classes": False, "commits": False, "mappings": False,
                                   "strkeys": False, "integrity": True, "ntypes": opts.get("ntypes")})
    # (options added later draw from a side stream derived from the state of the main one, so that
    #  the histories generated for a given seed stay what they were)
    side = random.Random(repr(rng.getstate()[1][:8]))
    if "p_revnames" in opts and side.random() < opts["p_revnames"]:
        # declaration order must not coincide with the alphabetical order of the type names
        m = dict(zip(["Ta", "Tb", "Tc", "Td"], ["Tz", "Ty", "Tx", "Tw"]))
        for t in cfg["types"]:
            t["name"] = m[t["name"]]
            t["fks"] = {a: m[p] for a, p in t["fks"].items()}
            if t.get("ics"):
                t["ics"] = [(a, m[p], form) for a, p, form in t["ics"]]
    pool = rng.sample([1, 2, 3, 4], rng.randint(2, 3))
    npolls = rng.randint(opts.get("minpolls", 2), opts.get("maxpolls", 5))
    polls, prev = [], None
    for i in range(npolls):
        cur = srvcase.gen_rows(rng, cfg, pool, prev, parents_ok=1.0)
        for t in cfg["types"]:          # small scalar values only: the client side is about flow
            for k, row in cur[t["name"]].items():
                for a in t["attrs"]:
                    # (with template mappings every value comes from the small pool: Jinja's native
                    #  rendering would turn a string such as "1" into the integer 1)
                    if a not in t["pkey"] and (prev is None or k not in prev.get(t["name"], {}) or rng.random() < 0.5
                                               or opts.get("p_template")):
                        v = rng.choice([1, 2, 3, "a", "b", None, [1], [1, 2]] + ([0, False, "", 0] if opts.get("falsy") else []))
                        row[a] = v
        polls.append(srvcase.to_remote_tables(cfg, cur))
        prev = cur
    # client datamodel: map every type (FK parents must be mapped), rename attributes,
    # sometimes leave an attribute unmapped or map it twice
    cdm = {}
    for t in cfg["types"]:
        if not t["fks"] and not any(t["name"] in u["fks"].values() for u in cfg["types"]) \
                and rng.random() < opts.get("p_unmapped_type", 0.15) and len(cfg["types"]) > 1 \
                and (cdm or t is not cfg["types"][-1]):
            continue
        am = {}
        for a in t["attrs"]:
            if a in t["pkey"]:
                continue
            r = rng.random()
            if r < 0.15:
                continue
            # a mapping may be written as a Jinja template of the single remote attribute: it
            # takes the template branch of convertEventToLocal and renders to the same value
            tmpl = (lambda x: "{{ " + x + " }}") if rng.random() < opts.get("p_template", 0.0) else (lambda x: x)
            am["l_" + a] = tmpl(a)
            if r > 0.85:
                # the second local attribute fed by the same remote one is mapped plainly when the
                # first goes through a template, and conversely, in half of the cases
                if opts.get("p_template") and rng.random() < 0.5:
                    am["l2_" + a] = a if am["l_" + a] != a else "{{ " + a + " }}"
                else:
                    am["l2_" + a] = tmpl(a)
        if rng.random() < opts.get("p_const", 0.0):
            # a local attribute set by a Jinja template without any remote variable (constant)
            am["lc_k"] = "{{ 'kc' }}"
        cdm["L" + t["name"]] = {"hermesType": t["name"], "attrsmapping": am}
    retention = opts.get("retention", rng.choice([0, 0, 1, 2]))
    if shape == "assoc" or any(len(t["pkey"]) > 1 for t in cfg["types"]):
        # the purge walks a Python set of keys: deterministic for small ints only
        retention = 0
    case = {"cfg": cfg, "polls": polls, "cdm": cdm, "retention": retention,
            "fkpolicy": opts.get("fkpolicy") or rng.choice(["disabled", "on_remove_event", "on_every_event"]),
            "remediation": opts.get("remediation") or "disabled",
            "cache": {"enable_compression": False, "backup_count": 0}}
    if side.random() < opts.get("p_schema_bump", 0.0) and npolls >= 2:
        case["schema_bump"] = side.randint(1, npolls - 1)
    return case


def gen_sessions(rng, nevents, opts=None):
    """how the client consumes the bus: iterations with a delivery limit, a clock and
    handler outcomes per invocation index"""
    opts = opts or {}
    its, limit = [], 2
    now = 0
    p_fail = opts.get("p_fail", 0.0)
    while limit < nevents + 2 or len(its) < 2:
        limit = min(nevents + 2, limit + rng.randint(1, 4))
        if opts.get("_ts"):
            # an event cannot be consumed before it was published
            now = max(now, opts["_ts"].get(limit, 0))
        step = rng.choice([10, 3600, DAY // 2, DAY, 2 * DAY]) if opts.get("clock") else 10
        aims = [e + d for e in opts.get("_expiry", []) for d in (-1, 0, 1, 3600) if e + d > now]
        if aims and rng.random() < 0.5:
            now = rng.choice(aims[:8])
        else:
            now += step
        its.append({"limit": limit, "now": now, "restart": rng.random() < opts.get("p_restart", 0.0)})
        if len(its) > 40:
            break
    if opts.get("p_stop_mid"):
        # a graceful stop requested while the k-th new event of the batch is processed (the next
        # iteration is a new process life)
        for j in range(len(its) - 1):
            if its[j + 1]["restart"] and rng.random() < opts["p_stop_mid"]:
                its[j]["stop_after"] = rng.randint(1, 3)
    if opts.get("retention_switch"):
        # retention switched between 0 and R at restarts
        cur = opts["retention_switch"][0]
        for it in its:
            if it["restart"] and rng.random() < 0.6:
                cur = rng.choice(opts["retention_switch"])
            it["retention"] = cur
    for it in its:
        it["faults"] = True
    ndrain = opts.get("extra_iters", 2) if not p_fail else min(40, nevents + 3)
    for _ in range(ndrain):          # drain: handlers no longer fail
        aims = [e + d for e in opts.get("_expiry", []) for d in (-1, 0, 1, 3600) if e + d > now]
        if aims and rng.random() < 0.5:
            now = rng.choice(aims[:8])
        else:
            now += rng.choice([10, DAY, 3 * DAY]) if opts.get("clock") else 10
        its.append({"limit": nevents + 2, "now": now, "restart": False, "faults": False})
        if opts.get("retention_switch"):
            its[-1]["retention"] = its[-2]["retention"]
    ncalls = 8 * nevents + 40
    outcomes = []
    for i in range(ncalls):
        r = rng.random()
        if r < p_fail:
            outcomes.append(("partial", rng.randint(1, 3)) if rng.random() < opts.get("p_partial", 0.2) else "fail")
        else:
            outcomes.append("ok")
    return {"iters": its, "outcomes": outcomes, "fail_types": opts.get("fail_types")}


# ---------------------------------------------------------------------------------------
# execution
# ---------------------------------------------------------------------------------------
def produce_bus(case, wd):
    """run the real server: silent empty poll, initsync (empty), then the polls"""
    import hermes_env as H
    world = H.new_world()
    conf = H.server_config(wd + "/srv", srvcase.datamodel_of(case["cfg"]), ["src"])
    srv = H.start_server(wd + "/srv", conf, world)
    world["tables"] = {"src": {}}
    H.run_server(srv, 1)
    srv._initSyncRequested = True
    bump = case.get("schema_bump")
    for i, tables in enumerate(case["polls"]):
        if bump is not None and i == bump:
            # the server is restarted under a datamodel with one more attribute (always null, so no
            # data event follows): it publishes a 'dataschema' event that a RUNNING client merges
            dm2 = srvcase.datamodel_of(case["cfg"])
            t0 = case["cfg"]["types"][0]["name"]
            dm2[t0]["sources"]["src"]["attrsmapping"]["zzbump"] = "{{ None }}"
            try:
                srv._sock._cleanup()
            except Exception:
                pass
            srv = H.start_server(wd + "/srv", H.server_config(wd + "/srv", dm2, ["src"]), world)
        world["tables"] = tables
        H.run_server(srv, 1)
    try:
        srv._sock._cleanup()
    except Exception:
        pass
    return [json.dumps(e) for e in world["bus"]]


def snapshot(cl):
    import hermes_env as H
    dm = cl._GenericClient__datamodel
    out = {}
    for name in ("remotedata", "remotedata_complete", "localdata", "localdata_complete"):
        ds = getattr(dm, name)
        out[name] = H.snapshot_ds(ds) if ds is not None else {}
    q = []
    if dm.errorqueue is not None:
        for num, (rev, lev, msg) in dm.errorqueue._queue.items():
            q.append({"num": num, "remote": None if rev is None else (rev.eventtype, rev.objtype, rev.objpkey, copy.deepcopy(rev.objattrs), rev.step, rev.isPartiallyProcessed),
                      "local": (lev.eventtype, lev.objtype, lev.objpkey, copy.deepcopy(lev.objattrs), lev.step, lev.isPartiallyProcessed),
                      "msg": msg is not None})
    out["queue"] = q
    cache = cl._GenericClient__cache
    out["next"] = cache.nextoffset
    out["init"] = (cache.initstartoffset, cache.initstopoffset)
    out["exc"] = cache.exception
    return out


def run_case(case, wd, sessions=None):
    import hermes_env as H
    import clidrv
    H.rmtree(wd)
    os.makedirs(wd)
    busjson = produce_bus(case, wd)
    sessions = sessions or case.get("sessions")
    sopts = dict(case.get("session_opts") or {})
    ts_override = case.get("ts_override")
    if ts_override is None and sopts.get("spread_ts"):
        # bus timestamps spread over hours and days (derived from the case seed)
        r2 = random.Random(case["sseed"] ^ 0x5bd1e995)
        t, ts_override = 0, {}
        for i in range(len(busjson)):
            t += r2.choice([10, 10, 600, 3600, 6 * 3600, DAY // 2, DAY])
            ts_override[str(i + 1)] = t
    if ts_override:
        sopts["_ts"] = {int(k): v for k, v in ts_override.items()}
        if sopts.get("aim_expiry") and case["retention"]:
            # clock values aimed at the retention limit of the removal events (+-1 s, +1 h)
            sopts["_expiry"] = sorted(ts_override[str(i + 1)] + case["retention"] * DAY
                                      for i, d in enumerate(busjson) if json.loads(d).get("eventtype") == "removed")
    if sessions is None:
        sessions = gen_sessions(random.Random(case["sseed"]), len(busjson) - 2, sopts)
    bus = [(i + 1, EPOCH + datetime.timedelta(seconds=10 * (i + 1)), d) for i, d in enumerate(busjson)]
    if ts_override:
        bus = [(o, EPOCH + datetime.timedelta(seconds=ts_override.get(str(o), secs(t))), d) for (o, t, d) in bus]
    if case.get("subsecond"):
        # real bus timestamps are not whole seconds (the caches store whole seconds)
        bus = [(o, t + datetime.timedelta(microseconds=500000), d) for (o, t, d) in bus]
    world = {"bus": bus, "next": len(bus) + 1, "calls": [], "ncall": 0}
    outs = sessions["outcomes"]

    given = []
    world["faults_on"] = True

    ftypes = sessions.get("fail_types")

    frule = sessions.get("fail_rule")       # {"<handler>|<key repr>": number of attempts that fail}
    attempts = {}

    def failfn(n, call, cl):
        o = outs[n] if (n < len(outs) and world["faults_on"]) else "ok"
        if frule is not None:
            tag = f"{call['h']}|{call['key']!r}"
            attempts[tag] = attempts.get(tag, 0) + 1
            rule = frule.get(tag, 0)
            if isinstance(rule, (list, tuple)):        # ["partial", n]: the first n attempts fail after a first step
                o = ("partial", 1) if (world["faults_on"] and attempts[tag] <= rule[1]) else "ok"
            else:
                o = "fail" if (world["faults_on"] and attempts[tag] <= rule) else "ok"
        if ftypes is not None and o != "ok":
            lt = "_".join(call["h"].split("_")[1:-1])
            if lt not in ftypes:
                o = "ok"
        given.append(o)
        if o == "ok":
            return None
        if o == "fail":
            return True
        return ("partial", o[1])
    world["failfn"] = failfn
    conf = clidrv.client_config(wd + "/cli", case["cdm"], trashbin_retention=case["retention"],
                                foreignkeys_policy=case["fkpolicy"], autoremediation=case["remediation"],
                                cache=case["cache"])
    cl = clidrv.start_client(wd + "/cli", conf, world)
    obs = []
    # iteration 0: initialisation from the (empty) initsync sequence; then the session,
    # cut into segments at every restart (one mainLoop call per process life)
    iters = [{"limit": 2, "now": 0, "restart": False, "_init": True}] + list(sessions["iters"])
    segments, cur = [], []
    for it in iters:
        if it.get("restart") and cur:
            segments.append(cur)
            cur = []
        cur.append(it)
    segments.append(cur)
    init = None
    mark = {"n0": 0}

    def before(i, it):
        world["limit"] = it["limit"]
        world["faults_on"] = it.get("faults", True)
        mark["n0"] = len(world["calls"])
        world["deliverhook"] = None
        if it.get("stop_after"):
            # graceful stop requested while the k-th new event of the batch is being processed
            left = {"n": it["stop_after"]}

            def hook(off, it=it):
                if world.get("_mode") != "process":
                    return
                left["n"] -= 1
                if left["n"] == 0:
                    live["cl"]._GenericClient__isStopped = True
                    live["cl"]._stopped_by_request = True
                    it["limit"] = off          # equivalent iteration: everything up to this event, then stop
            world["deliverhook"] = hook

    def make_after(client):
        def after(i, it):
            ob = snapshot(client)
            ob["calls"] = [c for c in world["calls"][mark["n0"]:] if c["h"] != "on_save"]
            obs.append((it, ob))
            # everything delivered, faults over and queue drained: the remaining drain
            # iterations would be no-ops
            gi = len(obs) - 1
            return (not it.get("faults", True) and not ob["queue"] and ob["next"] == len(bus) + 1
                    and not ob["calls"] and not any(x.get("restart") for x in iters[gi + 1:]))
        return after
    def conf_for(it):
        return clidrv.client_config(wd + "/cli", case["cdm"], trashbin_retention=it.get("retention", case["retention"]),
                                    foreignkeys_policy=case["fkpolicy"], autoremediation=case["remediation"],
                                    cache=case["cache"])
    live = {"cl": cl}
    for si, seg in enumerate(segments):
        if si > 0:
            # the retention in force may change across a restart (it["retention"])
            cl = clidrv.start_client(wd + "/cli", conf_for(seg[0]), world)
        live["cl"] = cl
        seg2 = [dict(it, now=EPOCH + datetime.timedelta(seconds=it["now"])) for it in seg]
        clidrv.run_segment(cl, seg2, before, make_after(cl))
    init = obs[0][1]
    used = [it for it, ob in obs[1:]]
    obs = [ob for it, ob in obs[1:]]
    sessions = dict(sessions, iters=[dict(it, now=(secs(it["now"]) if not isinstance(it["now"], int) else it["now"])) for it in used])
    try:
        cl._GenericClient__sock._cleanup()
    except Exception:
        pass
    H.rmtree(wd)
    from lib.datamodel.serialization import JSONSerializable
    return {"bus": [(o, secs(t), json.loads(d, object_hook=JSONSerializable._json_parser)) for (o, t, d) in bus],
            "init": init, "iters": obs, "sessions": dict(sessions, outcomes=list(given))}


# ---------------------------------------------------------------------------------------
# Gallina rendering
# ---------------------------------------------------------------------------------------
def const_of(ra):
    """value of a mapping written as a Jinja template of a string literal only, else None"""
    m = re.fullmatch(r"\{\{ '([a-z]+)' \}\}", ra)
    return m.group(1) if m else None


class CCtx:
    def __init__(self, case, res):
        cfg = case["cfg"]
        self.cfg = cfg
        self.tdesc = {t["name"]: t for t in cfg["types"]}
        self.types = {t["name"]: i + 1 for i, t in enumerate(cfg["types"])}
        self.ltypes = {}
        names = set([TS])
        for t in cfg["types"]:
            names.update(t["attrs"])
        # a constant template is rendered as the mapping of a virtual remote attribute that every
        # 'added' event (and so every remote object) of the type carries with the constant value
        self.consts = {}
        for lname, d in case["cdm"].items():
            self.ltypes[lname] = self.types[d["hermesType"]]
            names.update(d["attrsmapping"].keys())
            for la, ra in d["attrsmapping"].items():
                cv = const_of(ra)
                if cv is not None:
                    self.consts.setdefault(d["hermesType"], {})["__c_" + la] = cv
                    names.add("__c_" + la)
            for a in self.tdesc[d["hermesType"]]["pkey"]:
                names.add("_pkey_" + a)
        self.attrs = Interner(names)
        self.lname_of = {d["hermesType"]: l for l, d in case["cdm"].items()}
        tuples = set()

        def addk(k):
            if isinstance(k, (tuple, list)):
                tuples.add(tuple(k))
        for (o, ts, ev) in res["bus"]:
            addk(ev.get("objpkey"))
        self.tup = Interner(tuples, start=1001)

    def key(self, k):
        if isinstance(k, (tuple, list)):
            return self.tup[tuple(k)]
        return k

    def tid(self, name):
        if name in self.types:
            return self.types[name]
        return self.ltypes[name]

    def canon(self, d):
        out = {}
        for a, v in d.items():
            if a == TS:
                out[a] = secs(v) if isinstance(v, datetime.datetime) else v
            else:
                out[a] = v
        return out

    def gobj(self, d):
        return gobj(self.canon(d), self.attrs)

    def gkind(self, evtype, attrs):
        if evtype == "added":
            return f"(KAdded {self.gobj(attrs)})"
        if evtype == "removed":
            return "KRemoved"
        return (f"(KModified (MDiff {self.gobj(attrs['added'])} {self.gobj(attrs['modified'])}"
                f" {self.gobj(attrs['removed'])}))")

    def gcev(self, evtype, tname, k, attrs, ts=0, step=0, partial=False):
        if evtype == "added" and tname in self.consts:
            attrs = dict(attrs, **self.consts[tname])
        return (f"(CEv {gN(self.tid(tname))} {gZ(self.key(k))} {self.gkind(evtype, attrs)} {gZ(ts)}"
                f" {gZ(step)} {gbool(partial)})")

    def gworld(self, ds, prefix, local):
        items = []
        for tname, objs in ds.items():
            if not tname.startswith(prefix):
                continue
            base = tname[len(prefix):]
            if prefix == "" and base.startswith("trashbin_"):
                continue
            tid = self.ltypes.get(base) if local else self.types.get(base)
            if tid is None:
                continue
            for k, o in objs.items():
                if prefix == "":
                    # live caches: the internal timestamp may linger on an object shared by
                    # reference between the live and the complete cache (not modelled)
                    o = {a: v for a, v in o.items() if a != TS}
                if not local and base in self.consts:
                    o = dict(o, **self.consts[base])
                items.append(((tid, self.key(k)), self.gobj(o)))
        items.sort(key=lambda x: x[0])
        return "(mk_world [" + ";".join(f"({gN(t)},{gZ(k)},{o})" for (t, k), o in items) + "])"

    def gccfg(self, case):
        cts = []
        for t in case["cfg"]["types"]:
            l = self.lname_of.get(t["name"])
            if l is None:
                continue
            plain = lambda ra: ra[3:-3] if ra.startswith("{{ ") and ra.endswith(" }}") else ra
            am = [(self.attrs[la], self.attrs["__c_" + la if const_of(ra) is not None else plain(ra)])
                  for la, ra in case["cdm"][l]["attrsmapping"].items()]
            am += [(self.attrs["_pkey_" + a], self.attrs[a]) for a in t["pkey"]]
            fks = [(self.attrs["_pkey_" + a], self.types[p]) for a, p in t["fks"].items()]
            cts.append("(CType {} {} {} {})".format(
                gN(self.types[t["name"]]), glist(f"({gN(a)},{gN(b)})" for a, b in am),
                glist(f"({gN(a)},{gN(b)})" for a, b in fks), gN(self.attrs[TS])))
        ret = "None" if not case["retention"] else f"(Some {gZ(case['retention'] * DAY)})"
        pol = {"disabled": "FKDisabled", "on_remove_event": "FKOnRemove", "on_every_event": "FKOnEvery"}[case["fkpolicy"]]
        rem = {"disabled": "RDisabled", "conservative": "RConservative", "maximum": "RMaximum"}[case["remediation"]]
        alltypes = glist(gN(self.types[t["name"]]) for t in case["cfg"]["types"])
        return f"(CCfg {glist(cts)} {ret} {pol} {rem} {gN(self.attrs[TS])} {alltypes})"

    def gstate_obs(self, ob):
        ws = [self.gworld(ob["remotedata"], "", False), self.gworld(ob["remotedata"], "trashbin_", False),
              self.gworld(ob["remotedata_complete"], "", False), self.gworld(ob["remotedata_complete"], "trashbin_", False),
              self.gworld(ob["localdata"], "", True), self.gworld(ob["localdata"], "trashbin_", True),
              self.gworld(ob["localdata_complete"], "", True), self.gworld(ob["localdata_complete"], "trashbin_", True)]
        q = glist("(OQ {} {} {} {})".format(
            gZ(e["num"]),
            gopt(None if e["remote"] is None else self.gcev(e["remote"][0], e["remote"][1], e["remote"][2], e["remote"][3], 0, e["remote"][4], e["remote"][5])),
            self.gcev(e["local"][0], e["local"][1], e["local"][2], e["local"][3], 0, e["local"][4], e["local"][5]),
            gbool(e["msg"])) for e in ob["queue"])
        return ws, q

    def gcall(self, cl):
        parts = cl["h"].split("_")
        evkind = parts[-1]
        tname = "_".join(parts[1:-1])
        hk = {"added": "HAdded", "modified": "HModified", "removed": "HRemoved", "trashed": "HTrashed",
              "recycled": "HRecycled"}[evkind]
        attrs = cl["attrs"]
        if evkind == "modified":
            k = self.gkind("modified", attrs)
        elif evkind in ("added", "recycled"):
            k = self.gkind("added", attrs)
        else:
            k = "KRemoved"
        out = {"ok": "HOk", "FAIL": "HFail", "FAILPARTIAL": "(HFailPartial 0)"}[cl["out"]]
        nots = lambda d: {a: v for a, v in d.items() if a != TS}
        new = gopt(self.gobj(nots(cl["new"]))) if cl["new"] is not None else "None"
        old = gopt(self.gobj(nots(cl["old"]))) if cl["old"] is not None else "None"
        return (f"(Call {hk} {gN(self.tid(tname))} {gZ(self.key(cl['key']))} {k} {new} {old} {gZ(cl['step'])}"
                f" {gbool(cl['partial'])} {gbool(cl['retry'])} {out})")


def goutcomes(outs):
    return glist("HOk" if o == "ok" else ("HFail" if o == "fail" else f"(HFailPartial {gZ(o[1])})") for o in outs)


def case_to_gallina(case, res, sessions=None):
    sessions = sessions or res.get("sessions") or case["sessions"]
    ctx = CCtx(case, res)
    evs = {}
    for (o, ts, ev) in res["bus"]:
        if ev["evcategory"] == "base" and ev["eventtype"] in ("added", "modified", "removed"):
            evs[o] = f"({gZ(o)},{ctx.gcev(ev['eventtype'], ev['objtype'], ev['objpkey'], ev['objattrs'], ts)})"
    iters = []
    allbus = glist(evs[o] for o in sorted(evs))
    for it, ob in zip(sessions["iters"], res["iters"]):
        delivered = "[]"
        ws, q = ctx.gstate_obs(ob)
        calls = glist(ctx.gcall(c) for c in ob["calls"])
        ret = it.get("retention", case["retention"])
        skips = glist(gZ(o) for (o, ts, ev) in res["bus"]
                      if o <= it["limit"] and ev["evcategory"] == "base" and ev["eventtype"] == "dataschema")
        iters.append("(CIter {} {} {} {} {} {} {} {} {} {} {})".format(
            gZ(it["now"]), gbool(it.get("restart", False)), delivered, calls, glist(ws), q,
            gZ(ob["next"] if ob["next"] is not None else -1), gbool(ob["exc"] is not None), gZ(it["limit"]),
            "None" if not ret else f"(Some {gZ(ret * DAY)})", skips))
    # queue content (objects having entries) observed at every handler invocation
    rname = {l: r for r, l in ctx.lname_of.items()}
    pk_of = {t["name"]: t["pkey"] for t in case["cfg"]["types"]}

    def gq(lt, k, kind):
        pk = pk_of[rname[lt]]
        comps = list(k) if isinstance(k, (tuple, list)) else [k]
        # attribute 0 (never a real attribute: ids start at 1) carries the kind of the entry
        o = gobj(dict({'_pkey_' + a: v for a, v in zip(pk, comps)}, __qkind={"added": 0, "modified": 1, "removed": 2}[kind]),
                 dict(ctx.attrs.map, __qkind=0))
        return f"({gN(ctx.tid(lt))},{gZ(ctx.key(k))},{o})"
    qobs = glist(glist(gq(lt, k, kind) for (lt, k, kind) in (c.get("qobjs") or []) if lt in rname)
                 for ob in res["iters"] for c in ob["calls"])
    return (f"(with_qobs (mk_ccase {ctx.gccfg(case)} {goutcomes(sessions['outcomes'])} {allbus} {glist(iters)})"
            f" {qobs})")

import sys, os, json, pprint
sys.path.insert(0, os.path.dirname(__file__))
import common, srvcase
obj = json.load(open(sys.argv[1]))
case = common.dec(obj["case"])
import hermes_env
obs = srvcase.run_case(case, common.workdir("dbg") + "/c")
g = srvcase.case_to_gallina(case, obs)
for t in case["cfg"]["types"]:
    print({k: t[k] for k in ("name", "pkey", "fks", "secret", "local", "cacheonly", "commit", "integrity")})
for st, ob in zip(case["steps"], obs):
    print("STEP", st.get("op"), "isync", st.get("isync"), "fail", st.get("fail"), "openfail", st.get("openfail"))
    for r in ob["trace"]:
        if r[0] in ("send", "sendfail", "commit"): print("   ", r[:5] if r[2] == "init-start" else r)
    if ob["views"]: print("    view:", ob["views"][-1])
    print("    mem:", ob["mem"])
    if ob.get("exc"): print("    exc:", ob["exc"][-200:])
oracles = sys.argv[2:] or ["c01_case"]
body = "From Hermes Require Import Corr.RunServer.\nDefinition x : scase := " + g + ".\nEval vm_compute in (corr_detail_case x).\n" + "".join(f"Eval vm_compute in ({o} x).\n" for o in oracles)
p = common.workdir("dbg") + "/case1.v"
open(p, "w").write(body)
print(common.run_coqc(p))

"""Initialisation cases (C12): a bus produced by the REAL server with initsync sequences
requested at chosen points and cut by refused sends (truncated sequences), consumed by a
REAL GenericClient starting without state; visibility limit, processing budget (consumer
stops yielding mid-sequence) and restarts per loop iteration."""
import copy
import datetime
import json
import os
import random

import clicase
import srvcase
from common import gN, gZ, gbool, glist, gopt

EPOCH = clicase.EPOCH


def gen_case(rng, opts=None):
    opts = opts or {}
    base = clicase.gen_case(rng, {"shape": rng.choice(["flat", "flat", "chain"]), "retention": 0,
                                  "minpolls": 3, "maxpolls": 6, "fkpolicy": "disabled"})
    npolls = len(base["polls"])
    # server plan: before which polls an initsync is requested (0..3), which steps are cut
    nseq = opts.get("nseq", rng.choice([0, 1, 1, 2, 2, 3]))
    where = sorted(rng.sample(range(npolls), min(nseq, npolls)))
    plan = []
    for i in range(npolls):
        step = {"poll": i, "initsync": i in where, "cut": None}
        if i in where and rng.random() < opts.get("p_cut", 0.45):
            step["cut"] = rng.randint(0, 4)      # the (cut+1)-th send of this step is refused
        elif rng.random() < 0.1:
            step["cut"] = rng.randint(0, 3)
        plan.append(step)
    base["plan"] = plan
    base["first"] = opts.get("first", rng.random() < 0.5)
    return base


def produce_bus(case, wd):
    import hermes_env as H
    world = H.new_world()
    conf = H.server_config(wd + "/srv", srvcase.datamodel_of(case["cfg"]), ["src"])
    srv = H.start_server(wd + "/srv", conf, world)
    world["tables"] = {"src": {}}
    H.run_server(srv, 1)
    for step in case["plan"]:
        world["tables"] = case["polls"][step["poll"]]
        if step["initsync"]:
            srv._initSyncRequested = True
        if step["cut"] is not None:
            world["fail"] = {world["nsend"] + step["cut"]}
        H.run_server(srv, 1)
        world["fail"] = set()
    # let a pending (cut) initsync / cycle complete
    H.run_server(srv, 1)
    try:
        srv._sock._cleanup()
    except Exception:
        pass
    return [json.dumps(e) for e in world["bus"]]


def gen_sessions(rng, nbus, opts=None):
    opts = opts or {}
    its, limit = [], 0
    while limit < nbus:
        limit = min(nbus, limit + rng.randint(1, max(2, nbus // 3)))
        its.append({"limit": limit, "budget": rng.randint(1, 5) if rng.random() < opts.get("p_budget", 0.3) else None,
                    "restart": rng.random() < opts.get("p_restart", 0.25)})
        if len(its) > 30:
            break
    for _ in range(6):
        its.append({"limit": nbus, "budget": None, "restart": rng.random() < 0.15})
    return {"iters": its}


def run_case(case, wd, sessions=None):
    import hermes_env as H
    import clidrv
    H.rmtree(wd)
    os.makedirs(wd)
    busjson = produce_bus(case, wd)
    sessions = sessions or case.get("sessions") or gen_sessions(random.Random(case["sseed"]), len(busjson),
                                                                 case.get("session_opts"))
    bus = [(i + 1, EPOCH + datetime.timedelta(seconds=10 * (i + 1)), d) for i, d in enumerate(busjson)]
    world = {"bus": bus, "next": len(bus) + 1, "calls": [], "ncall": 0, "failfn": None}
    conf = clidrv.client_config(wd + "/cli", case["cdm"], trashbin_retention=0, foreignkeys_policy="disabled",
                                autoremediation="disabled", useFirstInitsyncSequence=case["first"])
    iters = list(sessions["iters"])
    segments, cur = [], []
    for it in iters:
        if it.get("restart") and cur:
            segments.append(cur)
            cur = []
        cur.append(it)
    segments.append(cur)
    obs, mark = [], {"n0": 0}

    def before(i, it):
        world["limit"] = it["limit"]
        world["budget"] = it.get("budget")
        mark["n0"] = len(world["calls"])

    def make_after(client):
        def after(i, it):
            ob = clicase.snapshot(client)
            ob["calls"] = [c for c in world["calls"][mark["n0"]:] if c["h"] != "on_save"]
            obs.append(ob)
            return False
        return after
    for seg in segments:
        cl = clidrv.start_client(wd + "/cli", conf, world)
        seg2 = [dict(it, now=EPOCH + datetime.timedelta(seconds=100 + 10 * len(obs))) for it in seg]
        clidrv.run_segment(cl, seg2, before, make_after(cl))
        try:
            cl._GenericClient__sock._cleanup()
        except Exception:
            pass
    H.rmtree(wd)
    from lib.datamodel.serialization import JSONSerializable
    return {"bus": [(o, clicase.secs(t), json.loads(d, object_hook=JSONSerializable._json_parser)) for (o, t, d) in bus],
            "iters": obs, "sessions": sessions}


def case_to_gallina(case, res, sessions=None):
    sessions = sessions or res["sessions"]
    fake = {"bus": [(o, ts, ev) for (o, ts, ev) in res["bus"] if ev["eventtype"] in ("added", "modified", "removed")],
            "iters": res["iters"], "init": None}
    ctx = clicase.CCtx(case, fake)
    items = []
    for (o, ts, ev) in res["bus"]:
        if ev["eventtype"] == "init-start":
            k = "BStart"
        elif ev["eventtype"] == "init-stop":
            k = "BStop"
        elif ev["eventtype"] in ("added", "modified", "removed"):
            k = f"(BData {gbool(ev['evcategory'] == 'initsync')} {ctx.gcev(ev['eventtype'], ev['objtype'], ev['objpkey'], ev['objattrs'], ts)})"
        else:
            raise ValueError(f"unexpected event type {ev['eventtype']}")
        items.append(f"({gZ(o)},{k})")
    iters = []
    for it, ob in zip(sessions["iters"], res["iters"]):
        ws, q = ctx.gstate_obs(ob)
        calls = glist(ctx.gcall(c) for c in ob["calls"])
        oz = lambda v: "None" if v is None else f"(Some {gZ(v)})"
        budget = "None" if it.get("budget") is None else f"(Some {it['budget']}%nat)"
        iters.append("(IIter {} {} {} {} {} {} {} {} {} {})".format(
            gZ(it["limit"]), budget, gbool(it.get("restart", False)), calls, glist(ws), q,
            oz(ob["next"]), oz(ob["init"][0]), oz(ob["init"][1]), gbool(ob["exc"] is not None)))
    return f"(ICase {ctx.gccfg(case)} {gbool(case['first'])} {glist(items)} {glist(iters)})"

"""Datamodel evolution cases (C17): the REAL server and client run a history under
configuration A, are stopped, restarted under configuration B (edits of the server and / or
client datamodel) and run on; a FRESH server and client running B on the final source state
are the reference."""
import copy
import datetime
import json
import os
import random

import clicase
import srvcase
from common import enc, dec, gN, gZ, gbool, glist, canon

EPOCH = clicase.EPOCH
SERVER_EDITS = ["add_type", "remove_type", "add_attr", "remove_attr", "remove_chain"]
CLIENT_EDITS = ["unmap_attr", "map_attr", "unmap_type", "map_type"]


def gen_case(rng, opts=None):
    opts = opts or {}
    cfg = srvcase.gen_config(rng, {"shape": rng.choice(["flat", "chain"]), "classes": False, "commits": False,
                                   "mappings": False, "strkeys": False, "integrity": True})
    for t in cfg["types"]:
        for a in ("x", "y", "z"):
            if a not in t["attrs"]:
                t["attrs"].append(a)
                t["mapping"][a] = ("plain", "c_" + a)
    if rng.random() < 0.5:
        # declaration order must not coincide with the alphabetical order of the type names
        m = dict(zip(["Ta", "Tb", "Tc", "Td"], ["Tz", "Ty", "Tx", "Tw"]))
        for t in cfg["types"]:
            t["name"] = m[t["name"]]
            t["fks"] = {a: m[p] for a, p in t["fks"].items()}
    full = copy.deepcopy(cfg)                    # the universe: every type with every attribute
    pool = rng.sample([1, 2, 3, 4], rng.randint(2, 3))

    def rows(prev):
        cur = srvcase.gen_rows(rng, full, pool, prev, parents_ok=1.0)
        for t in full["types"]:
            for k, row in cur[t["name"]].items():
                for a in t["attrs"]:
                    if a not in t["pkey"] and (prev is None or k not in prev.get(t["name"], {}) or rng.random() < 0.4):
                        row[a] = rng.choice([1, 2, 3, "a", "b", [1], None])
        return cur
    h1, prev = [], None
    for _ in range(rng.randint(1, 3)):
        prev = rows(prev)
        h1.append(prev)
    h2 = []
    for _ in range(rng.randint(1, 2)):
        prev = rows(prev)
        h2.append(prev)

    def restrict(c, types, attrs):
        out = copy.deepcopy(c)
        out["types"] = [t for t in out["types"] if t["name"] in types]
        for t in out["types"]:
            t["attrs"] = [a for a in t["attrs"] if a in t["pkey"] or a in attrs[t["name"]]]
            t["mapping"] = {a: m for a, m in t["mapping"].items() if a in t["attrs"]}
        return out
    leaf = [t["name"] for t in full["types"] if not any(t["name"] in u["fks"].values() for u in full["types"])]
    # configuration A: maybe one leaf type and one attribute missing; configuration B: edits
    typesA = {t["name"] for t in full["types"]}
    attrsA = {t["name"]: {a for a in t["attrs"] if a not in t["pkey"]} for t in full["types"]}
    typesB, attrsB = set(typesA), copy.deepcopy(attrsA)
    edits = []
    for e in rng.sample(SERVER_EDITS, rng.randint(0, 2)):
        if e == "add_type" and len(leaf) > 0 and len(typesA) > 1:
            t = rng.choice(leaf)
            typesA.discard(t)
            edits.append(("add_type", t))
        elif e == "remove_type" and len(leaf) > 0 and len(typesB) > 1:
            cand = [t for t in leaf if t in typesA and t in typesB]
            if cand:
                t = rng.choice(cand)
                typesB.discard(t)
                edits.append(("remove_type", t))
        elif e == "remove_chain":
            # a leaf type and its parent leave together (the parent has no other child)
            for t in full["types"]:
                par = list(t["fks"].values())
                if t["name"] in leaf and len(par) == 1 and par[0] in typesA and t["name"] in typesA and par[0] in typesB \
                        and t["name"] in typesB and len(typesB) > 2 \
                        and not any(par[0] in u["fks"].values() for u in full["types"] if u["name"] != t["name"]):
                    typesB.discard(t["name"])
                    typesB.discard(par[0])
                    edits.append(("remove_type", t["name"]))
                    edits.append(("remove_type", par[0]))
                    break
        elif e == "add_attr":
            t = rng.choice(sorted(typesA & typesB))
            a = rng.choice(sorted(attrsA[t]))
            if len(attrsA[t]) > 1:
                attrsA[t].discard(a)
                edits.append(("add_attr", t, a))
        elif e == "remove_attr":
            t = rng.choice(sorted(typesA & typesB))
            if len(attrsB[t]) > 1:
                a = rng.choice(sorted(attrsB[t] & attrsA[t])) if attrsB[t] & attrsA[t] else None
                if a:
                    attrsB[t].discard(a)
                    edits.append(("remove_attr", t, a))
    cfgA, cfgB = restrict(full, typesA, attrsA), restrict(full, typesB, attrsB)

    def cdm_of(c, drop_attrs=(), drop_types=()):
        d = {}
        for t in c["types"]:
            if t["name"] in drop_types:
                continue
            am = {"l_" + a: a for a in t["attrs"] if a not in t["pkey"] and (t["name"], a) not in drop_attrs}
            d["L" + t["name"]] = {"hermesType": t["name"], "attrsmapping": am}
        return d
    dropA_attrs, dropB_attrs, dropA_types, dropB_types = set(), set(), set(), set()
    both = [t for t in full["types"] if t["name"] in typesA and t["name"] in typesB]
    for e in rng.sample(CLIENT_EDITS, rng.randint(0, 2)) if both else []:
        t = rng.choice(both)
        common_attrs = sorted(attrsA[t["name"]] & attrsB[t["name"]])
        if e == "unmap_attr" and common_attrs:
            a = rng.choice(common_attrs)
            dropB_attrs.add((t["name"], a))
            edits.append(("unmap_attr", t["name"], a))
        elif e == "map_attr" and common_attrs:
            a = rng.choice(common_attrs)
            if (t["name"], a) not in dropB_attrs:
                dropA_attrs.add((t["name"], a))
                edits.append(("map_attr", t["name"], a))
        elif e == "unmap_type" and t["name"] in leaf and len(both) > 1:
            dropB_types.add(t["name"])
            edits.append(("unmap_type", t["name"]))
        elif e == "map_type" and t["name"] in leaf and len(both) > 1 and t["name"] not in dropB_types:
            dropA_types.add(t["name"])
            edits.append(("map_type", t["name"]))
    cdmA, cdmB = cdm_of(cfgA, dropA_attrs, dropA_types), cdm_of(cfgB, dropB_attrs, dropB_types)
    if not cdmA or not cdmB:
        return gen_case(rng, opts)

    def tables(c, cur):
        return srvcase.to_remote_tables(c, {t["name"]: {k: {a: v for a, v in row.items() if a in t["attrs"]}
                                                      for k, row in cur[t["name"]].items()} for t in c["types"]})
    case = {"cfgA": cfgA, "cfgB": cfgB, "cdmA": cdmA, "cdmB": cdmB, "edits": edits,
            "h1": [tables(cfgA, p) for p in h1], "h2": [tables(cfgB, p) for p in h2],
            "final_rows": h2[-1], "p_fail": rng.choice([0.0, 0.0, 0.3]), "cseed": rng.randrange(1 << 30),
            "full": full}
    # trashbin on in some cases (same retention for the evolved and the fresh client); decided from
    # a separate stream so that the histories above stay what they were
    case["retention"] = random.Random(case["cseed"] ^ 0x7a5).choice([0, 0, 1]) if opts.get("trashbin") else 0
    if opts.get("late_faults") and random.Random(case["cseed"] ^ 0x51ed).random() < opts["late_faults"]:
        case["late_faults"] = True
        case["p_fail"] = max(case["p_fail"], 0.3)
    if opts.get("pkey_move") and full["shape"] == "flat":
        return add_pkey_move(rng, case)
    return case


def add_pkey_move(rng, case):
    """third phase: the primary key of one type moves to another attribute ('alt' = id + 100,
    present from the start); the second phase (client edits of the base case, handlers
    failing) leaves queue entries - some of them purely local - for the key migration"""
    full = case["full"]
    cand = [t for t in full["types"] if len(t["pkey"]) == 1 and not t["fks"]
            and all("L" + t["name"] in cdm for cdm in (case["cdmA"], case["cdmB"]))
            and all(t["name"] in {u["name"] for u in c["types"]} for c in (case["cfgA"], case["cfgB"]))]
    if not cand:
        return case
    t0 = rng.choice(cand)
    # in a third of the moves the new key is composite ('alt', 'alt2'); the objects that leave the
    # source before the move never got their 'alt2': with a client trashbin (retention 5 days) they
    # are trashed objects owning only a part of the new key when it moves
    comp = random.Random(case["cseed"] ^ 0x3c3).random() < 0.35
    idcol = "c_" + t0["pkey"][0]
    allpolls = list(case["h1"]) + list(case["h2"])
    ids_of = lambda tb: {r[idcol] for r in tb["src"].get("q_" + t0["name"], [])}
    survivors = ids_of(allpolls[-1]) | (ids_of(allpolls[-2]) if len(case["h2"]) > 1 else set())

    def with_alt(cfg, moved):
        c = copy.deepcopy(cfg)
        for t in c["types"]:
            if t["name"] == t0["name"]:
                t["attrs"].append("alt")
                t["mapping"]["alt"] = ("plain", "c_alt")
                if comp:
                    t["attrs"].append("alt2")
                    t["mapping"]["alt2"] = ("plain", "c_alt2")
                if moved:
                    t["pkey"] = ["alt", "alt2"] if comp else ["alt"]
        return c

    def alt_rows(tables):
        tb = copy.deepcopy(tables)
        for r in tb["src"].get("q_" + t0["name"], []):
            r["c_alt"] = r[idcol] + 100
            if comp:
                r["c_alt2"] = (r[idcol] + 200) if r[idcol] in survivors else None
        return tb
    cfgC = with_alt(case["cfgB"], True)
    case["cfgA"], case["cfgB"] = with_alt(case["cfgA"], False), with_alt(case["cfgB"], False)
    case["h1"] = [alt_rows(t) for t in case["h1"]]
    h2 = [alt_rows(t) for t in case["h2"]]
    cut = max(1, len(h2) - 1)
    case["h2"], h3 = h2[:cut], (h2[cut:] or [h2[-1]])
    for cdm in (case["cdmA"], case["cdmB"]):
        cdm["L" + t0["name"]]["attrsmapping"]["l_alt"] = "alt"
        if comp:
            cdm["L" + t0["name"]]["attrsmapping"]["l_alt2"] = "alt2"
    if comp:
        case["retention"] = 5
    if rng.random() < 0.6:
        # directed: the second phase maps one more attribute of that very type, so the client
        # generates purely local 'modified' events for its objects; exactly those handler calls
        # fail until the last phase, so the entries (remote event = None) are still queued when
        # the key moves; nothing else fails
        am_b = case["cdmB"]["L" + t0["name"]]["attrsmapping"]
        am_a = case["cdmA"]["L" + t0["name"]]["attrsmapping"]
        shared = sorted(k for k in am_b if k in am_a and k != "l_alt")
        if shared:
            la = rng.choice(shared)
            del am_a[la]
            case["fail_local"] = ["on_L" + t0["name"] + "_modified", la]
    case["phase3"] = {"cfg": cfgC, "cdm": copy.deepcopy(case["cdmB"]), "polls": h3}
    t0["attrs"] = t0["attrs"] + ["alt"] + (["alt2"] if comp else [])   # the universe knows the attributes too (Gallina rendering)
    case["edits"] = list(case["edits"]) + [("move_pkey_composite" if comp else "move_pkey", t0["name"])]
    case["p_fail"] = 0.0 if case.get("fail_local") else rng.choice([0.0, 0.3, 0.5])
    return case


def run_client_life(wd, cdm, cworld, limit, nloops, day, retention=0, purge_at_end=False, prev_limit=None, first=None):
    import clidrv
    conf = clidrv.client_config(wd, cdm, trashbin_retention=retention, foreignkeys_policy="on_remove_event",
                                autoremediation="disabled")
    cl = clidrv.start_client(wd, conf, cworld, logsink=cworld.get("logsink"))

    def before(i, it):
        # the first iteration of a life that follows another one sees no new event: what it does is
        # the datamodel update (and the retry of what was queued)
        cworld["limit"] = prev_limit if (i == 0 and prev_limit is not None) else limit
        if cworld.get("iter_hook"):
            cworld["iter_hook"](i)

    def after(i, it):
        if i == 0 and first is not None:
            first["snap"] = clicase.snapshot(cl)
            first["ncalls"] = len(cworld["calls"])
        return False
    its = [{"now": EPOCH + datetime.timedelta(days=day)}] * nloops
    if purge_at_end and retention:
        # two more iterations once every retention is over: the trashbin empties
        its = its + [{"now": EPOCH + datetime.timedelta(days=day + retention + 5)}] * 2
    clidrv.run_segment(cl, its, before, after)
    snap = clicase.snapshot(cl)
    try:
        cl._GenericClient__sock._cleanup()
    except Exception:
        pass
    return snap


def run_case(case, wd):
    import hermes_env as H
    H.rmtree(wd)
    os.makedirs(wd)
    rng = random.Random(case["cseed"])

    def server_run(d, cfg, polls, world, initsync_first):
        conf = H.server_config(d, srvcase.datamodel_of(cfg), ["src"])
        srv = H.start_server(d, conf, world)
        marks = []
        if initsync_first:
            world["tables"] = {"src": {}}
            H.run_server(srv, 1)
            srv._initSyncRequested = True
        for tb in polls:
            world["tables"] = tb
            H.run_server(srv, 1)
            marks.append(len(world["bus"]))
        try:
            srv._sock._cleanup()
        except Exception:
            pass
        return marks

    def as_bus(world):
        return [(i + 1, EPOCH + datetime.timedelta(seconds=10 * (i + 1)), json.dumps(e)) for i, e in enumerate(world["bus"])]
    # ---- evolved system: one server + client life per phase (same directories)
    phases = [(case["cfgA"], case["cdmA"], case["h1"]), (case["cfgB"], case["cdmB"], case["h2"])]
    if case.get("phase3"):
        phases.append((case["phase3"]["cfg"], case["phase3"]["cdm"], case["phase3"]["polls"]))
    world = H.new_world()
    faults = {"on": True}

    def failfn(n, call, cl):
        fl = case.get("fail_local")
        if fl and (faults["on"] or faults.get("local")) and call["h"] == fl[0] and isinstance(call.get("attrs"), dict) \
                and set(call["attrs"].get("added", {})) == {fl[1]} and not call["attrs"].get("modified") and not call["attrs"].get("removed"):
            return True
        return True if (faults["on"] and rng.random() < case["p_fail"]) else None
    cworld = {"bus": [], "next": 1, "calls": [], "ncall": 0, "failfn": failfn, "logsink": [] if os.environ.get("EVO_LOG") else None}
    snaps, marks, remaps = [], [], []
    for pi, (cfg, cdm, polls) in enumerate(phases):
        prev_limit = len(world["bus"]) if pi > 0 else None
        server_run(wd + "/srv", cfg, polls, world, pi == 0)
        marks.append(len(world["bus"]))
        cworld["bus"] = as_bus(world)
        cworld["next"] = len(world["bus"]) + 1
        last = pi == len(phases) - 1
        faults["on"] = not last
        # the purely local entries keep failing during the first two loop iterations of the last phase
        # (the datamodel update, then the first one that sees new events): they are still queued when
        # the dataschema event (key move) is consumed
        late = bool(case.get("late_faults")) and last
        if late:
            # handlers still fail while the last life consumes the dataschema event and the first
            # events that follow it (iterations 0-2), then stop failing: the rest drains
            faults["on"] = True

        def hook(i, last=last, late=late):
            faults["local"] = (i <= 1) if last else False
            if late and i > 2:
                faults["on"] = False
        cworld["iter_hook"] = hook
        first, c0 = {}, len(cworld["calls"])
        snaps.append(run_client_life(wd + "/cli", cdm, cworld, len(world["bus"]), (8 if last else 3) + (1 if pi > 0 else 0), pi,
                                     retention=case.get("retention", 0), purge_at_end=last, prev_limit=prev_limit, first=first))
        if pi > 0 and "snap" in first:
            remaps.append({"phase": pi, "pre": snaps[pi - 1], "post": first["snap"],
                           "calls": [c for c in cworld["calls"][c0:first["ncalls"]] if c["h"] != "on_save"],
                           "cdm_old": phases[pi - 1][1], "cdm_new": cdm})
    n1 = marks[0]
    snapA, snapB = snaps[0], snaps[-1]
    evolved_calls = list(cworld["calls"])
    final_cfg, final_cdm, final_polls = phases[-1]
    # ---- fresh deployment of configuration B on the final source state
    fworld = H.new_world()
    server_run(wd + "/fsrv", final_cfg, [final_polls[-1]], fworld, True)
    fcw = {"bus": as_bus(fworld), "next": len(fworld["bus"]) + 1, "calls": [], "ncall": 0, "failfn": None}
    fsnap = run_client_life(wd + "/fcli", final_cdm, fcw, len(fworld["bus"]), 6, 1,
                            retention=case.get("retention", 0), purge_at_end=True)
    H.rmtree(wd)
    from lib.datamodel.serialization import JSONSerializable
    parse = lambda w: [json.loads(json.dumps(e), object_hook=JSONSerializable._json_parser) for e in w["bus"]]
    if cworld.get("logsink"):
        for lvl, msg in cworld["logsink"]:
            if lvl in ("WARNING", "ERROR", "CRITICAL") or "atamodel" in msg:
                print("   LOG", lvl, msg[:300])
    return {"bus": parse(world), "n1": n1, "snapA": snapA, "snapB": snapB, "fresh": fsnap, "snaps": snaps, "marks": marks,
            "evolved_calls": evolved_calls, "fresh_calls": list(fcw["calls"]), "fbus": parse(fworld), "remaps": remaps}


def target_of(calls):
    st = {}
    for c in calls:
        if c.get("out") != "ok" or c["h"] == "on_save":
            continue
        kind = c["h"].split("_")[-1]
        lt = "_".join(c["h"].split("_")[1:-1])
        i = (lt, canon(c["key"]))
        if kind in ("added", "recycled", "modified"):
            if c["new"] is not None:
                st[i] = {a: v for a, v in c["new"].items() if a != clicase.TS}
        elif kind == "trashed":
            if i in st:
                st[i] = dict(st[i], __trashed=True)       # still on the target, disabled
        elif kind == "removed":
            st.pop(i, None)
    return st


def analyse(case, res):
    """observation-only verdicts; returns list of (clause, detail)"""
    out = []
    bus = res["bus"]
    n1 = res["n1"]
    three = bool(case.get("phase3"))
    # 1. the new schema is announced before any event that depends on it, after the removals of dropped types
    sch = [i for i, e in enumerate(bus) if e["eventtype"] == "dataschema"]
    sig_of = lambda c: sorted((t["name"], tuple(sorted(t["attrs"]))) for t in c["types"])
    server_edit = sig_of(case["cfgA"]) != sig_of(case["cfgB"])
    if three:
        sch, server_edit = [0], False       # bus-order clauses are decided on the two-phase cases
    if server_edit and not sch:
        out.append(("schema-not-announced", f"edits {case['edits']}"))
    dropped = {e[1] for e in case["edits"] if e[0] == "remove_type"}
    added_t = {e[1] for e in case["edits"] if e[0] == "add_type"}
    added_a = {(e[1], e[2]) for e in case["edits"] if e[0] == "add_attr"}
    first_sch = sch[0] if sch else len(bus)
    for i, e in enumerate(bus if not three else []):
        if i < n1 or e["evcategory"] != "base" or e["eventtype"] not in ("added", "modified", "removed"):
            continue
        if e["objtype"] in dropped and i > first_sch:
            out.append(("event-of-dropped-type-after-schema", f"offset {i + 1}"))
        if e["objtype"] in added_t and i < first_sch:
            out.append(("event-of-new-type-before-schema", f"offset {i + 1}"))
        attrs = e["objattrs"] if e["eventtype"] == "added" else \
            {**e["objattrs"].get("added", {}), **e["objattrs"].get("modified", {})} if e["eventtype"] == "modified" else {}
        for a in attrs:
            if (e["objtype"], a) in added_a and i < first_sch:
                out.append(("event-with-new-attribute-before-schema", f"offset {i + 1} {e['objtype']}.{a}"))
    # 1b. every prefix of the bus is referentially closed, the removals of dropped types included
    #     (children withdrawn before their parents)
    fks = {t["name"]: t["fks"] for t in case["full"]["types"]}
    pk1 = {t["name"]: t["pkey"] for t in case["full"]["types"]}
    present = set()
    hk = lambda k: tuple(k) if isinstance(k, (list, tuple)) else k
    for i, e in enumerate(bus if not three else []):
        if e["evcategory"] != "base" or e["eventtype"] not in ("added", "removed"):
            continue
        ident = (e["objtype"], hk(e["objpkey"]))
        if e["eventtype"] == "added":
            present.add(ident)
            for a, ptype in fks.get(e["objtype"], {}).items():
                pk = e["objattrs"].get(a)
                if (ptype, hk(pk)) not in present:
                    out.append(("stream-prefix-not-closed", f"offset {i + 1}: {ident} added before its parent {ptype} {pk}"))
        else:
            present.discard(ident)
            for (ct, ck) in list(present):
                for a, ptype in fks.get(ct, {}).items():
                    if ptype == e["objtype"]:
                        comps = ck if isinstance(ck, tuple) else (ck,)
                        val = dict(zip(pk1[ct], comps)).get(a)
                        if hk(val) == hk(e["objpkey"]):
                            out.append(("stream-prefix-not-closed", f"offset {i + 1}: {ident} removed while {ct} {ck} still refers to it"))
    # 2. removed types: a 'removed' for every object the server had published
    live = {}
    for e in bus[:n1]:
        if e["evcategory"] == "base" and e["eventtype"] == "added":
            live[(e["objtype"], canon(e["objpkey"]))] = True
        elif e["evcategory"] == "base" and e["eventtype"] == "removed":
            live.pop((e["objtype"], canon(e["objpkey"])), None)
    removed_after = {(e["objtype"], canon(e["objpkey"])) for e in bus[n1:] if e["eventtype"] == "removed"}
    for (t, k) in (live if not three else {}):
        if t in dropped and (t, k) not in removed_after:
            out.append(("no-removed-event-for-object-of-dropped-type", f"{t} {k}"))
    # 3. evolved == fresh: local data and (idempotent) target
    ev_local = {t: objs for t, objs in res["snapB"]["localdata"].items() if not t.startswith("trashbin_")}
    fr_local = {t: objs for t, objs in res["fresh"]["localdata"].items() if not t.startswith("trashbin_")}
    if canon(ev_local) != canon(fr_local):
        out.append(("local-data-differ-from-fresh-deployment", f"evolved {ev_local} / fresh {fr_local}"))
    # (after a primary-key move the handler keys change: renaming the target objects is the concrete client's business)
    if not three and canon({f"{k[0]}|{k[1]}": v for k, v in target_of(res["evolved_calls"]).items()}) != \
            canon({f"{k[0]}|{k[1]}": v for k, v in target_of(res["fresh_calls"]).items()}):
        out.append(("target-differs-from-fresh-deployment",
                    f"evolved {target_of(res['evolved_calls'])} / fresh {target_of(res['fresh_calls'])}"))
    if res["snapB"]["queue"]:
        out.append(("queue-not-drained", str(len(res["snapB"]["queue"]))))
    if res["snapB"]["exc"]:
        out.append(("client-raises", res["snapB"]["exc"][-200:]))
    return out


def lifecycle_has_readd(res):
    removed = set()
    for e in res["bus"]:
        if e["evcategory"] != "base":
            continue
        i = (e["objtype"], canon(e["objpkey"]))
        if e["eventtype"] == "removed":
            removed.add(i)
        elif e["eventtype"] == "added" and i in removed:
            return True
    return False


def step_gallina(case, res):
    """the schema step of the restarted server as an ecase (two-phase cases; the three-phase
    cases are about the final state only)"""
    if case.get("phase3"):
        return "(ECase [] [] (mk_world []) [])"
    full = case["full"]
    fake_case = {"cfg": full, "cdm": {"L" + t["name"]: {"hermesType": t["name"], "attrsmapping": {}} for t in full["types"]}}
    events = [(i + 1, 10 * (i + 1), e) for i, e in enumerate(res["bus"]) if e["eventtype"] in ("added", "modified", "removed")]
    ctx = clicase.CCtx(fake_case, {"bus": events, "iters": [], "init": None})
    n1 = res["n1"]
    sch = [i for i, e in enumerate(res["bus"]) if e["eventtype"] == "dataschema"]
    upto = sch[0] if sch else n1
    cache = {}
    for e in res["bus"][:n1]:
        if e["evcategory"] != "base":
            continue
        k = (e["objtype"], e["objpkey"] if not isinstance(e["objpkey"], list) else tuple(e["objpkey"]))
        if e["eventtype"] == "added":
            cache[k] = dict(e["objattrs"])
        elif e["eventtype"] == "modified" and k in cache:
            cache[k].update(e["objattrs"].get("added", {}))
            cache[k].update(e["objattrs"].get("modified", {}))
            for a in e["objattrs"].get("removed", {}):
                cache[k].pop(a, None)
        elif e["eventtype"] == "removed":
            cache.pop(k, None)
    items = sorted(((ctx.types[t], ctx.key(k)), ctx.gobj(o)) for (t, k), o in cache.items())
    gcache = "(mk_world [" + ";".join(f"({gN(t)},{gZ(k)},{o})" for (t, k), o in items) + "])"
    observed = glist(ctx.gcev(e["eventtype"], e["objtype"], e["objpkey"], e["objattrs"], 0)
                     for e in res["bus"][n1:upto] if e["eventtype"] in ("added", "modified", "removed"))
    typesA = glist(gN(ctx.types[t["name"]]) for t in case["cfgA"]["types"])
    namesB = {t["name"] for t in case["cfgB"]["types"]}
    dropped = glist(gN(ctx.types[t["name"]]) for t in case["cfgA"]["types"] if t["name"] not in namesB)
    return f"(ECase {typesA} {dropped} {gcache} {observed})"


def remap_gallina(case, res):
    """one RCase per client restart under another client datamodel: the state the previous life
    left (expected-state caches), the new mapping, the handler invocations and the local data of
    the first loop iteration of the new life. Rendered only where the model applies: empty error
    queue, trashbin off, every local type kept, nothing raised."""
    out = []
    for rm in res.get("remaps", []):
        old, new = rm["cdm_old"], rm["cdm_new"]
        pre, post = rm["pre"], rm["post"]
        applies = (not case.get("retention") and not pre["queue"] and not post["queue"] and not pre["exc"] and not post["exc"]
                   and set(old) <= set(new) and all(old[l]["hermesType"] == new[l]["hermesType"] for l in old) and old != new
                   and all(c.get("out") == "ok" for c in rm["calls"]))     # the model is the healthy one: no failing handler
        if not applies:
            continue
        # names: every type and attribute of the universe, every local name of both mappings
        merged = {l: {"hermesType": d["hermesType"], "attrsmapping": dict(old.get(l, {}).get("attrsmapping", {}), **d["attrsmapping"])}
                  for l, d in new.items()}
        pseudo = {"cfg": case["full"], "cdm": merged, "retention": 0, "fkpolicy": "on_remove_event", "remediation": "disabled"}
        ctx = clicase.CCtx(pseudo, {"bus": []})
        # keys of composite types
        for ds in (pre["remotedata_complete"], pre["localdata_complete"], post["localdata"]):
            for tname, objs in ds.items():
                for k in objs:
                    if isinstance(k, (tuple, list)) and tuple(k) not in ctx.tup.map:
                        ctx.tup.map[tuple(k)] = 1001 + len(ctx.tup.map)
        cfg_new = ctx.gccfg(dict(pseudo, cdm=new))
        calls = glist(ctx.gcall(c) for c in rm["calls"])
        out.append("(RCase {} {} {} {} {})".format(
            cfg_new, ctx.gworld(pre["remotedata_complete"], "", False), ctx.gworld(pre["localdata_complete"], "", True),
            calls, ctx.gworld(post["localdata"], "", True)))
    return out

import sys, os, random, time
sys.path.insert(0, os.path.dirname(__file__))
import common, srvcase
seed, idx = int(sys.argv[1]), int(sys.argv[2])
rng = random.Random(seed)
for i in range(idx + 1):
    c = srvcase.gen_case(rng, {"p_fail": 0.3, "p_isync": 0.2, "p_openfail": 0.05})
obs = srvcase.run_case(c, common.workdir("try") + f"/c{i}")
g = srvcase.case_to_gallina(c, obs)
import pprint
pprint.pprint(c["cfg"]); 
for st, ob in zip(c["steps"], obs):
    print(st.get("op"), st.get("isync"), st.get("fail"), st.get("openfail")); pprint.pprint(ob["trace"]); print(" exc:", (ob.get("exc") or "")[-300:])
body = "From Hermes Require Import Corr.RunServer.\nDefinition x : scase := " + g + ".\nEval vm_compute in (corr_detail_case x).\nEval vm_compute in (map (fun p => map show_action (snd p)) (srun (sc_cfg x) sinit (sc_steps x))).\n"
p = common.workdir("try") + "/case1.v"
open(p, "w").write(body)
print(common.run_coqc(p))

#!/bin/bash
# runs every kept seeded change (or those named on the command line) against the check of its
# property, in a scratch worktree of /repo; usable from any copy of /verif (e.g. under `vp run`)
here="$(cd "$(dirname "$0")/.." && pwd)"
wt=/tmp/mutwt-$$
git -C /repo worktree add --detach $wt HEAD >/dev/null 2>&1 || exit 2
if [ $# -gt 0 ]; then dirs=$(for i in "$@"; do echo $here/seeded/$i/; done); else dirs=$(ls -d $here/seeded/*/); fi
for d in $dirs; do
  id=$(basename $d); prop=${id:0:3}
  if grep -q '"neutralised_by"' $d/meta.json 2>/dev/null; then echo "== $id skipped: neutralised by a later fix (see meta.json)"; continue; fi
  $here/harness/mutant_wt.sh $wt $d/patch.diff $prop
done
git -C /repo worktree remove --force $wt

#!/bin/bash
# runs every kept seeded change against the check of its property, in a scratch worktree
wt=/tmp/mutwt
git -C /repo worktree remove --force $wt 2>/dev/null
git -C /repo worktree add --detach $wt HEAD >/dev/null 2>&1 || exit 2
for d in /verif/seeded/*/; do
  id=$(basename $d); prop=${id:0:3}
  if grep -q '"neutralised_by"' $d/meta.json 2>/dev/null; then echo "== $id skipped: neutralised by a later fix (see meta.json)"; continue; fi
  /verif/harness/mutant_wt.sh $wt $d/patch.diff $prop
done
git -C /repo worktree remove --force $wt

import sys, os, random, time
sys.path.insert(0, os.path.dirname(__file__))
import common, srvcase
rng = random.Random(int(sys.argv[1]) if len(sys.argv) > 1 else 1)
n = int(sys.argv[2]) if len(sys.argv) > 2 else 5
cases = []
t0 = time.time()
for i in range(n):
    c = srvcase.gen_case(rng, {"p_fail": 0.3, "p_isync": 0.2, "p_openfail": 0.05})
    obs = srvcase.run_case(c, common.workdir("try") + f"/c{i}")
    cases.append(srvcase.case_to_gallina(c, obs))
print("ran", n, "in", time.time() - t0)
body = "From Hermes Require Import Corr.RunServer.\nDefinition cases : list scase := [\n" + ";\n".join(cases) + "\n].\nEval vm_compute in (check_cases corr_case c01_case cases).\nEval vm_compute in (check_cases corr_case c04_case cases).\n"
p = common.workdir("try") + "/cases_try.v"
open(p, "w").write(body)
t0 = time.time()
out = common.run_coqc(p)
print(out, time.time() - t0)

import sys, os, json, pprint
sys.path.insert(0, os.path.dirname(__file__))
import common, clicase, srvprops
srvprops._init_worker()
exprs = sys.argv[2:]
obj = json.load(open(sys.argv[1]))
case = common.dec(obj["case"])
res = clicase.run_case(case, common.workdir("dbg") + "/c")
g = clicase.case_to_gallina(case, res)
print("retention", case["retention"], "fk", case["fkpolicy"], "remed", case["remediation"]); pprint.pprint(case["cdm"])
print([(t["name"], t["pkey"], t["fks"]) for t in case["cfg"]["types"]])
for o, ts, ev in res["bus"]: print("  bus", o, ts, ev["evcategory"], ev["eventtype"], ev["objtype"], ev["objpkey"], ev["objattrs"] if ev["eventtype"] != "init-start" else "")
print("outcomes", res["sessions"]["outcomes"][:40])
for it, ob in zip(res["sessions"]["iters"], res["iters"]):
    print("ITER", it)
    for cl in ob["calls"]: print("    call", cl["h"], cl["key"], cl["attrs"], "new", cl["new"], "old", cl["old"], cl["step"], cl["partial"], cl["retry"], cl["out"])
    print("    queue", [(q["num"], q["remote"] and q["remote"][:3], q["local"][:3], q["local"][4:], q["msg"]) for q in ob["queue"]])
    print("    next", ob["next"], "exc", (ob["exc"] or "")[-300:])
    if "-v" in exprs:
        print("    local", ob["localdata"]); print("    lcomplete", ob["localdata_complete"]); print("    remote", ob["remotedata"]); print("    rcomplete", ob["remotedata_complete"])
body = "From Hermes Require Import Corr.RunC10.\nDefinition x : ccase := " + g + ".\nEval vm_compute in (corr_detail x).\n" + "".join(f"Eval vm_compute in ({e}).\n" for e in exprs if e != "-v")
p = common.workdir("dbg") + "/cli1.v"
open(p, "w").write(body)
print(common.run_coqc(p))

import sys, os, random, time, json, pprint
sys.path.insert(0, os.path.dirname(__file__))
import common, clicase, srvprops
srvprops._init_worker()
seed = int(sys.argv[1]); n = int(sys.argv[2]); mode = sys.argv[3] if len(sys.argv) > 3 else "healthy"
show = int(sys.argv[4]) if len(sys.argv) > 4 else None
rng = random.Random(seed)
OPTS = {"healthy": ({"retention": 0}, {}),
        "trash": ({}, {"clock": True}),
        "fail": ({"retention": 0, "remediation": "disabled"}, {"p_fail": 0.4}),
        "failtrash": ({}, {"p_fail": 0.4, "clock": True}),
        "remed": ({"retention": 0, "remediation": None}, {"p_fail": 0.4}),
        "restart": ({}, {"p_fail": 0.3, "clock": True, "p_restart": 0.3})}
gal = []
cases = []
for i in range(n):
    co, so = OPTS[mode]
    co = dict(co)
    if co.get("remediation", "x") is None:
        co["remediation"] = rng.choice(["conservative", "maximum"])
    c = clicase.gen_case(rng, co)
    nev = 0
    wd = common.workdir("try") + f"/cl{i}"
    os.makedirs(wd, exist_ok=True)
    busjson = clicase.produce_bus(c, wd)
    c["sessions"] = clicase.gen_sessions(rng, len(busjson) - 2, so)
    res = clicase.run_case(c, wd)
    cases.append((c, res))
    gal.append(clicase.case_to_gallina(c, res))
hdr = "From Hermes Require Import Corr.RunClient.\nDefinition cases : list ccase := [\n" + ";\n".join(gal) + "\n].\n"
p = common.workdir("try") + "/cli_cases.v"
open(p, "w").write(hdr + "Eval vm_compute in (check_ccases corr_ccase corr_ccase cases).\n")
out = common.run_coqc(p)
fails = [i for i, a, b in common.parse_results(out)]
print("failing:", fails)
if show is None and fails and len(sys.argv) > 4:
    pass
if fails and (show == -1):
    show = fails[0]
if show is not None and show >= 0:
    body = hdr + f"""Definition xx := nth {show} cases (CCase (CCfg [] None FKDisabled RDisabled 0 []) [] []).
Eval vm_compute in (corr_detail xx).
Fixpoint dbg (c : ccfg) (outs : list hres) (cl : client) (its : list citer) :=
  match its with [] => [] | it :: r => let cl' := run_iter c outs cl it in
    (map (fun p => let a := fst p in let b := snd p in (hkind_eqb (cl_kind a) (cl_kind b), Z.eqb (cl_k a) (cl_k b), ekind_eqb (cl_attrs a) (cl_attrs b), oobj_eqb (option_map (delete (cc_ts c)) (cl_new a)) (cl_new b), oobj_eqb (option_map (delete (cc_ts c)) (cl_old a)) (cl_old b), Z.eqb (cl_step a) (cl_step b), Bool.eqb (cl_partial a) (cl_partial b), Bool.eqb (cl_retry a) (cl_retry b), hres_eqb (cl_out a) (cl_out b))) (combine (calls (cl_st cl')) (ci_calls it)), map (fun cl => (cl_t cl, cl_k cl, match cl_kind cl with HAdded => 0 | HModified => 1 | HRemoved => 2 | HTrashed => 3 | HRecycled => 4 end)%nat) (calls (cl_st cl')), length (ci_calls it), map (fun e => (q_num e, ce_id (q_local e), kind_tag (ce_kind (q_local e)), ce_step (q_local e), q_msg e, q_parents e)) (queue (cl_st cl')), map (list_eqb world_eqb [r_live (cl_st cl'); r_trash (cl_st cl'); rc_live (cl_st cl'); rc_trash (cl_st cl'); l_live (cl_st cl'); l_trash (cl_st cl'); lc_live (cl_st cl'); lc_trash (cl_st cl')]) [ci_worlds it], map (fun p => world_eqb (fst p) (snd p)) (combine (worlds_of (cl_st cl')) (ci_worlds it))) :: dbg c outs cl' r end.
Eval vm_compute in (dbg (k_cfg xx) (k_outcomes xx) client0 (k_iters xx)).
"""
    c, res = cases[show]
    print("CASE", show, "retention", c["retention"], "fk", c["fkpolicy"], "remed", c["remediation"]); pprint.pprint(c["cdm"])
    print([ (t["name"], t["pkey"], t["fks"]) for t in c["cfg"]["types"]])
    for o, ts, ev in res["bus"]: print("  bus", o, ts, ev["evcategory"], ev["eventtype"], ev["objtype"], ev["objpkey"], ev["objattrs"] if ev["eventtype"] != "init-start" else "")
    print("outcomes", c["sessions"]["outcomes"][:30])
    for it, ob in zip(c["sessions"]["iters"], res["iters"]):
        print("ITER", it)
        for cl in ob["calls"]: print("    call", cl["h"], cl["key"], cl["attrs"], "new", cl["new"], "old", cl["old"], cl["step"], cl["partial"], cl["retry"], cl["out"])
        print("    queue", [(q["num"], q["remote"] and q["remote"][:3], q["local"][:3], q["local"][4:], q["msg"]) for q in ob["queue"]])
        print("    next", ob["next"], "exc", (ob["exc"] or "")[-300:])
        print("    local", ob["localdata"]); print("    lcomplete", ob["localdata_complete"]); print("    remote", ob["remotedata"]); print("    rcomplete", ob["remotedata_complete"])
    open(p, "w").write(body)
    print(common.run_coqc(p))

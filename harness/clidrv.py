"""In-process driver of the real GenericClient with an in-memory bus consumer and a
recording client subclass (handlers are resolved by __getattr__, so every
on_<Type>_<event> exists and its outcome is decided by world['failfn'])."""
import copy
import datetime
import logging
import os
import sys

import hermes_env as H
from hermes_env import AbstractMessageBusConsumerPlugin, Event
import clients as C

APP = "client-usersgroups_null"
APPNAME = "hermes-" + APP


class MemConsumer(AbstractMessageBusConsumerPlugin):
    """world['bus'] = list of (offset, timestamp, json string); world['next'] = next offset
    to be written; world['limit'] = highest offset delivered in this session (optional)."""

    def __init__(self, world):
        self.world = world
        self._settings = {}
        self.cur = None

    def open(self):
        if self.world.get("failopen"):
            raise IOError("bus unavailable")

    def close(self):
        pass

    def setTimeout(self, t):
        pass

    def seekToBeginning(self):
        self.mode = "scan"
        self.cur = self.world["bus"][0][0] if self.world["bus"] else -1

    def seek(self, offset):
        bus = self.world["bus"]
        lo = bus[0][0] if bus else self.world["next"]
        self.mode = "process"
        if lo <= offset <= self.world["next"]:
            self.cur = offset
        else:
            raise IndexError(f"offset {offset} out of [{lo};{self.world['next']}]")

    def __iter__(self):
        for (off, ts, data) in list(self.world["bus"]):
            if off < self.cur:
                continue
            if "limit" in self.world and off > self.world["limit"]:
                return
            if getattr(self, "mode", None) == "process" and self.world.get("budget") is not None:
                # the consumer stops yielding (timeout / stop request) after 'budget' events
                if self.world["budget"] <= 0:
                    return
                self.world["budget"] -= 1
            ev = Event.from_json(data)
            ev.offset = off
            ev.timestamp = ts
            hook = self.world.get("deliverhook")
            if hook:
                self.world["_mode"] = getattr(self, "mode", None)
                hook(off)
            yield ev
            self.cur = off + 1


def native(o):
    return copy.deepcopy(o.toNative()) if o is not None else None


class RecClient(C.GenericClient):
    def __init__(self, config, world):
        self.world = world
        super().__init__(config)

    def __getattr__(self, name):
        if name.startswith("on_"):
            def h(**kw):
                call = {"h": name, "key": kw.get("objkey"), "attrs": copy.deepcopy(kw.get("eventattrs")),
                        "new": native(kw.get("newobj")), "old": native(kw.get("cachedobj")),
                        "step": self.currentStep, "partial": self.isPartiallyProcessed,
                        "retry": self.isAnErrorRetry}
                try:
                    eq = self._GenericClient__datamodel.errorqueue
                    call["qobjs"] = [(lev.objtype, lev.objpkey, lev.eventtype) for (rev, lev, msg) in eq._queue.values()]
                except Exception:  # noqa
                    call["qobjs"] = None
                if name == "on_save":
                    self.world["calls"].append({"h": "on_save", "out": "ok"})
                    return
                n = self.world["ncall"]
                self.world["ncall"] += 1
                fn = self.world.get("failfn")
                out = fn(n, call, self) if fn else None
                # out: None/False = ok; True = fail; ("partial", step) = fail after partial processing
                if isinstance(out, tuple):
                    self.currentStep = out[1]
                    self.isPartiallyProcessed = True
                    call["out"] = "FAILPARTIAL"
                else:
                    call["out"] = "FAIL" if out else "ok"
                self.world["calls"].append(call)
                if out:
                    # one raise site and one text: the error message is stored in the queue file
                    raise RuntimeError("handler failure")
            return h
        raise AttributeError(name)


def client_config(workdir, datamodel, **kw):
    hc = {"updateInterval": 0, "errorQueue_retryInterval": 1, "trashbin_purgeInterval": 1,
          "trashbin_retention": 0, "datamodel": datamodel}
    cache = kw.pop("cache", None) or {}
    hc.update(kw)
    c = {"dirpath": workdir + "/ccache", "enable_compression": False, "backup_count": 0}
    c.update(cache)
    return {"hermes": {"cache": c,
                       "logs": {"logfile": None, "verbosity": "debug"},
                       "mail": {"server": "x", "from": "a@b", "to": "c@d"},
                       "cli_socket": {"path": workdir + "/csock"},
                       "plugins": {"messagebus": {"sqlite": {"settings": {"uri": workdir + "/bus.sqlite"}}}}},
            "hermes-client": hc, "hermes-client-usersgroups_null": {}}


def make_client(c, world):
    c["hermes"]["plugins"]["messagebus"]["plugininstance"] = MemConsumer(world)
    c["hermes"]["plugins"]["attributes"]["_jinjafilters"] = {}
    return RecClient(c, world)


def start_client(workdir, conf, world, logsink=None):
    c = H.load_config(workdir, conf, APP)
    H.setup_logger(APPNAME, logsink)
    return make_client(c, world)


class Clock:
    """virtual clock substituted for datetime in the clients module"""
    now_value = datetime.datetime(2026, 1, 1)

    class _DT(datetime.datetime):
        @classmethod
        def now(cls, tz=None):
            return Clock.now_value


def run_client(cl, nloops=1, now=None):
    """Run the real mainLoop for nloops iterations (one mainLoop call)."""
    run_segment(cl, [{"now": now}] * nloops, lambda i, it: None, lambda i, it: None)


def run_segment(cl, iters, before, after):
    """One call of the real mainLoop covering several loop iterations (no reload in
    between, as in a running client). before(i, it) sets up iteration i (bus limit, ...),
    after(i, it) observes the state once its checkpoint is written. Retry and purge
    intervals are made due at every iteration; datetime.now() is the virtual clock."""
    state = {"i": 0}

    def setup(i):
        it = iters[i]
        if it.get("now") is not None:
            Clock.now_value = it["now"]
            C.datetime = Clock._DT
        else:
            C.datetime = datetime.datetime
        cl._GenericClient__trashbin_lastpurge = datetime.datetime(1, 1, 1)
        cl._GenericClient__errorQueue_lastretry = datetime.datetime(1, 1, 1)
        before(i, it)
        cl._GenericClient__numberOfLoopToProcess = 1

    def fsleep(x):
        # reached at the top of the loop when the iteration budget is used up
        if cl._GenericClient__numberOfLoopToProcess:
            return
        stop = after(state["i"], iters[state["i"]])
        state["i"] += 1
        if state["i"] < len(iters) and not stop:
            setup(state["i"])
        else:
            cl._GenericClient__isStopped = True
    C.sleep = fsleep
    cl._GenericClient__isStopped = False
    setup(0)
    cl.mainLoop()
    if state["i"] < len(iters) and getattr(cl, "_stopped_by_request", False):
        # the loop was left by a stop request in the middle of an iteration (graceful stop):
        # its checkpoint is written, observe it
        after(state["i"], iters[state["i"]])

"""Regenerated facts: a small fail-soft translator from /repo's *source text* to Gallina.

Reads, with Python's `ast`, a handful of tables and call sequences of Hermes on which the
models (and therefore the theorems) rest, and writes them as definitions into
coq/Generated/Facts.v.  coq/Proofs/FactsTie.v proves that the hand-written models use exactly
these tables/orders; every property whose model depends on one of them imports the tie, so
a change of the source table breaks a proof obligation of that property at the next run.

Fail-soft: a fact that cannot be located (harmless refactoring of the surrounding code) keeps
its previous committed value and is listed in `stale`; nothing here ever raises an alarm by
itself (the behavioural correspondence still decides).

Facts:
  fk_policy_table        GenericClient.__FOREIGNKEYS_POLICIES                     (C09)
  merge_bug_pairs        the (previous, last) pairs ErrorQueue._mergeEvents asserts impossible (C08)
  merge_max_only_pairs   pairs whose merge is gated by `_autoremediate == "maximum"`  (C08)
  checkpoint_calls       ordered method calls of the client's checkpoint (`finally` of mainLoop) (C11)
  save_data_calls        ordered calls of Datamodel.saveLocalAndRemoteData/saveLocalData/saveRemoteData (C11)
  datasource_save_trash_after   Datasource.save writes every live file before any trashbin file (C11)
  change_type_order      the list literal of `for changeType in [...]` in generateAndSendEvents (C03)
  reversed_change_types  change types whose type loop runs over reversed(data.keys())          (C03)
  event_types            Event.EVTYPES                                                          (C02)
  inband_encoders        constant head / tail of the f-strings JSONEncoder.default returns       (C16)
  inband_regexes         the patterns _json_parser applies with re.fullmatch                      (C16)
"""
import ast
import json
import os
import sys


def _src(repo, rel):
    with open(os.path.join(repo, rel), encoding="utf-8") as f:
        return ast.parse(f.read())


def _find_class(tree, name):
    for n in ast.walk(tree):
        if isinstance(n, ast.ClassDef) and n.name == name:
            return n
    raise LookupError(name)


def _find_func(node, name):
    for n in ast.walk(node):
        if isinstance(n, (ast.FunctionDef, ast.AsyncFunctionDef)) and n.name == name:
            return n
    raise LookupError(name)


def _calls_in_order(nodes):
    """names of the attribute/function calls, in source order"""
    out = []
    for stmt in nodes:
        cs = [n for n in ast.walk(stmt) if isinstance(n, ast.Call)]
        cs.sort(key=lambda c: (c.lineno, c.col_offset))
        for c in cs:
            f = c.func
            if isinstance(f, ast.Attribute):
                chain = []
                while isinstance(f, ast.Attribute):
                    chain.append(f.attr)
                    f = f.value
                out.append(".".join(reversed(chain)))
            elif isinstance(f, ast.Name):
                out.append(f.id)
    return out


def f_fk_policy_table(repo):
    cls = _find_class(_src(repo, "clients/__init__.py"), "GenericClient")
    for st in cls.body:
        tgt = None
        if isinstance(st, ast.AnnAssign) and isinstance(st.target, ast.Name):
            tgt, val = st.target.id, st.value
        elif isinstance(st, ast.Assign) and isinstance(st.targets[0], ast.Name):
            tgt, val = st.targets[0].id, st.value
        if tgt and tgt.endswith("FOREIGNKEYS_POLICIES") and isinstance(val, ast.Dict):
            res = []
            for k, v in zip(val.keys, val.values):
                if isinstance(v, ast.Call):       # tuple()
                    items = []
                else:
                    items = [e.value for e in v.elts]
                res.append([k.value, items])
            return res
    raise LookupError("FOREIGNKEYS_POLICIES")


def _evpair(cmp_and):
    """(prev, last) of `prevEvent.eventtype == X and lastEvent.eventtype == Y`"""
    if not (isinstance(cmp_and, ast.BoolOp) and isinstance(cmp_and.op, ast.And)):
        return None
    d = {}
    for c in cmp_and.values:
        if (isinstance(c, ast.Compare) and isinstance(c.left, ast.Attribute) and c.left.attr == "eventtype"
                and isinstance(c.left.value, ast.Name) and len(c.ops) == 1 and isinstance(c.ops[0], ast.Eq)
                and isinstance(c.comparators[0], ast.Constant)):
            d[c.left.value.id] = c.comparators[0].value
    if set(d) == {"prevEvent", "lastEvent"}:
        return [d["prevEvent"], d["lastEvent"]]
    return None


def f_merge_tables(repo):
    fn = _find_func(_find_class(_src(repo, "clients/errorqueue.py"), "ErrorQueue"), "_mergeEvents")
    bug, maxonly = None, []
    for n in ast.walk(fn):
        if not isinstance(n, ast.If):
            continue
        raises_assert = any(isinstance(x, ast.Raise) and isinstance(x.exc, ast.Call)
                            and getattr(x.exc.func, "id", "") == "AssertionError" for x in n.body)
        if raises_assert and isinstance(n.test, ast.BoolOp) and isinstance(n.test.op, ast.Or):
            ps = [_evpair(v) for v in n.test.values]
            if all(ps):
                bug = ps
        p = _evpair(n.test)
        if p is not None and n.body and isinstance(n.body[0], ast.If):
            t = n.body[0].test
            if (isinstance(t, ast.Compare) and isinstance(t.left, ast.Attribute) and t.left.attr == "_autoremediate"
                    and isinstance(t.comparators[0], ast.Constant) and t.comparators[0].value == "maximum"
                    and isinstance(t.ops[0], ast.Eq) and not n.body[0].orelse
                    and isinstance(n.body[-1], ast.Return)
                    and ast.dump(n.body[-1].value) == ast.dump(ast.parse("(False, False, None)").body[0].value)):
                maxonly.append(p)
    if bug is None:
        raise LookupError("bug pairs")
    return bug, maxonly


def f_checkpoint_calls(repo):
    fn = _find_func(_find_class(_src(repo, "clients/__init__.py"), "GenericClient"), "mainLoop")
    best = None
    for n in ast.walk(fn):
        if isinstance(n, ast.Try) and n.finalbody:
            for st in n.finalbody:
                if isinstance(st, ast.If) and "saveRequired" in ast.dump(st.test):
                    best = st
    if best is None:
        raise LookupError("checkpoint")
    return [c.split(".")[-1] for c in _calls_in_order(best.body)]


def f_save_data_calls(repo):
    cls = _find_class(_src(repo, "clients/datamodel.py"), "Datamodel")
    out = []
    for top in _calls_in_order(_find_func(cls, "saveLocalAndRemoteData").body):
        name = top.split(".")[-1]
        for c in _calls_in_order(_find_func(cls, name).body):
            parts = c.split(".")
            if parts[-1] == "save":
                out.append(parts[-2])
    if not out:
        raise LookupError("save calls")
    return out


def f_datasource_save(repo):
    fn = _find_func(_find_class(_src(repo, "lib/datamodel/datasource.py"), "Datasource"), "save")
    kinds = []
    for st in fn.body:
        txt = ast.dump(st)
        if "savecachefile" in txt:
            kinds.append("trash" if "trashbin_" in txt else "live")
    if not kinds:
        raise LookupError("datasource save")
    return kinds


def f_server_cycle(repo):
    fn = _find_func(_find_class(_src(repo, "server/hermesserver.py"), "HermesServer"), "generateAndSendEvents")
    for n in ast.walk(fn):
        if isinstance(n, ast.For) and isinstance(n.target, ast.Name) and n.target.id == "changeType" \
                and isinstance(n.iter, ast.List):
            order = [e.value for e in n.iter.elts]
            rev = []
            for m in ast.walk(n):
                if isinstance(m, ast.If) and isinstance(m.test, ast.Compare) \
                        and getattr(m.test.left, "id", "") == "changeType" \
                        and isinstance(m.test.ops[0], ast.Eq) and "reversed" in ast.dump(ast.Module(m.body, [])):
                    rev.append(m.test.comparators[0].value)
            # per-event call order: send before commit_one
            calls = [c.split(".")[-1] for c in _calls_in_order(n.body)]
            percall = [c for c in calls if c in ("send", "commit_one", "commit_all")]
            return order, rev, percall
    raise LookupError("changeType loop")


def f_event_types(repo):
    cls = _find_class(_src(repo, "lib/datamodel/event.py"), "Event")
    for st in cls.body:
        if isinstance(st, (ast.Assign, ast.AnnAssign)):
            t = st.targets[0] if isinstance(st, ast.Assign) else st.target
            if getattr(t, "id", "") == "EVTYPES":
                return [e.value for e in st.value.elts]
    raise LookupError("EVTYPES")


def f_inband(repo):
    """in-band encodings of serialization.py: constant head/tail of the two f-strings the encoder
    returns, and the regular expressions the parser applies with re.fullmatch"""
    tree = _src(repo, "lib/datamodel/serialization.py")
    enc = []
    for n in ast.walk(_find_func(_find_class(tree, "JSONEncoder"), "default")):
        if isinstance(n, ast.Return) and isinstance(n.value, ast.JoinedStr):
            parts = n.value.values
            head = parts[0].value if isinstance(parts[0], ast.Constant) else ""
            tail = parts[-1].value if isinstance(parts[-1], ast.Constant) and len(parts) > 1 else ""
            enc.append([head, tail])
    rx = []
    for n in ast.walk(_find_func(tree, "_json_parser")):
        if isinstance(n, ast.Call) and isinstance(n.func, ast.Attribute) and n.func.attr == "fullmatch" \
                and n.args and isinstance(n.args[0], ast.Constant):
            rx.append(n.args[0].value)
    if not enc or not rx:
        raise LookupError("in-band encodings")
    return enc, rx


def extract(repo):
    facts, stale = {}, []

    def put(names, fn):
        try:
            vals = fn(repo)
            if len(names) == 1:
                vals = (vals,)
            for n, v in zip(names, vals):
                facts[n] = v
        except Exception as e:       # fail-soft
            stale.extend(names)
            sys.stderr.write(f"facts_extract: {names}: {type(e).__name__}: {e}\n")
    put(["fk_policy_table"], f_fk_policy_table)
    put(["merge_bug_pairs", "merge_max_only_pairs"], f_merge_tables)
    put(["checkpoint_calls"], f_checkpoint_calls)
    put(["save_data_calls"], f_save_data_calls)
    put(["datasource_save_kinds"], f_datasource_save)
    put(["change_type_order", "reversed_change_types", "cycle_bus_calls"], f_server_cycle)
    put(["event_types"], f_event_types)
    put(["inband_encoders", "inband_regexes"], f_inband)
    return facts, stale


def _s(x):
    return '"' + str(x).replace('"', '""') + '"'


def _l(xs, f=_s):
    return "[" + "; ".join(f(x) for x in xs) + "]"


def render(facts):
    L = ["(** GENERATED by harness/facts_extract.py from /repo's source text - do not edit.",
         "    Tables and call orders of Hermes the models rest on; Proofs/FactsTie.v ties the",
         "    hand-written models to them. *)",
         "From Coq Require Import String List.", "Import ListNotations.", "Open Scope string_scope.", ""]
    pair = lambda p: "(" + _s(p[0]) + ", " + _s(p[1]) + ")"
    L.append("Definition fk_policy_table : list (string * list string) := "
             + _l(facts["fk_policy_table"], lambda kv: "(" + _s(kv[0]) + ", " + _l(kv[1]) + ")") + ".")
    L.append("Definition merge_bug_pairs : list (string * string) := " + _l(facts["merge_bug_pairs"], pair) + ".")
    L.append("Definition merge_max_only_pairs : list (string * string) := " + _l(facts["merge_max_only_pairs"], pair) + ".")
    L.append("Definition checkpoint_calls : list string := " + _l(facts["checkpoint_calls"]) + ".")
    L.append("Definition save_data_calls : list string := " + _l(facts["save_data_calls"]) + ".")
    L.append("Definition datasource_save_kinds : list string := " + _l(facts["datasource_save_kinds"]) + ".")
    L.append("Definition change_type_order : list string := " + _l(facts["change_type_order"]) + ".")
    L.append("Definition reversed_change_types : list string := " + _l(facts["reversed_change_types"]) + ".")
    L.append("Definition cycle_bus_calls : list string := " + _l(facts["cycle_bus_calls"]) + ".")
    L.append("Definition event_types : list string := " + _l(facts["event_types"]) + ".")
    L.append("Definition inband_encoders : list (string * string) := " + _l(facts["inband_encoders"], pair) + ".")
    L.append("Definition inband_regexes : list string := " + _l(facts["inband_regexes"]) + ".")
    return "\n".join(L) + "\n"


def regenerate(repo, coqdir):
    """returns (changed, stale, facts)"""
    gen = os.path.join(coqdir, "Generated")
    os.makedirs(gen, exist_ok=True)
    jpath = os.path.join(gen, "facts.json")
    vpath = os.path.join(gen, "Facts.v")
    old = json.load(open(jpath)) if os.path.exists(jpath) else {}
    facts, stale = extract(repo)
    for n in stale:
        if n in old:
            facts[n] = old[n]
    missing = [n for n in ("fk_policy_table", "merge_bug_pairs", "merge_max_only_pairs", "checkpoint_calls",
                           "save_data_calls", "datasource_save_kinds", "change_type_order",
                           "reversed_change_types", "cycle_bus_calls", "event_types", "inband_encoders",
                           "inband_regexes") if n not in facts]
    if missing:
        return False, stale + missing, old
    txt = render(facts)
    changed = (not os.path.exists(vpath)) or open(vpath).read() != txt
    if changed:
        with open(vpath, "w") as f:
            f.write(txt)
    return changed, stale, facts


if __name__ == "__main__":
    repo = os.environ.get("HERMES_REPO", "/repo")
    coqdir = os.path.join(os.path.dirname(os.path.dirname(os.path.abspath(__file__))), "coq")
    if len(sys.argv) > 1 and sys.argv[1] == "--commit-json":
        facts, stale = extract(repo)
        assert not stale, stale
        json.dump(facts, open(os.path.join(coqdir, "Generated", "facts.json"), "w"), indent=1, sort_keys=True)
    ch, st, fa = regenerate(repo, coqdir)
    print(json.dumps({"changed": ch, "stale": st, "facts": fa}, indent=1))

"""Client kill cases (C11): the REAL client is killed (fork + os._exit) right after the k-th
completed file-system mutation or handler call of one loop iteration, restarted and drained;
an uninterrupted run of the same history is the reference."""
import copy
import datetime
import json
import os
import random
import shutil

import clicase
import crashcase
from common import enc, dec, gN, gZ, gbool, glist

EPOCH = clicase.EPOCH


def gen_case(rng, opts=None):
    opts = opts or {}
    base = clicase.gen_case(rng, {"shape": rng.choice(["flat", "chain", "flat"]), "retention": rng.choice([0, 0, 1]),
                                  "minpolls": 2, "maxpolls": 4, "fkpolicy": rng.choice(["disabled", "on_remove_event"]),
                                  "remediation": "disabled"})
    base["p_fail"] = rng.choice([0.0, 0.25, 0.4])
    base["kseed"] = rng.randrange(1 << 30)
    return base


def plan_of(case, nbus):
    """iterations of the prefix, the iteration that will be interrupted, the drain"""
    rng = random.Random(case["kseed"])
    its, limit, now = [], 2, 0
    while limit < nbus or not its:     # a bus of two events or fewer still gets one iteration
        limit = min(nbus, limit + rng.randint(1, 4))
        now += 10
        its.append({"limit": limit, "now": now, "faults": True})
    ki = rng.randrange(len(its))
    outs = []
    for i in range(10 * nbus + 40):
        r = rng.random()
        outs.append(("partial", rng.randint(1, 3)) if r < case["p_fail"] * 0.2 else "fail" if r < case["p_fail"] else "ok")
    drain = [{"limit": nbus, "now": now + 10 * (j + 1), "faults": False} for j in range(min(12, nbus + 3))]
    return its, ki, outs, drain


class Life:
    """one process life of the client, run in a forked child"""

    def __init__(self, case, wd, bus, outs):
        self.case, self.wd, self.bus, self.outs = case, wd, bus, outs

    def run(self, iters, ncall0, kill=None, obsfile=None, targetfile=None, opsfile=None):
        """iters: list of iteration dicts; kill=(index in iters, op number) or (index, None) to count"""
        import hermes_env as H
        import clidrv
        case = self.case
        tfd = os.open(targetfile, os.O_WRONLY | os.O_APPEND | os.O_CREAT)
        ofd = os.open(obsfile, os.O_WRONLY | os.O_APPEND | os.O_CREAT)
        world = {"bus": self.bus, "next": len(self.bus) + 1, "calls": [], "ncall": ncall0}
        killer = [None]
        state = {"faults": True}

        def failfn(n, call, cl):
            o = self.outs[n] if (n < len(self.outs) and state["faults"]) else "ok"
            rec = dict(call)
            rec["out"] = "ok" if o == "ok" else ("FAIL" if o == "fail" else "FAILPARTIAL")
            rec["given"] = o
            os.write(tfd, (json.dumps(enc(rec)) + "\n").encode())
            if killer[0] is not None:
                killer[0].tick(f"handler {call['h']} {call['key']}")
            if o == "ok":
                return None
            return True if o == "fail" else ("partial", o[1])
        world["failfn"] = failfn
        conf = clidrv.client_config(self.wd + "/cli", case["cdm"], trashbin_retention=case["retention"],
                                    foreignkeys_policy=case["fkpolicy"], autoremediation=case["remediation"],
                                    cache=case["cache"])
        cl = clidrv.start_client(self.wd + "/cli", conf, world)
        mark = {"n0": 0}

        def before(i, it):
            world["limit"] = it["limit"]
            state["faults"] = it.get("faults", True)
            mark["n0"] = len(world["calls"])
            if kill is not None and i == kill[0]:
                logfd = os.open(opsfile, os.O_WRONLY | os.O_APPEND | os.O_CREAT)
                killer[0] = crashcase.Killer(kill[1], logfd)
                crashcase.install(killer[0])

        def after(i, it):
            ob = clicase.snapshot(cl)
            ob["calls"] = [c for c in world["calls"][mark["n0"]:] if c["h"] != "on_save"]
            ob["ncall"] = world["ncall"]
            os.write(ofd, (json.dumps(enc(ob)) + "\n").encode())
            if kill is not None and i == kill[0]:
                killer[0].kill_at = None        # counting run: the iteration is over
                return True
            return False
        seg = [dict(it, now=EPOCH + datetime.timedelta(seconds=it["now"])) for it in iters]
        clidrv.run_segment(cl, seg, before, after)
        return {"n": killer[0].n if killer[0] else 0}


def read_lines(path):
    out = []
    if os.path.exists(path):
        for line in open(path):
            if line.strip():
                out.append(dec(json.loads(line)))
    return out


def run_case(case, wd, max_points=None):
    import hermes_env as H
    H.rmtree(wd)
    os.makedirs(wd)
    busjson = clicase.produce_bus(case, wd)
    # (bus timestamps off the whole second, as on a real bus)
    bus = [(i + 1, EPOCH + datetime.timedelta(seconds=10 * (i + 1), microseconds=500000), d) for i, d in enumerate(busjson)]
    its, ki, outs, drain = plan_of(case, len(bus))
    init_it = {"limit": 2, "now": 0, "faults": True}
    rng = random.Random(case["kseed"] ^ 0x9e3779b9)

    def life(d, iters, ncall0, kill=None):
        lf = Life(case, d, bus, outs)
        return crashcase.in_child(lambda: lf.run(iters, ncall0, kill, d + "/obs.jsonl", d + "/target.jsonl", d + "/ops.log"))
    # prefix: initialisation + iterations before the interrupted one, then a graceful stop
    pre = wd + "/pre"
    os.makedirs(pre)
    code, r = life(pre, [init_it] + its[:ki], 0)
    if code != 0:
        raise RuntimeError(f"prefix life failed: {r}")
    pre_obs = read_lines(pre + "/obs.jsonl")
    ncall_pre = pre_obs[-1]["ncall"]
    # reference = counting run: the interrupted iteration completes, then the drain (one more life, as after a stop)
    ref = wd + "/ref"
    shutil.copytree(pre, ref, ignore=shutil.ignore_patterns("csock"))
    code, r = life(ref, [its[ki]], ncall_pre, kill=(0, None))
    if code != 0:
        raise RuntimeError(f"counting life failed: {r}")
    n_ops = r["n"]
    ops = open(ref + "/ops.log").read().split("\n")[:-1] if os.path.exists(ref + "/ops.log") else []
    code, r = life(ref, drain, 10 ** 6)
    if code != 0:
        raise RuntimeError(f"reference drain failed: {r}")
    ref_obs = read_lines(ref + "/obs.jsonl")
    ref_target = read_lines(ref + "/target.jsonl")
    points = list(range(1, n_ops + 1))
    if max_points and len(points) > max_points:
        points = sorted(rng.sample(points, max_points))
    out = []
    for k in points:
        run = wd + f"/k{k}"
        shutil.copytree(pre, run, ignore=shutil.ignore_patterns("csock"))
        code, _ = life(run, [its[ki]], ncall_pre, kill=(0, k))
        kops = open(run + "/ops.log").read().split("\n")[:-1] if os.path.exists(run + "/ops.log") else []
        replaced = [o.split()[2] for o in kops if o.startswith("rename ")]
        ob = {"k": k, "op": ops[k - 1] if k - 1 < len(ops) else "?", "killed": code == 137, "replaced": replaced}
        n1 = len(read_lines(run + "/obs.jsonl"))        # the iteration may have completed before the kill
        code2, r2 = life(run, drain, 10 ** 6)
        allobs = read_lines(run + "/obs.jsonl")
        ob["post"] = allobs[n1:]
        ob["target"] = read_lines(run + "/target.jsonl")
        ob["recover_code"] = code2
        ob["recover_error"] = r2 if code2 != 0 else None
        out.append(ob)
        H.rmtree(run)
    H.rmtree(wd)
    from lib.datamodel.serialization import JSONSerializable
    return {"bus": [(o, clicase.secs(t), json.loads(d, object_hook=JSONSerializable._json_parser)) for (o, t, d) in bus],
            "its": its, "ki": ki, "outs": outs, "drain": drain, "pre_obs": pre_obs, "ref_obs": ref_obs,
            "ref_target": ref_target, "n_ops": n_ops, "ops": ops, "points": out}


# ---------------------------------------------------------------------------------------
# Gallina rendering and the final-state oracle
# ---------------------------------------------------------------------------------------
def fileid(ctx, name):
    """cache file name -> Gallina fileid (None for files outside the model: configuration cache)"""
    if name == "_errorqueue.json":
        return "FQueue"
    if name.startswith("_hermes-client"):
        return "FOffset"
    if name in ("_hermesconfig.json", "_dataschema.json"):
        return None
    base = name[:-len(".json")]
    local = base.startswith("__")
    if local:
        base = base[2:]
    trash = base.startswith("trashbin_")
    if trash:
        base = base[len("trashbin_"):]
    complete = base.endswith("_complete__")
    if complete:
        base = base[:-len("_complete__")]
    idx = (4 if local else 0) + (2 if complete else 0) + (1 if trash else 0)
    return f"(FData {gN(idx)} {gN(ctx.tid(base))})"


def giter(ctx, it, ob, restart, case):
    ws, q = ctx.gstate_obs(ob)
    calls = glist(ctx.gcall(c) for c in ob["calls"])
    ret = case["retention"]
    return "(CIter {} {} [] {} {} {} {} {} {} {} [])".format(
        gZ(it["now"]), gbool(restart), calls, glist(ws), q,
        gZ(ob["next"] if ob["next"] is not None else -1), gbool(ob["exc"] is not None), gZ(it["limit"]),
        "None" if not ret else f"(Some {gZ(ret * clicase.DAY)})")


def point_gallina(case, res, p):
    its, ki, drain = res["its"], res["ki"], res["drain"]
    pre_obs = res["pre_obs"][1:]                      # without the initialisation iteration
    ref_it = res["ref_obs"][len(res["pre_obs"])]      # the interrupted iteration, left to complete
    post = p["post"]
    fake = {"bus": res["bus"], "iters": pre_obs + [ref_it] + post, "init": None}
    ctx = clicase.CCtx(case, fake)
    evs = []
    for (o, ts, ev) in res["bus"]:
        if ev["evcategory"] == "base" and ev["eventtype"] in ("added", "modified", "removed"):
            evs.append(f"({gZ(o)},{ctx.gcev(ev['eventtype'], ev['objtype'], ev['objpkey'], ev['objattrs'], ts)})")
    gpre = glist(giter(ctx, it, ob, False, case) for it, ob in zip(its[:ki], pre_obs))
    gkit = giter(ctx, its[ki], ref_it, True, case)
    gpost = glist(giter(ctx, it, ob, j == 0, case) for j, (it, ob) in enumerate(zip(drain, post)))
    repl = [fileid(ctx, n) for n in p["replaced"]]
    grepl = glist(r for r in repl if r is not None)
    return (f"(KCase {ctx.gccfg(case)} {clicase.goutcomes(res['outs'][:400])} {glist(evs)} {gpre} {gkit} {grepl} {gpost})")


def idempotent_target(target):
    """state of an idempotent target after the successful handler calls"""
    st = {}
    for c in target:
        if c["out"] != "ok":
            continue
        kind = c["h"].split("_")[-1]
        lt = "_".join(c["h"].split("_")[1:-1])
        i = (lt, json.dumps(enc(c["key"])))
        if kind in ("added", "recycled", "modified"):
            if c["new"] is not None:
                st[i] = ("live", {a: v for a, v in c["new"].items() if a != clicase.TS})
        elif kind == "trashed":
            if i in st:
                st[i] = ("trashed", st[i][1])
        elif kind == "removed":
            st.pop(i, None)
    return st


from common import canon


def expected_remote_live(res):
    """what the bus owes: replay of the base events"""
    st = {}
    for (o, ts, e) in res["bus"]:
        if e["evcategory"] != "base":
            continue
        k = e["objpkey"] if not isinstance(e["objpkey"], list) else tuple(e["objpkey"])
        d = st.setdefault(e["objtype"], {})
        if e["eventtype"] == "added":
            d[k] = dict(e["objattrs"])
        elif e["eventtype"] == "modified" and k in d:
            d[k].update(e["objattrs"].get("added", {}))
            d[k].update(e["objattrs"].get("modified", {}))
            for a in e["objattrs"].get("removed", {}):
                d[k].pop(a, None)
        elif e["eventtype"] == "removed":
            d.pop(k, None)
    return st


def live_part(ds):
    return {t: {k: {a: v for a, v in o.items() if a != clicase.TS} for k, o in objs.items()}
            for t, objs in ds.items() if not t.startswith("trashbin_")}


def reference_is_healthy(res):
    """the uninterrupted run itself reached what the bus owes (it may not: findings F5 / F19
    strike whenever handlers fail, kill or no kill)"""
    ref = res["ref_obs"][-1]
    exp = expected_remote_live(res)
    got = live_part(ref["remotedata"])
    return not ref["queue"] and not ref["exc"] and canon({t: got.get(t, {}) for t in got}) == canon({t: exp.get(t, {}) for t in got})


def final_verdict(res, p):
    """compare the drained state after the kill with the uninterrupted run (when that run is
    itself healthy) and with what the bus owes"""
    ref = res["ref_obs"][-1]
    problems = []
    if p["recover_code"] != 0 or not p["post"]:
        return ["the restarted client crashed: " + str(p["recover_error"])[-300:]]
    fin = p["post"][-1]
    exp = expected_remote_live(res)
    got = live_part(fin["remotedata"])
    if canon({t: got.get(t, {}) for t in got}) != canon({t: exp.get(t, {}) for t in got}):
        problems.append("the remote data cache differs from what the bus owes")
    if fin["queue"]:
        problems.append("the error queue does not drain")
    if fin["exc"]:
        problems.append("the client keeps raising: " + fin["exc"][-160:])
    if reference_is_healthy(res):
        # (a trashbin timestamp is stored in the cache files with whole seconds: compared at that precision)
        whole = lambda v: v.replace(microsecond=0) if isinstance(v, datetime.datetime) else v
        strip = lambda ds: {t: {k: {a: v for a, v in o.items() if a != clicase.TS} if not t.startswith("trashbin_")
                                else {a: (whole(v) if a == clicase.TS else v) for a, v in o.items()}
                                for k, o in objs.items()} for t, objs in ds.items()}
        for name in ("remotedata", "localdata"):
            if canon(strip(fin[name])) != canon(strip(ref[name])):
                problems.append(f"{name} differs from the uninterrupted run")
        if fin["next"] != ref["next"]:
            problems.append(f"saved offset {fin['next']} != {ref['next']}")
        if canon({f"{k[0]}|{k[1]}": v for k, v in idempotent_target(p["target"]).items()}) != \
                canon({f"{k[0]}|{k[1]}": v for k, v in idempotent_target(res["ref_target"]).items()}):
            problems.append("the (idempotent) target differs from the uninterrupted run")
    return problems


def bus_has_readd(res):
    removed = set()
    for (o, ts, e) in res["bus"]:
        if e["evcategory"] != "base":
            continue
        i = (e["objtype"], canon(e["objpkey"]))
        if e["eventtype"] == "removed":
            removed.add(i)
        elif e["eventtype"] == "added" and i in removed:
            return True
    return False


def in_window(p):
    """F7: some cache file was replaced but not yet the client's own cache file (offset)"""
    names = [n for n in p["replaced"] if n not in ("_hermesconfig.json", "_dataschema.json")]
    return bool(names) and not any(n.startswith("_hermes-client") for n in names)

"""In-process bootstrap of the real Hermes code (from HERMES_REPO, default /repo) with
in-memory plugin doubles.  No change to the repository is needed: the doubles are plain
plugin instances injected into the loaded configuration."""
import builtins
import copy
import json
import logging
import os
import shutil
import sys
import threading
import unittest  # noqa: F401  (makes lib.utils.logging skip its stderr handler)

REPO = os.environ.get("HERMES_REPO", "/repo")
if REPO not in sys.path:
    sys.path.insert(0, REPO)

if not hasattr(builtins, "__hermes__"):
    builtins.__hermes__ = threading.local()
__hermes__.appname = "hermes-server"
__hermes__.logger = logging.getLogger("hermes-server")

import yaml  # noqa: E402
from lib.config import HermesConfig  # noqa: E402
from lib.plugins import (  # noqa: E402
    AbstractDataSourcePlugin,
    AbstractMessageBusProducerPlugin,
    AbstractMessageBusConsumerPlugin,
)
from lib.datamodel.event import Event  # noqa: E402
import lib.utils.mail  # noqa: E402
import lib.utils.socket as _S  # noqa: E402

lib.utils.mail.Email.send = staticmethod(lambda **kw: None)
lib.utils.mail.Email.sendDiff = staticmethod(lambda **kw: None)
_orig_startdaemon = _S.SockServer.startProcessMessagesDaemon


def stub_socket_daemon(on=True):
    if on:
        _S.SockServer.startProcessMessagesDaemon = lambda self, appname=None: None
    else:
        _S.SockServer.startProcessMessagesDaemon = _orig_startdaemon


stub_socket_daemon(True)


class ListHandler(logging.Handler):
    def __init__(self, sink):
        super().__init__(level=logging.DEBUG)
        self.sink = sink

    def emit(self, record):
        try:
            self.sink.append((record.levelname, record.getMessage()))
        except Exception as e:  # pragma: no cover
            self.sink.append(("ERROR-FORMAT", repr(e)))


def setup_logger(appname, sink=None):
    lg = logging.getLogger(appname)
    lg.handlers.clear()
    lg.propagate = False
    if sink is None:
        lg.addHandler(logging.NullHandler())
        lg.setLevel(logging.CRITICAL + 1)
    else:
        lg.addHandler(ListHandler(sink))
        lg.setLevel(logging.DEBUG)
    return lg


# ---------------------------------------------------------------------------------------
# Server side doubles
# ---------------------------------------------------------------------------------------
class MemDS(AbstractDataSourcePlugin):
    """In-memory datasource: world['tables'][dsname][query] = list of row dicts."""

    def __init__(self, name, world):
        self.name = name
        self.world = world
        self._settings = {}

    def open(self):
        pass

    def close(self):
        pass

    def fetch(self, query, vars):
        return copy.deepcopy(self.world["tables"].get(self.name, {}).get(query, []))

    def add(self, q, v):
        self.world["log"].append(("commit", "add", self.name, q, copy.deepcopy(v)))

    def modify(self, q, v):
        self.world["log"].append(("commit", "modify", self.name, q, copy.deepcopy(v)))

    def delete(self, q, v):
        self.world["log"].append(("commit", "delete", self.name, q, copy.deepcopy(v)))


class SendRefused(IOError):
    pass


class MemBus(AbstractMessageBusProducerPlugin):
    """Producer double. world['fail'] = set of global send indices to refuse;
    world['failopen'] = set of open() indices to refuse."""

    def __init__(self, world):
        self.world = world
        self._settings = {}

    def open(self):
        n = self.world["nopen"]
        self.world["nopen"] += 1
        if n in self.world.get("failopen", ()):
            self.world["log"].append(("openfail",))
            raise IOError("bus unavailable")
        self.world["log"].append(("open",))

    def close(self):
        self.world["log"].append(("close",))

    def _send(self, event):
        n = self.world["nsend"]
        self.world["nsend"] += 1
        hook = self.world.get("sendhook")
        if hook:
            hook(n, event)
        js = json.loads(event.to_json())
        rec = (event.evcategory, event.eventtype, event.objtype, event.objpkey,
               copy.deepcopy(event.objattrs))
        if n in self.world["fail"]:
            self.world["log"].append(("sendfail",) + rec)
            raise SendRefused("refused")
        self.world["bus"].append(js)
        self.world["log"].append(("send",) + rec)


def new_world():
    return {"tables": {}, "log": [], "bus": [], "nsend": 0, "nopen": 0, "fail": set(),
            "failopen": set(), "views": []}


def server_config(workdir, datamodel, sources, cache=None, extra_hermes=None, interval=0):
    c = {"dirpath": workdir + "/cache", "enable_compression": False, "backup_count": 0}
    if cache:
        c.update(cache)
    conf = {
        "hermes": {
            "cache": c,
            "logs": {"logfile": None, "verbosity": "debug"},
            "mail": {"server": "x", "from": "a@b", "to": "c@d"},
            "cli_socket": {"path": workdir + "/sock"},
            "plugins": {
                "datasources": {s: {"type": "sqlite", "settings": {"uri": "x"}} for s in sources},
                "messagebus": {"sqlite": {"settings": {"uri": workdir + "/bus.sqlite",
                                                       "retention_in_days": 1}}},
            },
        },
        "hermes-server": {"updateInterval": interval, "datamodel": datamodel},
    }
    if extra_hermes:
        conf["hermes"].update(extra_hermes)
    return conf


def load_config(workdir, conf, app="server"):
    os.makedirs(workdir, exist_ok=True)
    os.chdir(workdir)
    appname = "hermes-server" if app == "server" else "hermes-" + app
    __hermes__.appname = appname
    __hermes__.logger = logging.getLogger(appname)
    with open(f"{appname}-config.yml", "w") as f:
        yaml.dump(conf, f, sort_keys=False)
    sys.argv = ["hermes", app]
    c = HermesConfig(autoload=False, allowMultipleInstances=True)
    c.load(loadplugins=False)
    return c


def start_server(workdir, conf, world, logsink=None):
    c = load_config(workdir, conf, "server")
    setup_logger("hermes-server", logsink)
    for s in c["hermes"]["plugins"]["datasources"]:
        c["hermes"]["plugins"]["datasources"][s]["plugininstance"] = MemDS(s, world)
    c["hermes"]["plugins"]["messagebus"]["plugininstance"] = MemBus(world)
    c["hermes"]["plugins"]["attributes"]["_jinjafilters"] = {}
    from server.hermesserver import HermesServer
    srv = HermesServer(c)
    # record the merged view right after each fetch (observation only)
    orig_fetch = srv.dm.fetch

    def fetch():
        orig_fetch()
        world["views"].append(snapshot_ds(srv.dm.data))
        world["log"].append(("fetch",))
    srv.dm.fetch = fetch
    return srv


def snapshot_ds(ds):
    """{type: {pkey: attrs}} deep copy of a Datasource content (all keys incl. trashbin_)"""
    out = {}
    for t, lst in ds.items():
        out[t] = {o.getPKey(): copy.deepcopy(o.toNative()) for o in lst}
    return out


def run_server(srv, nloops):
    """Run the real mainLoop for nloops iterations (the same bounded-loop field the
    upstream functional tests use), with sleep patched to a no-op that stops the loop."""
    import server.hermesserver as hs
    srv._numberOfLoopToProcess = nloops

    class T:
        @staticmethod
        def time():
            import time as _t
            return _t.time()

        @staticmethod
        def sleep(x):
            # sleep is only reached when idle or in the error path: end the step there
            srv._isStopped = True
    hs.time = T
    srv._isStopped = False
    srv.mainLoop()


def rmtree(p):
    shutil.rmtree(p, ignore_errors=True)

import sys, os, json, pprint
sys.path.insert(0, os.path.dirname(__file__))
import common, fetchcase, hermes_env
obj = json.load(open(sys.argv[1]))
case = common.dec(obj["case"])
obs = fetchcase.run_case(case, common.workdir("dbg") + "/f")
print(case["srcs"], case["omc"])
for ob in obs:
    pprint.pprint(ob, width=200)
g = fetchcase.case_to_gallina(case, obs)
body = ("From Hermes Require Import Corr.RunFetch.\nDefinition x : fcase := " + g + ".\n"
        "Eval vm_compute in (map (corr_fpoll (f_dmoc x)) (f_polls x), map (c13_poll (f_dmoc x)) (f_polls x)).\n"
        "Eval vm_compute in (map (fun p => let '(st, f) := fetch_type (f_dmoc x) (fp_cache p) (fp_srcs p) in (map (fun ko => (fst ko, map_to_list (snd ko))) (l_data st), l_incons st, l_conf st, f)) (f_polls x)).\n")
p = common.workdir("dbg") + "/f1.v"
open(p, "w").write(body)
print(common.run_coqc(p))

#!/bin/bash
# usage: allcheck.sh [seed] [tier]  - run every claimed check once, print one summary line each
cd /verif
export VERIF_SEED=${1:-20260101}
tier=${2:-quick}
for p in $(python3 -c "import json; print(' '.join(c['property_id'] for c in json.load(open('/verif/MANIFEST.json'))['checks']))"); do
  out=$(./check "$p" "$tier" 2>&1); rc=$?
  echo "rc=$rc $(echo "$out" | grep -c '^VIOLATION') viol-lines | $(echo "$out" | tail -1)"
  echo "$out" | grep -A1 -m3 "^VIOLATION" | cut -c1-300
done

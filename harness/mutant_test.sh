#!/bin/bash
# usage: mutant_test.sh <patch.diff> <Cxx> [<Cxx>...]   apply patch to /repo, run quick checks, revert
patch="$1"; shift
cd /repo || exit 2
if ! git diff --quiet; then echo "/repo is dirty"; exit 2; fi
if ! git apply "$patch" 2>/dev/null; then
  if ! git apply -3 "$patch" 2>/dev/null; then echo "PATCH-DOES-NOT-APPLY $patch"; git checkout -- . ; exit 3; fi
fi
for p in "$@"; do
  out=$(cd /verif && ./check "$p" quick 2>&1); rc=$?
  echo "== $p rc=$rc: $(echo "$out" | grep -c '^VIOLATION') violation lines; $(echo "$out" | tail -1)"
  echo "$out" | grep -m2 "^VIOLATION"
done
git checkout -- . ; git reset -q; git status --short | head -3

import sys, os, json
sys.path.insert(0, os.path.dirname(__file__))
import common, clikill, srvprops
srvprops._init_worker()
obj = json.load(open(sys.argv[1]))
case = common.dec(obj["case"])
want = obj.get("k")
exprs = sys.argv[2:]
res = clikill.run_case(case, common.workdir("dbg") + "/k", max_points=None)
print("retention", case["retention"], "fk", case["fkpolicy"], "ki", res["ki"], "n_ops", res["n_ops"])
for i, (it, ob) in enumerate(zip([None] + res["its"][:res["ki"]], res["pre_obs"])):
    print("PRE", it, "next", ob["next"], [(c["h"], c["key"], c["out"]) for c in ob["calls"]], "queue", [(q["num"], q["local"][:3]) for q in ob["queue"]])
ref_it = res["ref_obs"][len(res["pre_obs"])]
print("KIT", res["its"][res["ki"]], "next", ref_it["next"], [(c["h"], c["key"], c["out"]) for c in ref_it["calls"]], "queue", [(q["num"], q["local"][:3]) for q in ref_it["queue"]])
for p in res["points"]:
    if want is not None and p["k"] != want:
        continue
    print("POINT", p["k"], p["op"], "replaced", p["replaced"], "problems", clikill.final_verdict(res, p))
    for it, ob in zip(res["drain"], p["post"]):
        print("   POST", it["limit"], "next", ob["next"], [(c["h"], c["key"], c["out"]) for c in ob["calls"]], "queue", [(q["num"], q["local"][:3]) for q in ob["queue"]], "exc", (ob["exc"] or "")[-100:])
    g = clikill.point_gallina(case, res, p)
    body = "From Hermes Require Import Corr.RunKill.\nDefinition x : kcase := " + g + ".\nEval vm_compute in (kcorr x).\n" + "".join(f"Eval vm_compute in ({e}).\n" for e in exprs)
    pth = common.workdir("dbg") + "/kill1.v"
    open(pth, "w").write(body)
    print(common.run_coqc(pth))
print("REF final", res["ref_obs"][-1]["localdata"], res["ref_obs"][-1]["queue"], res["ref_obs"][-1]["next"])
for ob in res["ref_obs"][len(res["pre_obs"]):][:4]:
    print("  REF it next", ob["next"], [(c["h"], c["key"], c["out"]) for c in ob["calls"]], "exc", (ob["exc"] or "")[-100:])

from cli import *
import tempfile, json
from datetime import datetime, timedelta
def ev(cat,typ,objtype=None,pkey=None,attrs=None):
    return json.dumps({"evcategory":cat,"eventtype":typ,"objtype":objtype,"objpkey":pkey,"objattrs":attrs if attrs is not None else {},"step":0,"isPartiallyProcessed":False})
def A(t,k,a,cat="base"): return ev(cat,"added",t,k,a)
def M(t,k,add=None,mod=None,rem=None): return ev("base","modified",t,k,{"added":add or {},"modified":mod or {},"removed":{x:None for x in (rem or [])}})
def R(t,k): return ev("base","removed",t,k)
def mkbus(evs, t0=datetime(2026,1,1), dt=timedelta(seconds=1)):
    return [(i+1,t0+dt*i,d) for i,d in enumerate(evs)]
class Sess:
    def __init__(self, schema, cdm, evs, ts=None, **kw):
        self.wd=tempfile.mkdtemp(dir='/tmp/scratch')
        init=[ev("initsync","init-start",attrs=schema), ev("initsync","init-stop")]
        self.bus=mkbus(init+evs)
        if ts:
            self.bus=[(o,ts.get(o,t),d) for (o,t,d) in self.bus]
        self.cw={'bus':self.bus,'next':len(self.bus)+1,'calls':[],'ncall':0}
        self.cdm=cdm; self.kw=kw
    def run(self, limit, loops=1, failfn=None, **kw):
        self.cw['limit']=limit; self.cw['failfn']=failfn
        k=dict(self.kw); k.update(kw)
        cl=startclient(self.wd,mkclientconfig(self.wd,self.cdm,**k),self.cw)
        self.cl=cl
        n0=len(self.cw['calls'])
        runclient(cl,loops)
        return self.cw['calls'][n0:]
    def cache(self,name):
        try: return json.load(open(f"{self.wd}/ccache/{name}.json"))['content']
        except FileNotFoundError: return None
    def queue(self):
        q=self.cache('_errorqueue')
        return {k:(v[0] and (v[0]['eventtype'],v[0]['objpkey'],v[0]['objattrs']), (v[1]['eventtype'],v[1]['objtype'],v[1]['objpkey'],v[1]['objattrs'],v[1]['step'],v[1]['isPartiallyProcessed']), (v[2] or '')[:30]) for k,v in q['_queue'].items()} if q else None
def show(calls):
    for c in calls:
        if c[0]!='on_save': print("   ",c)

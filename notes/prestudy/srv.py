import builtins, threading, logging, sys, os, shutil, yaml, json, copy
sys.path.insert(0,'/repo')
builtins.__hermes__ = threading.local()
__hermes__.appname='hermes-server'; __hermes__.logger=logging.getLogger('hermes-server')
from lib.config import HermesConfig
from lib.plugins import AbstractDataSourcePlugin, AbstractMessageBusProducerPlugin
import lib.utils.mail
lib.utils.mail.Email.send = staticmethod(lambda **kw: None)
lib.utils.mail.Email.sendDiff = staticmethod(lambda **kw: None)

class MemDS(AbstractDataSourcePlugin):
    def __init__(self, name, world): self.name=name; self.world=world; self._settings={}
    def open(self): pass
    def close(self): pass
    def fetch(self, query, vars):
        return copy.deepcopy(self.world['tables'].get(query, []))
    def add(self, q, v): self.world['log'].append(('commit','add',q,v))
    def modify(self, q, v): self.world['log'].append(('commit','modify',q,v))
    def delete(self, q, v): self.world['log'].append(('commit','delete',q,v))

class MemBus(AbstractMessageBusProducerPlugin):
    def __init__(self, world): self.world=world; self._settings={}
    def open(self): self.world['log'].append(('open',))
    def close(self): self.world['log'].append(('close',))
    def _send(self, event):
        n=self.world['nsend']; self.world['nsend']+=1
        if n in self.world['fail']:
            self.world['log'].append(('sendfail', event.evcategory,event.eventtype,event.objtype,event.objpkey))
            raise IOError("refused")
        self.world['bus'].append(json.loads(event.to_json()))
        self.world['log'].append(('send', event.evcategory,event.eventtype,event.objtype,event.objpkey,event.objattrs))

def mkconfig(workdir, datamodel, sources, extra_hermes=None):
    conf={'hermes':{'cache':{'dirpath':workdir+'/cache','enable_compression':False,'backup_count':0},
      'logs':{'logfile':None,'verbosity':'debug'},
      'mail':{'server':'x','from':'a@b','to':'c@d'},
      'plugins':{'datasources':{s:{'type':'sqlite','settings':{'uri':'x'}} for s in sources},
                 'messagebus':{'sqlite':{'settings':{'uri':workdir+'/bus.sqlite','retention_in_days':1}}}}},
      'hermes-server':{'updateInterval':0,'datamodel':datamodel}}
    if extra_hermes: conf['hermes'].update(extra_hermes)
    return conf

def start(workdir, conf, world):
    os.makedirs(workdir, exist_ok=True)
    os.chdir(workdir)
    with open('hermes-server-config.yml','w') as f: yaml.dump(conf,f,sort_keys=False)
    sys.argv=['hermes','server']
    c=HermesConfig(autoload=False, allowMultipleInstances=True)
    c.load(loadplugins=False)
    logging.getLogger('hermes-server').handlers.clear()
    for s in c['hermes']['plugins']['datasources']:
        c['hermes']['plugins']['datasources'][s]['plugininstance']=MemDS(s,world)
    c['hermes']['plugins']['messagebus']['plugininstance']=MemBus(world)
    c['hermes']['plugins']['attributes']['_jinjafilters']={}
    from server.hermesserver import HermesServer
    import server.hermesserver as hs
    srv=HermesServer(c)
    return srv

def run(srv, nloops):
    import server.hermesserver as hs
    srv._numberOfLoopToProcess=nloops
    class T:
        @staticmethod
        def sleep(x):
            if not srv._numberOfLoopToProcess: srv._isStopped=True
    hs.time=T
    srv._isStopped=False
    srv.mainLoop()

From Coq Require Import List Arith Lia Bool.
Import ListNotations.

(* Foreign-key graph: edges between type ids; an edge is identified by (from, attr, to) *)
Record edge := { e_from : nat; e_attr : nat; e_to : nat }.
Definition edge_eqb (a b : edge) : bool :=
  Nat.eqb (e_from a) (e_from b) && Nat.eqb (e_attr a) (e_attr b) && Nat.eqb (e_to a) (e_to b).
Lemma edge_eqb_spec a b : reflect (a = b) (edge_eqb a b).
Proof.
  unfold edge_eqb. destruct a as [f1 a1 t1], b as [f2 a2 t2]; simpl.
  destruct (Nat.eqb_spec f1 f2), (Nat.eqb_spec a1 a2), (Nat.eqb_spec t1 t2); simpl;
    constructor; congruence.
Qed.
Definition mem (e : edge) (l : list edge) : bool := existsb (edge_eqb e) l.
Lemma mem_In e l : mem e l = true <-> In e l.
Proof.
  unfold mem. rewrite existsb_exists. split.
  - intros [x [Hx He]]. destruct (edge_eqb_spec e x); [subst; auto | discriminate].
  - intros H. exists e. split; auto. destruct (edge_eqb_spec e e); congruence.
Qed.

Section G.
Variable E : list edge.                       (* all foreign keys of the schema *)
Definition out (t : nat) : list edge := filter (fun e => Nat.eqb (e_from e) t) E.

(* Path-local DFS (the repaired algorithm): true = "circular reference found" *)
Fixpoint dfs (fuel : nat) (fks : list edge) (path : list edge) : option bool :=
  match fuel with
  | O => None
  | S fuel' =>
      (fix loop (fks : list edge) : option bool :=
         match fks with
         | [] => Some false
         | fk :: rest =>
             if mem fk path then Some true
             else match dfs fuel' (out (e_to fk)) (fk :: path) with
                  | None => None
                  | Some true => Some true
                  | Some false => loop rest
                  end
         end) fks
  end.

(* chain: consecutive edges, newest first; a cycle is a chain whose newest edge leads to the oldest edge's source *)
Inductive chain : list edge -> Prop :=
| chain_nil : chain []
| chain_one e : In e E -> chain [e]
| chain_cons e e' p : In e E -> e_to e' = e_from e -> chain (e' :: p) -> chain (e :: e' :: p).

Definition has_cycle : Prop :=
  exists e p, chain (e :: p) /\ e_from (last (e :: p) e) = e_to e.

(* invariant: path is a chain and the fks we explore start where the path head ends *)
Definition starts_at (fks : list edge) (path : list edge) : Prop :=
  forall fk, In fk fks -> In fk E /\ match path with [] => True | h :: _ => e_to h = e_from fk end.

Lemma out_starts t path h : path = h :: tl path -> e_to h = t -> starts_at (out t) path.
Proof.
  intros Hp Ht fk Hin. unfold out in Hin. apply filter_In in Hin as [HE Hf].
  apply Nat.eqb_eq in Hf. split; auto. rewrite Hp. congruence.
Qed.

Lemma dfs_sound fuel : forall fks path,
  chain path -> starts_at fks path -> dfs fuel fks path = Some true -> has_cycle.
Proof.
  induction fuel as [|fuel IH]; intros fks path Hc Hs Hd; [discriminate|].
  simpl in Hd. induction fks as [|fk rest IHr]; [discriminate|].
  destruct (mem fk path) eqn:Hm.
  - (* fk already on the path: the segment of path down to fk, plus fk on top, is a cycle *)
    apply mem_In in Hm. clear Hd IHr.
    destruct (Hs fk (or_introl eq_refl)) as [HfkE Hhead].
    (* find the suffix of path starting at fk: take prefix up to fk *)
    revert Hc Hhead. 
    assert (forall q, chain q -> In fk q -> match q with [] => True | h :: _ => e_to h = e_from fk end -> has_cycle) as K.
    { induction q as [|h q IHq]; intros Hq Hin Hh; [inversion Hin|].
      (* prefix of q up to and including first occurrence of fk from the top *)
      clear IHq.
      assert (exists pre post, h :: q = pre ++ fk :: post) as (pre & post & Hsplit) by (apply in_split; exact Hin).
      (* the chain pre ++ [fk] : newest = head of (h::q), oldest = fk *)
      assert (chain (pre ++ [fk])) as Hpre.
      { clear Hh Hin. revert h q Hq Hsplit. induction pre as [|x pre IHp]; intros h q Hq Hsplit.
        - simpl. apply chain_one. exact HfkE.
        - simpl in Hsplit. injection Hsplit as Hx Hq'. subst x.
          destruct pre as [|y pre'].
          + simpl in *. subst q. inversion Hq; subst. apply chain_cons; auto. apply chain_one; auto.
          + simpl in *. subst q. inversion Hq; subst. apply chain_cons; auto.
            apply (IHp y (pre' ++ fk :: post)); auto. }
      destruct pre as [|x pre'].
      - simpl in Hsplit. injection Hsplit as Hh' _. subst h.
        exists fk, []. split; [apply chain_one; auto|]. simpl. symmetry. exact Hh.
      - simpl in Hsplit. injection Hsplit as Hx _. subst x.
        exists h, (pre' ++ [fk]). split; [exact Hpre|].
        replace (last (h :: pre' ++ [fk]) h) with fk.
        + symmetry; exact Hh.
        + change (h :: pre' ++ [fk]) with ((h :: pre') ++ [fk]). rewrite last_last. reflexivity. }
    intros Hc Hhead. apply (K path Hc Hm Hhead).
  - destruct (dfs fuel (out (e_to fk)) (fk :: path)) as [[|]|] eqn:Hrec; try discriminate.
    + destruct (Hs fk (or_introl eq_refl)) as [HfkE Hhead].
      apply (IH (out (e_to fk)) (fk :: path)); auto.
      * destruct path as [|h p]; [apply chain_one; auto | apply chain_cons; auto].
      * apply (out_starts (e_to fk) (fk :: path) fk); reflexivity.
    + apply IHr; auto. intros fk' Hin. apply Hs. right; exact Hin.
Qed.
End G.
Print Assumptions dfs_sound.

From Coq Require Import List Arith Lia Bool.
Import ListNotations.
(* Abstract shape of Datamodel.fetch's integrity loop: objects are nat ids, [sat S x] is the
   type's constraint evaluated against the current data S; constraints that "require the
   presence of other objects" are monotone in S. *)
Section L.
Variable sat : list nat -> nat -> bool.
Hypothesis sat_mono : forall S S' x, incl S S' -> sat S x = true -> sat S' x = true.

Definition round (S : list nat) : list nat := filter (sat S) S.
Fixpoint loop (fuel : nat) (S : list nat) : option (list nat) :=
  match fuel with
  | O => None
  | S f => let S' := round S in
           if Nat.eqb (length S') (length S) then Some S else loop f S'
  end.
Definition closed (S : list nat) := forall x, In x S -> sat S x = true.

Lemma filter_length_le {A} (f : A -> bool) (l : list A) : length (filter f l) <= length l.
Proof. induction l as [|a l IH]; simpl; [lia|]. destruct (f a); simpl; lia. Qed.
Lemma round_incl S : incl (round S) S.
Proof. intros x H. apply filter_In in H. tauto. Qed.
Lemma round_len S : length (round S) <= length S.
Proof. apply filter_length_le. Qed.
Lemma round_fix S : length (round S) = length S -> round S = S.
Proof.
  unfold round. generalize (sat S) as f. intros f. induction S as [|a S IH]; simpl; auto.
  destruct (f a); simpl; intros H.
  - f_equal. apply IH. lia.
  - pose proof (filter_length_le f S). lia.
Qed.

Lemma loop_spec fuel : forall S R, loop fuel S = Some R ->
  incl R S /\ closed R /\ (forall T, incl T S -> closed T -> incl T R).
Proof.
  induction fuel as [|f IH]; intros S R H; [discriminate|].
  simpl in H. destruct (Nat.eqb_spec (length (round S)) (length S)) as [e|ne].
  - injection H as <-. split; [apply incl_refl|]. split.
    + intros x Hx. apply round_fix in e. rewrite <- e in Hx. apply filter_In in Hx. tauto.
    + auto.
  - apply IH in H as (Hi & Hc & Hm). split; [eapply incl_tran; [exact Hi | apply round_incl]|].
    split; auto. intros T HT HcT. apply Hm; auto.
    intros x Hx. apply filter_In. split; [auto|]. apply (sat_mono T S x HT). apply HcT; auto.
Qed.

Lemma loop_terminates : forall fuel S, length S < fuel -> exists R, loop fuel S = Some R.
Proof.
  induction fuel as [|f IH]; intros S H; [lia|].
  simpl. destruct (Nat.eqb_spec (length (round S)) (length S)); [eauto|].
  apply IH. pose proof (round_len S). lia.
Qed.
End L.
Print Assumptions loop_spec.

From stdpp Require Import gmap strings list.
Section S.
Context {V : Type} (vdiff : V -> V -> bool).
Hypothesis vdiff_eq : forall a b, vdiff a b = false <-> a = b.
Notation obj := (gmap string V).
(* Alternative: define by merge, lookup-level reasoning is one case split *)
Definition delta (vn vo : option V) : option (option V) (* None = untouched; Some None = remove; Some (Some v) = set *) :=
  match vn, vo with
  | Some a, Some b => if vdiff a b then Some (Some a) else None
  | Some a, None => Some (Some a)
  | None, Some _ => Some None
  | None, None => None end.
Definition odiff (n o : obj) : gmap string (option V) := merge delta n o.
Definition patch1 (d : option (option V)) (vo : option V) : option V :=
  match d with Some x => x | None => vo end.
Definition patch (d : gmap string (option V)) (o : obj) : obj := merge patch1 d o.
Lemma patch_diff n o : patch (odiff n o) o = n.
Proof.
  apply map_eq; intros k. unfold patch, odiff. rewrite !lookup_merge.
  unfold diag_None.
  destruct (n !! k) as [a|] eqn:Hn, (o !! k) as [b|] eqn:Ho; simpl; try done.
  destruct (vdiff a b) eqn:Hd; simpl; [done|]. apply vdiff_eq in Hd. congruence.
Qed.
Lemma diff_same o : odiff o o = ∅.
Proof.
  apply map_eq; intros k. unfold odiff. rewrite lookup_merge, lookup_empty.
  unfold diag_None. destruct (o !! k) as [a|]; simpl; [|done].
  assert (vdiff a a = false) as -> by (apply vdiff_eq; done). done.
Qed.
End S.
Print Assumptions patch_diff.

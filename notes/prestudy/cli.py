import builtins, threading, logging, sys, os, shutil, yaml, json, copy
from datetime import datetime, timedelta
sys.path.insert(0,'/repo')
if not hasattr(builtins,'__hermes__'):
    builtins.__hermes__ = threading.local()
from lib.config import HermesConfig
from lib.plugins import AbstractMessageBusConsumerPlugin
from lib.datamodel.event import Event
import lib.utils.mail
lib.utils.mail.Email.send = staticmethod(lambda **kw: None)
lib.utils.mail.Email.sendDiff = staticmethod(lambda **kw: None)
import clients as C

class MemConsumer(AbstractMessageBusConsumerPlugin):
    """bus = list of (offset, timestamp, jsonstr)"""
    def __init__(self, world): self.world=world; self._settings={}; self.cur=None
    def open(self): pass
    def close(self): pass
    def setTimeout(self, t): pass
    def seekToBeginning(self):
        self.cur = self.world['bus'][0][0] if self.world['bus'] else -1
    def seek(self, offset):
        bus=self.world['bus']
        lo = bus[0][0] if bus else self.world['next']
        if lo <= offset <= self.world['next']: self.cur=offset
        else: raise IndexError(offset)
    def __iter__(self):
        for (off, ts, data) in list(self.world['bus']):
            if off < self.cur: continue
            if 'limit' in self.world and off > self.world['limit']: return
            ev=Event.from_json(data); ev.offset=off; ev.timestamp=ts
            yield ev
            self.cur=off+1

class RecClient(C.GenericClient):
    def __init__(self, config, world):
        self.world=world
        super().__init__(config)
    def __getattr__(self, name):
        if name.startswith('on_'):
            def h(**kw):
                call=(name, kw.get('objkey'), copy.deepcopy(kw.get('eventattrs')),
                      kw['newobj'].toNative().copy() if kw.get('newobj') is not None else None,
                      kw['cachedobj'].toNative().copy() if kw.get('cachedobj') is not None else None)
                if name=='on_save':
                    self.world['calls'].append(call+('ok',)); return
                n=self.world['ncall']; self.world['ncall']+=1
                fail = self.world['failfn'](n, call, self) if self.world.get('failfn') else False
                self.world['calls'].append(call+(('FAIL' if fail else 'ok'),))
                if fail: raise RuntimeError("handler failure")
            return h
        raise AttributeError(name)

def mkclientconfig(workdir, datamodel, **kw):
    hc={'updateInterval':0,'errorQueue_retryInterval':1,'trashbin_purgeInterval':1,'trashbin_retention':0,'datamodel':datamodel}
    hc.update(kw)
    return {'hermes':{'cache':{'dirpath':workdir+'/ccache','enable_compression':False,'backup_count':0},
      'logs':{'logfile':None,'verbosity':'debug'},
      'mail':{'server':'x','from':'a@b','to':'c@d'},
      'cli_socket':{'path':workdir+'/csock'},'plugins':{'messagebus':{'sqlite':{'settings':{'uri':workdir+'/bus.sqlite'}}}}},
      'hermes-client':hc, 'hermes-client-usersgroups_null':{}}

def startclient(workdir, conf, world):
    os.makedirs(workdir, exist_ok=True); os.chdir(workdir)
    __hermes__.appname='hermes-client-usersgroups_null'; __hermes__.logger=logging.getLogger(__hermes__.appname)
    with open('hermes-client-usersgroups_null-config.yml','w') as f: yaml.dump(conf,f,sort_keys=False)
    sys.argv=['hermes','client-usersgroups_null']
    c=HermesConfig(autoload=False, allowMultipleInstances=True)
    c.load(loadplugins=False)
    __hermes__.logger.handlers.clear()
    if world.get('verbose'):
        h=logging.StreamHandler(sys.stdout); __hermes__.logger.addHandler(h); __hermes__.logger.setLevel(logging.DEBUG)
    else:
        __hermes__.logger.addHandler(logging.NullHandler()); __hermes__.logger.propagate=False
    c['hermes']['plugins']['messagebus']['plugininstance']=MemConsumer(world)
    c['hermes']['plugins']['attributes']['_jinjafilters']={}
    return RecClient(c, world)

def runclient(cl, nloops):
    cl._GenericClient__numberOfLoopToProcess=nloops
    cl._GenericClient__isStopped=False
    def fsleep(x):
        if not cl._GenericClient__numberOfLoopToProcess: cl._GenericClient__isStopped=True
    C.sleep=fsleep
    cl._GenericClient__trashbin_lastpurge=datetime(1,1,1)
    cl._GenericClient__errorQueue_lastretry=datetime(1,1,1)
    cl.mainLoop()
import lib.utils.socket as _S
_S.SockServer.startProcessMessagesDaemon=lambda self, appname=None: None

(** * Start-up decision: which configurations must start, which must be refused
    with a configuration error ([HermesConfig.load], [Datamodel.__init__],
    [HermesServer.__init__], [GenericClient.__init__]). Cerberus validation itself
    is a black box: its verdict enters as a fact. Definitions only. *)
From Hermes Require Export Model.FKGraph.

Record cfacts := CFacts {
  cf_appname_ok : bool;        (* 'server' or 'client-<name>' *)
  cf_yaml_unique_keys : bool;  (* no duplicated YAML key *)
  cf_schema_ok : bool;         (* accepted by the published Cerberus schemas *)
  cf_pkey_in_every_source : bool;
  cf_templates_ok : bool;      (* toString / attrsmapping templates only use known vars *)
  cf_fk : fschema              (* foreign keys of the datamodel *)
}.

Inductive start := Started | ConfigError | Crash.

Definition expected_start (f : cfacts) : start :=
  if cf_appname_ok f && cf_yaml_unique_keys f && cf_schema_ok f
     && cf_pkey_in_every_source f && cf_templates_ok f
  then match schema_check (cf_fk f) with Accepted => Started | _ => ConfigError end
  else ConfigError.

Definition start_eqb (a b : start) : bool :=
  match a, b with Started, Started | ConfigError, ConfigError | Crash, Crash => true | _, _ => false end.

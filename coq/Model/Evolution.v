(** * Server datamodel evolution ([HermesServer._checkForSchemaChanges])
    When types disappear from the datamodel the restarted server publishes, before the new
    schema, what separates its cache from the same cache without those types: computed by
    the ordinary event generation between the two.  Definitions only. *)
From Hermes Require Export Model.Server.

Definition drop_types (dropped : list N) (w : world) : world :=
  filter (fun kv => mem (fst (fst kv)) dropped = false) w.

(** events sent ahead of the [dataschema] event *)
Definition schema_step (c_old : cfg) (dropped : list N) (cache : world) : list event :=
  gen_events_h c_old [] (drop_types dropped cache) cache.

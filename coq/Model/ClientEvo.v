(** * Change of the client datamodel ([GenericClient.__processDatamodelUpdate], the part that
    generates local events: types newly mapped, attributes mapped, unmapped or mapped to
    another remote attribute). The client restarts with the new mapping [c]; for every mapped
    type it converts the expected-state remote cache with the new mapping, diffs the result
    against the expected-state local cache and processes each difference as a purely local
    event (no remote event: [process_local ... None]). Types that leave the datamodel are not
    modelled here (their objects are removed by direct handler calls, findings F27/F28).
    The code emits the 'added', then the 'modified', then the 'removed' differences of a type;
    this model walks the keys once in ascending order (the order inside one type is
    canonicalised by the correspondence). Definitions only. *)
From Hermes Require Export Model.Client.

Section Remap.
Variable c : ccfg.               (* the NEW configuration *)
Variable outcome : nat -> hres.

Definition remap_event (ct : ctype) (rc lc : world) (k : Z) : option cev :=
  let i := (ct_id ct, k) in
  match rc !! i, lc !! i with
  | Some ro, None => Some (CEv (ct_id ct) k (KAdded (conv_obj ct ro)) 0 0 false)
  | Some ro, Some lo =>
      let d := odiff (conv_obj ct ro) lo in
      if md_empty d then None else Some (CEv (ct_id ct) k (KModified d) 0 0 false)
  | None, _ => None
  end.
Definition remap_gone (ct : ctype) (rc : world) (k : Z) : option cev :=
  match rc !! (ct_id ct, k) with
  | None => Some (CEv (ct_id ct) k KRemoved 0 0 false)
  | Some _ => None
  end.
Definition remap_events (ct : ctype) (rc lc : world) : list cev :=
  omap (remap_event ct rc lc) (keys_of (ct_id ct) rc) ++ omap (remap_gone ct rc) (keys_of (ct_id ct) lc).

Definition remap_step (st : cstate) (ev : cev) : cstate :=
  if exc st then st else fst (process_local c outcome FUEL st None (Some ev) true false).
Definition remap_type (st : cstate) (ct : ctype) : cstate :=
  fold_left remap_step (remap_events ct (rc_live st) (lc_live st)) st.
Definition remap (st : cstate) : cstate := fold_left remap_type (cc_types c) st.
End Remap.

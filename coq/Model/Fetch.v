(** * Multi-source merge and integrity constraints ([Datamodel.fetch],
    [DataObjectList.append/mergeWith/replaceInconsistenciesByCachedValues],
    [DataObject.mergeWith]).

    Object lists are insertion-ordered association lists, as [_datadict] is: the
    order in which a source returns its rows matters for duplicates.
    Definitions only. *)
From Hermes Require Export Model.Objects.

Notation olist := (list (Z * obj)).

Definition zmem (k : Z) (l : list Z) : bool := existsb (Z.eqb k) l.
Fixpoint alookup (k : Z) (l : olist) : option obj :=
  match l with [] => None | (k', o) :: r => if Z.eqb k k' then Some o else alookup k r end.
Definition aremove (k : Z) (l : olist) : olist := List.filter (fun p => negb (Z.eqb k (fst p))) l.
Fixpoint areplace (k : Z) (o : obj) (l : olist) : olist :=
  match l with
  | [] => []
  | (k', o') :: r => if Z.eqb k k' then (k', o) :: r else (k', o') :: areplace k o r
  end.
Definition akeys (l : olist) : list Z := map fst l.

Record lstate := LState {
  l_data : olist;
  l_incons : list Z;    (* keys duplicated inside the first source *)
  l_conf : list Z       (* keys with a merge conflict *)
}.

(** [DataObjectList.append] *)
Definition lappend (st : lstate) (ko : Z * obj) : lstate :=
  let k := fst ko in
  if zmem k (l_incons st) || zmem k (l_conf st) then st
  else match alookup k (l_data st) with
       | None => LState (l_data st ++ [ko]) (l_incons st) (l_conf st)
       | Some _ => LState (aremove k (l_data st)) (k :: l_incons st) (l_conf st)
       end.

Definition linit (objs : olist) : lstate := fold_left lappend objs (LState [] [] []).

(** [DataObject.mergeWith]: attributes united, the first value kept; a conflict is
    an attribute present on both sides with different values. *)
Definition obj_conflict (s o : obj) : bool :=
  existsb (fun av => match s !! fst av with
                     | Some v => vdiff (snd av) v
                     | None => false end) (map_to_list o).
Definition obj_union (s o : obj) : obj := s ∪ o.

Inductive pmc := NoConstraint | MustNotExist | MustAlreadyExist | MustExistInBoth.

Record macc := MAcc { m_st : lstate; m_merged : list Z; m_remove : list Z; m_ignored : list Z }.

(** one iteration of the loop of [DataObjectList.mergeWith] *)
Definition merge_step (c : pmc) (dont_merge_on_conflict : bool) (acc : macc) (ko : Z * obj) : macc :=
  let st := m_st acc in
  let k := fst ko in
  match alookup k (l_data st) with
  | None =>
      match c with
      | NoConstraint | MustNotExist =>
          MAcc (lappend st ko) (k :: m_merged acc) (m_remove acc) (m_ignored acc)
      | _ => MAcc st (m_merged acc) (m_remove acc) (k :: m_ignored acc)
      end
  | Some cur =>
      match c with
      | MustNotExist => MAcc st (m_merged acc) (k :: m_remove acc) (m_ignored acc)
      | _ =>
          if dont_merge_on_conflict && obj_conflict cur (snd ko) then
            MAcc (LState (aremove k (l_data st)) (l_incons st) (k :: l_conf st))
                 (k :: m_merged acc) (m_remove acc) (m_ignored acc)
          else
            MAcc (LState (areplace k (obj_union cur (snd ko)) (l_data st)) (l_incons st) (l_conf st))
                 (k :: m_merged acc) (m_remove acc) (m_ignored acc)
      end
  end.

(** [mergeWith]: returns the new list state and the keys filtered by the constraint *)
Definition merge_with (c : pmc) (dmoc : bool) (st : lstate) (objs : olist) : lstate * list Z :=
  let acc := fold_left (merge_step c dmoc) objs (MAcc st [] [] []) in
  let st1 := m_st acc in
  let rem := match c with
             | MustExistInBoth =>
                 m_remove acc ++ List.filter (fun k => negb (zmem k (m_merged acc))) (akeys (l_data st1))
             | _ => m_remove acc end in
  (LState (List.filter (fun p => negb (zmem (fst p) rem)) (l_data st1)) (l_incons st1) (l_conf st1),
   m_ignored acc ++ rem).

(** [replaceInconsistenciesByCachedValues] *)
Definition use_cached (cache : olist) (st : lstate) : lstate :=
  let fix go (ks : list Z) (d : olist) : olist :=
    match ks with
    | [] => d
    | k :: r => match alookup k cache with
                | Some o => go r (match alookup k d with
                                  | Some _ => areplace k o d
                                  | None => d ++ [(k, o)] end)
                | None => go r d
                end
    end in
  LState (go (l_conf st) (go (l_incons st) (l_data st))) (l_incons st) (l_conf st).

(** all sources of one type: (source objects, key constraint) list, first source first *)
Definition fetch_type (dmoc : bool) (cache : olist) (srcs : list (olist * pmc)) : lstate * list Z :=
  match srcs with
  | [] => (LState [] [] [], [])
  | (first, _) :: rest =>
      let '(st, filtered) :=
        fold_left (fun '(st, f) '(objs, c) => let '(st', f') := merge_with c dmoc st objs in (st', f ++ f'))
                  rest (linit first, []) in
      (use_cached cache st, filtered)
  end.

(** ** Integrity constraints: "_SELF.a in P_pkeys" conjunctions, enforced to a
    fixpoint. Every round evaluates all types against one snapshot of the keys. *)
Notation vobj := (N * Z * obj)%type.   (* type, key, attributes *)
Definition has_key (S : list vobj) (t : N) (k : Z) : bool :=
  existsb (fun x => N.eqb (fst (fst x)) t && Z.eqb (snd (fst x)) k) S.
Definition attr_key (o : obj) (a : N) : option Z :=
  match o !! a with Some (VInt z) => Some z | _ => None end.
Definition sat (ics : N -> list (N * N)) (S : list vobj) (x : vobj) : bool :=
  forallb (fun ap => match attr_key (snd x) (fst ap) with
                     | Some pk => has_key S (snd ap) pk
                     | None => false end) (ics (fst (fst x))).
Definition iround (ics : N -> list (N * N)) (S : list vobj) : list vobj := List.filter (sat ics S) S.
Fixpoint iloop (ics : N -> list (N * N)) (fuel : nat) (S : list vobj) : option (list vobj) :=
  match fuel with
  | O => None
  | Datatypes.S f => let S' := iround ics S in
           if Nat.eqb (length S') (length S) then Some S else iloop ics f S'
  end.
(** the code's loop never runs out: |S| + 1 rounds always suffice (proved) *)
Definition integrity (ics : N -> list (N * N)) (S : list vobj) : list vobj :=
  match iloop ics (Datatypes.S (length S)) S with Some R => R | None => S end.

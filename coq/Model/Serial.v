(** * JSON serialisation of values ([JSONEncoder.default], [JSONSerializable._json_parser])

    JSON text <-> tree is CPython's [json] module (trusted bijection on the trees it
    produces). Datetimes and byte strings travel in-band as strings
    "HermesDatetime(<iso>Z)" / "HermesBytes(<base64>)"; base64 itself is CPython's
    codec and enters as the pair [b64enc]/[b64dec]. Definitions only. *)
From Hermes Require Export Model.Values.

Inductive json :=
| JNull | JBool (b : bool) | JInt (z : Z) | JFloat (f : Z) | JStr (s : str)
| JArr (l : list json) | JObj (l : list (str * json)).

(** ASCII helpers *)
Definition ch (c : N) : N := c.
Definition s_HermesDatetime : str := [72;101;114;109;101;115;68;97;116;101;116;105;109;101;40]%N. (* "HermesDatetime(" *)
Definition s_HermesBytes : str := [72;101;114;109;101;115;66;121;116;101;115;40]%N.               (* "HermesBytes(" *)
Definition c_rparen : N := 41%N.
Definition c_Z : N := 90%N.
Definition c_dash : N := 45%N.
Definition c_T : N := 84%N.
Definition c_colon : N := 58%N.

Definition digit (n : N) : N := (48 + n)%N.
Definition pad2 (n : N) : str := [digit (n / 10); digit (n mod 10)].
Definition pad4 (n : N) : str := [digit (n / 1000); digit ((n / 100) mod 10); digit ((n / 10) mod 10); digit (n mod 10)].

(** [datetime.isoformat(timespec='seconds')] of a naive datetime *)
Definition fmt_dt (d : dt) : str :=
  pad4 (dt_y d) ++ [c_dash] ++ pad2 (dt_mo d) ++ [c_dash] ++ pad2 (dt_d d) ++ [c_T]
  ++ pad2 (dt_h d) ++ [c_colon] ++ pad2 (dt_mi d) ++ [c_colon] ++ pad2 (dt_s d).

Definition is_digit (c : N) : bool := (48 <=? c)%N && (c <=? 57)%N.
Definition dval (c : N) : N := (c - 48)%N.

Definition leap (y : N) : bool :=
  ((y mod 4 =? 0) && negb (y mod 100 =? 0) || (y mod 400 =? 0))%N.
Definition days_in_month (y m : N) : N :=
  if (m =? 2)%N then (if leap y then 29 else 28)%N
  else if (m =? 4)%N || (m =? 6)%N || (m =? 9)%N || (m =? 11)%N then 30%N else 31%N.
Definition valid_dt (d : dt) : bool :=
  (1 <=? dt_y d)%N && (dt_y d <=? 9999)%N && (1 <=? dt_mo d)%N && (dt_mo d <=? 12)%N
  && (1 <=? dt_d d)%N && (dt_d d <=? days_in_month (dt_y d) (dt_mo d))%N
  && (dt_h d <? 24)%N && (dt_mi d <? 60)%N && (dt_s d <? 60)%N.

(** the regex \d{4}-\d{2}-\d{2}T\d{2}:\d{2}:\d{2} followed by [datetime.fromisoformat] *)
Definition parse_dt (s : str) : option dt :=
  match s with
  | [y1;y2;y3;y4;d1;m1;m2;d2;a1;a2;t;h1;h2;c1;i1;i2;c2;s1;s2] =>
      if forallb is_digit [y1;y2;y3;y4;m1;m2;a1;a2;h1;h2;i1;i2;s1;s2]
         && (d1 =? c_dash)%N && (d2 =? c_dash)%N && (t =? c_T)%N && (c1 =? c_colon)%N && (c2 =? c_colon)%N
      then
        let d := mkdt (dval y1 * 1000 + dval y2 * 100 + dval y3 * 10 + dval y4)
                      (dval m1 * 10 + dval m2) (dval a1 * 10 + dval a2)
                      (dval h1 * 10 + dval h2) (dval i1 * 10 + dval i2) (dval s1 * 10 + dval s2) in
        if valid_dt d then Some d else None
      else None
  | _ => None
  end.

Fixpoint strip_prefix (p s : str) : option str :=
  match p, s with
  | [], _ => Some s
  | a :: p', b :: s' => if (a =? b)%N then strip_prefix p' s' else None
  | _ :: _, [] => None
  end.
(** split off the last character *)
Definition unsnoc (s : str) : option (str * N) :=
  match rev s with [] => None | c :: r => Some (rev r, c) end.

Section Codec.
Variable b64enc : str -> str.
Variable b64dec : str -> option str.

Fixpoint encode (v : value) : json :=
  match v with
  | VNone => JNull
  | VBool b => JBool b
  | VInt z => JInt z
  | VFloat f => JFloat f
  | VStr s => JStr s
  | VBytes b => JStr (s_HermesBytes ++ b64enc b ++ [c_rparen])
  | VDate d => JStr (s_HermesDatetime ++ fmt_dt d ++ [c_Z; c_rparen])
  | VList l => JArr (map encode l)
  | VDict d => JObj (map (fun kv => (fst kv, encode (snd kv))) d)
  end.

(** what [_json_parser] makes of a JSON string *)
Definition decode_str (s : str) : value :=
  match strip_prefix s_HermesDatetime s with
  | Some rest =>
      (* fullmatch: ...Z) at the end *)
      match unsnoc rest with
      | Some (r1, c) =>
          match unsnoc r1 with
          | Some (body, z) =>
              if (c =? c_rparen)%N && (z =? c_Z)%N
              then match parse_dt body with Some d => VDate d | None => VStr s end
              else VStr s
          | None => VStr s
          end
      | None => VStr s
      end
  | None =>
      match strip_prefix s_HermesBytes s with
      | Some rest =>
          match unsnoc rest with
          | Some (body, c) =>
              if (c =? c_rparen)%N && negb (existsb (N.eqb c_rparen) body)
              then match b64dec body with Some b => VBytes b | None => VStr s end
              else VStr s
          | None => VStr s
          end
      | None => VStr s
      end
  end.

Fixpoint decode (j : json) : value :=
  match j with
  | JNull => VNone
  | JBool b => VBool b
  | JInt z => VInt z
  | JFloat f => VFloat f
  | JStr s => match s with [] => VStr [] | _ => decode_str s end
  | JArr l => VList (map decode l)
  | JObj l => VDict (map (fun kv => (fst kv, decode (snd kv))) l)
  end.

(** a string leaf that the parser would turn into something else *)
Definition lookalike (s : str) : bool :=
  match s with [] => false | _ => match decode_str s with VStr _ => false | _ => true end end.
Fixpoint no_lookalike (v : value) : bool :=
  match v with
  | VStr s => negb (lookalike s)
  | VList l => forallb no_lookalike l
  | VDict d => forallb (fun kv => no_lookalike (snd kv)) d
  | _ => true
  end.
(** datetimes that can be held: valid calendar values *)
Fixpoint dates_valid (v : value) : bool :=
  match v with
  | VDate d => valid_dt d
  | VList l => forallb dates_valid l
  | VDict d => forallb (fun kv => dates_valid (snd kv)) d
  | _ => true
  end.
End Codec.

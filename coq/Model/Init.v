(** * Initialisation of a client from an initsync sequence
    ([GenericClient.__canBeInitialized], [__hasAlreadyBeenInitialized], the category
    filter of [__processEvents] and the part of [mainLoop] that chooses between the
    initialisation and the normal processing).  Definitions only.

    The bus is a list of (offset, item): init-start / init-stop markers and data events
    of category initsync or base.  The consumer yields the visible events from the saved
    offset on, at most [budget] of them (it may stop yielding at any point). *)
From Hermes Require Export Model.Client.
From RecordUpdate Require Import RecordSet.
Import RecordSetNotations.

Inductive bitem := BStart | BStop | BData (init : bool) (e : cev).
Definition ibus := list (Z * bitem).

(** ** the scan for complete sequences *)
Fixpoint scan_go (first : bool) (b : ibus) (start : option Z) (found : list (Z * Z)) : list (Z * Z) :=
  match b with
  | [] => found
  | (off, BStart) :: r => scan_go first r (Some off) found
  | (off, BStop) :: r =>
      match start with
      | Some s => if first then found ++ [(s, off)] else scan_go first r None (found ++ [(s, off)])
      | None => scan_go first r None found
      end
  | (_, BData _ _) :: r => scan_go first r start found
  end.
Definition scan (first : bool) (b : ibus) : option (Z * Z) :=
  let found := scan_go first b None [] in
  if first then head found else last found.

Record iclient := IClient {
  i_st : cstate;
  i_next : option Z; i_start : option Z; i_stop : option Z;
  i_schema : bool          (* a remote schema has been received (an init-start was processed) *)
}.
Definition iclient0 : iclient := IClient cstate0 None None None false.

Definition initialised (ic : iclient) : bool :=
  match i_start ic, i_stop ic, i_next ic with
  | Some _, Some e, Some n => negb (n <? e)%Z
  | _, _, _ => false
  end.

Section Init.
Variable c : ccfg.
Variable outcome : nat -> hres.

Definition take_budget {A} (budget : option nat) (l : list A) : list A :=
  match budget with Some n => firstn n l | None => l end.

(** [__processEvents(isInitSync=True)] over the events yielded *)
Fixpoint init_events (st : cstate) (next : Z) (stop : Z) (began : bool) (evs : ibus) : cstate * Z * bool :=
  match evs with
  | [] => (st, next, began)
  | (off, it) :: r =>
      if exc st then (st, next, began) else
      if (stop <? off)%Z then (st, off + 1, began)%Z else
      match it with
      | BData false _ => init_events st (off + 1)%Z stop began r           (* other category: skipped *)
      | BStart => init_events st next stop true r                          (* schema update; offset untouched *)
      | BStop => (st, off + 1, began)%Z
      | BData true ev =>
          if negb began then (st, next, began) else                        (* "Invalid initsync sequence met" *)
          let '(st1, _) := process_remote c outcome FUEL st ev None true false in
          if exc st1 then (st1, next, began) else init_events st1 (off + 1)%Z stop began r
      end
  end.

(** [__processEvents(isInitSync=False)]: initsync items only move the offset *)
Fixpoint base_events (st : cstate) (next : Z) (evs : ibus) : cstate * Z :=
  match evs with
  | [] => (st, next)
  | (off, it) :: r =>
      if exc st then (st, next) else
      match it with
      | BData false ev =>
          let '(st1, _) := process_remote c outcome FUEL st ev None true false in
          if exc st1 then (st1, next) else base_events st1 (off + 1)%Z r
      | _ => base_events st (off + 1)%Z r
      end
  end.

(** one iteration of the main loop; [visible] = what the bus holds for this client now *)
Definition init_iter (first : bool) (ic : iclient) (visible : ibus) (budget : option nat) (now : Z) : iclient :=
  let st0 := i_st ic <| exc := false |> in
  if initialised ic then
    match i_next ic with
    | None => ic
    | Some next =>
        let st1 := retry_queue c outcome st0 in
        if exc st1 then IClient st1 (i_next ic) (i_start ic) (i_stop ic) (i_schema ic) else
        let st2 := empty_trashbin c outcome st1 now in
        if exc st2 then IClient st2 (i_next ic) (i_start ic) (i_stop ic) (i_schema ic) else
        let evs := take_budget budget (List.filter (fun p => (next <=? fst p)%Z) visible) in
        let '(st3, next') := base_events st2 next evs in
        IClient st3 (Some next') (i_start ic) (i_stop ic) (i_schema ic)
    end
  else
    match scan first visible with
    | None => IClient st0 (i_next ic) (i_start ic) (i_stop ic) (i_schema ic)
    | Some (s0, e0) =>
        (* a sequence whose processing has begun is kept, even if a newer one exists now *)
        let '(s, e) := match i_start ic, i_stop ic, i_next ic with
                       | Some ps, Some pe, Some n =>
                           if existsb (fun p => Z.eqb (fst p) ps && Z.eqb (snd p) pe) (scan_go first visible None [])
                              && (ps <? n)%Z
                           then (ps, pe) else (s0, e0)
                       | _, _, _ => (s0, e0) end in
        let next := match i_next ic with
                    | None => s
                    | Some n => if (n <? s)%Z then s else n end in
        let evs := take_budget budget (List.filter (fun p => (next <=? fst p)%Z) visible) in
        let '(st1, next', began) := init_events st0 next e (i_schema ic) evs in
        IClient st1 (Some next') (Some s) (Some e) began
    end.
End Init.

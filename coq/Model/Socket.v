(** * Control socket: message decoding, commands, loop scheduling under pause/force
    ([SockServer.processMessagesInQueue], [SocketMessageToServer],
    [HermesServer._processSocketMessage/sock_*], [HermesServer.mainLoop],
    [GenericClient] counterparts). Definitions only. *)
From Coq Require Export ZArith List Bool.
Export ListNotations.
Open Scope Z_scope.

(** ** What arrives on the socket *)
Inductive jshape :=          (* shape of a JSON document *)
| JNull | JBool | JNum | JStr | JArr
| JObj (argv : option jargv)           (* an object, with or without an "argv" member *)
with jargv :=
| ArgvNotList | ArgvListNonStr | ArgvStrs (cmd : list nat) (* command words, interned *).
Inductive message := NotUtf8 | NotJson | Json (j : jshape).

(** [Handled argv]: decoded, passed to the command handler, a reply is sent.
    [Dropped]: ignored (after the repair: any decoding failure), no reply.
    In both cases the listener goes on serving. *)
Inductive decoded := Dropped | Handled (argv : list nat).
Definition decode (m : message) : decoded :=
  match m with
  | Json (JObj (Some (ArgvStrs w))) => Handled w
  | _ => Dropped
  end.

(** ** Commands (words: 1 pause, 2 resume, 3 quit, 4 update, 5 initsync, 6 status,
    7 = "-j", 8 = "-v", anything else unknown) *)
Record flags := Flags { f_stopped : bool; f_paused : bool; f_force : bool; f_isync : bool }.
Inductive app := Server | Client.

Definition status_args_ok (w : list nat) : bool := forallb (fun x => Nat.eqb x 7 || Nat.eqb x 8) w.

(** return code and new flags *)
Definition command (a : app) (f : flags) (w : list nat) : Z * flags :=
  match w with
  | [1%nat] => if f_stopped f then (1, f) else if f_paused f then (1, f)
               else (0, Flags (f_stopped f) true (f_force f) (f_isync f))
  | [2%nat] => if f_stopped f then (1, f) else if negb (f_paused f) then (1, f)
               else (0, Flags (f_stopped f) false (f_force f) (f_isync f))
  | [3%nat] => (0, Flags true (f_paused f) (f_force f) (f_isync f))
  | [4%nat] => match a with Server => (0, Flags (f_stopped f) (f_paused f) true (f_isync f)) | Client => (1, f) end
  | [5%nat] => match a with Server => (0, Flags (f_stopped f) (f_paused f) (f_force f) true) | Client => (1, f) end
  | 6%nat :: r => if status_args_ok r then (0, f) else (1, f)
  | _ => (1, f)       (* empty argv: help text; unknown command / extra words: usage error *)
  end.

(** ** Server loop scheduling. Time in ticks; an idle iteration sleeps one tick. *)
Record sched := Sched { sc_flags : flags; sc_next : Z (* _nextUpdate *); sc_now : Z }.
Inductive loopact := LIdle | LPoll | LIsyncPoll | LIsyncIdle.

Definition loop_iter (interval : Z) (s : sched) : sched * loopact :=
  let f := sc_flags s in
  let f1 := Flags (f_stopped f) (f_paused f) (f_force f) false in   (* initsync served first *)
  let required := f_force f || (negb (f_paused f) && (sc_next s <=? sc_now s)) in
  if required then
    let f2 := Flags (f_stopped f) (f_paused f) false false in
    let next := if f_force f then sc_next s else sc_next s + interval in
    (Sched f2 next (sc_now s), if f_isync f then LIsyncPoll else LPoll)
  else
    let now := sc_now s + 1 in
    let next := if sc_next s + interval <? now then sc_next s + interval else sc_next s in
    (Sched f1 next now, if f_isync f then LIsyncIdle else LIdle).

(** a script: commands delivered during the sleep of idle iterations / before polls *)
Fixpoint loop_run (a : app) (interval : Z) (s : sched) (script : list (list (list nat)))
  : list (loopact * list Z) :=
  match script with
  | [] => []
  | cmds :: rest =>
      if f_stopped (sc_flags s) then [] else
      let '(s1, act) := loop_iter interval s in
      let '(rcs, f') := fold_left (fun '(rcs, f) w => let '(rc, f2) := command a f w in (rcs ++ [rc], f2))
                                  cmds ([], sc_flags s1) in
      (act, rcs) :: loop_run a interval (Sched f' (sc_next s1) (sc_now s1)) rest
  end.

(** lag of the schedule behind the clock *)
Definition lag (s : sched) : Z := sc_now s - sc_next s.

(** * The client checkpoint ([GenericClient.mainLoop] finally block) under process death

    At the end of a loop iteration the client saves, in this order: the error queue file,
    the local data (live files per type, then trashbin files per type), the expected-state
    local data, the remote data, the expected-state remote data, and last its own cache
    file holding the offset.  A file is rewritten (atomically, by rename) only when its
    content changed.  A process death leaves the first [j] changed files new and the others
    old.  Definitions only. *)
From Hermes Require Export Model.Client.

Inductive fileid := FQueue | FData (widx : N) (t : N) | FOffset.
(** cache indices: 0 r_live, 1 r_trash, 2 rc_live, 3 rc_trash, 4 l_live, 5 l_trash, 6 lc_live, 7 lc_trash *)
Definition save_order (types : list N) : list fileid :=
  [FQueue]
  ++ map (FData 4) types ++ map (FData 5) types ++ map (FData 6) types ++ map (FData 7) types
  ++ map (FData 0) types ++ map (FData 1) types ++ map (FData 2) types ++ map (FData 3) types
  ++ [FOffset].

Definition world_of (st : cstate) (i : N) : world :=
  match i with
  | 0 => r_live st | 1 => r_trash st | 2 => rc_live st | 3 => rc_trash st
  | 4 => l_live st | 5 => l_trash st | 6 => lc_live st | _ => lc_trash st
  end%N.
Definition slice (w : world) (t : N) : world := filter (fun kv => fst (fst kv) = t) w.

(** persisted form of a queue entry: the parent index is rebuilt at load time *)
Definition q_persist (e : qentry) : Z * option cev * cev * bool := (q_num e, q_remote e, q_local e, q_msg e).

Definition fileid_eqb (a b : fileid) : bool :=
  match a, b with
  | FQueue, FQueue | FOffset, FOffset => true
  | FData i t, FData j u => N.eqb i j && N.eqb t u
  | _, _ => false
  end.

Definition replaced_in (l : list fileid) (f : fileid) : bool := existsb (fileid_eqb f) l.

(** what a restarting client loads when exactly the files [repl] were replaced *)
Definition mix_world (old new : cstate) (repl : list fileid) (i : N) : world :=
  filter (fun kv => replaced_in repl (FData i (fst (fst kv))) = true) (world_of new i)
  ∪ filter (fun kv => replaced_in repl (FData i (fst (fst kv))) = false) (world_of old i).

Definition mix_state (old new : cstate) (repl : list fileid) : cstate :=
  CState (mix_world old new repl 0) (mix_world old new repl 1) (mix_world old new repl 2) (mix_world old new repl 3)
         (mix_world old new repl 4) (mix_world old new repl 5) (mix_world old new repl 6) (mix_world old new repl 7)
         (if replaced_in repl FQueue then queue new else queue old)
         0 [] 0 false false false false [].
Definition mix_client (old new : client) (repl : list fileid) : client :=
  Client (mix_state (cl_st old) (cl_st new) repl)
         (if replaced_in repl FOffset then cl_next new else cl_next old).

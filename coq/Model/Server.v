(** * Server cycle: [HermesServer.mainLoop] body, [generateAndSendEvents], [initsync]

    One loop iteration = optional initsync sequence, then a poll. The producer's
    behaviour enters as the list [refused] of send indices (counted inside the
    iteration) that it refuses; the arbitrary order in which the code emits the
    'modified' events of one type (it iterates a Python set) enters as [hint].
    Definitions only. *)
From Hermes Require Export Model.Objects.

Record sstate := SState {
  s_mem : world;     (* memory cache = what the server holds as published *)
  s_first : bool     (* no successful poll yet: next poll is silent *)
}.

Inductive action :=
| AInitStart
| AInitStop
| ASend (isync : bool) (e : event)   (* accepted by the bus *)
| ARefused (e : option event)        (* refused; None = an init marker *)
| ACommitOne (t : N) (k : Z)
| ACommitAll (t : N).


(** reorder one type's 'modified' events: hinted ids first, in hint order *)
Definition id_eqb (a b : N * Z) : bool := N.eqb (fst a) (fst b) && Z.eqb (snd a) (snd b).
Definition reorder (hint : list (N * Z)) (evs : list event) : list event :=
  omap (fun i => List.find (fun e => id_eqb (ev_id e) i) evs) (remove_dups hint)
  ++ List.filter (fun e => negb (existsb (id_eqb (ev_id e)) hint)) evs.

Definition gen_events_h (c : cfg) (hint : list (N * Z)) (n o : world) : list event :=
  concat (map (fun tc => ev_added tc n o) c)
  ++ concat (map (fun tc => reorder hint (ev_modified tc n o)) c)
  ++ concat (map (fun tc => ev_removed tc n o) (rev c)).

(** cache update after an accepted (or silent) event: the *full* new object *)
Definition upd_cache (n : world) (c : world) (e : event) : world :=
  match e_kind e with
  | KRemoved => delete (ev_id e) c
  | _ => match n !! ev_id e with Some o => <[ev_id e := o]> c | None => c end
  end.

Definition commit_one_of (c : cfg) (e : event) : list action :=
  match lookup_tcfg c (e_t e) with
  | Some tc => if t_commit_one tc then [ACommitOne (e_t e) (e_k e)] else []
  | None => []
  end.

Definition is_refused (refused : list nat) (i : nat) : bool := existsb (Nat.eqb i) refused.

(** send / commit_one / cache update, event by event; stop at the first refusal *)
Fixpoint send_loop (c : cfg) (n : world) (evs : list event) (mem : world)
         (refused : list nat) (i : nat) : world * list action * bool :=
  match evs with
  | [] => (mem, [], true)
  | e :: r =>
      if is_refused refused i then (mem, [ARefused (Some e)], false)
      else let '(mem', tr, ok) := send_loop c n r (upd_cache n mem e) refused (S i) in
           (mem', ASend false e :: commit_one_of c e ++ tr, ok)
  end.

Definition commit_alls (c : cfg) : list action :=
  omap (fun tc => if t_commit_all tc then Some (ACommitAll (t_id tc)) else None) c.

(** initsync: markers + every cached object as 'added'; the cache is untouched *)
Fixpoint isync_loop (evs : list event) (refused : list nat) (i : nat) : list action * nat * bool :=
  match evs with
  | [] => ([], i, true)
  | e :: r =>
      if is_refused refused i then ([ARefused (Some e)], i, false)
      else let '(tr, i', ok) := isync_loop r refused (S i) in (ASend true e :: tr, i', ok)
  end.
Definition initsync_run (c : cfg) (mem : world) (refused : list nat) : list action * nat * bool :=
  if is_refused refused 0 then ([ARefused None], 0%nat, false)
  else let '(tr, i, ok) := isync_loop (ev_initsync c mem) refused 1 in
       if negb ok then (AInitStart :: tr, i, false)
       else if is_refused refused i then (AInitStart :: tr ++ [ARefused None], i, false)
            else (AInitStart :: tr ++ [AInitStop], S i, true).

Inductive sstep :=
| SPoll (isync openfail : bool) (view : world) (refused : list nat) (hint : list (N * Z))
| SRestart.

Definition poll (c : cfg) (st : sstate) (view : world) (refused : list nat)
           (hint : list (N * Z)) (i0 : nat) : sstate * list action :=
  let evs := gen_events_h c hint view (s_mem st) in
  if s_first st then
    (SState (foldl (upd_cache view) (s_mem st) evs) false, [])
  else
    let '(mem', tr, ok) := send_loop c view evs (s_mem st) refused i0 in
    (SState mem' false, tr ++ (if ok then commit_alls c else [])).

Definition sstep_run (c : cfg) (st : sstate) (s : sstep) : sstate * list action :=
  match s with
  | SRestart => (SState (jsn c (s_mem st)) (s_first st), [])
  | SPoll isync openfail view refused hint =>
      if openfail then (st, [])
      else if isync then
        let '(tr0, i0, ok0) := initsync_run c (s_mem st) refused in
        if ok0 then let '(st', tr) := poll c st view refused hint i0 in (st', tr0 ++ tr)
        else (st, tr0)
      else poll c st view refused hint 0
  end.

Fixpoint srun (c : cfg) (st : sstate) (steps : list sstep) : list (sstate * list action) :=
  match steps with
  | [] => []
  | s :: r => let '(st', tr) := sstep_run c st s in (st', tr) :: srun c st' r
  end.

Definition sinit : sstate := SState ∅ true.

(** accepted base events of a trace, in order (what a bus reader sees) *)
Definition base_events (tr : list action) : list event :=
  omap (fun a => match a with ASend false e => Some e | _ => None end) tr.
Definition isync_events (tr : list action) : list event :=
  omap (fun a => match a with ASend true e => Some e | _ => None end) tr.

(** Nothing is sent after a refusal; every commit_one directly follows the
    accepted send of the same object. *)
Fixpoint commits_follow_sends (c : cfg) (tr : list action) : bool :=
  match tr with
  | [] => true
  | ASend false e :: r =>
      match lookup_tcfg c (e_t e) with
      | Some tc =>
          if t_commit_one tc then
            match r with
            | ACommitOne t k :: r' => N.eqb t (e_t e) && Z.eqb k (e_k e) && commits_follow_sends c r'
            | _ => false
            end
          else commits_follow_sends c r
      | None => commits_follow_sends c r
      end
  | ACommitOne _ _ :: _ => false
  | ARefused _ :: r => match r with [] => true | _ => false end
  | _ :: r => commits_follow_sends c r
  end.


(** commit_all calls come last: no send after the first of them *)
Fixpoint no_send_after_commit_all (seen : bool) (tr : list action) : bool :=
  match tr with
  | [] => true
  | ACommitAll _ :: r => no_send_after_commit_all true r
  | ASend _ _ :: r => negb seen && no_send_after_commit_all seen r
  | _ :: r => no_send_after_commit_all seen r
  end.

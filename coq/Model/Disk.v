(** * Cache files on disk ([LocalCache.savecachefile/_rotatecachefile/_getExistingFilePath/
    loadcachefile]) at the granularity of file-system operations, so that a process
    death can be placed between any two of them. Completed operations persist;
    bytes still in the process's write buffer are lost. Definitions only. *)
From Coq Require Export ZArith List Bool.
Export ListNotations.

(** file name = (cache name, backup index (0 = live file), gzip extension?) ;
    name 0 is reserved for the temporary file *)
Definition fname := (Z * nat * bool)%type.
(** content: Some c = complete serialisation number c; None = incomplete (not loadable) *)
Definition fsys := list (fname * option Z).

Definition fn_eqb (a b : fname) : bool :=
  Z.eqb (fst (fst a)) (fst (fst b)) && Nat.eqb (snd (fst a)) (snd (fst b)) && Bool.eqb (snd a) (snd b).
Fixpoint fs_get (fs : fsys) (n : fname) : option (option Z) :=
  match fs with [] => None | (m, c) :: r => if fn_eqb m n then Some c else fs_get r n end.
Definition fs_del (fs : fsys) (n : fname) : fsys := filter (fun p => negb (fn_eqb (fst p) n)) fs.
Definition fs_put (fs : fsys) (n : fname) (c : option Z) : fsys := (n, c) :: fs_del fs n.

Inductive fop :=
| OCreate (n : fname)                (* temp file created empty *)
| OWrite (n : fname) (c : Z)         (* written, closed: complete on disk *)
| ORename (a b : fname)              (* atomic, replaces b *)
| ORemove (n : fname).

Definition fs_apply (fs : fsys) (o : fop) : fsys :=
  match o with
  | OCreate n => fs_put fs n None
  | OWrite n c => fs_put fs n (Some c)
  | ORename a b => match fs_get fs a with
                   | Some c => fs_put (fs_del fs a) b c
                   | None => fs end
  | ORemove n => fs_del fs n
  end.
Definition fs_run (fs : fsys) (ops : list fop) : fsys := fold_left fs_apply ops fs.

(** [_getExistingFilePath]: the configured extension first, then the other one *)
Definition lookup (fs : fsys) (compress : bool) (name : Z) (bak : nat) : option (fname * option Z) :=
  match fs_get fs (name, bak, compress) with
  | Some c => Some ((name, bak, compress), c)
  | None => match fs_get fs (name, bak, negb compress) with
            | Some c => Some ((name, bak, negb compress), c)
            | None => None end
  end.

(** [loadcachefile]: content of the live file, nothing if absent *)
Inductive loaded := LEmpty | LContent (c : Z) | LCorrupt.
Definition load (fs : fsys) (compress : bool) (name : Z) : loaded :=
  match lookup fs compress name 0 with
  | None => LEmpty
  | Some (_, Some c) => LContent c
  | Some (_, None) => LCorrupt
  end.

Definition tmpname (compress : bool) : fname := (0%Z, 0%nat, compress).

(** [_rotatecachefile]: for i = count .. 1: (i-1) -> i, keeping each file's extension *)
Fixpoint rotate_ops (fs : fsys) (compress : bool) (name : Z) (i : nat) : list fop :=
  match i with
  | O => []
  | S j =>
      match lookup fs compress name j with
      | Some ((_, _, ext), _) =>
          let o := ORename (name, j, ext) (name, S j, ext) in
          o :: rotate_ops (fs_apply fs o) compress name j
      | None => rotate_ops fs compress name j
      end
  end.

(** [savecachefile]: nothing if the content is unchanged; else temp file, rotation,
    rename over the destination of the configured extension *)
Definition save_ops (fs : fsys) (compress : bool) (backups : nat) (keep_backup : bool)
           (name : Z) (c : Z) : list fop :=
  match load fs compress name with
  | LContent old => if Z.eqb old c then [] else
      [OCreate (tmpname compress); OWrite (tmpname compress) c]
      ++ (if keep_backup then rotate_ops (fs_put fs (tmpname compress) (Some c)) compress name backups else [])
      ++ [ORename (tmpname compress) (name, 0%nat, compress)]
  | _ =>
      [OCreate (tmpname compress); OWrite (tmpname compress) c]
      ++ (if keep_backup then rotate_ops (fs_put fs (tmpname compress) (Some c)) compress name backups else [])
      ++ [ORename (tmpname compress) (name, 0%nat, compress)]
  end.

(** state after the process died having completed the first [k] operations *)
Definition crash_at (fs : fsys) (ops : list fop) (k : nat) : fsys := fs_run fs (firstn k ops).

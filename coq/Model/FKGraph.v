(** * Foreign keys of a dataschema: validity rules and the circular-reference check
    ([Dataschema._setupForeignKeys], [ForeignKey.checkForCircularForeignKeysRefs],
    after the path-local repair). Plain Coq lists; definitions only. *)
From Coq Require Export List Arith Bool.
Export ListNotations.

(** A type: its attributes, and which of them form the primary key. *)
Record ftype := FType { ft_attrs : list nat; ft_pkey : list nat (* 1 attr = single key *) }.
(** A declared foreign key of type [fk_from]: attribute [fk_attr] -> ([fk_to].[fk_toattr]). *)
Record fkdecl := FK { fk_from : nat; fk_attr : nat; fk_to : nat; fk_toattr : nat }.
Record fschema := FSchema { fs_types : list ftype; fs_fks : list fkdecl (* declaration order *) }.

Definition nmem (a : nat) (l : list nat) : bool := existsb (Nat.eqb a) l.

Inductive fkerr := EAttrUnknown | EAttrNotPkey | ETypeUnknown | EToAttrUnknown | EToTuple | EToNotPkey.

(** the checks of [_setupForeignKeys], in the code's order; None = valid *)
Definition fk_check (s : fschema) (d : fkdecl) : option fkerr :=
  match nth_error (fs_types s) (fk_from d) with
  | None => Some ETypeUnknown
  | Some ft =>
      if negb (nmem (fk_attr d) (ft_attrs ft)) then Some EAttrUnknown
      else if negb (nmem (fk_attr d) (ft_pkey ft)) then Some EAttrNotPkey
      else match nth_error (fs_types s) (fk_to d) with
           | None => Some ETypeUnknown
           | Some tg =>
               if negb (nmem (fk_toattr d) (ft_attrs tg)) then Some EToAttrUnknown
               else match ft_pkey tg with
                    | [p] => if Nat.eqb p (fk_toattr d) then None else Some EToNotPkey
                    | _ => Some EToTuple
                    end
           end
  end.

Definition fk_eqb (a b : fkdecl) : bool :=
  Nat.eqb (fk_from a) (fk_from b) && Nat.eqb (fk_attr a) (fk_attr b)
  && Nat.eqb (fk_to a) (fk_to b) && Nat.eqb (fk_toattr a) (fk_toattr b).
Definition fkmem (e : fkdecl) (l : list fkdecl) : bool := existsb (fk_eqb e) l.
Definition out (E : list fkdecl) (t : nat) : list fkdecl := filter (fun e => Nat.eqb (fk_from e) t) E.

(** path-local DFS; Some true = circular reference found, None = out of fuel *)
Fixpoint dfs (E : list fkdecl) (fuel : nat) (fks path : list fkdecl) : option bool :=
  match fuel with
  | O => None
  | S fuel' =>
      (fix loop (fks : list fkdecl) : option bool :=
         match fks with
         | [] => Some false
         | fk :: rest =>
             if fkmem fk path then Some true
             else match dfs E fuel' (out E (fk_to fk)) (fk :: path) with
                  | None => None
                  | Some true => Some true
                  | Some false => loop rest
                  end
         end) fks
  end.

(** the check is started from every type with an empty path *)
Fixpoint circular_from (E : list fkdecl) (fuel : nat) (ts : list nat) : option bool :=
  match ts with
  | [] => Some false
  | t :: r => match dfs E fuel (out E t) [] with
              | None => None
              | Some true => Some true
              | Some false => circular_from E fuel r
              end
  end.

Inductive outcome := Accepted | InvalidFK (errs : list fkerr) | Circular | OutOfFuel.

Definition schema_check (s : fschema) : outcome :=
  let errs := flat_map (fun d => match fk_check s d with Some e => [e] | None => [] end) (fs_fks s) in
  match errs with
  | _ :: _ => InvalidFK errs
  | [] =>
      match circular_from (fs_fks s) (S (S (length (fs_fks s)))) (seq 0 (length (fs_types s))) with
      | None => OutOfFuel
      | Some true => Circular
      | Some false => Accepted
      end
  end.

(** Independent specification of "genuinely cyclic": some type reaches itself in
    the transitive closure of the type graph (computed by iterated expansion). *)
Definition succs (E : list fkdecl) (t : nat) : list nat := map fk_to (out E t).
Fixpoint reach (E : list fkdecl) (n : nat) (front : list nat) : list nat :=
  match n with
  | O => []
  | S n' => let nxt := flat_map (succs E) front in nxt ++ reach E n' nxt
  end.
Definition cyclic_spec (s : fschema) : bool :=
  existsb (fun t => nmem t (reach (fs_fks s) (S (length (fs_types s))) [t])) (seq 0 (length (fs_types s))).

(** * Data objects, object stores, attribute-level diffs and events

    [obj] mirrors [DataObject._data] (attribute id -> value); a [world] is the
    content of a [Datasource] without trashbins: (type id, primary key) -> object.
    Type ids, attribute ids and keys are the order-preserving numbers the
    harness interns names and key values to.  Definitions only. *)
From Hermes Require Export Model.Values.
From stdpp Require Export gmap sorting.

Notation attr := N (only parsing).
Notation obj := (gmap N value).
Notation world := (gmap (N * Z) obj).

(** Attribute classes of one type, as declared in the datamodel. *)
Record tcfg := TCfg {
  t_id : N;
  t_local : list N;       (* LOCAL_ATTRIBUTES *)
  t_cacheonly : list N;   (* CACHEONLY_ATTRIBUTES *)
  t_secret : list N;      (* SECRETS_ATTRIBUTES *)
  t_fks : list (N * N);   (* foreign keys: attribute id -> parent type id *)
  t_commit_one : bool;
  t_commit_all : bool
}.
Notation cfg := (list tcfg).

Definition mem (a : N) (l : list N) : bool := existsb (N.eqb a) l.

Definition lookup_tcfg (c : cfg) (t : N) : option tcfg :=
  List.find (fun tc => N.eqb (t_id tc) t) c.

Definition hidden_of (tc : tcfg) (a : N) : bool := mem a (t_local tc) || mem a (t_cacheonly tc).
Definition unsaved_of (tc : tcfg) (a : N) : bool := mem a (t_local tc) || mem a (t_secret tc).

Definition ofilter (drop : N -> bool) (o : obj) : obj :=
  filter (fun kv => drop (fst kv) = false) o.

(** [vis]: what [toEvent] / [diffFrom] see (no local, no cache-only attribute).
    [jsn]: what [_jsondata] writes to a cache file (no local, no secret). *)
Definition vis_obj (tc : tcfg) (o : obj) : obj := ofilter (hidden_of tc) o.
Definition jsn_obj (tc : tcfg) (o : obj) : obj := ofilter (unsaved_of tc) o.

Definition wmap (c : cfg) (f : tcfg -> obj -> obj) (w : world) : world :=
  map_imap (fun tk o => match lookup_tcfg c (fst tk) with
                        | Some tc => Some (f tc o)
                        | None => None end) w.
Definition vis (c : cfg) (w : world) : world := wmap c vis_obj w.
Definition jsn (c : cfg) (w : world) : world := wmap c jsn_obj w.

(** ** Attribute-level diff ([DataObject.diffFrom] + [DiffObject.dict]) *)
Definition d_added (n o : obj) : obj :=
  merge (fun a b => match a, b with Some x, None => Some x | _, _ => None end) n o.
Definition d_modified (n o : obj) : obj :=
  merge (fun a b => match a, b with
                    | Some x, Some y => if vdiff x y then Some x else None
                    | _, _ => None end) n o.
Definition d_removed (n o : obj) : obj :=
  merge (fun a b => match a, b with None, Some _ => Some VNone | _, _ => None end) n o.

Record mdiff := MDiff { md_a : obj; md_m : obj; md_r : obj }.
Definition odiff (n o : obj) : mdiff :=
  {| md_a := d_added n o; md_m := d_modified n o; md_r := d_removed n o |}.
Definition is_empty_map (m : obj) : bool := match map_to_list m with [] => true | _ => false end.
Definition md_empty (d : mdiff) : bool :=
  is_empty_map (md_a d) && is_empty_map (md_m d) && is_empty_map (md_r d).

(** [Datamodel.getUpdatedObject]: set added, set modified, delete removed. *)
Definition apply_mod (d : mdiff) (o : obj) : obj :=
  (md_m d ∪ md_a d ∪ o) ∖ md_r d.

(** ** Events *)
Inductive ekind :=
| KAdded (a : obj)
| KModified (d : mdiff)
| KRemoved.
Record event := Ev { e_t : N; e_k : Z; e_kind : ekind }.

Definition ev_id (e : event) : N * Z := (e_t e, e_k e).

Definition apply_ev (w : world) (e : event) : world :=
  match e_kind e with
  | KAdded a => <[(e_t e, e_k e) := a]> w
  | KModified d => alter (apply_mod d) (e_t e, e_k e) w
  | KRemoved => delete (e_t e, e_k e) w
  end.
Definition replay (evs : list event) (w : world) : world := foldl apply_ev w evs.

(** Strict replay: fails on an event that repeats or invents a change
    ('added' of a present object, 'modified'/'removed' of an absent one, or a
    'modified' that changes nothing). *)
Definition strict_apply (w : world) (e : event) : option world :=
  match e_kind e, w !! (e_t e, e_k e) with
  | KAdded a, None => Some (<[(e_t e, e_k e) := a]> w)
  | KModified d, Some o =>
      if md_empty d then None else Some (<[(e_t e, e_k e) := apply_mod d o]> w)
  | KRemoved, Some _ => Some (delete (e_t e, e_k e) w)
  | _, _ => None
  end.
Fixpoint strict_replay (evs : list event) (w : world) : option world :=
  match evs with
  | [] => Some w
  | e :: r => match strict_apply w e with Some w' => strict_replay r w' | None => None end
  end.

(** ** Event generation of one cycle ([generateAndSendEvents])
    keys of one type, ascending (the code sorts added/removed objects by key) *)
Definition keys_of (t : N) (w : world) : list Z :=
  merge_sort Z.le (omap (fun kv => if N.eqb (fst (fst kv)) t then Some (snd (fst kv)) else None)
                        (map_to_list w)).

Definition ev_added (tc : tcfg) (n o : world) : list event :=
  omap (fun k => match n !! (t_id tc, k), o !! (t_id tc, k) with
                 | Some no, None => Some (Ev (t_id tc) k (KAdded (vis_obj tc no)))
                 | _, _ => None end) (keys_of (t_id tc) n).
Definition ev_modified (tc : tcfg) (n o : world) : list event :=
  omap (fun k => match n !! (t_id tc, k), o !! (t_id tc, k) with
                 | Some no, Some oo =>
                     let d := odiff (vis_obj tc no) (vis_obj tc oo) in
                     if md_empty d then None else Some (Ev (t_id tc) k (KModified d))
                 | _, _ => None end) (keys_of (t_id tc) n).
Definition ev_removed (tc : tcfg) (n o : world) : list event :=
  omap (fun k => match n !! (t_id tc, k) with
                 | None => Some (Ev (t_id tc) k KRemoved)
                 | Some _ => None end) (keys_of (t_id tc) o).

Definition gen_events (c : cfg) (n o : world) : list event :=
  concat (map (fun tc => ev_added tc n o) c)
  ++ concat (map (fun tc => ev_modified tc n o) c)
  ++ concat (map (fun tc => ev_removed tc n o) (rev c)).

(** Initsync sequence body: every object of the published cache as 'added',
    types in declaration order. After the F9a repair secrets are stripped. *)
Definition pub_obj (tc : tcfg) (o : obj) : obj :=
  ofilter (fun a => mem a (t_secret tc)) (vis_obj tc o).
Definition ev_initsync (c : cfg) (cache : world) : list event :=
  concat (map (fun tc =>
    omap (fun k => match cache !! (t_id tc, k) with
                   | Some o => Some (Ev (t_id tc) k (KAdded (pub_obj tc o)))
                   | None => None end) (keys_of (t_id tc) cache)) c).

(** Restrict a world to the declared types. *)
Definition wf_world (c : cfg) (w : world) : Prop :=
  forall t k o, w !! (t, k) = Some o -> is_Some (lookup_tcfg c t).

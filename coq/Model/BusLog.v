(** * The SQLite message bus as an ordered log
    ([SqliteProducerPlugin], [SqliteConsumerPlugin]). SQLite's atomic commit and
    snapshot isolation are trusted; operations of the producer and of consumers
    interleave as atomic steps. Definitions only. *)
From Coq Require Export ZArith List Bool.
Export ListNotations.
Open Scope Z_scope.

Record row := Row { r_id : Z; r_payload : Z; r_ts : Z }.
Record bus := Bus {
  b_exists : bool;         (* database file and table created (first producer open) *)
  b_rows : list row;       (* retained events, in insertion order *)
  b_seq : option Z         (* AUTOINCREMENT sequence: last id ever assigned *)
}.
Definition bus0 : bus := Bus false [] None.

(** producer *)
Definition purge (limit : Z) (b : bus) : bus :=
  Bus (b_exists b) (filter (fun r => negb (r_ts r <? limit)) (b_rows b)) (b_seq b).
Definition p_open (now retention : Z) (b : bus) : bus := purge (now - retention) (Bus true (b_rows b) (b_seq b)).
Definition next_id (b : bus) : Z := match b_seq b with Some s => s + 1 | None => 1 end.
Definition p_send (payload now : Z) (b : bus) : bus :=
  Bus (b_exists b) (b_rows b ++ [Row (next_id b) payload now]) (Some (next_id b)).

(** consumer *)
Inductive seekres := SeekOk | SeekIndexError | SeekInvalid.
Definition low_bound (b : bus) (s : Z) : Z :=
  match b_rows b with [] => s + 1 | r :: _ => r_id r end.
(** accepted between the oldest retained event and the next one to be written, provided the
    event is still there (a purge under timestamps that are not in offset order can remove an
    event from between younger ones) or the offset is the next one to be written *)
Definition has_id (b : bus) (o : Z) : bool := existsb (fun r => r_id r =? o) (b_rows b).
Definition c_seek (b : bus) (o : Z) : seekres :=
  if negb (b_exists b) then SeekIndexError
  else match b_seq b with
       | None => SeekInvalid
       | Some s => if (low_bound b s <=? o) && (o <=? s + 1) && (has_id b o || (o =? s + 1))
                   then SeekOk else SeekIndexError
       end.
(** cursor after seekToBeginning: None when the bus holds no event *)
Definition c_seek_begin (b : bus) : option Z :=
  match b_rows b with [] => None | r :: _ => Some (r_id r) end.
(** events delivered by one iteration from cursor [cur], and the new cursor *)
Definition c_iter (b : bus) (cur : option Z) : list row * option Z :=
  match cur with
  | None => ([], None)
  | Some c =>
      let out := filter (fun r => c <=? r_id r) (b_rows b) in
      (out, Some (fold_left (fun _ r => r_id r + 1) out c))
  end.

(** operations of a history *)
Inductive bop :=
| BOpen (retention : Z)     (* producer opens: create + purge *)
| BSend (payload : Z)
| BAge (d : Z)              (* time passes *)
| BBack (d : Z)             (* the producer's clock steps back (unset RTC, restored VM) *)
| BSeek (o : Z)
| BSeekBegin
| BIter.
Inductive bout := ONone | OSeek (r : seekres) | OIter (l : list (Z * Z)).
Record bstate := BState { s_bus : bus; s_now : Z; s_cur : option Z }.

Definition bstep (st : bstate) (op : bop) : bstate * bout :=
  match op with
  | BOpen ret => (BState (p_open (s_now st) ret (s_bus st)) (s_now st) (s_cur st), ONone)
  | BSend p => (BState (p_send p (s_now st) (s_bus st)) (s_now st) (s_cur st), ONone)
  | BAge d => (BState (s_bus st) (s_now st + Z.max 0 d) (s_cur st), ONone)
  | BBack d => (BState (s_bus st) (s_now st - Z.max 0 d) (s_cur st), ONone)
  | BSeek o => let r := c_seek (s_bus st) o in
               (BState (s_bus st) (s_now st) (match r with SeekOk => Some o | _ => s_cur st end), OSeek r)
  | BSeekBegin => (BState (s_bus st) (s_now st) (if b_exists (s_bus st) then c_seek_begin (s_bus st) else Some (-1)), ONone)
  | BIter => if negb (b_exists (s_bus st)) then (st, OIter []) else
             let '(out, cur') := c_iter (s_bus st) (s_cur st) in
             (BState (s_bus st) (s_now st) cur', OIter (map (fun r => (r_id r, r_payload r)) out))
  end.
Fixpoint brun (st : bstate) (ops : list bop) : list bout :=
  match ops with [] => [] | op :: r => let '(st', o) := bstep st op in o :: brun st' r end.
Fixpoint bfinal (st : bstate) (ops : list bop) : bstate :=
  match ops with [] => st | op :: r => bfinal (fst (bstep st op)) r end.
Definition bstate0 : bstate := BState bus0 0 None.

(** * The generic client: event processing, error queue, trashbin, foreign-key policy
    ([GenericClient.__processEvents/__processRemoteEvent/__processLocalEvent/__remote*/
    __local*/__retryErrorQueue/__emptyTrashBin], [ErrorQueue], [Datamodel.convertEventToLocal]).

    Configuration class modelled: every mapped remote type has one local type (same id),
    attribute mappings are plain renames (one remote attribute may feed several local
    ones) plus the automatic [_pkey_x] attributes; Jinja templates are covered separately
    (ClientMap). Handler behaviour enters as the oracle [outcome : nat -> hres] indexed by
    the invocation counter. Definitions only. *)
From Hermes Require Export Model.Objects.

Inductive hres := HOk | HFail | HFailPartial (step : Z).
Inductive hkind := HAdded | HModified | HRemoved | HTrashed | HRecycled.

Record cev := CEv {
  ce_t : N; ce_k : Z; ce_kind : ekind;
  ce_ts : Z;                       (* bus timestamp *)
  ce_step : Z; ce_partial : bool   (* progress marker *)
}.
Definition ce_id (e : cev) : N * Z := (ce_t e, ce_k e).
Definition kind_tag (k : ekind) : nat := match k with KAdded _ => 0 | KModified _ => 1 | KRemoved => 2 end.

Inductive fkpolicy := FKDisabled | FKOnRemove | FKOnEvery.
Inductive remediation := RDisabled | RConservative | RMaximum.

Record ctype := CType {
  ct_id : N;
  ct_amap : list (N * N);        (* local attribute <- remote attribute (incl. _pkey_ ones) *)
  ct_fks : list (N * N);         (* local fk attribute -> parent type *)
  ct_ts_attr : N                 (* id of _trashbin_timestamp in objects of this type *)
}.
Record ccfg := CCfg {
  cc_types : list ctype;         (* mapped types, in remote schema order *)
  cc_retention : option Z;       (* trashbin retention (same unit as timestamps); None = off *)
  cc_fkpolicy : fkpolicy;
  cc_remed : remediation;
  cc_ts : N;                     (* attribute id of _trashbin_timestamp *)
  cc_alltypes : list N           (* every type of the remote schema, in schema order *)
}.
Definition find_ctype (c : ccfg) (t : N) : option ctype :=
  List.find (fun ct => N.eqb (ct_id ct) t) (cc_types c).

Record qentry := QEntry {
  q_num : Z; q_remote : option cev; q_local : cev; q_msg : bool;
  q_parents : list (N * Z)       (* objects registered as parents by this entry *)
}.

Record call := Call { cl_kind : hkind; cl_t : N; cl_k : Z; cl_attrs : ekind;
                      cl_new : option obj; cl_old : option obj; cl_step : Z; cl_partial : bool;
                      cl_retry : bool; cl_out : hres }.

Record cstate := CState {
  r_live : world; r_trash : world; rc_live : world; rc_trash : world;
  l_live : world; l_trash : world; lc_live : world; lc_trash : world;
  queue : list qentry;
  ncall : nat; calls : list call;
  curstep : Z; curpartial : bool;
  is_retry : bool;
  exc : bool;            (* an unexpected exception ended the current loop iteration *)
  force_retry : bool;
  poison : list (N * (N * Z))   (* (cache index, key): keys once appended twice to a cache list
                                   ([DataObjectList._inconsistencies]): dropped, and every later
                                   append of the key to that list is ignored until the restart *)
}.
Definition cstate0 : cstate :=
  CState ∅ ∅ ∅ ∅ ∅ ∅ ∅ ∅ [] 0 [] 0 false false false false [].

(** ** remote -> local conversion (plain mappings) *)
Definition conv_obj (ct : ctype) (r : obj) : obj :=
  list_to_map (omap (fun lr => match r !! snd lr with Some v => Some (fst lr, v) | None => None end)
                    (ct_amap ct)).
Definition conv_kind (ct : ctype) (k : ekind) : ekind :=
  match k with
  | KAdded a => KAdded (conv_obj ct a)
  | KModified d => KModified (MDiff (conv_obj ct (md_a d)) (conv_obj ct (md_m d)) (conv_obj ct (md_r d)))
  | KRemoved => KRemoved
  end.
Definition kind_has_content (k : ekind) : bool :=
  match k with
  | KAdded a => negb (is_empty_map a)
  | KModified d => negb (md_empty d)
  | KRemoved => true
  end.
Definition convert (c : ccfg) (allow_empty : bool) (e : cev) : option cev :=
  match find_ctype c (ce_t e) with
  | None => None
  | Some ct =>
      let k := conv_kind ct (ce_kind e) in
      if kind_has_content k || allow_empty
      then Some (CEv (ce_t e) (ce_k e) k (ce_ts e) (ce_step e) (ce_partial e))
      else None
  end.

(** ** caches *)
(** [DataObjectList.append]: a key appended while present is dropped and remembered as an
    inconsistency; appends of a remembered key are ignored. Cache indices follow the
    order r_live, r_trash, rc_live, rc_trash, l_live, l_trash, lc_live, lc_trash. *)
Definition poisoned (p : list (N * (N * Z))) (idx : N) (i : N * Z) : bool :=
  existsb (fun x => N.eqb (fst x) idx && N.eqb (fst (snd x)) (fst i) && Z.eqb (snd (snd x)) (snd i)) p.
Definition wappend (p : list (N * (N * Z))) (idx : N) (w : world) (i : N * Z) (o : obj)
  : world * list (N * (N * Z)) :=
  if poisoned p idx i then (w, p) else
  match w !! i with None => (<[i := o]> w, p) | Some _ => (delete i w, (idx, i) :: p) end.
Definition lookup2 (a b : world) (i : N * Z) : option (bool * obj) :=   (* true = found in [a] *)
  match a !! i with Some o => Some (true, o) | None =>
  match b !! i with Some o => Some (false, o) | None => None end end.
Definition set_ts (ct : ctype) (ts : Z) (o : obj) : obj := <[ct_ts_attr ct := VInt ts]> o.
Definition del_ts (ct : ctype) (o : obj) : obj := delete (ct_ts_attr ct) o.
Definition ts_of (ct : ctype) (o : obj) : option Z :=
  match o !! ct_ts_attr ct with Some (VInt z) => Some z | _ => None end.

(** ** error queue *)
Definition idq (a b : N * Z) : bool := N.eqb (fst a) (fst b) && Z.eqb (snd a) (snd b).
Definition q_has_obj (q : list qentry) (i : N * Z) : bool :=
  existsb (fun e => idq (ce_id (q_local e)) i) q.
Definition q_is_parent (q : list qentry) (i : N * Z) : bool :=
  existsb (fun e => existsb (idq i) (q_parents e)) q.
Definition q_next_num (q : list qentry) : Z := 1 + fold_left (fun m e => Z.max m (q_num e)) q 0%Z.
Definition q_remove (q : list qentry) (n : Z) : list qentry :=
  List.filter (fun e => negb (Z.eqb (q_num e) n)) q.
Definition q_purge_obj (q : list qentry) (i : N * Z) : list qentry :=
  List.filter (fun e => negb (idq (ce_id (q_local e)) i)) q.
(** entries offered for retry: the oldest entry of each object *)
Definition q_is_oldest (q : list qentry) (e : qentry) : bool :=
  forallb (fun e' => negb (idq (ce_id (q_local e')) (ce_id (q_local e))) || (q_num e <=? q_num e')%Z) q.

(** transitive parents of a local object, through live local data ([fetchParentObjs]) *)
Definition fk_key (o : obj) (a : N) : option Z := match o !! a with Some (VInt z) => Some z | _ => None end.
Fixpoint parents_of (c : ccfg) (live : world) (fuel : nat) (t : N) (o : obj) : list (N * Z) :=
  match fuel with
  | O => []
  | S f =>
      match find_ctype c t with
      | None => []
      | Some ct =>
          flat_map (fun ap => match fk_key o (fst ap) with
                              | Some pk => match live !! (snd ap, pk) with
                                           | Some po => (snd ap, pk) :: parents_of c live f (snd ap) po
                                           | None => [] end
                              | None => [] end) (ct_fks ct)
      end
  end.
Definition entry_parents (c : ccfg) (st_live st_complete : world) (lev : cev) : list (N * Z) :=
  match (match st_live !! ce_id lev with Some o => Some o | None => st_complete !! ce_id lev end) with
  | Some o => parents_of c st_live (S (length (cc_types c))) (ce_t lev) o
  | None => []
  end.

(** ** auto-remediation ([ErrorQueue._mergeEvents], local and remote side alike) *)
Inductive mres := MNo | MBoth | MMerged (e : option cev) | MBug.
Definition merge_mod (p l : mdiff) : mdiff :=
  (* newly added: set in added, no longer removed *)
  let a1 := md_a l ∪ md_a p in
  let r1 := md_r p ∖ md_a l in
  (* newly modified: update the added value if it was added, else record as modified *)
  let a2 := map_imap (fun k v => match md_m l !! k with Some nv => Some nv | None => Some v end) a1 in
  let m2 := (filter (fun kv => a1 !! fst kv = None) (md_m l)) ∪ md_m p in
  (* newly removed: added+removed cancels; else drop from modified and mark removed *)
  let rr := filter (fun kv => a2 !! fst kv = None) (md_r l) in
  MDiff (a2 ∖ md_r l) (m2 ∖ rr) (rr ∪ r1).
Definition apply_to_added (a : obj) (l : mdiff) : obj := (md_m l ∪ md_a l ∪ a) ∖ md_r l.

Definition merge_events (pol : remediation) (prev last : option cev) (cur new : option obj) : mres :=
  match prev, last with
  | None, None => MMerged None
  | Some p, None => MMerged (Some p)
  | None, Some l => MMerged (Some l)
  | Some p, Some l =>
      match ce_kind p, ce_kind l with
      | KAdded _, KAdded _ | KRemoved, KModified _ | KRemoved, KRemoved | KModified _, KAdded _ => MBug
      | KAdded a, KModified d =>
          MMerged (Some (CEv (ce_t p) (ce_k p) (KAdded (apply_to_added a d)) (ce_ts p) (ce_step p) (ce_partial p)))
      | KAdded _, KRemoved => match pol with RMaximum => MBoth | _ => MNo end
      | KRemoved, KAdded _ =>
          match pol with
          | RMaximum =>
              match cur, new with
              | Some co, Some no =>
                  let d := odiff no co in
                  if md_empty d then MBoth
                  else MMerged (Some (CEv (ce_t l) (ce_k l) (KModified d) 0 0 false))
              | _, _ => MNo
              end
          | _ => MNo
          end
      | KModified dp, KModified dl =>
          MMerged (Some (CEv (ce_t p) (ce_k p) (KModified (merge_mod dp dl)) (ce_ts p) (ce_step p) (ce_partial p)))
      | KModified _, KRemoved => match pol with RMaximum => MMerged (Some l) | _ => MNo end
      end
  end.

Definition ev_partial (e : option cev) : bool := match e with Some x => ce_partial x | None => false end.

(** state of [cur] after the older queued events (all but the last two) of the object *)
Definition replay_older (evs : list (option cev)) (cur : option obj) : option obj :=
  fold_left (fun c e => match e with
                        | None => c
                        | Some x => match ce_kind x with
                                    | KAdded a => Some a
                                    | KModified d => option_map (apply_mod d) c
                                    | KRemoved => None end end) evs cur.

Definition set_queue (st : cstate) (q : list qentry) : cstate :=
  CState (r_live st) (r_trash st) (rc_live st) (rc_trash st) (l_live st) (l_trash st) (lc_live st) (lc_trash st)
         q (ncall st) (calls st) (curstep st) (curpartial st) (is_retry st) (exc st) (force_retry st) (poison st).

Definition remediate (c : ccfg) (st : cstate) (q : list qentry) (num : Z) : list qentry :=
  match cc_remed c with
  | RDisabled => q
  | pol =>
      match List.find (fun e => Z.eqb (q_num e) num) q with
      | None => q
      | Some last =>
          let same := List.filter (fun e => idq (ce_id (q_local e)) (ce_id (q_local last))) q in
          match rev same with
          | _ :: prev :: older_rev =>
              if ce_partial (q_local prev) || ce_partial (q_local last)
                 || ev_partial (q_remote prev) || ev_partial (q_remote last) then q
              else
                let older := rev older_rev in
                let i := ce_id (q_local last) in
                let rm := merge_events pol (q_remote prev) (q_remote last)
                            (replay_older (map q_remote older) (r_live st !! i)) (rc_live st !! i) in
                let lm := merge_events pol (Some (q_local prev)) (Some (q_local last))
                            (replay_older (map (fun e => Some (q_local e)) older) (l_live st !! i)) (lc_live st !! i) in
                match lm, rm with
                | MNo, _ => q
                | MBoth, _ => q_remove (q_remove q (q_num last)) (q_num prev)
                | MMerged (Some le), MMerged re =>
                    map (fun e => if Z.eqb (q_num e) (q_num prev)
                                  then QEntry (q_num prev) re le (q_msg prev) (q_parents prev) else e)
                        (q_remove q (q_num last))
                | MMerged (Some le), _ =>
                    map (fun e => if Z.eqb (q_num e) (q_num prev)
                                  then QEntry (q_num prev) (q_remote prev) le (q_msg prev) (q_parents prev) else e)
                        (q_remove q (q_num last))
                | _, _ => q
                end
          | _ => q
          end
      end
  end.

Definition q_append (c : ccfg) (st : cstate) (remote : option cev) (lev : cev) (msg : bool) : cstate :=
  match find_ctype c (ce_t lev) with
  | None => st
  | Some _ =>
      let n := q_next_num (queue st) in
      let e := QEntry n remote lev msg (entry_parents c (l_live st) (lc_live st) lev) in
      set_queue st (remediate c st (queue st ++ [e]) n)
  end.

(** ** processing *)
From RecordUpdate Require Import RecordSet.
Import RecordSetNotations.
#[export] Instance eta_cstate : Settable _ :=
  settable! CState <r_live; r_trash; rc_live; rc_trash; l_live; l_trash; lc_live; lc_trash; queue;
                    ncall; calls; curstep; curpartial; is_retry; exc; force_retry; poison>.

Section Proc.
Variable c : ccfg.
Variable outcome : nat -> hres.

Definition fk_events (k : ekind) : bool :=
  match cc_fkpolicy c, k with
  | FKDisabled, _ => false
  | FKOnRemove, KRemoved => true
  | FKOnRemove, _ => false
  | FKOnEvery, _ => true
  end.

(** [__callHandler]: logs the invocation; false = the handler raised *)
Definition call_handler (st : cstate) (hk : hkind) (t : N) (k : Z) (attrs : ekind)
           (new old : option obj) : cstate * bool :=
  let out := outcome (ncall st) in
  let st1 := match out with
             | HFailPartial s => st <| curstep := s |> <| curpartial := true |>
             | _ => st end in
  let cl := Call hk t k attrs new old (curstep st) (curpartial st) (is_retry st) out in
  (st1 <| ncall := S (ncall st) |> <| calls := calls st ++ [cl] |>,
   match out with HOk => true | _ => false end).

Definition app_r_live (st : cstate) (i : N * Z) (o : obj) : cstate :=
  let '(w, p) := wappend (poison st) 0 (r_live st) i o in st <| r_live := w |> <| poison := p |>.
Definition app_r_trash (st : cstate) (i : N * Z) (o : obj) : cstate :=
  let '(w, p) := wappend (poison st) 1 (r_trash st) i o in st <| r_trash := w |> <| poison := p |>.
Definition app_rc_live (st : cstate) (i : N * Z) (o : obj) : cstate :=
  let '(w, p) := wappend (poison st) 2 (rc_live st) i o in st <| rc_live := w |> <| poison := p |>.
Definition app_rc_trash (st : cstate) (i : N * Z) (o : obj) : cstate :=
  let '(w, p) := wappend (poison st) 3 (rc_trash st) i o in st <| rc_trash := w |> <| poison := p |>.
Definition app_l_live (st : cstate) (i : N * Z) (o : obj) : cstate :=
  let '(w, p) := wappend (poison st) 4 (l_live st) i o in st <| l_live := w |> <| poison := p |>.
Definition app_l_trash (st : cstate) (i : N * Z) (o : obj) : cstate :=
  let '(w, p) := wappend (poison st) 5 (l_trash st) i o in st <| l_trash := w |> <| poison := p |>.
Definition app_lc_live (st : cstate) (i : N * Z) (o : obj) : cstate :=
  let '(w, p) := wappend (poison st) 6 (lc_live st) i o in st <| lc_live := w |> <| poison := p |>.
Definition app_lc_trash (st : cstate) (i : N * Z) (o : obj) : cstate :=
  let '(w, p) := wappend (poison st) 7 (lc_trash st) i o in st <| lc_trash := w |> <| poison := p |>.

Definition crash (st : cstate) : cstate * bool := (st <| exc := true |>, false).

Definition new_obj (k : ekind) : obj := match k with KAdded a => a | _ => ∅ end.
Definition the_diff (k : ekind) : mdiff := match k with KModified d => d | _ => MDiff ∅ ∅ ∅ end.

Definition local_added (st : cstate) (lev : cev) (sim : bool) : cstate * bool :=
  let i := ce_id lev in
  let o := new_obj (ce_kind lev) in
  let '(st1, ok) := if sim then (st, true)
                    else call_handler st HAdded (ce_t lev) (ce_k lev) (ce_kind lev) (Some o) None in
  if negb ok then (st1, false) else
  let st2 := if sim then st1 else app_l_live st1 i o in
  (match lc_live st2 !! i with
   | Some _ => st2
   | None => app_lc_live st2 i o end, true).

Definition local_recycled (ct : ctype) (st : cstate) (lev : cev) (sim : bool) : cstate * bool :=
  let i := ce_id lev in
  let o := new_obj (ce_kind lev) in
  match l_trash st !! i with
  | None => crash st
  | Some tr0 =>
      let tr := del_ts ct tr0 in
      let trc := option_map (del_ts ct) (lc_trash st !! i) in
      let '(st1, ok) := if sim then (st, true)
                        else call_handler st HRecycled (ce_t lev) (ce_k lev) (KAdded tr) (Some tr) None in
      if negb ok then (st1, false) else
      let st2 := if sim then st1
                 else app_l_live (st1 <| l_trash := delete i (l_trash st1) |>) i tr in
      let st3 := match trc with
                 | Some x => app_lc_live (st2 <| lc_trash := delete i (lc_trash st2) |>) i x
                 | None => st2 end in
      let d := odiff o tr in
      if md_empty d || sim then (st3, true)
      else (q_append c st3 None (CEv (ce_t lev) (ce_k lev) (KModified d) 0 0 false) false
              <| force_retry := true |>, true)
  end.

Definition local_modified (st : cstate) (lev : cev) (sim : bool) : cstate * bool :=
  let i := ce_id lev in
  let d := the_diff (ce_kind lev) in
  let cpl := lookup2 (lc_live st) (lc_trash st) i in
  if sim then
    (match cpl with
     | Some (true, oc) => st <| lc_live := <[i := apply_mod d oc]> (lc_live st) |>
     | Some (false, oc) => st <| lc_trash := <[i := apply_mod d oc]> (lc_trash st) |>
     | None => st end, true)
  else
  match l_live st !! i with
  | None =>
      (* [getUpdatedObject(None, ...)] raises when an attribute is to be set; otherwise the
         handler is still invoked (without objects) and replacing the missing object raises *)
      if negb (is_empty_map (md_a d) && is_empty_map (md_m d)) then crash st else
      let '(st1, ok) := call_handler st HModified (ce_t lev) (ce_k lev) (ce_kind lev) None None in
      if negb ok then (st1, false) else crash st1
  | Some old =>
      let new := apply_mod d old in
      let '(st1, ok) := call_handler st HModified (ce_t lev) (ce_k lev) (ce_kind lev) (Some new) (Some old) in
      if negb ok then (st1, false) else
      let st2 := st1 <| l_live := <[i := new]> (l_live st1) |> in
      (match cpl with
       | Some (true, oc) => st2 <| lc_live := <[i := apply_mod d oc]> (lc_live st2) |>
       | Some (false, oc) => st2 <| lc_trash := <[i := apply_mod d oc]> (lc_trash st2) |>
       | None => st2 end, true)
  end.

Definition local_trashed (ct : ctype) (st : cstate) (lev : cev) (sim : bool) : cstate * bool :=
  let i := ce_id lev in
  let lc := lc_live st !! i in
  let '(st1, ok) := if sim then (st, true)
                    else call_handler st HTrashed (ce_t lev) (ce_k lev) (ce_kind lev) None (l_live st !! i) in
  if negb ok then (st1, false) else
  let '(st2, ok2) :=
    if sim then (st1, true) else
    match l_live st1 !! i with
    | None => crash st1
    | Some o => (app_l_trash (st1 <| l_live := delete i (l_live st1) |>) i (set_ts ct (ce_ts lev) o), true)
    end in
  if negb ok2 then (st2, false) else
  (match lc with
   | Some o => app_lc_trash (st2 <| lc_live := delete i (lc_live st2) |>) i (set_ts ct (ce_ts lev) o)
   | None => st2 end, true).

Definition local_removed (st : cstate) (lev : cev) (sim : bool) : cstate * bool :=
  let i := ce_id lev in
  let cur := lookup2 (l_live st) (l_trash st) i in
  let cpl := lookup2 (lc_live st) (lc_trash st) i in
  let '(st1, ok) := if sim then (st, true)
                    else call_handler st HRemoved (ce_t lev) (ce_k lev) (ce_kind lev) None (option_map snd cur) in
  if negb ok then (st1, false) else
  let '(st2, ok2) :=
    if sim then (st1, true) else
    match cur with
    | Some (true, _) => (st1 <| l_live := delete i (l_live st1) |>, true)
    | Some (false, _) => (st1 <| l_trash := delete i (l_trash st1) |>, true)
    | None => crash st1
    end in
  if negb ok2 then (st2, false) else
  let st3 := match cpl with
             | Some (true, _) => st2 <| lc_live := delete i (lc_live st2) |>
             | Some (false, _) => st2 <| lc_trash := delete i (lc_trash st2) |>
             | None => st2 end in
  (if sim then st3 else st3 <| queue := q_purge_obj (queue st3) i |>, true).

(** [__processLocalEvent] (fuel: the simulate-only pass recurses once) *)
Fixpoint process_local (fuel : nat) (st : cstate) (remote : option cev) (lev : option cev)
         (enqueue sim : bool) : cstate * bool :=
  match fuel, lev with
  | O, _ => crash st
  | _, None => (st, true)
  | S f, Some lv =>
      match find_ctype c (ce_t lv) with
      | None => crash st
      | Some ct =>
      let i := ce_id lv in
      let st0 := if sim then st else st <| curstep := ce_step lv |> <| curpartial := ce_partial lv |> in
      if negb sim && enqueue &&
         (q_has_obj (queue st0) i || (q_is_parent (queue st0) i && fk_events (ce_kind lv))) then
        let '(st1, _) := process_local f st0 None (Some lv) false true in
        (q_append c st1 remote lv true, true)
      else
      let in_trash := match l_trash st0 !! i with Some _ => true | None => false end in
      let has_r := match cc_retention c with Some _ => true | None => false end in
      let '(st1, ok) :=
        match ce_kind lv with
        | KAdded _ => if has_r && in_trash then local_recycled ct st0 lv sim else local_added st0 lv sim
        | KModified _ =>
            if negb sim && in_trash then
              if enqueue then process_local f st0 None (Some lv) false true
              else (st0, false)       (* refused: object is in the trashbin *)
            else local_modified st0 lv sim
        | KRemoved => if negb has_r || in_trash then local_removed st0 lv sim else local_trashed ct st0 lv sim
        end in
      if ok || exc st1 then (st1, ok)
      else if negb sim && enqueue then
        let '(st2, _) := process_local f st1 None (Some lv) false true in
        let mark e := CEv (ce_t e) (ce_k e) (ce_kind e) (ce_ts e) (curstep st2) (curpartial st2) in
        (q_append c st2 (option_map mark remote) (mark lv) true, true)
      else (st1, false)
      end
  end.

(** remote side *)
Definition remote_added (f : nat) (st : cstate) (rev : cev) (lev : option cev) (sim : bool) : cstate * bool :=
  let i := ce_id rev in
  let o := new_obj (ce_kind rev) in
  let '(st1, ok) := process_local f st (Some rev) lev false sim in
  if negb ok then (st1, false) else
  let st2 := if sim then st1 else app_r_live st1 i o in
  (match rc_live st2 !! i with
   | Some _ => st2
   | None => app_rc_live st2 i o end, true).

Definition remote_recycled (f : nat) (st : cstate) (rev : cev) (lev : option cev) (sim : bool) : cstate * bool :=
  let i := ce_id rev in
  let o := new_obj (ce_kind rev) in
  let '(st1, ok) := process_local f st (Some rev) lev false sim in
  if negb ok then (st1, false) else
  let st2 := if sim then st1 else st1 <| r_trash := delete i (r_trash st1) |> in
  let st3 := st2 <| rc_trash := delete i (rc_trash st2) |> in
  let st4 := if sim then st3 else app_r_live st3 i o in
  (match rc_live st4 !! i with
   | Some _ => st4
   | None => app_rc_live st4 i o end, true).

Definition remote_modified (f : nat) (st : cstate) (rev : cev) (lev : option cev) (sim : bool) : cstate * bool :=
  let i := ce_id rev in
  let d := the_diff (ce_kind rev) in
  let cpl := lookup2 (rc_live st) (rc_trash st) i in
  let upd_c st' := match cpl with
                   | Some (true, oc) => st' <| rc_live := <[i := apply_mod d oc]> (rc_live st') |>
                   | Some (false, oc) => st' <| rc_trash := <[i := apply_mod d oc]> (rc_trash st') |>
                   | None => st' end in
  if sim then
    let '(st1, ok) := process_local f st (Some rev) lev false true in
    if negb ok then (st1, false) else (upd_c st1, true)
  else
  match r_live st !! i with
  | None =>
      (* [getUpdatedObject(None, ...)] raises when an attribute is to be set; otherwise the
         local side is processed first and replacing the missing remote object raises *)
      if negb (is_empty_map (md_a d) && is_empty_map (md_m d)) then crash st else
      let '(st1, ok) := process_local f st (Some rev) lev false false in
      if negb ok then (st1, false) else crash st1
  | Some old =>
      let '(st1, ok) := process_local f st (Some rev) lev false false in
      if negb ok then (st1, false) else
      (upd_c (st1 <| r_live := <[i := apply_mod d old]> (r_live st1) |>), true)
  end.

Definition remote_trashed (ct : ctype) (f : nat) (st : cstate) (rev : cev) (lev : option cev) (sim : bool)
  : cstate * bool :=
  let i := ce_id rev in
  let ro := r_live st !! i in
  let rc := rc_live st !! i in
  let '(st1, ok) := process_local f st (Some rev) lev false sim in
  if negb ok then (st1, false) else
  let '(st2, ok2) :=
    if sim then (st1, true) else
    match ro with
    | None => crash st1
    | Some o => (app_r_trash (st1 <| r_live := delete i (r_live st1) |>) i (set_ts ct (ce_ts rev) o), true)
    end in
  if negb ok2 then (st2, false) else
  (match rc with
   | Some o => app_rc_trash (st2 <| rc_live := delete i (rc_live st2) |>) i (set_ts ct (ce_ts rev) o)
   | None => st2 end, true).

Definition remote_removed (f : nat) (st : cstate) (rev : cev) (lev : option cev) (sim : bool) : cstate * bool :=
  let i := ce_id rev in
  let cur := lookup2 (r_live st) (r_trash st) i in
  let cpl := lookup2 (rc_live st) (rc_trash st) i in
  let '(st1, ok) := process_local f st (Some rev) lev false sim in
  if negb ok then (st1, false) else
  let '(st2, ok2) :=
    if sim then (st1, true) else
    match cur with
    | Some (true, _) => (st1 <| r_live := delete i (r_live st1) |>, true)
    | Some (false, _) => (st1 <| r_trash := delete i (r_trash st1) |>, true)
    | None => crash st1
    end in
  if negb ok2 then (st2, false) else
  let st3 := match cpl with
             | Some (true, _) => st2 <| rc_live := delete i (rc_live st2) |>
             | Some (false, _) => st2 <| rc_trash := delete i (rc_trash st2) |>
             | None => st2 end in
  (if sim then st3 else st3 <| queue := q_purge_obj (queue st3) i |>, true).

(** [__processRemoteEvent] *)
Fixpoint process_remote (fuel : nat) (st : cstate) (rev : cev) (lev0 : option cev)
         (enqueue sim : bool) : cstate * bool :=
  match fuel with
  | O => crash st
  | S f =>
      let i := ce_id rev in
      let lev := match lev0 with Some l => Some l | None => convert c false rev end in
      let mapped := match find_ctype c (ce_t rev) with Some _ => true | None => false end in
      if negb sim && enqueue && mapped &&
         (q_has_obj (queue st) i || (q_is_parent (queue st) i && fk_events (ce_kind rev))) then
        let '(st1, _) := process_remote f st rev None false true in
        match (match lev with Some l => Some l | None => convert c true rev end) with
        | Some l => (q_append c st1 (Some rev) l true, true)
        | None => (st1, true)
        end
      else
      let in_trash := match r_trash st !! i with Some _ => true | None => false end in
      let has_r := match cc_retention c with Some _ => true | None => false end in
      let ts_ct := match find_ctype c (ce_t rev) with Some ct => ct | None => CType (ce_t rev) [] [] (cc_ts c) end in
      let '(st1, ok) :=
        match ce_kind rev with
        | KAdded _ => if has_r && in_trash then remote_recycled (S f) st rev lev sim
                      else remote_added (S f) st rev lev sim
        | KModified _ => remote_modified (S f) st rev lev sim
        | KRemoved => if negb has_r || in_trash then remote_removed (S f) st rev lev sim
                      else remote_trashed ts_ct (S f) st rev lev sim
        end in
      if ok || exc st1 then (st1, ok)
      else if negb sim && enqueue then
        let '(st2, _) := process_remote f st1 rev None false true in
        let mark e := CEv (ce_t e) (ce_k e) (ce_kind e) (ce_ts e) (curstep st2) (curpartial st2) in
        match lev with
        | Some l => (q_append c st2 (Some (mark rev)) (mark l) true, true)
        | None => crash st2
        end
      else (st1, false)
  end.
End Proc.

(** ** retry of the error queue, trashbin purge, event loop *)
Section Loop.
Variable c : ccfg.
Variable outcome : nat -> hres.
Definition FUEL : nat := 3.

Definition mark_entry (st : cstate) (n : Z) : cstate :=
  st <| queue := map (fun e => if Z.eqb (q_num e) n then
                         let mk x := CEv (ce_t x) (ce_k x) (ce_kind x) (ce_ts x) (curstep st) (curpartial st) in
                         QEntry (q_num e) (option_map mk (q_remote e)) (mk (q_local e)) true (q_parents e)
                       else e) (queue st) |>.

(** one pass over the snapshot [nums]; returns the state and the numbers skipped because
    their object is still a parent of another queued object *)
Fixpoint retry_pass (st : cstate) (nums : list Z) (only : option (list Z)) (skipped : list Z) : cstate * list Z :=
  match nums with
  | [] => (st, skipped)
  | n :: r =>
      if exc st then (st, skipped) else
      match List.find (fun e => Z.eqb (q_num e) n) (queue st) with
      | None => retry_pass st r only skipped
      | Some e =>
          if negb (q_is_oldest (queue st) e) then retry_pass st r only skipped else
          if match only with Some l => negb (existsb (Z.eqb n) l) | None => false end
          then retry_pass st r only skipped else
          let i := ce_id (q_local e) in
          if q_is_parent (queue st) i then retry_pass st r only (skipped ++ [n]) else
          let '(st1, ok) :=
            match q_remote e with
            | Some rev => process_remote c outcome FUEL st rev (Some (q_local e)) false false
            | None => process_local c outcome FUEL st None (Some (q_local e)) false false
            end in
          if exc st1 then (st1, skipped) else
          let st2 := if ok then st1 <| queue := q_remove (queue st1) n |> else mark_entry st1 n in
          retry_pass st2 r only skipped
      end
  end.

Fixpoint retry_loop (fuel : nat) (st : cstate) (only : option (list Z)) : cstate :=
  match fuel with
  | O => st
  | S f =>
      let keys := map q_num (queue st) in
      let '(st1, skipped) := retry_pass st keys only [] in
      if exc st1 then st1 else
      let keys1 := map q_num (queue st1) in
      let same := Nat.eqb (length keys) (length keys1) && forallb (fun k => existsb (Z.eqb k) keys1) keys in
      if same || match skipped with [] => true | _ => false end then st1
      else retry_loop f st1 (Some skipped)
  end.
Definition retry_queue (st : cstate) : cstate :=
  let st1 := retry_loop (S (length (queue st))) (st <| is_retry := true |>) None in
  st1 <| is_retry := false |> <| force_retry := false |>.

(** [__emptyTrashBin]: types in reverse order, expired objects get a 'removed' *)
Definition purge_one (st : cstate) (t : N) (k : Z) (now : Z) : cstate :=
  if exc st then st else
  match r_trash st !! (t, k) with
  | None => st
  | Some o =>
      let expired := match cc_retention c, (match o !! cc_ts c with Some (VInt z) => Some z | _ => None end) with
                     | None, _ => true
                     | Some r, Some ts => (ts <? now - r)%Z
                     | Some _, None => false end in
      if negb expired then st else
      let ev := CEv t k KRemoved 0 0 false in
      let i := (t, k) in
      if q_has_obj (queue st) i && negb (q_is_parent (queue st) i)
      then fst (process_remote c outcome FUEL st ev None false false)
      else fst (process_remote c outcome FUEL st ev None true false)
  end.
Definition empty_trashbin (st : cstate) (now : Z) : cstate :=
  fold_left (fun s t => fold_left (fun s' k => purge_one s' t k now) (keys_of t (r_trash s)) s)
            (rev (cc_alltypes c)) st.

(** one iteration of the main loop of an initialised client over the events delivered *)
Fixpoint process_events (st : cstate) (next : Z) (evs : list (Z * cev)) : cstate * Z :=
  match evs with
  | [] => (st, next)
  | (off, ev) :: r =>
      if exc st then (st, next) else
      let '(st1, _) := process_remote c outcome FUEL st ev None true false in
      if exc st1 then (st1, next) else process_events st1 (off + 1)%Z r
  end.

Record client := Client { cl_st : cstate; cl_next : Z }.
Definition client_iter (cl : client) (now : Z) (evs : list (Z * cev)) : client :=
  let st0 := cl_st cl <| exc := false |> in
  let st1 := retry_queue st0 in
  if exc st1 then Client st1 (cl_next cl) else
  let st2 := empty_trashbin st1 now in
  if exc st2 then Client st2 (cl_next cl) else
  let '(st3, next) := process_events st2 (cl_next cl) evs in
  Client st3 next.
End Loop.

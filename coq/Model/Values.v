(** * Values held by Hermes data objects (model of the Python value grammar)

    Mirrors the values [DataObject._data] can hold and that the property texts
    quantify over: None, bool, int, float, str, bytes, whole-second naive
    datetime, nested lists and string-keyed dicts.  Strings and byte strings are
    lists of code points / octets; floats are opaque identifiers handed out by
    the harness (injective on the non-NaN, non-negative-zero floats it
    generates), which is all [isDifferent] needs: equality inside one Python type.
    Dicts are association lists in the canonical (key-sorted) form the harness
    prints. Definitions only - proofs live in Proofs/. *)
From Coq Require Export ZArith NArith List Bool.
Export ListNotations.
Open Scope Z_scope.

Record dt := mkdt { dt_y : N; dt_mo : N; dt_d : N; dt_h : N; dt_mi : N; dt_s : N }.

Definition str := list N.

Inductive value :=
| VNone
| VBool (b : bool)
| VInt (z : Z)
| VFloat (f : Z)
| VStr (s : str)
| VBytes (s : str)
| VDate (d : dt)
| VList (l : list value)
| VDict (l : list (str * value)).

Fixpoint str_eqb (a b : str) : bool :=
  match a, b with
  | [], [] => true
  | x :: xs, y :: ys => N.eqb x y && str_eqb xs ys
  | _, _ => false
  end.

Definition dt_eqb (a b : dt) : bool :=
  N.eqb (dt_y a) (dt_y b) && N.eqb (dt_mo a) (dt_mo b) && N.eqb (dt_d a) (dt_d b)
  && N.eqb (dt_h a) (dt_h b) && N.eqb (dt_mi a) (dt_mi b) && N.eqb (dt_s a) (dt_s b).

(** [vdiff a b] = [DataObject.isDifferent(a, b)]: different Python types are
    always different (so 1, 1.0, True and "1" are pairwise different); lists are
    compared by length then element-wise in order; dicts by key set then per
    key; everything else with [!=] inside its own type. *)
Fixpoint vdiff (a b : value) {struct a} : bool :=
  match a, b with
  | VNone, VNone => false
  | VBool x, VBool y => negb (Bool.eqb x y)
  | VInt x, VInt y => negb (Z.eqb x y)
  | VFloat x, VFloat y => negb (Z.eqb x y)
  | VStr x, VStr y => negb (str_eqb x y)
  | VBytes x, VBytes y => negb (str_eqb x y)
  | VDate x, VDate y => negb (dt_eqb x y)
  | VList la, VList lb =>
      (fix go (la lb : list value) {struct la} : bool :=
         match la, lb with
         | [], [] => false
         | x :: xs, y :: ys => vdiff x y || go xs ys
         | _, _ => true
         end) la lb
  | VDict da, VDict db =>
      (fix go (da db : list (str * value)) {struct da} : bool :=
         match da, db with
         | [], [] => false
         | (k, x) :: xs, (k', y) :: ys => negb (str_eqb k k') || vdiff x y || go xs ys
         | _, _ => true
         end) da db
  | _, _ => true
  end.

Definition veqb (a b : value) : bool := negb (vdiff a b).

(** Values that ingestion treats as "attribute absent": None, [] and {}. *)
Definition is_nullish (v : value) : bool :=
  match v with VNone | VList [] | VDict [] => true | _ => false end.

(** Canonical form of dicts: keys strictly increasing (code-point order). *)
Fixpoint str_ltb (a b : str) : bool :=
  match a, b with
  | [], [] => false
  | [], _ :: _ => true
  | _ :: _, [] => false
  | x :: xs, y :: ys => N.ltb x y || (N.eqb x y && str_ltb xs ys)
  end.

Fixpoint keys_sorted (l : list (str * value)) : bool :=
  match l with
  | [] => true
  | (k, _) :: rest =>
      match rest with
      | [] => true
      | (k', _) :: _ => str_ltb k k' && keys_sorted rest
      end
  end.

Fixpoint wf_value (v : value) : bool :=
  match v with
  | VList l => forallb wf_value l
  | VDict d => keys_sorted d && forallb (fun kv => wf_value (snd kv)) d
  | _ => true
  end.

(** One failure, then healing (C07): on a healthy client a 'modified' whose handler raises is
    parked; the next retry pass with a handler that succeeds leaves exactly the eight caches of
    the failure-free run and an empty queue. *)
From Hermes Require Import Model.Objects Model.Client Proofs.Values Proofs.Objects Proofs.Client Proofs.ClientHealthy.
From RecordUpdate Require Import RecordSet.
Import RecordSetNotations.

Section Heal.
Variable c : ccfg.
Variable outcome : nat -> hres.
Hypothesis Hret : cc_retention c = None.
Hypothesis Hrem : cc_remed c = RDisabled.

Definition mark_of (e : cev) (k : ekind) : cev := CEv (ce_t e) (ce_k e) k (ce_ts e) (ce_step e) (ce_partial e).
Definition failed_call (e : cev) (ct : ctype) (d : mdiff) (lold : obj) (rty : bool) (out : hres) : call :=
  Call HModified (ce_t e) (ce_k e) (KModified (conv_diff ct d)) (Some (apply_mod (conv_diff ct d) lold)) (Some lold)
       (ce_step e) (ce_partial e) rty out.
(** the state in which the failed 'modified' is parked: live caches untouched, expected-state
    caches already carry the change, one queue entry with the event and its marker *)
Definition parked (r l : world) (n : nat) (cs : list call) (rty fr : bool) (e : cev) (ct : ctype) (d : mdiff)
           (old lold : obj) : cstate :=
  CState r ∅ (<[ce_id e := apply_mod d old]> r) ∅ l ∅ (<[ce_id e := apply_mod (conv_diff ct d) lold]> l) ∅
         [QEntry 1 (Some (mark_of e (KModified d))) (mark_of e (KModified (conv_diff ct d))) true []]
         (S n) (cs ++ [failed_call e ct d lold rty HFail]) (ce_step e) (ce_partial e) rty false fr [].

Lemma modified_fails_once r l n cs stp prt rty fr e ct d old lold :
  find_ctype c (ce_t e) = Some ct -> ct_fks ct = [] -> ce_kind e = KModified d ->
  md_empty (conv_diff ct d) = false ->
  r !! ce_id e = Some old -> l !! ce_id e = Some lold ->
  outcome n = HFail ->
  process_remote c outcome FUEL (hstate r l n cs stp prt rty fr) e None true false = (parked r l n cs rty fr e ct d old lold, true).
Proof.
  intros Hct Hfk Hk Hne Hr Hl Hfail.
  assert (Hcv : convert c false e = Some (lev_of ct e)).
  { apply (convert_Some c); [exact Hct|]. rewrite Hk. cbn. fold (conv_diff ct d). rewrite Hne. reflexivity. }
  assert (Hid : ce_id (lev_of ct e) = ce_id e) by reflexivity.
  unfold FUEL. cbn [process_remote]. rewrite Hcv, Hct. cbn [hstate queue q_has_obj q_is_parent existsb orb andb negb].
  rewrite Hk. cbn [r_trash hstate].
  unfold remote_modified. cbn [negb]. cbn [hstate r_live rc_live rc_trash]. rewrite Hr. unfold lookup2. rewrite Hr.
  cbn [process_local]. change (ce_t (lev_of ct e)) with (ce_t e). rewrite Hct.
  change (ce_kind (lev_of ct e)) with (conv_kind ct (ce_kind e)). rewrite Hk. cbn [conv_kind]. fold (conv_diff ct d).
  cbn [negb andb orb].
  unfold hstate. cbn [queue set q_has_obj q_is_parent existsb orb andb negb l_trash].
  rewrite Hid, lookup_empty. cbn [andb].
  unfold local_modified, call_handler, lookup2. cbn. unfold ce_id in *. cbn [lev_of ce_t ce_k]. rewrite !Hl. cbn. rewrite Hfail. cbn.
  rewrite ?Hr, ?Hl, ?Hk. cbn. rewrite ?Hr, ?Hl. cbn.
  unfold q_append. cbn. rewrite Hct. cbn. unfold remediate. rewrite Hrem. unfold entry_parents, ce_id. cbn. rewrite ?Hl. cbn. rewrite Hct, Hfk. cbn.
  reflexivity.
Qed.

Lemma apply_mod_idem d (o : obj) : apply_mod d (apply_mod d o) = apply_mod d o.
Proof.
  apply map_eq. intros a. rewrite !lookup_apply_mod.
  destruct (md_r d !! a), (md_m d !! a), (md_a d !! a); reflexivity.
Qed.

(** a direct (retry) processing of a 'modified' on a state without trashbin whose four caches
    know the object: explicit result *)
Definition gstate (r rc l lc : world) (q : list qentry) (n : nat) (cs : list call) (stp : Z) (prt rty fr : bool) : cstate :=
  CState r ∅ rc ∅ l ∅ lc ∅ q n cs stp prt rty false fr [].

Lemma modified_direct r rc l lc q n cs stp prt rty fr rev lev ct d cd old oc lold loc :
  find_ctype c (ce_t rev) = Some ct -> ce_kind rev = KModified d -> ce_kind lev = KModified cd ->
  ce_id lev = ce_id rev -> ce_t lev = ce_t rev ->
  r !! ce_id rev = Some old -> rc !! ce_id rev = Some oc -> l !! ce_id rev = Some lold -> lc !! ce_id rev = Some loc ->
  outcome n = HOk ->
  process_remote c outcome FUEL (gstate r rc l lc q n cs stp prt rty fr) rev (Some lev) false false =
    (gstate (<[ce_id rev := apply_mod d old]> r) (<[ce_id rev := apply_mod d oc]> rc)
            (<[ce_id rev := apply_mod cd lold]> l) (<[ce_id rev := apply_mod cd loc]> lc) q (S n)
            (cs ++ [Call HModified (ce_t lev) (ce_k lev) (KModified cd) (Some (apply_mod cd lold)) (Some lold)
                         (ce_step lev) (ce_partial lev) rty HOk])
            (ce_step lev) (ce_partial lev) rty fr, true).
Proof.
  intros Hct Hk Hlk Hid Htt Hr Hrc Hl Hlc Hok.
  unfold FUEL. cbn [process_remote]. rewrite Hct. cbn [andb negb].
  rewrite Hk. cbn [r_trash gstate].
  unfold remote_modified. cbn [negb]. cbn [gstate r_live rc_live rc_trash]. rewrite Hr. unfold lookup2. rewrite Hrc.
  cbn [process_local]. rewrite Htt, Hct. rewrite Hlk.
  cbn [negb andb orb].
  unfold gstate. cbn [queue set l_trash].
  rewrite Hid, lookup_empty. cbn [andb].
  unfold local_modified, call_handler, lookup2. cbn. rewrite Hid. rewrite !Hl, !Hlc. cbn. rewrite Hok. cbn. rewrite ?Hl, ?Hlc, ?Hlk, ?Hk, ?Htt. cbn.
  reflexivity.
Qed.


Lemma parked_retry_heals r l n cs rty fr e ct d old lold :
  find_ctype c (ce_t e) = Some ct -> ce_kind e = KModified d ->
  r !! ce_id e = Some old -> l !! ce_id e = Some lold ->
  outcome (S n) = HOk ->
  retry_queue c outcome (parked r l n cs rty fr e ct d old lold) =
    hstate (<[ce_id e := apply_mod d old]> r) (<[ce_id e := apply_mod (conv_diff ct d) lold]> l) (S (S n))
           (cs ++ [failed_call e ct d lold rty HFail] ++ [failed_call e ct d lold true HOk])
           (ce_step e) (ce_partial e) false false.
Proof.
  intros Hct Hk Hr Hl Hok.
  set (rev := mark_of e (KModified d)). set (lev := mark_of e (KModified (conv_diff ct d))).
  set (cs1 := cs ++ [failed_call e ct d lold rty HFail]).
  set (rc := <[ce_id e := apply_mod d old]> r). set (lc := <[ce_id e := apply_mod (conv_diff ct d) lold]> l).
  set (ent := QEntry 1 (Some rev) lev true []).
  assert (Hdir := modified_direct r rc l lc [ent] (S n) cs1 (ce_step e) (ce_partial e) true fr rev lev ct d (conv_diff ct d)
                    old (apply_mod d old) lold (apply_mod (conv_diff ct d) lold)
                    Hct eq_refl eq_refl eq_refl eq_refl Hr (lookup_insert _ _ _) Hl (lookup_insert _ _ _) Hok).
  unfold retry_queue.
  change (parked r l n cs rty fr e ct d old lold <| is_retry := true |>)
    with (gstate r rc l lc [ent] (S n) cs1 (ce_step e) (ce_partial e) true fr).
  change (length (queue (parked r l n cs rty fr e ct d old lold))) with 1%nat.
  cbn [retry_loop]. change (map q_num (queue (gstate r rc l lc [ent] (S n) cs1 (ce_step e) (ce_partial e) true fr))) with [1%Z].
  cbn [retry_pass]. change (exc (gstate r rc l lc [ent] (S n) cs1 (ce_step e) (ce_partial e) true fr)) with false. cbn iota.
  change (queue (gstate r rc l lc [ent] (S n) cs1 (ce_step e) (ce_partial e) true fr)) with [ent].
  change (List.find (fun e0 => Z.eqb (q_num e0) 1) [ent]) with (Some ent). cbn iota.
  assert (Hold : q_is_oldest [ent] ent = true).
  { unfold q_is_oldest. cbn. rewrite orb_true_r. reflexivity. }
  rewrite Hold. cbn [negb]. cbn iota.
  change (q_is_parent [ent] (ce_id (q_local ent))) with false. cbn iota.
  change (q_remote ent) with (Some rev). cbn iota. change (q_local ent) with lev.
  rewrite Hdir. clear Hdir.
  cbn. subst rc lc cs1 rev lev. cbn. rewrite !apply_mod_idem.
  change (ce_id (mark_of e (KModified d))) with (ce_id e). rewrite !insert_insert. rewrite <- app_assoc.
  reflexivity.
Qed.

(** one failure, then healing: the eight caches are those of the failure-free run
    ([modified_healthy]), the queue is empty, no exception; only the handler log remembers *)
Theorem modified_failure_heals r l n cs stp prt rty fr e ct d old lold :
  find_ctype c (ce_t e) = Some ct -> ct_fks ct = [] -> ce_kind e = KModified d ->
  md_empty (conv_diff ct d) = false ->
  r !! ce_id e = Some old -> l !! ce_id e = Some lold ->
  outcome n = HFail -> outcome (S n) = HOk ->
  let st1 := fst (process_remote c outcome FUEL (hstate r l n cs stp prt rty fr) e None true false) in
  (* parked: the target-side caches are untouched, the event waits with its marker *)
  (r_live st1 = r /\ l_live st1 = l /\ length (queue st1) = 1%nat) /\
  (* healed: exactly the state of the failure-free run *)
  retry_queue c outcome st1 =
    hstate (<[ce_id e := apply_mod d old]> r) (<[ce_id e := apply_mod (conv_diff ct d) lold]> l) (S (S n))
           (cs ++ [failed_call e ct d lold rty HFail] ++ [failed_call e ct d lold true HOk])
           (ce_step e) (ce_partial e) false false.
Proof.
  intros Hct Hfk Hk Hne Hr Hl Hf Hok. cbn zeta.
  rewrite (modified_fails_once r l n cs stp prt rty fr e ct d old lold Hct Hfk Hk Hne Hr Hl Hf). cbn [fst].
  split; [repeat split|]. apply parked_retry_heals; assumption.
Qed.
End Heal.

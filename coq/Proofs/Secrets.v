(** Where attribute values of each class may go (C15): projections of the server model. *)
From Hermes Require Import Model.Objects Model.Server Proofs.Values Proofs.Objects Proofs.Server.

(** ** cache files never hold a local or a secret attribute *)
Theorem jsn_hides tc o a :
  mem a (t_local tc) = true \/ mem a (t_secret tc) = true -> jsn_obj tc o !! a = None.
Proof.
  intros H. unfold jsn_obj. rewrite lookup_ofilter. unfold unsaved_of.
  destruct H as [-> | ->]; [reflexivity|rewrite orb_true_r; reflexivity].
Qed.
(** and they depend on nothing else: two objects equal outside those attributes are saved alike *)
Theorem jsn_noninterference tc o1 o2 :
  (forall a, unsaved_of tc a = false -> o1 !! a = o2 !! a) -> jsn_obj tc o1 = jsn_obj tc o2.
Proof.
  intros H. apply map_eq. intros a. unfold jsn_obj. rewrite !lookup_ofilter.
  destruct (unsaved_of tc a) eqn:E; [reflexivity|apply H; exact E].
Qed.

(** ** events never carry a local or a cache-only attribute *)
Theorem vis_hides tc o a :
  mem a (t_local tc) = true \/ mem a (t_cacheonly tc) = true -> vis_obj tc o !! a = None.
Proof.
  intros H. unfold vis_obj. rewrite lookup_ofilter. unfold hidden_of.
  destruct H as [-> | ->]; [reflexivity|rewrite orb_true_r; reflexivity].
Qed.
Theorem vis_noninterference tc o1 o2 :
  (forall a, hidden_of tc a = false -> o1 !! a = o2 !! a) -> vis_obj tc o1 = vis_obj tc o2.
Proof.
  intros H. apply map_eq. intros a. unfold vis_obj. rewrite !lookup_ofilter.
  destruct (hidden_of tc a) eqn:E; [reflexivity|apply H; exact E].
Qed.

Definition ev_mentions (e : event) (a : N) : Prop :=
  match e_kind e with
  | KAdded o => is_Some (o !! a)
  | KModified d => is_Some (md_a d !! a) \/ is_Some (md_m d !! a) \/ is_Some (md_r d !! a)
  | KRemoved => False
  end.

Lemma odiff_mentions n o a :
  is_Some (md_a (odiff n o) !! a) \/ is_Some (md_m (odiff n o) !! a) \/ is_Some (md_r (odiff n o) !! a) ->
  is_Some (n !! a) \/ is_Some (o !! a).
Proof.
  unfold odiff. cbn. rewrite lookup_d_added, lookup_d_modified, lookup_d_removed.
  destruct (n !! a), (o !! a); intros [H|[H|H]]; try (destruct H; discriminate); eauto.
Qed.

(** whatever the cycle, an event of a configured type mentions no hidden attribute *)
Theorem events_hide_local_cacheonly c hint n o e tc a :
  cfg_ok c -> e ∈ gen_events_h c hint n o -> tc ∈ c -> e_t e = t_id tc ->
  mem a (t_local tc) = true \/ mem a (t_cacheonly tc) = true -> ~ ev_mentions e a.
Proof.
  intros Hc He Htc Ht Ha Hm. apply gen_events_h_spec in He.
  assert (Huniq : forall tc', tc' ∈ c -> t_id tc' = t_id tc -> tc' = tc).
  { intros tc' H1 H2. eapply tc_inj; eauto. }
  destruct He as [tc' k no Htc' Hn Ho|tc' k no oo Htc' Hn Ho Hne|tc' k Htc' Hn Ho]; cbn in *.
  - rewrite (Huniq tc' Htc' Ht) in Hm. rewrite (vis_hides tc no a Ha) in Hm. destruct Hm; discriminate.
  - rewrite (Huniq tc' Htc' Ht) in Hm. apply odiff_mentions in Hm.
    rewrite !(vis_hides tc _ a Ha) in Hm. destruct Hm as [H|H]; destruct H; discriminate.
  - exact Hm.
Qed.

(** ** a change touching only local or cache-only attributes produces no event *)
Theorem hidden_changes_silent c hint n o :
  cfg_ok c -> vis c n = vis c o -> (forall i, is_Some (n !! i) <-> is_Some (o !! i)) ->
  gen_events_h c hint n o = [].
Proof.
  intros Hc Hv Hdom. destruct (gen_events_h c hint n o) as [|e l] eqn:E; [reflexivity|exfalso].
  assert (H : e ∈ gen_events_h c hint n o) by (rewrite E; left).
  apply gen_events_h_spec in H.
  assert (Hl : forall tc k, tc ∈ c -> vis c n !! (t_id tc, k) = option_map (vis_obj tc) (n !! (t_id tc, k)) /\
                                      vis c o !! (t_id tc, k) = option_map (vis_obj tc) (o !! (t_id tc, k))).
  { intros tc k Htc. unfold vis. rewrite !lookup_wmap. rewrite (lookup_tcfg_in c tc Hc Htc).
    destruct (n !! (t_id tc, k)), (o !! (t_id tc, k)); split; reflexivity. }
  destruct H as [tc k no Htc Hn Ho|tc k no oo Htc Hn Ho Hne|tc k Htc Hn Ho].
  - assert (is_Some (o !! (t_id tc, k))) as [? ?] by (apply Hdom; eauto). congruence.
  - destruct (Hl tc k Htc) as [H1 H2]. rewrite Hn in H1. rewrite Ho in H2. rewrite Hv in H1. cbn in *. congruence.
  - assert (is_Some (n !! (t_id tc, k))) as [? ?] by (apply Hdom; exact Ho). congruence.
Qed.

(** ** an initsync sequence carries no secret (after the repair of F9a) *)
Theorem initsync_secret_free c cache e a tc :
  e ∈ ev_initsync c cache -> e_t e = t_id tc -> tc ∈ c -> cfg_ok c ->
  mem a (t_secret tc) = true -> ~ ev_mentions e a.
Proof.
  intros He Ht Htc Hc Ha Hm. unfold ev_initsync in He. apply elem_of_list_In in He.
  apply in_concat in He. destruct He as (l & Hl & He). apply in_map_iff in Hl. destruct Hl as (tc' & <- & Htc').
  apply elem_of_list_In in He. apply elem_of_list_omap in He. destruct He as (k & _ & Hk).
  destruct (cache !! (t_id tc', k)) as [o|]; [|discriminate]. inversion Hk; subst. cbn in *.
  assert (tc' = tc) as -> by (eapply tc_inj; eauto; apply elem_of_list_In; exact Htc').
  unfold pub_obj in Hm. rewrite lookup_ofilter, Ha in Hm. destruct Hm; discriminate.
Qed.

(** The parents an error-queue entry registers ([parents_of], the model of
    [ErrorQueue._addParentObjs] / [ForeignKey.fetchParentObjs]) are exactly the objects reached
    from the child by following foreign keys through objects present in the local cache -
    directly or transitively, whatever the depth, when the types are declared parents-first. *)
From Hermes Require Import Model.Objects Model.Client.
From Coq Require Import Lia.

Section Parents.
Context (c : ccfg) (live : world).

(** [reach n t o p]: from object [o] of type [t], [p] is reached by a chain of [n] foreign-key
    links, every object on the way (including [p]) being present in [live] *)
Inductive reach : nat -> N -> obj -> N * Z -> Prop :=
| reach_direct t o ct a pt pk po :
    find_ctype c t = Some ct -> In (a, pt) (ct_fks ct) -> fk_key o a = Some pk ->
    live !! (pt, pk) = Some po -> reach 1 t o (pt, pk)
| reach_step n t o ct a pt pk po p :
    find_ctype c t = Some ct -> In (a, pt) (ct_fks ct) -> fk_key o a = Some pk ->
    live !! (pt, pk) = Some po -> reach n pt po p -> reach (S n) t o p.

Lemma parents_of_sound fuel : forall t o p,
  In p (parents_of c live fuel t o) -> exists n, (n <= fuel)%nat /\ reach n t o p.
Proof.
  induction fuel as [|f IH]; intros t o p Hin; [inversion Hin|].
  cbn [parents_of] in Hin. destruct (find_ctype c t) as [ct|] eqn:Hct; [|inversion Hin].
  apply in_flat_map in Hin. destruct Hin as [[a pt] [Hfk Hin]]. cbn [fst snd] in Hin.
  destruct (fk_key o a) as [pk|] eqn:Hk; [|inversion Hin].
  destruct (live !! (pt, pk)) as [po|] eqn:Hl; [|inversion Hin].
  destruct Hin as [<-|Hin].
  - exists 1%nat. split; [lia|]. eapply reach_direct; eassumption.
  - destruct (IH pt po p Hin) as [n [Hn Hr]]. exists (S n). split; [lia|].
    eapply reach_step; eassumption.
Qed.

Lemma parents_of_complete n : forall t o p, reach n t o p ->
  forall fuel, (n <= fuel)%nat -> In p (parents_of c live fuel t o).
Proof.
  intros t o p Hr. induction Hr as [t o ct a pt pk po Hct Hfk Hk Hl|n t o ct a pt pk po p Hct Hfk Hk Hl Hr IH];
    intros fuel Hn; (destruct fuel as [|f]; [lia|]); cbn [parents_of]; rewrite Hct;
    apply in_flat_map; exists (a, pt); (split; [exact Hfk|]); cbn [fst snd]; rewrite Hk, Hl.
  - left. reflexivity.
  - right. apply IH. lia.
Qed.

(** types declared parents-first: a rank that strictly decreases along every foreign key and is
    bounded by the number of types (e.g. the position in the declaration order) *)
Definition parents_first (rank : N -> nat) : Prop :=
  (forall ct a pt, In ct (cc_types c) -> In (a, pt) (ct_fks ct) -> (rank pt < rank (ct_id ct))%nat) /\
  (forall t, (rank t <= length (cc_types c))%nat).

Lemma find_ctype_spec t ct : find_ctype c t = Some ct -> In ct (cc_types c) /\ ct_id ct = t.
Proof.
  unfold find_ctype. intros H. apply find_some in H. destruct H as [Hin He].
  split; [exact Hin|]. apply N.eqb_eq. exact He.
Qed.

Lemma reach_depth rank : parents_first rank -> forall n t o p, reach n t o p -> (n <= rank t)%nat.
Proof.
  intros [Hdec _] n t o p Hr.
  induction Hr as [t o ct a pt pk po Hct Hfk Hk Hl|n t o ct a pt pk po p Hct Hfk Hk Hl Hr IH];
    destruct (find_ctype_spec t ct Hct) as [Hin <-]; specialize (Hdec ct a pt Hin Hfk); lia.
Qed.

(** what an entry registers = everything reachable, at any depth *)
Theorem registered_parents_exact rank : parents_first rank -> forall t o p,
  In p (parents_of c live (S (length (cc_types c))) t o) <-> exists n, reach n t o p.
Proof.
  intros Hpf t o p. split.
  - intros Hin. destruct (parents_of_sound _ t o p Hin) as [n [_ Hr]]. exists n. exact Hr.
  - intros [n Hr]. apply (parents_of_complete n t o p Hr).
    pose proof (reach_depth rank Hpf n t o p Hr) as Hd. destruct Hpf as [_ Hb]. specialize (Hb t). lia.
Qed.
End Parents.

(** consequence for the queue: the object of an event is a registered parent as soon as some
    entry's child reaches it *)
Lemma q_is_parent_of_entry q e p : In e q -> In p (q_parents e) -> q_is_parent q p = true.
Proof.
  intros Hin Hp. unfold q_is_parent. apply existsb_exists. exists e. split; [exact Hin|].
  apply existsb_exists. exists p. split; [exact Hp|]. unfold idq. rewrite N.eqb_refl, Z.eqb_refl. reflexivity.
Qed.

(** at the moment an entry is appended (remediation disabled), every ancestor its object
    reaches through present objects is registered: an event of a covered kind on any of them
    is then deferred (theorem [parent_event_deferred]) *)
Lemma q_append_registers c st remote lev msg o n p rank :
  cc_remed c = RDisabled -> find_ctype c (ce_t lev) <> None ->
  (l_live st !! ce_id lev = Some o \/ (l_live st !! ce_id lev = None /\ lc_live st !! ce_id lev = Some o)) ->
  parents_first c rank -> reach c (l_live st) n (ce_t lev) o p ->
  q_is_parent (queue (q_append c st remote lev msg)) p = true.
Proof.
  intros Hrem Hct Ho Hpf Hr. unfold q_append.
  destruct (find_ctype c (ce_t lev)) as [ct|]; [|contradiction]. cbn [queue set_queue].
  unfold remediate. rewrite Hrem.
  set (e := QEntry _ remote lev msg _).
  apply (q_is_parent_of_entry _ e p); [apply in_or_app; right; left; reflexivity|].
  cbn [q_parents e]. unfold entry_parents.
  assert (Hobj : match l_live st !! ce_id lev with Some o0 => Some o0 | None => lc_live st !! ce_id lev end = Some o).
  { destruct Ho as [->|[-> ->]]; reflexivity. }
  rewrite Hobj. apply (registered_parents_exact c (l_live st) rank Hpf). exists n. exact Hr.
Qed.

(** Initialisation from an initsync sequence (C12). *)
From Hermes Require Import Model.Objects Model.Client Model.Init.
From RecordUpdate Require Import RecordSet.
Import RecordSetNotations.

(** ** declarative specification of the complete sequences of a bus *)
(** the init-stop closing a sequence begun just before [b]: the first marker met is a stop *)
Fixpoint closing (b : ibus) : option Z :=
  match b with
  | [] => None
  | (_, BStart) :: _ => None
  | (off, BStop) :: _ => Some off
  | _ :: r => closing r
  end.
Definition pend (s : Z) (b : ibus) : list (Z * Z) := match closing b with Some e => [(s, e)] | None => [] end.
(** every init-start directly followed (markers only) by an init-stop, in bus order *)
Fixpoint complete (b : ibus) : list (Z * Z) :=
  match b with
  | [] => []
  | (off, BStart) :: r => pend off r ++ complete r
  | _ :: r => complete r
  end.

(** ** the scan loop computes exactly that list (newest policy: all of it) *)
Lemma scan_go_all b : forall found,
  scan_go false b None found = found ++ complete b /\
  forall s, scan_go false b (Some s) found = found ++ pend s b ++ complete b.
Proof.
  induction b as [|[off it] r IH]; intros found.
  - split; [cbn; rewrite app_nil_r; reflexivity|]. intros s. cbn. rewrite app_nil_r. reflexivity.
  - destruct it as [| |init ev]; cbn [scan_go complete].
    + (* BStart *) split.
      * rewrite (proj2 (IH found) off). reflexivity.
      * intros s. rewrite (proj2 (IH found) off). unfold pend at 2. cbn [closing]. reflexivity.
    + (* BStop *) split.
      * apply (proj1 (IH found)).
      * intros s. rewrite (proj1 (IH (found ++ [(s, off)]))). unfold pend. cbn [closing].
        rewrite <- app_assoc. reflexivity.
    + (* BData *) split.
      * apply (proj1 (IH found)).
      * intros s. rewrite (proj2 (IH found) s). unfold pend. cbn [closing]. reflexivity.
Qed.

(** oldest policy: the loop stops at the first complete sequence *)
Lemma scan_go_first b :
  scan_go true b None [] = firstn 1 (complete b) /\
  forall s, scan_go true b (Some s) [] = firstn 1 (pend s b ++ complete b).
Proof.
  induction b as [|[off it] r IH].
  - split; [reflexivity|]. intros s. reflexivity.
  - destruct it as [| |init ev]; cbn [scan_go complete].
    + split.
      * rewrite (proj2 IH off). reflexivity.
      * intros s. rewrite (proj2 IH off). unfold pend at 2. cbn [closing]. reflexivity.
    + split.
      * apply (proj1 IH).
      * intros s. unfold pend. cbn [closing]. reflexivity.
    + split.
      * apply (proj1 IH).
      * intros s. rewrite (proj2 IH s). unfold pend. cbn [closing]. reflexivity.
Qed.

Definition choose (first : bool) (l : list (Z * Z)) : option (Z * Z) := if first then head l else last l.

Theorem scan_spec first b : scan first b = choose first (complete b).
Proof.
  unfold scan, choose. destruct first.
  - rewrite (proj1 (scan_go_first b)). destruct (complete b); reflexivity.
  - rewrite (proj1 (scan_go_all b [])). reflexivity.
Qed.

(** a listed pair brackets a complete sequence: init-start at [s], then data events only,
    then init-stop at [e] *)
Definition is_data (p : Z * bitem) : Prop := match snd p with BData _ _ => True | _ => False end.

Lemma closing_split b e : closing b = Some e ->
  exists mid post, b = mid ++ (e, BStop) :: post /\ Forall is_data mid.
Proof.
  induction b as [|[off it] r IH]; intros H; [discriminate|].
  destruct it as [| |init ev]; cbn in H.
  - discriminate.
  - inversion H; subst. exists [], r. split; [reflexivity|constructor].
  - destruct (IH H) as (mid & post & -> & Hm). exists ((off, BData init ev) :: mid), post.
    split; [reflexivity|]. constructor; [exact I|exact Hm].
Qed.

Theorem complete_brackets b s e : In (s, e) (complete b) ->
  exists pre mid post, b = pre ++ (s, BStart) :: mid ++ (e, BStop) :: post /\ Forall is_data mid.
Proof.
  induction b as [|[off it] r IH]; intros H; [destruct H|].
  assert (Hrec : In (s, e) (complete r) ->
          exists pre mid post, (off, it) :: r = pre ++ (s, BStart) :: mid ++ (e, BStop) :: post /\ Forall is_data mid).
  { intros H'. destruct (IH H') as (pre & mid & post & -> & Hm). exists ((off, it) :: pre), mid, post. split; [reflexivity|exact Hm]. }
  destruct it as [| |init ev]; cbn [complete] in H; try (apply Hrec; exact H).
  apply in_app_or in H. destruct H as [H|H]; [|apply Hrec; exact H].
  unfold pend in H. destruct (closing r) as [e'|] eqn:Hc; [|destruct H].
  destruct H as [H|[]]. inversion H; subst.
  destruct (closing_split r e Hc) as (mid & post & -> & Hm). exists [], mid, post. split; [reflexivity|exact Hm].
Qed.

Lemma last_Some_help {A} (p : A) l : exists x, last (p :: l) = Some x.
Proof. revert p. induction l as [|q l IH]; intros p; [exists p; reflexivity|]. destruct (IH q) as [x Hx]. exists x. exact Hx. Qed.

Section Iter.
Variable c : ccfg.
Variable outcome : nat -> hres.

(** ** nothing is processed while no complete sequence is visible *)
Theorem no_sequence_no_processing first ic visible budget now :
  initialised ic = false -> complete visible = [] ->
  let ic' := init_iter c outcome first ic visible budget now in
  calls (i_st ic') = calls (i_st ic) /\ ncall (i_st ic') = ncall (i_st ic) /\ queue (i_st ic') = queue (i_st ic) /\
  r_live (i_st ic') = r_live (i_st ic) /\ l_live (i_st ic') = l_live (i_st ic) /\
  i_next ic' = i_next ic /\ i_start ic' = i_start ic /\ i_stop ic' = i_stop ic.
Proof.
  intros Hi Hc. cbn zeta. unfold init_iter. rewrite Hi, scan_spec, Hc.
  destruct first; cbn; repeat split; reflexivity.
Qed.

(** ** one-shot: an initialised client never touches the recorded sequence again *)
Theorem initialised_keeps_record first ic visible budget now :
  initialised ic = true ->
  let ic' := init_iter c outcome first ic visible budget now in
  i_start ic' = i_start ic /\ i_stop ic' = i_stop ic.
Proof.
  intros Hi. cbn zeta. unfold init_iter. rewrite Hi.
  destruct (i_next ic); [|split; reflexivity].
  destruct (exc (retry_queue c outcome _)); [split; reflexivity|].
  destruct (exc (empty_trashbin c outcome _ now)); [split; reflexivity|].
  destruct (base_events c outcome _ _ _). split; reflexivity.
Qed.

(** ** a sequence whose loading has begun is never abandoned for a newer one (repair of F8) *)
Theorem begun_sequence_is_kept first ic visible budget now ps pe n :
  initialised ic = false ->
  i_start ic = Some ps -> i_stop ic = Some pe -> i_next ic = Some n -> (ps < n)%Z ->
  In (ps, pe) (scan_go first visible None []) ->
  let ic' := init_iter c outcome first ic visible budget now in
  i_start ic' = Some ps /\ i_stop ic' = Some pe.
Proof.
  intros Hi Hs He Hn Hlt Hin. cbn zeta. unfold init_iter. rewrite Hi.
  destruct (scan first visible) as [[s0 e0]|] eqn:Hsc.
  - rewrite Hs, He, Hn.
    assert (existsb (fun p => Z.eqb (fst p) ps && Z.eqb (snd p) pe) (scan_go first visible None []) = true) as ->.
    { apply existsb_exists. exists (ps, pe). split; [exact Hin|]. cbn. rewrite !Z.eqb_refl. reflexivity. }
    assert ((ps <? n)%Z = true) as -> by (apply Z.ltb_lt; exact Hlt). cbn [andb].
    destruct (init_events c outcome _ _ _ _ _) as [[st1 n1] b1]. split; reflexivity.
  - exfalso. unfold scan in Hsc. destruct (scan_go first visible None []) as [|p l]; [destruct Hin|].
    destruct first; cbn in Hsc; [discriminate|]. destruct (last_Some_help p l) as [x Hx]. congruence.
Qed.

(** ** category filter: base events are skipped while initialising, initsync items are
    skipped afterwards; both only move the offset *)
Definition is_base (p : Z * bitem) : Prop := match snd p with BData false _ => True | _ => False end.
Definition is_init (p : Z * bitem) : Prop := match snd p with BData false _ => False | _ => True end.

Theorem init_skips_base st next stop began evs :
  Forall is_base evs ->
  fst (fst (init_events c outcome st next stop began evs)) = st.
Proof.
  revert next. induction evs as [|[off it] r IH]; intros next H; [reflexivity|].
  inversion H as [|? ? Hb Hr]; subst. cbn [init_events].
  destruct (exc st); [reflexivity|]. destruct (stop <? off)%Z; [reflexivity|].
  destruct it as [| |[] ev]; cbn in Hb; try contradiction. apply IH. exact Hr.
Qed.

Theorem base_skips_initsync st next evs :
  Forall is_init evs ->
  fst (base_events c outcome st next evs) = st.
Proof.
  revert next. induction evs as [|[off it] r IH]; intros next H; [reflexivity|].
  inversion H as [|? ? Hb Hr]; subst. cbn [base_events].
  destruct (exc st); [reflexivity|].
  destruct it as [| |[] ev]; cbn in Hb; try contradiction; apply IH; exact Hr.
Qed.
End Iter.

(** One failure, then healing (C07), 'removed' events without trashbin: the failed removal is
    parked (target side untouched, the expected-state caches no longer hold the object); the next
    retry with a handler that succeeds leaves exactly the state of the failure-free run. *)
From Hermes Require Import Model.Objects Model.Client Proofs.Values Proofs.Objects Proofs.Client Proofs.ClientHealthy Proofs.ClientHeal.
From RecordUpdate Require Import RecordSet.
Import RecordSetNotations.

Section HealRem.
Variable c : ccfg.
Variable outcome : nat -> hres.
Hypothesis Hret : cc_retention c = None.
Hypothesis Hrem : cc_remed c = RDisabled.

Definition rem_call (e : cev) (lold : obj) (rty : bool) (out : hres) : call :=
  Call HRemoved (ce_t e) (ce_k e) KRemoved None (Some lold) (ce_step e) (ce_partial e) rty out.
Definition parked_rem (r l : world) (n : nat) (cs : list call) (rty fr : bool) (e : cev) (lold : obj) : cstate :=
  CState r ∅ (delete (ce_id e) r) ∅ l ∅ (delete (ce_id e) l) ∅
         [QEntry 1 (Some (mark_of e KRemoved)) (mark_of e KRemoved) true []]
         (S n) (cs ++ [rem_call e lold rty HFail]) (ce_step e) (ce_partial e) rty false fr [].

Lemma removed_fails_once r l n cs stp prt rty fr e ct old lold :
  find_ctype c (ce_t e) = Some ct -> ct_fks ct = [] -> ce_kind e = KRemoved ->
  r !! ce_id e = Some old -> l !! ce_id e = Some lold ->
  outcome n = HFail ->
  process_remote c outcome FUEL (hstate r l n cs stp prt rty fr) e None true false = (parked_rem r l n cs rty fr e lold, true).
Proof.
  intros Hct Hfk Hk Hr Hl Hfail.
  assert (Hcv : convert c false e = Some (lev_of ct e)).
  { apply (convert_Some c); [exact Hct|]. rewrite Hk. reflexivity. }
  assert (Hid : ce_id (lev_of ct e) = ce_id e) by reflexivity.
  unfold FUEL. cbn [process_remote]. rewrite Hcv, Hct. cbn [hstate queue q_has_obj q_is_parent existsb orb andb negb].
  rewrite Hk, Hret. cbn [r_trash hstate negb orb].
  unfold remote_removed. cbn [hstate r_live r_trash rc_live rc_trash]. unfold lookup2. rewrite Hr.
  cbn [process_local]. change (ce_t (lev_of ct e)) with (ce_t e). rewrite Hct.
  change (ce_kind (lev_of ct e)) with (conv_kind ct (ce_kind e)). rewrite Hk. cbn [conv_kind]. rewrite Hret.
  cbn [negb andb orb].
  unfold hstate. cbn [queue set q_has_obj q_is_parent existsb orb andb negb l_trash].
  unfold local_removed, call_handler, lookup2. cbn. unfold ce_id in *. cbn [lev_of ce_t ce_k]. rewrite !Hl. cbn. rewrite Hfail. cbn.
  rewrite ?Hk, ?Hret. cbn. rewrite ?Hr, ?Hl. cbn. rewrite ?Hct. cbn. rewrite ?Hk, ?Hret. cbn. rewrite ?Hl, ?Hr. cbn.
  unfold q_append. cbn. rewrite ?Hct. cbn. unfold remediate. rewrite Hrem. unfold entry_parents, ce_id. cbn. rewrite ?Hl. cbn.
  rewrite ?Hct, ?Hfk. cbn.
  reflexivity.
Qed.

Lemma removed_direct r rc l lc q n cs stp prt rty fr rev lev ct old lold :
  find_ctype c (ce_t rev) = Some ct -> ce_kind rev = KRemoved -> ce_kind lev = KRemoved ->
  ce_id lev = ce_id rev -> ce_t lev = ce_t rev ->
  r !! ce_id rev = Some old -> rc !! ce_id rev = None -> l !! ce_id rev = Some lold -> lc !! ce_id rev = None ->
  outcome n = HOk ->
  process_remote c outcome FUEL (gstate r rc l lc q n cs stp prt rty fr) rev (Some lev) false false =
    (gstate (delete (ce_id rev) r) rc (delete (ce_id rev) l) lc (q_purge_obj (q_purge_obj q (ce_id rev)) (ce_id rev)) (S n)
            (cs ++ [Call HRemoved (ce_t rev) (ce_k lev) KRemoved None (Some lold) (ce_step lev) (ce_partial lev) rty HOk])
            (ce_step lev) (ce_partial lev) rty fr, true).
Proof.
  intros Hct Hk Hlk Hid Htt Hr Hrc Hl Hlc Hok.
  unfold FUEL. cbn [process_remote]. rewrite Hct. cbn [andb negb].
  rewrite Hk, Hret. cbn [r_trash gstate negb orb].
  unfold remote_removed. cbn [gstate r_live r_trash rc_live rc_trash]. unfold lookup2. rewrite Hr, Hrc, lookup_empty.
  cbn [process_local]. rewrite Htt, Hct. rewrite Hlk. rewrite Hret.
  cbn [negb andb orb].
  unfold gstate. cbn [queue set l_trash].
  unfold local_removed, call_handler, lookup2. cbn. rewrite Hid. rewrite !Hl, !Hlc. cbn. rewrite Hok. cbn.
  rewrite ?lookup_empty. cbn. rewrite ?Htt, ?Hlk.
  reflexivity.
Qed.

Lemma parked_rem_retry_heals r l n cs rty fr e ct old lold :
  find_ctype c (ce_t e) = Some ct -> ce_kind e = KRemoved ->
  r !! ce_id e = Some old -> l !! ce_id e = Some lold ->
  outcome (S n) = HOk ->
  retry_queue c outcome (parked_rem r l n cs rty fr e lold) =
    hstate (delete (ce_id e) r) (delete (ce_id e) l) (S (S n))
           (cs ++ [rem_call e lold rty HFail] ++ [rem_call e lold true HOk])
           (ce_step e) (ce_partial e) false false.
Proof.
  intros Hct Hk Hr Hl Hok.
  set (rev := mark_of e KRemoved).
  set (cs1 := cs ++ [rem_call e lold rty HFail]).
  set (rc := delete (ce_id e) r). set (lc := delete (ce_id e) l).
  set (ent := QEntry 1 (Some rev) rev true []).
  assert (Hdir := removed_direct r rc l lc [ent] (S n) cs1 (ce_step e) (ce_partial e) true fr rev rev ct old lold
                    Hct eq_refl eq_refl eq_refl eq_refl Hr (lookup_delete _ _) Hl (lookup_delete _ _) Hok).
  unfold retry_queue.
  change (parked_rem r l n cs rty fr e lold <| is_retry := true |>)
    with (gstate r rc l lc [ent] (S n) cs1 (ce_step e) (ce_partial e) true fr).
  change (length (queue (parked_rem r l n cs rty fr e lold))) with 1%nat.
  cbn [retry_loop]. change (map q_num (queue (gstate r rc l lc [ent] (S n) cs1 (ce_step e) (ce_partial e) true fr))) with [1%Z].
  cbn [retry_pass]. change (exc (gstate r rc l lc [ent] (S n) cs1 (ce_step e) (ce_partial e) true fr)) with false. cbn iota.
  change (queue (gstate r rc l lc [ent] (S n) cs1 (ce_step e) (ce_partial e) true fr)) with [ent].
  change (List.find (fun e0 => Z.eqb (q_num e0) 1) [ent]) with (Some ent). cbn iota.
  assert (Hold : q_is_oldest [ent] ent = true).
  { unfold q_is_oldest. cbn. rewrite orb_true_r. reflexivity. }
  rewrite Hold. cbn [negb]. cbn iota.
  change (q_is_parent [ent] (ce_id (q_local ent))) with false. cbn iota.
  change (q_remote ent) with (Some rev). cbn iota. change (q_local ent) with rev.
  rewrite Hdir. clear Hdir.
  assert (Hidq : idq (ce_id e) (ce_id e) = true) by (apply idq_eq; reflexivity).
  cbn. subst rc lc cs1 rev. cbn.
  change (ce_id (mark_of e KRemoved)) with (ce_id e).
  unfold ce_id in *. cbn in Hidq. rewrite ?Hidq. cbn. rewrite ?Hidq. cbn.
  rewrite <- app_assoc.
  reflexivity.
Qed.

Theorem removed_failure_heals r l n cs stp prt rty fr e ct old lold :
  find_ctype c (ce_t e) = Some ct -> ct_fks ct = [] -> ce_kind e = KRemoved ->
  r !! ce_id e = Some old -> l !! ce_id e = Some lold ->
  outcome n = HFail -> outcome (S n) = HOk ->
  let st1 := fst (process_remote c outcome FUEL (hstate r l n cs stp prt rty fr) e None true false) in
  (r_live st1 = r /\ l_live st1 = l /\ length (queue st1) = 1%nat) /\
  retry_queue c outcome st1 =
    hstate (delete (ce_id e) r) (delete (ce_id e) l) (S (S n))
           (cs ++ [rem_call e lold rty HFail] ++ [rem_call e lold true HOk])
           (ce_step e) (ce_partial e) false false.
Proof.
  intros Hct Hfk Hk Hr Hl Hf Hok. cbn zeta.
  rewrite (removed_fails_once r l n cs stp prt rty fr e ct old lold Hct Hfk Hk Hr Hl Hf). cbn [fst].
  split; [repeat split|]. eapply parked_rem_retry_heals; eassumption.
Qed.
End HealRem.

(** The client checkpoint under process death (C11). *)
From Hermes Require Import Model.Objects Model.Client Model.Checkpoint.

(** the client's own cache file (saved offset) is the last file of the checkpoint *)
Theorem offset_saved_last types :
  exists before, save_order types = before ++ [FOffset] /\ ~ In FOffset before.
Proof.
  unfold save_order. eexists. rewrite !app_assoc. split; [reflexivity|].
  intros H. repeat (apply in_app_or in H; destruct H as [H|H]);
    try (apply in_map_iff in H; destruct H as (? & ? & _); discriminate).
  destruct H as [H|[]]. discriminate.
Qed.

Lemma replaced_in_In repl f : replaced_in repl f = true <-> In f repl.
Proof.
  unfold replaced_in. rewrite existsb_exists. split.
  - intros (g & Hg & He). destruct f, g; cbn in He; try discriminate; try exact Hg.
    apply andb_true_iff in He. destruct He as [H1 H2]. apply N.eqb_eq in H1, H2. subst. exact Hg.
  - intros H. exists f. split; [exact H|]. destruct f; cbn; rewrite ?N.eqb_refl; reflexivity.
Qed.

(** as long as that file is not replaced, the restarted client starts from the old offset:
    every event it had not checkpointed is delivered again - none is skipped *)
Theorem offset_never_ahead old new repl :
  ~ In FOffset repl -> cl_next (mix_client old new repl) = cl_next old.
Proof.
  intros H. unfold mix_client. cbn. destruct (replaced_in repl FOffset) eqn:E; [|reflexivity].
  apply replaced_in_In in E. contradiction.
Qed.

Lemma filter_lookup_bool (f : N * Z -> bool) (b : bool) (m : world) k :
  filter (fun kv : N * Z * obj => f (fst kv) = b) m !! k = if Bool.eqb (f k) b then m !! k else None.
Proof.
  destruct (m !! k) as [o|] eqn:E.
  - destruct (Bool.eqb (f k) b) eqn:Hb.
    + apply map_filter_lookup_Some. split; [exact E|]. cbn. apply Bool.eqb_prop. exact Hb.
    + apply map_filter_lookup_None. right. intros x _ Hx. cbn in Hx. rewrite Hx, Bool.eqb_reflx in Hb. discriminate.
  - assert (filter (fun kv : N * Z * obj => f (fst kv) = b) m !! k = None) as ->
      by (apply map_filter_lookup_None; left; exact E).
    destruct (Bool.eqb (f k) b); reflexivity.
Qed.

(** each object comes from the new checkpoint exactly when the file of its cache and type
    was replaced *)
Theorem mix_lookup old new repl i k :
  mix_world old new repl i !! k =
    if replaced_in repl (FData i (fst k)) then world_of new i !! k else world_of old i !! k.
Proof.
  unfold mix_world. rewrite lookup_union.
  rewrite (filter_lookup_bool (fun tk => replaced_in repl (FData i (fst tk))) true (world_of new i) k).
  rewrite (filter_lookup_bool (fun tk => replaced_in repl (FData i (fst tk))) false (world_of old i) k).
  destruct (replaced_in repl (FData i (fst k))); cbn.
  - destruct (world_of new i !! k); reflexivity.
  - destruct (world_of old i !! k); reflexivity.
Qed.

(** nothing replaced: the old checkpoint; everything replaced: the new one *)
Theorem mix_nothing old new i : mix_world old new [] i = world_of old i.
Proof. apply map_eq. intros k. rewrite mix_lookup. reflexivity. Qed.

Theorem mix_everything old new repl i :
  (forall t, In (FData i t) repl) -> mix_world old new repl i = world_of new i.
Proof.
  intros H. apply map_eq. intros k. rewrite mix_lookup.
  assert (replaced_in repl (FData i (fst k)) = true) as -> by (apply replaced_in_In; apply H). reflexivity.
Qed.

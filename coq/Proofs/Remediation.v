(** Effect of the pairwise merge rules of [ErrorQueue._mergeEvents] on one object: whatever
    [merge_events] answers, applying what stays in the queue has the effect of applying the
    two events in order. *)
From Hermes Require Import Model.Objects Model.Client Proofs.Values Proofs.Objects Proofs.Client.

(** the effect of a queued event on the object it is about (None = absent) *)
Definition ev_effect (k : ekind) (o : option obj) : option obj :=
  match k with
  | KAdded a => Some a
  | KModified d => option_map (apply_mod d) o
  | KRemoved => None
  end.

(** removed + added, policy maximum, both caches know the object: the pair becomes the
    'modified' that turns the object still on the target ([co]) into the expected one ([no]),
    or is cancelled when there is nothing to change *)
Lemma merge_removed_added p l a co no :
  ce_kind p = KRemoved -> ce_kind l = KAdded a ->
  match merge_events RMaximum (Some p) (Some l) (Some co) (Some no) with
  | MMerged (Some e) => exists d, ce_kind e = KModified d /\ md_empty d = false /\ apply_mod d co = no
  | MBoth => co = no
  | _ => False
  end.
Proof.
  intros Hp Hl. unfold merge_events. rewrite Hp, Hl.
  destruct (md_empty (odiff no co)) eqn:He.
  - apply md_empty_odiff in He. symmetry. exact He.
  - eexists. split; [reflexivity|]. split; [exact He|]. apply apply_mod_odiff.
Qed.

(** under the other policies, and whenever one of the two caches does not know the object,
    the pair is left alone *)
Lemma merge_removed_added_not_merged pol p l a cur new :
  ce_kind p = KRemoved -> ce_kind l = KAdded a ->
  pol <> RMaximum \/ cur = None \/ new = None ->
  merge_events pol (Some p) (Some l) cur new = MNo.
Proof.
  intros Hp Hl H. unfold merge_events. rewrite Hp, Hl.
  destruct pol; try reflexivity. destruct H as [H|[->| ->]]; [contradiction|reflexivity|].
  destruct cur; reflexivity.
Qed.

(** added + removed: cancelled under maximum (the object never reached the target), left alone
    otherwise; modified + removed: the removal alone under maximum *)
Lemma merge_added_removed pol p l a cur new :
  ce_kind p = KAdded a -> ce_kind l = KRemoved ->
  merge_events pol (Some p) (Some l) cur new = match pol with RMaximum => MBoth | _ => MNo end.
Proof. intros Hp Hl. unfold merge_events. rewrite Hp, Hl. reflexivity. Qed.
Lemma merge_modified_removed pol p l d cur new :
  ce_kind p = KModified d -> ce_kind l = KRemoved ->
  merge_events pol (Some p) (Some l) cur new = match pol with RMaximum => MMerged (Some l) | _ => MNo end.
Proof. intros Hp Hl. unfold merge_events. rewrite Hp, Hl. reflexivity. Qed.

(** all rules at once: the object after the queue content that replaces the pair equals the
    object after the two events in order. [o] is the object on the target before the pair;
    [cur] = [o] and [new] = the expected object are what the caches hold when the pair is
    consistent with the state (prev applies to [o], last applies to the result). *)
Theorem merge_effect pol p l (o : option obj) :
  (* consistency of the pair with the state *)
  match ce_kind p, o with
  | KAdded _, None | KModified _, Some _ | KRemoved, Some _ => True
  | _, _ => False end ->
  match ce_kind l, ev_effect (ce_kind p) o with
  | KAdded _, None | KModified _, Some _ | KRemoved, Some _ => True
  | _, _ => False end ->
  (forall dp, ce_kind p = KModified dp -> forall oo, o = Some oo -> wf_diff dp oo) ->
  (forall dl, ce_kind l = KModified dl -> forall oo, ev_effect (ce_kind p) o = Some oo -> wf_diff dl oo) ->
  let final := ev_effect (ce_kind l) (ev_effect (ce_kind p) o) in
  match merge_events pol (Some p) (Some l) o final with
  | MNo => True                                       (* both entries stay *)
  | MBoth => final = o                                (* both entries leave: nothing to do *)
  | MMerged (Some e) => ev_effect (ce_kind e) o = final
  | MMerged None | MBug => False
  end.
Proof.
  intros Hc1 Hc2 Hw1 Hw2 final. subst final. unfold merge_events.
  destruct (ce_kind p) as [a|dp|] eqn:Hp; destruct (ce_kind l) as [b|dl|] eqn:Hl; destruct o as [oo|];
    cbn [ev_effect option_map] in *; try contradiction.
  - (* added + modified *)
    cbn [ce_kind]. cbn [ev_effect]. f_equal; try apply merge_added_modified_effect.
  - (* added + removed *) destruct pol; cbn; auto.
  - (* modified + modified *)
    cbn [ce_kind ev_effect option_map]. f_equal.
    apply merge_mod_effect; [apply (Hw1 dp eq_refl oo eq_refl)|apply (Hw2 dl eq_refl _ eq_refl)].
  - (* modified + removed *) destruct pol; cbn; auto; rewrite ?Hl; reflexivity.
  - (* removed + added *)
    destruct pol; cbn; auto.
    destruct (md_empty (odiff b oo)) eqn:He.
    + apply md_empty_odiff in He. subst. reflexivity.
    + cbn [ce_kind ev_effect option_map]. f_equal. apply apply_mod_odiff.
Qed.

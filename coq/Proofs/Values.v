(** Proofs about [vdiff]: it is sound and complete for structural equality. *)
From Hermes Require Import Model.Values.
From Coq Require Import Lia.

Section value_ind.
  Variable P : value -> Prop.
  Hypothesis HNone : P VNone.
  Hypothesis HBool : forall b, P (VBool b).
  Hypothesis HInt : forall z, P (VInt z).
  Hypothesis HFloat : forall z, P (VFloat z).
  Hypothesis HStr : forall s, P (VStr s).
  Hypothesis HBytes : forall s, P (VBytes s).
  Hypothesis HDate : forall d, P (VDate d).
  Hypothesis HList : forall l, Forall P l -> P (VList l).
  Hypothesis HDict : forall d, Forall (fun kv => P (snd kv)) d -> P (VDict d).

  Fixpoint value_ind' (v : value) : P v :=
    match v with
    | VNone => HNone | VBool b => HBool b | VInt z => HInt z | VFloat z => HFloat z
    | VStr s => HStr s | VBytes s => HBytes s | VDate d => HDate d
    | VList l => HList l ((fix go (l : list value) : Forall P l :=
                             match l with [] => Forall_nil _ | x :: xs => Forall_cons _ (value_ind' x) (go xs) end) l)
    | VDict d => HDict d ((fix go (d : list (str * value)) : Forall (fun kv => P (snd kv)) d :=
                             match d with [] => Forall_nil _ | (k, x) :: xs => Forall_cons (k, x) (value_ind' x) (go xs) end) d)
    end.
End value_ind.

Lemma str_eqb_eq a b : str_eqb a b = true <-> a = b.
Proof.
  revert b; induction a as [|x xs IH]; intros [|y ys]; simpl; try (split; congruence).
  rewrite andb_true_iff, N.eqb_eq, IH. split; [intros [-> ->]; reflexivity | intros H; inversion H; auto].
Qed.

Lemma dt_eqb_eq a b : dt_eqb a b = true <-> a = b.
Proof.
  destruct a, b; unfold dt_eqb; simpl.
  rewrite !andb_true_iff, !N.eqb_eq. split; [intros [[[[[-> ->] ->] ->] ->] ->]; reflexivity|].
  intros H; inversion H; auto 10.
Qed.

Lemma negb_false_true b : negb b = false <-> b = true.
Proof. destruct b; simpl; split; congruence. Qed.

Theorem vdiff_eq : forall a b, vdiff a b = false <-> a = b.
Proof.
  induction a as [| x | x | x | x | x | x | la IH | da IH] using value_ind';
    intros b; destruct b as [| y | y | y | y | y | y | lb | db]; simpl;
    try (split; [discriminate | discriminate]); try (split; congruence).
  - rewrite negb_false_true, Bool.eqb_true_iff. split; congruence.
  - rewrite negb_false_true, Z.eqb_eq. split; congruence.
  - rewrite negb_false_true, Z.eqb_eq. split; congruence.
  - rewrite negb_false_true, str_eqb_eq. split; congruence.
  - rewrite negb_false_true, str_eqb_eq. split; congruence.
  - rewrite negb_false_true, dt_eqb_eq. split; congruence.
  - (* lists *)
    revert lb. induction IH as [|x xs Hx Hxs IHl]; intros [|y ys]; try (split; congruence).
    rewrite orb_false_iff, Hx. specialize (IHl ys). split.
    + intros [-> H]. apply IHl in H. congruence.
    + intros H; inversion H; subst. split; [reflexivity|]. apply IHl. reflexivity.
  - (* dicts *)
    revert db. induction IH as [|[k x] xs Hx Hxs IHl]; intros [|[k' y] ys]; try (split; congruence).
    simpl in Hx. rewrite !orb_false_iff, negb_false_true, str_eqb_eq, Hx. specialize (IHl ys). split.
    + intros [[-> ->] H]. apply IHl in H. congruence.
    + intros H; inversion H; subst. repeat split; try reflexivity. apply IHl. reflexivity.
Qed.

Corollary vdiff_refl a : vdiff a a = false.
Proof. apply vdiff_eq. reflexivity. Qed.

Corollary vdiff_sym a b : vdiff a b = vdiff b a.
Proof.
  destruct (vdiff a b) eqn:E1, (vdiff b a) eqn:E2; try reflexivity.
  - apply vdiff_eq in E2. subst. rewrite vdiff_refl in E1. discriminate.
  - apply vdiff_eq in E1. subst. rewrite vdiff_refl in E2. discriminate.
Qed.

Corollary veqb_eq a b : veqb a b = true <-> a = b.
Proof. unfold veqb. rewrite negb_true_iff. apply vdiff_eq. Qed.

(** Type sensitivity, the look-alikes the property names: 1, 1.0, True, "1". *)
Lemma vdiff_lookalikes f s :
  vdiff (VInt 1) (VFloat f) = true /\ vdiff (VInt 1) (VBool true) = true /\
  vdiff (VInt 1) (VStr s) = true /\ vdiff (VFloat f) (VBool true) = true /\
  vdiff (VList []) VNone = true /\ vdiff (VDict []) (VList []) = true.
Proof. repeat split. Qed.

Definition value_eq_dec (a b : value) : {a = b} + {a <> b}.
Proof.
  destruct (vdiff a b) eqn:E; [right|left].
  - intros ->. rewrite vdiff_refl in E. discriminate.
  - apply vdiff_eq. exact E.
Defined.

(** Trashbin decisions of the client model (C10). *)
From Hermes Require Import Model.Objects Model.Client Proofs.Values Proofs.Objects.
From RecordUpdate Require Import RecordSet.
Import RecordSetNotations.

Section Trash.
Variable c : ccfg.
Variable outcome : nat -> hres.

(** *** the purge leaves an object alone until its retention is over *)
Theorem purge_respects_retention st t k now o r ts :
  r_trash st !! (t, k) = Some o ->
  cc_retention c = Some r ->
  o !! cc_ts c = Some (VInt ts) ->
  (now - r <= ts)%Z ->
  purge_one c outcome st t k now = st.
Proof.
  intros Ho Hr Hts Hle. unfold purge_one. destruct (exc st); [reflexivity|].
  rewrite Ho, Hr, Hts. assert ((ts <? now - r)%Z = false) as -> by (apply Z.ltb_ge; exact Hle).
  reflexivity.
Qed.

(** with retention off, or once it is over, the purge hands a 'removed' to the processing *)
Theorem purge_expired st t k now o :
  exc st = false ->
  r_trash st !! (t, k) = Some o ->
  (cc_retention c = None \/
   exists r ts, cc_retention c = Some r /\ o !! cc_ts c = Some (VInt ts) /\ (ts < now - r)%Z) ->
  purge_one c outcome st t k now =
    let ev := CEv t k KRemoved 0 0 false in
    if q_has_obj (queue st) (t, k) && negb (q_is_parent (queue st) (t, k))
    then fst (process_remote c outcome FUEL st ev None false false)
    else fst (process_remote c outcome FUEL st ev None true false).
Proof.
  intros Hx Ho H. unfold purge_one. rewrite Hx, Ho.
  destruct H as [Hn|(r & ts & Hr & Hts & Hlt)].
  - rewrite Hn. reflexivity.
  - rewrite Hr, Hts. assert ((ts <? now - r)%Z = true) as -> by (apply Z.ltb_lt; exact Hlt). reflexivity.
Qed.

(** *** choice between trashed / removed / recycled on the local (target) side *)
Definition not_deferred (st0 : cstate) (lv : cev) (enq : bool) : Prop :=
  enq && (q_has_obj (queue st0) (ce_id lv) || (q_is_parent (queue st0) (ce_id lv) && fk_events c (ce_kind lv))) = false.
Definition stepped (st : cstate) (lv : cev) : cstate :=
  st <| curstep := ce_step lv |> <| curpartial := ce_partial lv |>.

Theorem removal_is_trashed_within_retention f st remote lv enq ct r st1 :
  find_ctype c (ce_t lv) = Some ct -> ce_kind lv = KRemoved ->
  not_deferred (stepped st lv) lv enq ->
  cc_retention c = Some r -> l_trash st !! ce_id lv = None ->
  local_trashed outcome ct (stepped st lv) lv false = (st1, true) ->
  process_local c outcome (S f) st remote (Some lv) enq false = (st1, true).
Proof.
  intros Hf Hk Hd Hr Ht Hop. unfold not_deferred, stepped in *. cbn [process_local]. rewrite Hf. cbn [negb andb].
  rewrite Hd, Hk, Hr. cbn. rewrite Ht. cbn. cbn in Hop. rewrite Hop. reflexivity.
Qed.

Theorem removal_is_immediate_without_retention f st remote lv enq ct st1 :
  find_ctype c (ce_t lv) = Some ct -> ce_kind lv = KRemoved ->
  not_deferred (stepped st lv) lv enq ->
  cc_retention c = None ->
  local_removed outcome (stepped st lv) lv false = (st1, true) ->
  process_local c outcome (S f) st remote (Some lv) enq false = (st1, true).
Proof.
  intros Hf Hk Hd Hr Hop. unfold not_deferred, stepped in *. cbn [process_local]. rewrite Hf. cbn [negb andb].
  rewrite Hd, Hk, Hr. cbn. cbn in Hop. rewrite Hop. reflexivity.
Qed.

Theorem readd_is_recycled_within_retention f st remote lv enq ct r a tr st1 :
  find_ctype c (ce_t lv) = Some ct -> ce_kind lv = KAdded a ->
  not_deferred (stepped st lv) lv enq ->
  cc_retention c = Some r -> l_trash st !! ce_id lv = Some tr ->
  local_recycled c outcome ct (stepped st lv) lv false = (st1, true) ->
  process_local c outcome (S f) st remote (Some lv) enq false = (st1, true).
Proof.
  intros Hf Hk Hd Hr Ht Hop. unfold not_deferred, stepped in *. cbn [process_local]. rewrite Hf. cbn [negb andb].
  rewrite Hd, Hk, Hr. cbn. rewrite Ht. cbn. cbn in Hop. rewrite Hop. reflexivity.
Qed.

(** *** effects on the target-side caches when the handler succeeds *)
Theorem trashed_effect ct st lv o :
  outcome (ncall st) = HOk ->
  l_live st !! ce_id lv = Some o -> l_trash st !! ce_id lv = None -> poison st = [] ->
  let r := local_trashed outcome ct st lv false in
  snd r = true /\
  l_live (fst r) = delete (ce_id lv) (l_live st) /\
  l_trash (fst r) = <[ce_id lv := set_ts ct (ce_ts lv) o]> (l_trash st) /\
  exists cl, calls (fst r) = calls st ++ [cl] /\ cl_kind cl = HTrashed /\ cl_old cl = Some o.
Proof.
  intros Ho Hl Ht Hp. cbn zeta. unfold local_trashed, call_handler. rewrite Ho. cbn.
  rewrite Hl. unfold app_l_trash, app_lc_trash, wappend. cbn. rewrite Hp, Ht. cbn.
  destruct (lc_live st !! ce_id lv) as [oc|] eqn:Hc; cbn.
  - destruct (lc_trash st !! ce_id lv); cbn; (split; [reflexivity|]); (split; [reflexivity|]); (split; [reflexivity|]);
      eexists; (split; [reflexivity|]); split; reflexivity.
  - (split; [reflexivity|]); (split; [reflexivity|]); (split; [reflexivity|]);
      eexists; (split; [reflexivity|]); split; reflexivity.
Qed.

Theorem recycled_effect ct st lv tr0 :
  outcome (ncall st) = HOk -> cc_remed c = RDisabled -> find_ctype c (ce_t lv) <> None ->
  l_trash st !! ce_id lv = Some tr0 -> l_live st !! ce_id lv = None -> poison st = [] ->
  let tr := del_ts ct tr0 in
  let o := new_obj (ce_kind lv) in
  let r := local_recycled c outcome ct st lv false in
  snd r = true /\
  l_live (fst r) = <[ce_id lv := tr]> (l_live st) /\
  l_trash (fst r) = delete (ce_id lv) (l_trash st) /\
  (exists cl, calls (fst r) = calls st ++ [cl] /\ cl_kind cl = HRecycled /\ cl_new cl = Some tr) /\
  (* the differences are queued as one 'modified', and applying it to the recycled object
     yields the re-added object *)
  (md_empty (odiff o tr) = false ->
   exists e, queue (fst r) = queue st ++ [e] /\ q_remote e = None /\
             ce_kind (q_local e) = KModified (odiff o tr) /\ apply_mod (odiff o tr) tr = o) /\
  (md_empty (odiff o tr) = true -> queue (fst r) = queue st).
Proof.
  intros Ho Hr Hf Ht Hl Hp. cbn zeta. unfold local_recycled, call_handler. rewrite Ht, Ho. cbn.
  unfold app_l_live, app_lc_live, wappend. cbn. rewrite Hp, Hl. cbn.
  set (tr := del_ts ct tr0). set (o := new_obj (ce_kind lv)).
  unfold q_append, set_queue, remediate. cbn. rewrite Hr.
  destruct (find_ctype c (ce_t lv)) as [ct'|]; [|congruence].
  destruct (lc_trash st !! ce_id lv) as [x|] eqn:Hx; cbn;
  [destruct (lc_live st !! ce_id lv) eqn:Hy; cbn|];
  destruct (md_empty (odiff o tr)) eqn:Hm; cbn;
  (split; [reflexivity|]); (split; [reflexivity|]); (split; [reflexivity|]);
  (split; [eexists; split; [reflexivity|split; reflexivity]|]);
  (split; [intros Hq; try discriminate|intros Hq; try discriminate; try reflexivity]);
  eexists; (split; [reflexivity|]); (split; [reflexivity|]); (split; [reflexivity|]); apply apply_mod_odiff.
Qed.
End Trash.

(** The circular-reference check (path-local DFS): it never rejects an acyclic
    foreign-key graph (diamonds included) and it always terminates. *)
From Hermes Require Import Model.FKGraph.
From Coq Require Import Lia.

Lemma fk_eqb_spec a b : reflect (a = b) (fk_eqb a b).
Proof.
  unfold fk_eqb. destruct a as [f1 a1 t1 x1], b as [f2 a2 t2 x2]; simpl.
  destruct (Nat.eqb_spec f1 f2), (Nat.eqb_spec a1 a2), (Nat.eqb_spec t1 t2), (Nat.eqb_spec x1 x2);
    simpl; constructor; congruence.
Qed.
Lemma fkmem_In e l : fkmem e l = true <-> In e l.
Proof.
  unfold fkmem. rewrite existsb_exists. split.
  - intros [x [Hx He]]. destruct (fk_eqb_spec e x); [subst; auto | discriminate].
  - intros H. exists e. split; auto. destruct (fk_eqb_spec e e); congruence.
Qed.

Lemma last_In_cons {A} (l : list A) (a d : A) : In (last (a :: l) d) (a :: l).
Proof.
  revert a. induction l as [|b l IH]; intros a; [left; reflexivity|].
  change (last (a :: b :: l) d) with (last (b :: l) d). right. apply IH.
Qed.

Section G.
Variable E : list fkdecl.

(** chain: consecutive foreign keys, newest first *)
Inductive chain : list fkdecl -> Prop :=
| chain_nil : chain []
| chain_one e : In e E -> chain [e]
| chain_cons e e' p : In e E -> fk_to e' = fk_from e -> chain (e' :: p) -> chain (e :: e' :: p).

(** a genuine cycle: a chain whose newest key leads back to the oldest key's type *)
Definition has_cycle : Prop :=
  exists e p, chain (e :: p) /\ fk_from (last (e :: p) e) = fk_to e.

Definition starts_at (fks path : list fkdecl) : Prop :=
  forall fk, In fk fks -> In fk E /\ match path with [] => True | h :: _ => fk_to h = fk_from fk end.

Lemma out_In t e : In e (out E t) -> In e E /\ fk_from e = t.
Proof. unfold out. intros H. apply filter_In in H as [HE Hf]. apply Nat.eqb_eq in Hf. auto. Qed.

Lemma out_starts t path h : path = h :: tl path -> fk_to h = t -> starts_at (out E t) path.
Proof.
  intros Hp Ht fk Hin. apply out_In in Hin as [HE Hf]. split; auto. rewrite Hp. congruence.
Qed.

Lemma dfs_sound fuel : forall fks path,
  chain path -> starts_at fks path -> dfs E fuel fks path = Some true -> has_cycle.
Proof.
  induction fuel as [|fuel IH]; intros fks path Hc Hs Hd; [discriminate|].
  simpl in Hd. induction fks as [|fk rest IHr]; [discriminate|].
  destruct (fkmem fk path) eqn:Hm.
  - apply fkmem_In in Hm. clear Hd IHr.
    destruct (Hs fk (or_introl eq_refl)) as [HfkE Hhead].
    revert Hc Hhead.
    assert (forall q, chain q -> In fk q -> match q with [] => True | h :: _ => fk_to h = fk_from fk end -> has_cycle) as K.
    { induction q as [|h q IHq]; intros Hq Hin Hh; [inversion Hin|].
      clear IHq.
      assert (exists pre post, h :: q = pre ++ fk :: post) as (pre & post & Hsplit) by (apply in_split; exact Hin).
      assert (chain (pre ++ [fk])) as Hpre.
      { clear Hh Hin. revert h q Hq Hsplit. induction pre as [|x pre IHp]; intros h q Hq Hsplit.
        - simpl. apply chain_one. exact HfkE.
        - simpl in Hsplit. injection Hsplit as Hx Hq'. subst x.
          destruct pre as [|y pre'].
          + simpl in *. subst q. inversion Hq; subst. apply chain_cons; auto. apply chain_one; auto.
          + simpl in *. subst q. inversion Hq; subst. apply chain_cons; auto.
            apply (IHp y (pre' ++ fk :: post)); auto. }
      destruct pre as [|x pre'].
      - simpl in Hsplit. injection Hsplit as Hh' _. subst h.
        exists fk, []. split; [apply chain_one; auto|]. simpl. symmetry. exact Hh.
      - simpl in Hsplit. injection Hsplit as Hx _. subst x.
        exists h, (pre' ++ [fk]). split; [exact Hpre|].
        replace (last (h :: pre' ++ [fk]) h) with fk.
        + symmetry; exact Hh.
        + change (h :: pre' ++ [fk]) with ((h :: pre') ++ [fk]). rewrite last_last. reflexivity. }
    intros Hc Hhead. apply (K path Hc Hm Hhead).
  - destruct (dfs E fuel (out E (fk_to fk)) (fk :: path)) as [[|]|] eqn:Hrec; try discriminate.
    + destruct (Hs fk (or_introl eq_refl)) as [HfkE Hhead].
      apply (IH (out E (fk_to fk)) (fk :: path)); auto.
      * destruct path as [|h p]; [apply chain_one; auto | apply chain_cons; auto].
      * apply (out_starts (fk_to fk) (fk :: path) fk); reflexivity.
    + apply IHr; auto. intros fk' Hin. apply Hs. right; exact Hin.
Qed.

(** the path never repeats a key, so its length is bounded by the number of keys:
    the recursion always ends with an answer *)
Lemma dfs_terminates fuel : forall fks path,
  NoDup path -> incl path E -> (forall fk, In fk fks -> In fk E) ->
  length E < fuel + length path -> dfs E fuel fks path <> None.
Proof.
  induction fuel as [|fuel IH]; intros fks path Hnd Hincl Hf Hlen.
  - exfalso. assert (length path <= length E) by (apply NoDup_incl_length; assumption). lia.
  - simpl. induction fks as [|fk rest IHr]; [discriminate|].
    destruct (fkmem fk path) eqn:Hm; [discriminate|].
    assert (Hni : ~ In fk path) by (intros Hin; apply fkmem_In in Hin; congruence).
    assert (Hrec : dfs E fuel (out E (fk_to fk)) (fk :: path) <> None).
    { apply IH.
      - constructor; assumption.
      - intros x [<-|Hx]; [apply Hf; left; reflexivity|apply Hincl; exact Hx].
      - intros x Hx. apply out_In in Hx. tauto.
      - simpl. lia. }
    destruct (dfs E fuel (out E (fk_to fk)) (fk :: path)) as [[|]|]; try discriminate; [|contradiction].
    apply IHr. intros x Hx. apply Hf. right; exact Hx.
Qed.

Lemma circular_from_sound fuel ts :
  circular_from E fuel ts = Some true -> has_cycle.
Proof.
  induction ts as [|t r IH]; cbn [circular_from]; [discriminate|].
  destruct (dfs E fuel (out E t) []) as [[|]|] eqn:Hd; try discriminate.
  - intros _. apply (dfs_sound fuel (out E t) []); [constructor| |exact Hd].
    intros fk Hin. apply out_In in Hin. tauto.
  - exact IH.
Qed.

Lemma circular_from_terminates ts :
  circular_from E (S (S (length E))) ts <> None.
Proof.
  remember (S (S (length E))) as fuel eqn:Hfuel.
  induction ts as [|t r IH]; cbn [circular_from]; [discriminate|].
  assert (H : dfs E fuel (out E t) [] <> None).
  { apply dfs_terminates; [constructor|intros x []| |simpl; lia].
    intros x Hx. apply out_In in Hx. tauto. }
  destruct (dfs E fuel (out E t) []) as [[|]|]; [discriminate|exact IH|contradiction].
Qed.

(** ** Completeness: a genuine cycle is always found *)
Lemma dfs_S fuel fks path :
  dfs E (S fuel) fks path =
    match fks with
    | [] => Some false
    | fk :: rest =>
        if fkmem fk path then Some true
        else match dfs E fuel (out E (fk_to fk)) (fk :: path) with
             | None => None
             | Some true => Some true
             | Some false => dfs E (S fuel) rest path
             end
    end.
Proof. destruct fks; reflexivity. Qed.

Lemma dfs_mono fuel : forall fks path b,
  dfs E fuel fks path = Some b -> dfs E (S fuel) fks path = Some b.
Proof.
  induction fuel as [|fuel IH]; intros fks path b H; [discriminate|].
  revert H. induction fks as [|fk rest IHr]; intros H.
  - rewrite dfs_S in H. rewrite dfs_S. exact H.
  - rewrite dfs_S in H. rewrite (dfs_S (S fuel)).
    destruct (fkmem fk path); [exact H|].
    destruct (dfs E fuel (out E (fk_to fk)) (fk :: path)) as [[|]|] eqn:Hd; try discriminate.
    + rewrite (IH _ _ _ Hd). exact H.
    + rewrite (IH _ _ _ Hd). apply IHr. exact H.
Qed.

Lemma dfs_mono_plus n fuel fks path b :
  dfs E fuel fks path = Some b -> dfs E (n + fuel) fks path = Some b.
Proof. induction n as [|n IH]; intros H; [exact H|]. simpl. apply dfs_mono. apply IH. exact H. Qed.

Lemma dfs_false_unroll fuel fks path :
  dfs E (S fuel) fks path = Some false ->
  forall fk, In fk fks -> fkmem fk path = false /\ dfs E fuel (out E (fk_to fk)) (fk :: path) = Some false.
Proof.
  induction fks as [|x rest IHr]; intros H fk Hin; [inversion Hin|].
  rewrite dfs_S in H.
  destruct (fkmem x path) eqn:Hm; [discriminate|].
  destruct (dfs E fuel (out E (fk_to x)) (x :: path)) as [[|]|] eqn:Hd; try discriminate.
  destruct Hin as [<-|Hin]; [split; assumption|]. apply IHr; assumption.
Qed.

(** forward walks, oldest key first *)
Inductive walk : list fkdecl -> Prop :=
| walk_one e : In e E -> walk [e]
| walk_cons e e' w : In e E -> fk_to e = fk_from e' -> walk (e' :: w) -> walk (e :: e' :: w).

Lemma dfs_false_walk : forall w fuel fks path,
  dfs E fuel fks path = Some false -> walk w -> (forall e, hd_error w = Some e -> In e fks) ->
  length w <= fuel -> NoDup w /\ (forall e, In e w -> ~ In e path).
Proof.
  induction w as [|e w IH]; intros fuel fks path Hd Hw Hhd Hlen; [inversion Hw|].
  destruct fuel as [|fuel]; [simpl in Hlen; lia|].
  destruct (dfs_false_unroll fuel fks path Hd e (Hhd e eq_refl)) as [Hm Hrec].
  assert (Hni : ~ In e path) by (intros Hin; apply fkmem_In in Hin; congruence).
  inversion Hw as [x Hx|x e' w' Hx Hto Hw']; subst.
  - split; [constructor; [intros []|constructor]|]. intros x [<-|[]]. exact Hni.
  - destruct (IH fuel (out E (fk_to e)) (e :: path) Hrec Hw') as [Hnd Hdis].
    + intros x Hx'. simpl in Hx'. inversion Hx'; subst. unfold out. apply filter_In. split.
      * inversion Hw'; assumption.
      * apply Nat.eqb_eq. symmetry. exact Hto.
    + simpl in Hlen. simpl. lia.
    + split.
      * constructor; [|exact Hnd]. intros Hin. apply (Hdis e Hin). left. reflexivity.
      * intros x [<-|Hin]; [exact Hni|]. intros Hp. apply (Hdis x Hin). right. exact Hp.
Qed.

(** a chain (newest first) read backwards is a walk *)
Lemma chain_rev_walk p : chain p -> p <> [] -> walk (rev p).
Proof.
  induction 1 as [|e He|e e' p He Hto Hc IH]; intros Hne; [contradiction|simpl; constructor; exact He|].
  specialize (IH ltac:(discriminate)). simpl in *.
  (* rev (e' :: p) ++ [e] : append the newest key at the end of the walk *)
  assert (K : forall w x, walk (w ++ [x]) -> fk_to x = fk_from e -> walk ((w ++ [x]) ++ [e])).
  { induction w as [|y w IHw]; intros x Hwx Hx; simpl in *.
    - inversion Hwx; subst. apply walk_cons; [assumption|exact Hx|constructor; exact He].
    - destruct w as [|z w']; simpl in *.
      + inversion Hwx; subst. apply walk_cons; [assumption|assumption|].
        apply (IHw x); assumption.
      + inversion Hwx; subst. apply walk_cons; [assumption|assumption|]. apply (IHw x); assumption. }
  apply (K (rev p) e'); assumption.
Qed.

Lemma walk_app_last w x e : walk (w ++ [x]) -> In e E -> fk_to x = fk_from e -> walk ((w ++ [x]) ++ [e]).
Proof.
  revert x. induction w as [|y w IHw]; intros x Hwx He Hx; simpl in *.
  - inversion Hwx; subst. apply walk_cons; [assumption|exact Hx|constructor; exact He].
  - destruct w as [|z w']; simpl in *.
    + inversion Hwx; subst. apply walk_cons; [assumption|assumption|]. apply (IHw x); assumption.
    + inversion Hwx; subst. apply walk_cons; [assumption|assumption|]. apply (IHw x); assumption.
Qed.

Lemma walk_In w e : walk w -> In e w -> In e E.
Proof.
  induction 1 as [x Hx|x e' w Hx Hto Hw IH]; intros Hin.
  - destruct Hin as [<-|[]]. exact Hx.
  - destruct Hin as [<-|Hin]; [exact Hx|apply IH; exact Hin].
Qed.

Lemma dfs_complete t :
  has_cycle -> (exists e p, chain (e :: p) /\ fk_from (last (e :: p) e) = fk_to e /\ fk_from (last (e :: p) e) = t) ->
  dfs E (S (S (length E))) (out E t) [] <> Some false.
Proof.
  intros _ (e & p & Hc & Hcyc & Ht) Hd.
  set (e0 := last (e :: p) e) in *.
  assert (Hw : walk (rev (e :: p))) by (apply chain_rev_walk; [exact Hc|discriminate]).
  (* rev (e::p) = e0 :: ... ends with e; closing key e0 again gives a walk with a repeat *)
  assert (Hrev : exists m, rev (e :: p) = e0 :: m).
  { destruct (rev (e :: p)) as [|x m] eqn:Hr.
    - apply (f_equal (@length _)) in Hr. rewrite rev_length in Hr. discriminate.
    - exists m. f_equal. unfold e0.
      assert (Hx : rev (rev (e :: p)) = rev (x :: m)) by (rewrite Hr; reflexivity).
      rewrite rev_involutive in Hx. rewrite Hx. simpl. rewrite last_last. reflexivity. }
  destruct Hrev as [m Hm].
  assert (He0 : In e0 E) by (apply (walk_In (rev (e :: p))); [exact Hw|rewrite Hm; left; reflexivity]).
  assert (Hw2 : walk (rev (e :: p) ++ [e0])).
  { simpl. simpl in Hw. apply walk_app_last; [exact Hw|exact He0|]. symmetry. exact Hcyc. }
  set (w := rev (e :: p) ++ [e0]) in *.
  apply (dfs_mono_plus (length w)) in Hd.
  destruct (dfs_false_walk w _ _ _ Hd Hw2) as [Hnd _].
  - intros x Hx. unfold w in Hx. rewrite Hm in Hx. simpl in Hx. inversion Hx; subst x.
    unfold out. apply filter_In. split; [exact He0|]. apply Nat.eqb_eq. exact Ht.
  - lia.
  - unfold w in Hnd. rewrite Hm in Hnd. simpl in Hnd. inversion Hnd as [|? ? Hni _]; subst.
    apply Hni. apply in_or_app. right. left. reflexivity.
Qed.

Lemma circular_from_false fuel ts :
  circular_from E fuel ts = Some false -> forall t, In t ts -> dfs E fuel (out E t) [] = Some false.
Proof.
  induction ts as [|x r IH]; cbn [circular_from]; intros H t Hin; [inversion Hin|].
  destruct (dfs E fuel (out E x) []) as [[|]|] eqn:Hd; try discriminate.
  destruct Hin as [<-|Hin]; [exact Hd|]. apply IH; assumption.
Qed.
End G.

(** An acyclic foreign-key graph - a diamond, or several keys to a type that has
    a parent - is never reported as circular. *)
Theorem acyclic_never_circular s :
  ~ has_cycle (fs_fks s) -> schema_check s <> Circular.
Proof.
  intros Hac. unfold schema_check.
  destruct (flat_map _ (fs_fks s)); [|discriminate].
  destruct (circular_from (fs_fks s) _ _) as [[|]|] eqn:Hc; try discriminate.
  exfalso. apply Hac. eapply circular_from_sound. exact Hc.
Qed.

Theorem check_always_decides s : schema_check s <> OutOfFuel.
Proof.
  unfold schema_check. destruct (flat_map _ (fs_fks s)); [|discriminate].
  assert (H := circular_from_terminates (fs_fks s) (seq 0 (length (fs_types s)))).
  destruct (circular_from (fs_fks s) _ _) as [[|]|]; try discriminate. contradiction.
Qed.

(** the shared-list variant the code used before the repair rejects this diamond *)
Example diamond_accepted :
  let t := FType [0] [0] in
  let pair := FType [0; 1] [0; 1] in
  schema_check (FSchema [t; FType [0] [0]; pair; pair]
                        [FK 1 0 0 0; FK 2 0 1 0; FK 2 1 0 0; FK 3 0 1 0; FK 3 1 1 0]) = Accepted.
Proof. vm_compute. reflexivity. Qed.

(** A genuinely cyclic foreign-key graph is always rejected as circular. *)
Theorem cyclic_always_circular s :
  has_cycle (fs_fks s) ->
  (forall d, In d (fs_fks s) -> fk_check s d = None) ->
  schema_check s = Circular.
Proof.
  intros Hcyc Hvalid. unfold schema_check.
  assert (Hnil : flat_map (fun d => match fk_check s d with Some e => [e] | None => [] end) (fs_fks s) = []).
  { assert (Hgen : forall l, (forall d, In d l -> fk_check s d = None) ->
            flat_map (fun d => match fk_check s d with Some e => [e] | None => [] end) l = []).
    { induction l as [|d r IH]; intros Hv; [reflexivity|]. simpl. rewrite (Hv d (or_introl eq_refl)). simpl.
      apply IH. intros x Hx. apply Hv. right; exact Hx. }
    apply Hgen. exact Hvalid. }
  rewrite Hnil.
  destruct (circular_from (fs_fks s) _ _) as [[|]|] eqn:Hc; [reflexivity| |].
  - exfalso. destruct Hcyc as (e & p & Hch & Hback).
    set (t := fk_from (last (e :: p) e)).
    assert (Hall : forall q, chain (fs_fks s) q -> forall x, In x q -> In x (fs_fks s)).
    { induction 1 as [|a Ha|a a' q Ha Hto Hq IHq]; intros x Hx.
      - inversion Hx.
      - destruct Hx as [<-|[]]. exact Ha.
      - destruct Hx as [<-|Hx]; [exact Ha|apply IHq; exact Hx]. }
    assert (Hin : In (last (e :: p) e) (fs_fks s)) by (apply (Hall (e :: p) Hch); apply last_In_cons).
    assert (Ht : In t (seq 0 (length (fs_types s)))).
    { apply in_seq. split; [lia|]. simpl. specialize (Hvalid _ Hin). unfold fk_check in Hvalid.
      destruct (nth_error (fs_types s) (fk_from (last (e :: p) e))) eqn:Hn; [|discriminate].
      apply nth_error_Some. unfold t. congruence. }
    apply (dfs_complete (fs_fks s) t); [exists e, p; auto|exists e, p; auto|].
    eapply circular_from_false; eassumption.
  - exfalso. eapply circular_from_terminates. exact Hc.
Qed.

(** ** the validity rules of one declared key, declaratively *)
Definition fk_valid (s : fschema) (d : fkdecl) : Prop :=
  exists ft tg,
    nth_error (fs_types s) (fk_from d) = Some ft /\ In (fk_attr d) (ft_attrs ft) /\ In (fk_attr d) (ft_pkey ft) /\
    nth_error (fs_types s) (fk_to d) = Some tg /\ In (fk_toattr d) (ft_attrs tg) /\ ft_pkey tg = [fk_toattr d].

Lemma nmem_In a l : nmem a l = true <-> In a l.
Proof.
  unfold nmem. rewrite existsb_exists. split.
  - intros (x & Hx & E). apply Nat.eqb_eq in E. subst. exact Hx.
  - intros H. exists a. split; [exact H|apply Nat.eqb_refl].
Qed.

(** [_setupForeignKeys] accepts a key exactly when: its attribute exists in its own type and
    belongs to that type's primary key, the target type exists, the target attribute exists
    there and is that type's (single-attribute) primary key *)
Theorem fk_check_exact s d : fk_check s d = None <-> fk_valid s d.
Proof.
  unfold fk_check, fk_valid. split.
  - destruct (nth_error (fs_types s) (fk_from d)) as [ft|] eqn:Hf; [|discriminate].
    destruct (nmem (fk_attr d) (ft_attrs ft)) eqn:Ha; cbn [negb]; [|discriminate].
    destruct (nmem (fk_attr d) (ft_pkey ft)) eqn:Hp; cbn [negb]; [|discriminate].
    destruct (nth_error (fs_types s) (fk_to d)) as [tg|] eqn:Ht; [|discriminate].
    destruct (nmem (fk_toattr d) (ft_attrs tg)) eqn:Hta; cbn [negb]; [|discriminate].
    destruct (ft_pkey tg) as [|p [|q r]] eqn:Hk; try discriminate.
    destruct (Nat.eqb_spec p (fk_toattr d)) as [->|]; [|discriminate].
    intros _. exists ft, tg. rewrite <- !nmem_In. repeat split; auto.
  - intros (ft & tg & -> & Ha & Hp & -> & Hta & Hk).
    apply nmem_In in Ha, Hp, Hta. rewrite Ha, Hp, Hta, Hk. cbn. rewrite Nat.eqb_refl. reflexivity.
Qed.

(** ** acceptance is exact: a schema's foreign keys are accepted iff every declared key is
    valid and the graph has no cycle *)
Theorem schema_check_exact s :
  schema_check s = Accepted <-> (forall d, In d (fs_fks s) -> fk_valid s d) /\ ~ has_cycle (fs_fks s).
Proof.
  split.
  - intros Hacc.
    assert (Hall : forall d, In d (fs_fks s) -> fk_check s d = None).
    { unfold schema_check in Hacc.
      destruct (flat_map _ (fs_fks s)) eqn:Hfm; [|discriminate].
      intros d Hd. destruct (fk_check s d) as [e|] eqn:He; [|reflexivity].
      exfalso. assert (Hin : In e (flat_map (fun d => match fk_check s d with Some e => [e] | None => [] end) (fs_fks s))).
      { apply in_flat_map. exists d. split; [exact Hd|]. rewrite He. left; reflexivity. }
      rewrite Hfm in Hin. destruct Hin. }
    split.
    + intros d Hd. apply fk_check_exact. auto.
    + intros Hc. rewrite (cyclic_always_circular s Hc Hall) in Hacc. discriminate.
  - intros [Hv Hac].
    pose proof (acyclic_never_circular s Hac) as H1. pose proof (check_always_decides s) as H2.
    unfold schema_check in *.
    assert (Hnil : flat_map (fun d => match fk_check s d with Some e => [e] | None => [] end) (fs_fks s) = []).
    { assert (Hgen : forall l, (forall d, In d l -> fk_check s d = None) ->
                flat_map (fun d => match fk_check s d with Some e => [e] | None => [] end) l = []).
      { induction l as [|x l IH]; intros Hl; [reflexivity|]. cbn. rewrite (Hl x (or_introl eq_refl)). cbn.
        apply IH. intros d Hd. apply Hl. right; exact Hd. }
      apply Hgen. intros d Hd. apply fk_check_exact. auto. }
    rewrite Hnil in *. destruct (circular_from _ _ _) as [[|]|]; congruence.
Qed.

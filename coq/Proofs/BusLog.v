(** The SQLite bus model is a faithful ordered log. *)
From Hermes Require Import Model.BusLog.
From Coq Require Import Lia Sorting.Sorted.

(** ids strictly increasing, none above the sequence; timestamps follow the clock *)
Inductive consec : list Z -> Prop :=
| consec_nil : consec []
| consec_one x : consec [x]
| consec_cons x l : consec (x + 1 :: l) -> consec (x :: x + 1 :: l).

Definition ids (b : bus) : list Z := map r_id (b_rows b).
Definition tss (b : bus) : list Z := map r_ts (b_rows b).

Record inv (b : bus) (now : Z) : Prop := {
  inv_consec : consec (ids b);
  inv_last : match b_seq b with
             | Some s => 1 <= s /\ (b_rows b <> [] -> last (ids b) 0 = s)
             | None => b_rows b = [] end;
  inv_ts_sorted : Sorted Z.le (tss b);
  inv_ts_now : Forall (fun t => t <= now) (tss b)
}.

Lemma inv0 now : inv bus0 now.
Proof. split; simpl; auto; constructor. Qed.

Lemma consec_app_last l x : consec l -> (l <> [] -> last l 0 + 1 = x) -> consec (l ++ [x]).
Proof.
  induction 1 as [|y|y l Hc IH]; intros Hl; simpl.
  - constructor.
  - specialize (Hl ltac:(discriminate)). simpl in Hl. subst x. constructor. constructor.
  - constructor. apply IH. intros _. apply Hl. discriminate.
Qed.

Lemma last_app_single {A} (l : list A) x d : last (l ++ [x]) d = x.
Proof. apply last_last. Qed.

Lemma Sorted_app_last l x : Sorted Z.le l -> Forall (fun t => t <= x) l -> Sorted Z.le (l ++ [x]).
Proof.
  induction l as [|y l IH]; intros Hs Hf; simpl; [constructor; constructor|].
  inversion Hs as [|? ? Hs' Hhd]; subst. inversion Hf as [|? ? Hy Hf']; subst.
  constructor; [apply IH; assumption|].
  destruct l as [|z l]; simpl; constructor; [exact Hy|]. inversion Hhd; assumption.
Qed.

Lemma inv_send b now p : inv b now -> inv (p_send p now b) now.
Proof.
  intros [Hc Hl Hs Hn]. unfold p_send, next_id. split; unfold ids, tss in *; simpl; rewrite ?map_app; simpl.
  - apply consec_app_last; [exact Hc|]. intros Hne. destruct (b_seq b) as [s|].
    + destruct Hl as [_ Hl]. rewrite Hl; [reflexivity|]. intros E. apply Hne. rewrite E. reflexivity.
    + rewrite Hl in Hne. contradiction.
  - destruct (b_seq b) as [s|]; (split; [try (destruct Hl; lia); lia|]); intros _; apply last_last.
  - apply Sorted_app_last; assumption.
  - apply Forall_app. split; [exact Hn|constructor; [lia|constructor]].
Qed.

(** purging by age keeps a suffix of the log (timestamps follow insertion order) *)
Lemma filter_sorted_suffix limit rows :
  Sorted Z.le (map r_ts rows) ->
  exists pre, rows = pre ++ filter (fun r => negb (r_ts r <? limit)) rows
              /\ Forall (fun r => r_ts r < limit) pre.
Proof.
  induction rows as [|r rows IH]; intros Hs; simpl; [exists []; split; [reflexivity|constructor]|].
  simpl in Hs. inversion Hs as [|? ? Hs' Hhd]; subst.
  destruct (Z.ltb_spec (r_ts r) limit) as [Hlt|Hge]; simpl.
  - destruct (IH Hs') as [pre [He Hf]]. exists (r :: pre). split; [simpl; f_equal; exact He|constructor; assumption].
  - exists []. split; [|constructor]. simpl. f_equal.
    assert (Hall : Forall (fun x => r_ts r <= r_ts x) rows).
    { clear IH. revert r Hs Hs' Hhd Hge. induction rows as [|x rows IHr]; intros r Hs Hs' Hhd Hge; [constructor|].
      simpl in *. inversion Hhd as [|? ? Hle]; subst. inversion Hs' as [|? ? Hs'' Hhd']; subst.
      constructor; [exact Hle|].
      assert (Hx : Forall (fun y => r_ts x <= r_ts y) rows).
      { apply (IHr x); try assumption. lia. }
      eapply Forall_impl; [|exact Hx]. simpl. intros; lia. }
    clear -Hall Hge. induction rows as [|x rows IHr]; [reflexivity|]. simpl.
    inversion Hall as [|? ? Hx Hall']; subst.
    destruct (Z.ltb_spec (r_ts x) limit); [lia|]. simpl. f_equal. apply IHr. exact Hall'.
Qed.

Lemma consec_tail x l : consec (x :: l) -> consec l.
Proof.
  intros H. remember (x :: l) as m eqn:Em. destruct H as [|y|y l' Hc].
  - discriminate.
  - inversion Em; subst. constructor.
  - inversion Em; subst. exact Hc.
Qed.

Lemma consec_suffix pre l : consec (pre ++ l) -> consec l.
Proof.
  induction pre as [|x pre IH]; intros H; [exact H|]. apply IH. simpl in H.
  eapply consec_tail. exact H.
Qed.

Lemma last_suffix {A} (pre l : list A) d : l <> [] -> last (pre ++ l) d = last l d.
Proof.
  intros Hne. induction pre as [|x pre IH]; [reflexivity|]. simpl.
  destruct (pre ++ l) eqn:E; [|exact IH]. destruct pre; simpl in E; [contradiction|discriminate].
Qed.

Lemma Sorted_suffix pre l : Sorted Z.le (pre ++ l) -> Sorted Z.le l.
Proof. induction pre as [|x pre IH]; intros H; [exact H|]. apply IH. inversion H; assumption. Qed.

Lemma inv_purge b now limit : inv b now -> inv (purge limit b) now.
Proof.
  intros [Hc Hl Hs Hn]. destruct (filter_sorted_suffix limit (b_rows b) Hs) as [pre [He _]].
  set (kept := filter (fun r => negb (r_ts r <? limit)) (b_rows b)) in *.
  assert (Ei : ids b = map r_id pre ++ map r_id kept) by (unfold ids; rewrite <- map_app; f_equal; exact He).
  assert (Et : tss b = map r_ts pre ++ map r_ts kept) by (unfold tss; rewrite <- map_app; f_equal; exact He).
  unfold purge. split; [unfold ids|unfold ids|unfold tss|unfold tss]; simpl; fold kept; fold (ids b); fold (tss b).
  - rewrite Ei in Hc. eapply consec_suffix. exact Hc.
  - destruct (b_seq b) as [s|].
    + destruct Hl as [H1 Hl]. split; [exact H1|]. intros Hne.
      rewrite <- Hl.
      * rewrite Ei. symmetry. apply last_suffix. intros E. apply Hne.
        destruct kept; [reflexivity|discriminate].
      * intros E. apply Hne. rewrite E in He. destruct pre; simpl in He; [symmetry; exact He|discriminate].
    + assert (kept = []) as ->; [|reflexivity]. unfold kept. rewrite Hl. reflexivity.
  - rewrite Et in Hs. eapply Sorted_suffix. exact Hs.
  - rewrite Et in Hn. apply Forall_app in Hn. tauto.
Qed.

Lemma inv_age b now d : inv b now -> inv b (now + Z.max 0 d).
Proof.
  intros [Hc Hl Hs Hn]. split; auto. eapply Forall_impl; [|exact Hn]. simpl. intros; lia.
Qed.

Lemma inv_exists b now : inv b now -> inv (Bus true (b_rows b) (b_seq b)) now.
Proof. intros [Hc Hl Hs Hn]. split; assumption. Qed.

(** every state reachable while the producer's clock never steps back satisfies the invariant
    (the ordered-log facts below need timestamps in insertion order; [purge_only_old] does not) *)
Definition monotone_clock (op : bop) : Prop := match op with BBack _ => False | _ => True end.
Theorem inv_reachable ops : forall st, Forall monotone_clock ops ->
  inv (s_bus st) (s_now st) -> inv (s_bus (bfinal st ops)) (s_now (bfinal st ops)).
Proof.
  induction ops as [|op r IH]; intros st Hm Hi; [exact Hi|]. simpl.
  inversion Hm as [|? ? Hop Hr]; subst. apply IH; [exact Hr|].
  destruct op as [ret|p|d|d|o| |]; simpl.
  - apply inv_purge. apply inv_exists. exact Hi.
  - apply inv_send. exact Hi.
  - apply inv_age. exact Hi.
  - destruct Hop.
  - exact Hi.
  - exact Hi.
  - destruct (negb (b_exists (s_bus st))); [exact Hi|].
    destruct (c_iter (s_bus st) (s_cur st)); exact Hi.
Qed.

(** ** Offsets: strictly increasing, never reused (the sequence survives purges) *)
Lemma consec_head_lt m : consec m -> forall x j b, hd_error m = Some x -> nth_error m (S j) = Some b -> x < b.
Proof.
  induction 1 as [|y|y m' Hc IH]; intros x j b Hx Hj; simpl in *.
  - discriminate.
  - destruct j; discriminate.
  - inversion Hx; subst x. destruct j as [|j]; [simpl in Hj; inversion Hj; lia|].
    assert (y + 1 < b) by (apply (IH (y + 1) j b); [reflexivity|exact Hj]). lia.
Qed.

Lemma consec_lt m : consec m -> forall i j a b, (i < j)%nat -> nth_error m i = Some a -> nth_error m j = Some b -> a < b.
Proof.
  intros Hc i. revert m Hc. induction i as [|i IH]; intros m Hc j a b Hij Hi Hj.
  - destruct j as [|j]; [lia|]. apply (consec_head_lt m Hc a j b); [|exact Hj].
    destruct m; [discriminate|simpl in *; exact Hi].
  - destruct j as [|j]; [lia|]. destruct m as [|x m]; [discriminate|]. simpl in Hi, Hj.
    apply (IH m (consec_tail x m Hc) j); [lia|assumption|assumption].
Qed.

Theorem offsets_strictly_increasing b now : inv b now ->
  forall i j a c, (i < j)%nat -> nth_error (ids b) i = Some a -> nth_error (ids b) j = Some c -> a < c.
Proof. intros [Hc _ _ _]. apply consec_lt. exact Hc. Qed.

Lemma consec_le_last m : consec m -> forall a, In a m -> a <= last m 0.
Proof.
  induction 1 as [|y|y m' Hc IH]; intros a Ha; [inversion Ha|destruct Ha as [<-|[]]; simpl; lia|].
  change (last (y :: y + 1 :: m') 0) with (last (y + 1 :: m') 0).
  destruct Ha as [<-|Ha].
  - assert (y + 1 <= last (y + 1 :: m') 0) by (apply IH; left; reflexivity). lia.
  - apply IH. exact Ha.
Qed.

(** a new event always gets an offset above every retained AND every purged one *)
Theorem new_offset_is_fresh b now : inv b now ->
  forall r, In r (b_rows b) -> r_id r < next_id b.
Proof.
  intros [Hc Hl _ _] r Hr. unfold next_id. destruct (b_seq b) as [s|].
  - destruct Hl as [_ Hl]. assert (Hne : b_rows b <> []) by (intros E; rewrite E in Hr; inversion Hr).
    specialize (Hl Hne). assert (r_id r <= last (ids b) 0).
    { apply consec_le_last; [exact Hc|]. unfold ids. apply in_map. exact Hr. }
    lia.
  - rewrite Hl in Hr. inversion Hr.
Qed.

Theorem sequence_survives_purge limit b : b_seq (purge limit b) = b_seq b.
Proof. reflexivity. Qed.

(** ** Purge removes only events older than the limit *)
Theorem purge_only_old limit b r :
  In r (b_rows (purge limit b)) <-> In r (b_rows b) /\ limit <= r_ts r.
Proof.
  unfold purge. simpl. rewrite filter_In. split; intros [H1 H2]; split; auto.
  - destruct (Z.ltb_spec (r_ts r) limit); [discriminate|lia].
  - destruct (Z.ltb_spec (r_ts r) limit); [lia|reflexivity].
Qed.

(** ** Delivery: exactly the retained events from the cursor on, in order *)
Theorem iter_delivers_suffix b c :
  fst (c_iter b (Some c)) = filter (fun r => c <=? r_id r) (b_rows b).
Proof. reflexivity. Qed.

(** ** Seek: accepted exactly inside [oldest retained, next to be written] *)
(** consecutive ids cover every offset between the first and the last *)
Lemma consec_covers m : consec m -> forall x o, hd_error m = Some x -> x <= o <= last m 0 -> In o m.
Proof.
  induction 1 as [|y|y m' Hc IH]; intros x o Hx Ho; simpl in *.
  - discriminate.
  - inversion Hx; subst x. left. lia.
  - inversion Hx; subst x. destruct (Z.eq_dec y o) as [->|Hne]; [left; reflexivity|].
    right. apply (IH (y + 1) o eq_refl).
    change (last (y :: y + 1 :: m') 0) with (last (y + 1 :: m') 0) in Ho. lia.
Qed.

Lemma has_id_In b o : has_id b o = true <-> In o (ids b).
Proof.
  unfold has_id, ids. rewrite existsb_exists, in_map_iff. split.
  - intros [r [Hr He]]. exists r. split; [apply Z.eqb_eq in He; exact He|exact Hr].
  - intros [r [He Hr]]. exists r. split; [exact Hr|apply Z.eqb_eq; exact He].
Qed.

Theorem seek_accepts_iff b now o : inv b now -> b_exists b = true ->
  forall s, b_seq b = Some s ->
  (c_seek b o = SeekOk <-> low_bound b s <= o <= s + 1).
Proof.
  intros [Hc Hl _ _] He s Hs. unfold c_seek. rewrite He, Hs. simpl. rewrite Hs in Hl. destruct Hl as [_ Hl].
  destruct (Z.leb_spec (low_bound b s) o), (Z.leb_spec o (s + 1)); simpl; split; intros Hx; try lia; try discriminate; auto.
  (* in range: the event is there (ids are consecutive up to the sequence), or it is the next one *)
  destruct (Z.eqb_spec o (s + 1)) as [->|Hne]; [rewrite orb_true_r; reflexivity|].
  assert (Hin : has_id b o = true).
  { apply has_id_In. unfold low_bound in *. destruct (b_rows b) as [|r rows] eqn:Hr.
    - lia.
    - apply (consec_covers (ids b) Hc (r_id r) o).
      + unfold ids. rewrite Hr. reflexivity.
      + rewrite Hl; [lia|discriminate]. }
  rewrite Hin. reflexivity.
Qed.

Theorem seek_refused_when_purged_or_future b o s :
  b_exists b = true -> b_seq b = Some s -> (o < low_bound b s \/ s + 1 < o) -> c_seek b o = SeekIndexError.
Proof.
  intros He Hs Ho. unfold c_seek. rewrite He, Hs. simpl.
  destruct (Z.leb_spec (low_bound b s) o), (Z.leb_spec o (s + 1)); simpl; try reflexivity; lia.
Qed.

(** whatever the clock did: an offset whose event is gone is refused, unless it is the next one *)
Theorem seek_refused_when_event_gone b o s :
  b_exists b = true -> b_seq b = Some s -> ~ In o (ids b) -> o <> s + 1 -> c_seek b o = SeekIndexError.
Proof.
  intros He Hs Hno Hne. unfold c_seek. rewrite He, Hs. simpl.
  assert (Hh : has_id b o = false).
  { destruct (has_id b o) eqn:E; [|reflexivity]. apply has_id_In in E. contradiction. }
  rewrite Hh. destruct (Z.eqb_spec o (s + 1)); [contradiction|]. rewrite andb_false_r. reflexivity.
Qed.

Theorem seek_refused_on_fresh_db o : c_seek bus0 o = SeekIndexError.
Proof. reflexivity. Qed.

(** ** Resume: after an accepted seek to a retained offset the next event delivered
    is exactly that one (ids are consecutive, nothing can be skipped) *)
Lemma consec_all_ge m : consec m -> forall x c, hd_error m = Some x -> In c m -> x <= c.
Proof.
  induction 1 as [|y|y m' Hc IH]; intros x c Hx Hin; simpl in *.
  - discriminate.
  - inversion Hx; subst x. destruct Hin as [<-|[]]. lia.
  - inversion Hx; subst x. destruct Hin as [<-|Hin]; [lia|].
    assert (y + 1 <= c) by (apply (IH (y + 1) c); [reflexivity|exact Hin]). lia.
Qed.

Lemma consec_filter_head m : consec m -> forall c x,
  In c m -> hd_error (filter (fun y => c <=? y) m) = Some x -> x = c.
Proof.
  induction 1 as [|y|y m' Hc IH]; intros c x Hin Hhd.
  - inversion Hin.
  - destruct Hin as [<-|[]]. simpl in Hhd. rewrite Z.leb_refl in Hhd. simpl in Hhd. congruence.
  - simpl filter in Hhd. destruct Hin as [<-|Hin].
    + rewrite Z.leb_refl in Hhd. simpl in Hhd. congruence.
    + destruct (Z.leb_spec c y) as [Hle|Hgt].
      * assert (y + 1 <= c) by (apply (consec_all_ge (y + 1 :: m') Hc (y + 1) c); [reflexivity|exact Hin]). lia.
      * apply IH; [exact Hin|exact Hhd].
Qed.

Theorem resume_exact b now o : inv b now ->
  In o (ids b) ->
  forall r, hd_error (fst (c_iter b (Some o))) = Some r -> r_id r = o.
Proof.
  intros [Hc _ _ _] Hin r Hhd. simpl in Hhd.
  assert (H : hd_error (filter (fun y => o <=? y) (ids b)) = Some (r_id r)).
  { unfold ids. clear -Hhd. induction (b_rows b) as [|x rows IH]; simpl in *; [discriminate|].
    destruct (o <=? r_id x); simpl in *; [inversion Hhd; reflexivity|apply IH; exact Hhd]. }
  eapply consec_filter_head; eassumption.
Qed.

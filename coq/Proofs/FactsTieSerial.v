(** * Tie between the serialisation model and the in-band encodings written in
    lib/datamodel/serialization.py now ([Generated/Facts.v], regenerated at every run). *)
From Coq Require Import String Ascii.
From Hermes Require Import Generated.Facts.
From Hermes Require Import Model.Values Model.Serial.

Definition codes (s : string) : list N := map N_of_ascii (list_ascii_of_string s).

(** the constant head and tail of what the encoder emits for a datetime / for bytes are the
    ones the model's [encode] and [decode_str] use *)
Lemma encoder_affixes_tie :
  map (fun p => (codes (fst p), codes (snd p))) inband_encoders
  = [(s_HermesDatetime, [c_Z; c_rparen]); (s_HermesBytes, [c_rparen])].
Proof. vm_compute. reflexivity. Qed.

(** the patterns the parser applies are the two the model's [decode_str] was written for:
    a fixed-width ISO date-time followed by "Z)", and any run of characters other than ")" *)
Lemma parser_patterns_tie :
  inband_regexes = ["HermesDatetime\(\d{4}-\d{2}-\d{2}T\d{2}:\d{2}:\d{2}Z\)"; "HermesBytes\([^)]*\)"]%string.
Proof. reflexivity. Qed.

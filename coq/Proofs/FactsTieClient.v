(** * Tie between the hand-written models and the tables / call orders regenerated from
    /repo's source text ([Generated/Facts.v], written by harness/facts_extract.py at every run).

    Each lemma says: the model uses exactly the table (or order) the source declares now.  The
    property files import these lemmas, so an edit of the source table changes [Facts.v] and
    breaks a proof obligation of every property that rests on it. *)
From Coq Require Import String.
From Hermes Require Import Generated.Facts.
From Hermes Require Import Model.Objects Model.Client.

Local Notation seqb := String.eqb.

(** ** client: foreign-key policy table *)
Definition policy_name (p : fkpolicy) : string :=
  match p with FKDisabled => "disabled" | FKOnRemove => "on_remove_event" | FKOnEvery => "on_every_event" end.
Definition kind_name (k : ekind) : string :=
  match k with KAdded _ => "added" | KModified _ => "modified" | KRemoved => "removed" end.
Definition facts_fk_events (p : fkpolicy) (k : ekind) : bool :=
  match List.find (fun kv => seqb (fst kv) (policy_name p)) fk_policy_table with
  | Some kv => existsb (seqb (kind_name k)) (snd kv)
  | None => false
  end.
Lemma fk_policy_tie : forall c k, fk_events c k = facts_fk_events (cc_fkpolicy c) k.
Proof. intros c k. unfold fk_events. destruct (cc_fkpolicy c), k; reflexivity. Qed.
Lemma event_kinds_tie : forall k, In (kind_name k) event_types.
Proof. intros k. destruct k; cbn; tauto. Qed.

(** ** client: auto-remediation dispatch *)
Definition pair_in (a b : string) (l : list (string * string)) : bool :=
  existsb (fun p => seqb (fst p) a && seqb (snd p) b) l.
Lemma merge_bug_tie : forall pol p l cur new,
  merge_events pol (Some p) (Some l) cur new = MBug <->
  pair_in (kind_name (ce_kind p)) (kind_name (ce_kind l)) merge_bug_pairs = true.
Proof.
  intros pol p l cur new. unfold merge_events.
  destruct (ce_kind p), (ce_kind l), pol; cbn; try (split; [discriminate | discriminate]);
    try (split; reflexivity); try tauto;
    try (split; [|discriminate]; destruct cur, new; try discriminate;
         match goal with |- context [md_empty ?d] => destruct (md_empty d) end; discriminate).
Qed.
(** the pairs gated by [_autoremediate == "maximum"] are left alone by the other policies *)
Lemma merge_max_only_tie : forall pol p l cur new,
  pol <> RMaximum ->
  pair_in (kind_name (ce_kind p)) (kind_name (ce_kind l)) merge_max_only_pairs = true ->
  merge_events pol (Some p) (Some l) cur new = MNo.
Proof.
  intros pol p l cur new Hp. unfold merge_events.
  destruct (ce_kind p), (ce_kind l), pol; cbn; try discriminate; try reflexivity; try congruence.
Qed.
(** ... and every other pair is merged the same way under the two merging policies *)
Lemma merge_policy_independent_tie : forall p l cur new,
  pair_in (kind_name (ce_kind p)) (kind_name (ce_kind l)) merge_max_only_pairs = false ->
  merge_events RConservative (Some p) (Some l) cur new = merge_events RMaximum (Some p) (Some l) cur new.
Proof.
  intros p l cur new. unfold merge_events.
  destruct (ce_kind p), (ce_kind l); cbn; try discriminate; reflexivity.
Qed.


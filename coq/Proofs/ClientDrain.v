(** Healing (C07): once handlers stop failing, ONE retry pass of the error queue either empties
    the queue or ends on an unexpected exception (the wedges recorded as findings F5/F19/F32).

    Setting: trashbin off ([cc_retention = None], local trashbin empty), no queued entry
    registers a parent (no foreign keys between the client's types), queue numbers strictly
    increasing (what [q_append] produces), handlers all succeeding.  Any remediation policy,
    any content of the eight caches, any queue. *)
From Hermes Require Import Model.Objects Model.Client Proofs.Values Proofs.Objects Proofs.Client.
From RecordUpdate Require Import RecordSet.
Import RecordSetNotations.
From Coq Require Import Sorting.Sorted.

Notation healthy := (fun _ : nat => HOk).

Section Drain.
Variable c : ccfg.
Hypothesis Hret : cc_retention c = None.

Ltac break_match :=
  repeat match goal with
         | |- context [match ?x with _ => _ end] => destruct x eqn:?
         | |- context [if ?x then _ else _] => destruct x eqn:?
         end.
Ltac unfold_apps :=
  unfold app_r_live, app_r_trash, app_rc_live, app_rc_trash, app_l_live, app_l_trash, app_lc_live, app_lc_trash,
         crash, call_handler, wappend in *.

Definition qsub (a b : list qentry) : Prop := forall e, In e a -> In e b.
Lemma qsub_refl a : qsub a a. Proof. intros e H; exact H. Qed.
Lemma qsub_trans a b d : qsub a b -> qsub b d -> qsub a d. Proof. intros H1 H2 e H; auto. Qed.
Lemma qsub_purge q i : qsub (q_purge_obj q i) q.
Proof. intros e H. unfold q_purge_obj in H. apply List.filter_In in H. tauto. Qed.
Lemma qsub_remove q n : qsub (q_remove q n) q.
Proof. intros e H. unfold q_remove in H. apply List.filter_In in H. tauto. Qed.

(** outcome of one direct (not simulated, not enqueueing) processing step with healthy handlers *)
Definition step_ok (st st1 : cstate) (ok : bool) : Prop :=
  (ok = true \/ exc st1 = true) /\ qsub (queue st1) (queue st) /\ (l_trash st = ∅ -> l_trash st1 = ∅).

Ltac fin := unfold step_ok; cbn; repeat split;
  try (left; reflexivity); try (right; reflexivity); try apply qsub_refl; try apply qsub_purge; auto.

Lemma local_added_h st lev : step_ok st (fst (local_added healthy st lev false)) (snd (local_added healthy st lev false)).
Proof. unfold local_added. unfold_apps. cbn. break_match; fin. Qed.

Lemma local_modified_h st lev : step_ok st (fst (local_modified healthy st lev false)) (snd (local_modified healthy st lev false)).
Proof. unfold local_modified. unfold_apps. cbn. break_match; fin. Qed.

Lemma delete_empty_w (w : world) i : w = ∅ -> delete i w = ∅.
Proof. intros ->. apply delete_empty. Qed.

Lemma local_removed_h st lev : step_ok st (fst (local_removed healthy st lev false)) (snd (local_removed healthy st lev false)).
Proof.
  unfold local_removed. unfold_apps. cbn.
  destruct (lookup2 (l_live st) (l_trash st) (ce_id lev)) as [[[] o]|] eqn:Hc; cbn;
    destruct (lookup2 (lc_live st) (lc_trash st) (ce_id lev)) as [[[] o']|]; cbn;
    fin; intros; try apply delete_empty_w; auto.
Qed.

Lemma step_ok_exc st st1 ok : step_ok st st1 ok -> step_ok st (st1 <| exc := true |>) false.
Proof. intros (_ & H2 & H3). unfold step_ok; cbn. repeat split; auto. Qed.

Local Arguments local_added : simpl never.
Local Arguments local_modified : simpl never.
Local Arguments local_removed : simpl never.
Local Arguments local_trashed : simpl never.
Local Arguments local_recycled : simpl never.
Lemma sel_ok (s1 : cstate) (ok x : bool) : (if ok || x then (s1, ok) else (s1, false)) = (s1, ok).
Proof. destruct ok, x; reflexivity. Qed.

(** [process_local], direct call of a retry (enqueue = false, sim = false) *)
Lemma process_local_h f st remote lv :
  l_trash st = ∅ ->
  let r := process_local c healthy (S f) st remote (Some lv) false false in
  step_ok st (fst r) (snd r).
Proof.
  intros Ht. cbn [process_local]. destruct (find_ctype c (ce_t lv)) as [ct|]; [|unfold crash; fin].
  cbn [negb andb]. rewrite Hret. cbn [andb negb orb]. cbn.
  rewrite Ht, lookup_empty.
  set (st0 := st <| curstep := ce_step lv |> <| curpartial := ce_partial lv |>).
  assert (Hfin : forall r : cstate * bool, step_ok st0 (fst r) (snd r) ->
            step_ok st (let '(st1, ok) := r in if ok || exc st1 then (st1, ok) else (st1, false)).1
                       (let '(st1, ok) := r in if ok || exc st1 then (st1, ok) else (st1, false)).2).
  { intros [s1 ok] H. rewrite sel_ok. exact H. }
  destruct (ce_kind lv); apply Hfin; [apply local_added_h|apply local_modified_h|apply local_removed_h].
Qed.

Lemma process_local_none_h f st remote :
  process_local c healthy (S f) st remote None false false = (st, true).
Proof. reflexivity. Qed.

(** wrapper used by the remote side: [lev] may be absent (nothing mapped) *)
Lemma process_local_opt_h f st remote lev :
  l_trash st = ∅ ->
  let r := process_local c healthy (S f) st remote lev false false in
  step_ok st (fst r) (snd r).
Proof.
  intros Ht. destruct lev as [lv|]; [apply process_local_h; exact Ht|].
  cbn. unfold step_ok; repeat split; auto using qsub_refl.
Qed.

Ltac with_pl f st rev lev Ht :=
  let H := fresh "Hpl" in
  pose proof (process_local_opt_h f st (Some rev) lev Ht) as H; cbn zeta in H;
  destruct (process_local c healthy (S f) st (Some rev) lev false false) as [s1 ok1];
  cbn [fst snd] in H; destruct H as (H1 & H2 & H3).

Lemma remote_added_h f st rev lev :
  l_trash st = ∅ ->
  let r := remote_added c healthy (S f) st rev lev false in step_ok st (fst r) (snd r).
Proof.
  intros Ht. cbn zeta. unfold remote_added. with_pl f st rev lev Ht.
  destruct ok1; cbn [negb].
  - unfold_apps. cbn. break_match; unfold step_ok; cbn; repeat split; auto.
  - unfold step_ok; cbn; repeat split; auto.
Qed.

Lemma remote_modified_h f st rev lev :
  l_trash st = ∅ ->
  let r := remote_modified c healthy (S f) st rev lev false in step_ok st (fst r) (snd r).
Proof.
  intros Ht. cbn zeta. unfold remote_modified. cbn [negb].
  destruct (r_live st !! ce_id rev) as [old|].
  - with_pl f st rev lev Ht. destruct ok1; cbn [negb].
    + break_match; unfold step_ok; cbn; repeat split; auto.
    + unfold step_ok; cbn; repeat split; auto.
  - destruct (negb _).
    + unfold crash. unfold step_ok; cbn; repeat split; auto using qsub_refl.
    + with_pl f st rev lev Ht. destruct ok1; cbn [negb].
      * unfold crash. unfold step_ok; cbn; repeat split; auto.
      * unfold step_ok; cbn; repeat split; auto.
Qed.

Lemma remote_removed_h f st rev lev :
  l_trash st = ∅ ->
  let r := remote_removed c healthy (S f) st rev lev false in step_ok st (fst r) (snd r).
Proof.
  intros Ht. cbn zeta. unfold remote_removed. with_pl f st rev lev Ht.
  destruct ok1; cbn [negb].
  - unfold crash.
    destruct (lookup2 (r_live st) (r_trash st) (ce_id rev)) as [[[] o]|]; cbn;
      destruct (lookup2 (rc_live st) (rc_trash st) (ce_id rev)) as [[[] o']|]; cbn;
      unfold step_ok; cbn; repeat split; auto;
      try (eapply qsub_trans; [apply qsub_purge|exact H2]).
  - unfold step_ok; cbn; repeat split; auto.
Qed.

(** [process_remote] as the retry calls it *)
Lemma process_remote_h st rev lev :
  l_trash st = ∅ ->
  let r := process_remote c healthy FUEL st rev lev false false in step_ok st (fst r) (snd r).
Proof.
  intros Ht. cbn zeta. unfold FUEL. cbn [process_remote negb andb]. rewrite Hret. cbn [andb negb orb].
  set (lv := match lev with Some l => Some l | None => convert c false rev end).
  assert (Hfin : forall r : cstate * bool, step_ok st (fst r) (snd r) ->
            step_ok st (let '(st1, ok) := r in if ok || exc st1 then (st1, ok) else (st1, false)).1
                       (let '(st1, ok) := r in if ok || exc st1 then (st1, ok) else (st1, false)).2).
  { intros [s1 ok] H. rewrite sel_ok. exact H. }
  destruct (ce_kind rev); apply Hfin;
    [apply (remote_added_h 2)|apply (remote_modified_h 2)|apply (remote_removed_h 2)]; exact Ht.
Qed.

(** ** the retry pass *)
Definition no_parents (q : list qentry) : Prop := Forall (fun e => q_parents e = []) q.
Lemma no_parents_not_parent q i : no_parents q -> q_is_parent q i = false.
Proof.
  intros H. unfold q_is_parent. apply not_true_is_false. intros E.
  apply existsb_exists in E. destruct E as (e & He & E).
  unfold no_parents in H. rewrite Forall_forall in H. rewrite (H e) in E by (apply elem_of_list_In; exact He). discriminate.
Qed.
Lemma no_parents_sub a b : qsub a b -> no_parents b -> no_parents a.
Proof.
  intros Hs H. unfold no_parents in *. rewrite Forall_forall in *. intros e He.
  apply H. apply elem_of_list_In. apply Hs. apply elem_of_list_In. exact He.
Qed.

Definition nums_cover (q : list qentry) (nums : list Z) : Prop := forall e, In e q -> In (q_num e) nums.

Lemma oldest_when_min q e n r :
  q_num e = n -> nums_cover q (n :: r) -> Forall (fun m => (n < m)%Z) r -> q_is_oldest q e = true.
Proof.
  intros Hn Hc Hs. unfold q_is_oldest. apply forallb_forall. intros e' He'.
  apply orb_true_iff. right. apply Z.leb_le. rewrite Hn.
  destruct (Hc e' He') as [<-|Hin]; [lia|].
  rewrite Forall_forall in Hs. specialize (Hs (q_num e')).
  assert (n < q_num e')%Z by (apply Hs; apply elem_of_list_In; exact Hin). lia.
Qed.

Lemma find_num_some q n e : List.find (fun e => Z.eqb (q_num e) n) q = Some e -> In e q /\ q_num e = n.
Proof. intros H. apply List.find_some in H. destruct H as [H1 H2]. apply Z.eqb_eq in H2. auto. Qed.
Lemma find_num_none q n : List.find (fun e => Z.eqb (q_num e) n) q = None -> forall e, In e q -> q_num e <> n.
Proof. intros H e He E. eapply List.find_none in H; [|exact He]. cbn in H. apply Z.eqb_neq in H. auto. Qed.

Theorem healthy_retry_pass_drains : forall nums st skipped,
  l_trash st = ∅ -> no_parents (queue st) -> StronglySorted Z.lt nums -> nums_cover (queue st) nums ->
  let r := retry_pass c healthy st nums None skipped in
  exc (fst r) = true \/ (queue (fst r) = [] /\ snd r = skipped).
Proof.
  induction nums as [|n r IH]; intros st skipped Ht Hnp Hs Hc; cbn zeta.
  - cbn. right. split; [|reflexivity]. destruct (queue st) as [|e q]; [reflexivity|].
    destruct (Hc e (or_introl eq_refl)).
  - cbn [retry_pass]. destruct (exc st) eqn:Hx; [left; exact Hx|].
    apply StronglySorted_inv in Hs. destruct Hs as [Hs Hall].
    destruct (List.find _ (queue st)) as [e|] eqn:Hf.
    + apply find_num_some in Hf. destruct Hf as [Hin Hn].
      rewrite (oldest_when_min (queue st) e n r Hn Hc) by (rewrite Forall_forall in *; auto).
      cbn [negb]. rewrite (no_parents_not_parent _ _ Hnp).
      assert (Hstep : forall st1 ok,
                 step_ok st st1 ok ->
                 let st2 := if ok then st1 <| queue := q_remove (queue st1) n |> else mark_entry st1 n in
                 exc st1 = false ->
                 let r' := retry_pass c healthy st2 r None skipped in
                 exc (fst r') = true \/ queue (fst r') = [] /\ snd r' = skipped).
      { intros st1 ok (H1 & H2 & H3) st2 Hx1. destruct H1 as [->|H1]; [|congruence].
        subst st2. apply IH; cbn.
        - auto.
        - eapply no_parents_sub; [|exact Hnp]. eapply qsub_trans; [apply qsub_remove|exact H2].
        - exact Hs.
        - intros e' He'. unfold q_remove in He'. apply List.filter_In in He'. destruct He' as [He' Hne].
          apply negb_true_iff, Z.eqb_neq in Hne.
          destruct (Hc e' (H2 e' He')) as [E|E]; [congruence|exact E]. }
      destruct (q_remote e) as [rev|].
      * pose proof (process_remote_h st rev (Some (q_local e)) Ht) as H. cbn zeta in H.
        destruct (process_remote c healthy FUEL st rev (Some (q_local e)) false false) as [st1 ok].
        cbn [fst snd] in H. destruct (exc st1) eqn:Hx1; [left; exact Hx1|].
        exact (Hstep st1 ok H Hx1).
      * pose proof (process_local_h 2 st None (q_local e) Ht) as H. cbn zeta in H.
        change (process_local c healthy FUEL st None (Some (q_local e)) false false)
          with (process_local c healthy 3 st None (Some (q_local e)) false false).
        destruct (process_local c healthy 3 st None (Some (q_local e)) false false) as [st1 ok].
        cbn [fst snd] in H. destruct (exc st1) eqn:Hx1; [left; exact Hx1|].
        exact (Hstep st1 ok H Hx1).
    + apply IH; auto. intros e He. destruct (Hc e He) as [E|E]; [|exact E].
      exfalso. eapply find_num_none; eauto.
Qed.

(** ** the whole [__retryErrorQueue] *)
Theorem healthy_retry_drains st :
  l_trash st = ∅ -> no_parents (queue st) -> StronglySorted Z.lt (map q_num (queue st)) ->
  let st' := retry_queue c healthy st in
  exc st' = true \/ queue st' = [].
Proof.
  intros Ht Hnp Hs. cbn zeta. unfold retry_queue. cbn [retry_loop].
  set (st0 := st <| is_retry := true |>).
  pose proof (healthy_retry_pass_drains (map q_num (queue st0)) st0 [] Ht Hnp Hs) as H.
  assert (Hc : nums_cover (queue st0) (map q_num (queue st0))) by (intros e He; apply in_map; exact He).
  specialize (H Hc). cbn zeta in H.
  destruct (retry_pass c healthy st0 (map q_num (queue st0)) None []) as [st1 sk]. cbn [fst snd] in H.
  destruct (exc st1) eqn:Hx1; [left; cbn; exact Hx1|].
  destruct H as [H|[Hq ->]]; [congruence|].
  rewrite orb_true_r. right. cbn. exact Hq.
Qed.

(** [q_append] (remediation disabled) keeps the numbers strictly increasing *)
Lemma fold_max_ge q : forall m, (m <= fold_left (fun m e => Z.max m (q_num e)) q m)%Z /\
  Forall (fun e => (q_num e <= fold_left (fun m e => Z.max m (q_num e)) q m)%Z) q.
Proof.
  induction q as [|e q IH]; intros m; cbn; [split; [lia|constructor]|].
  destruct (IH (Z.max m (q_num e))) as [H1 H2]. split; [lia|]. constructor; [lia|exact H2].
Qed.
Lemma sorted_snoc (l : list Z) x : StronglySorted Z.lt l -> Forall (fun y => (y < x)%Z) l -> StronglySorted Z.lt (l ++ [x]).
Proof.
  induction 1 as [|a l Hs IH Ha]; intros Hx; cbn; [repeat constructor|].
  apply Forall_cons in Hx. destruct Hx as [Hax Hx]. constructor; [apply IH; exact Hx|].
  apply Forall_app. split; [exact Ha|repeat constructor; exact Hax].
Qed.
Theorem q_append_keeps_sorted st remote lev msg :
  cc_remed c = RDisabled -> StronglySorted Z.lt (map q_num (queue st)) ->
  StronglySorted Z.lt (map q_num (queue (q_append c st remote lev msg))).
Proof.
  intros Hr Hs. unfold q_append. destruct (find_ctype c (ce_t lev)); [|exact Hs].
  cbn. rewrite remediate_disabled by exact Hr. rewrite map_app. cbn. apply sorted_snoc; [exact Hs|].
  unfold q_next_num. destruct (fold_max_ge (queue st) 0%Z) as [_ H].
  rewrite Forall_map. rewrite Forall_forall in *. intros e He. specialize (H e He). cbn. lia.
Qed.
(** ... and registers no parent when the client's types have no foreign key *)
Theorem q_append_no_parents st remote lev msg :
  cc_remed c = RDisabled -> Forall (fun ct => ct_fks ct = []) (cc_types c) -> no_parents (queue st) ->
  no_parents (queue (q_append c st remote lev msg)).
Proof.
  intros Hr Hfk Hnp. unfold q_append. destruct (find_ctype c (ce_t lev)) as [ct|] eqn:Hct; [|exact Hnp].
  cbn. rewrite remediate_disabled by exact Hr. apply Forall_app. split; [exact Hnp|].
  constructor; [|constructor]. cbn. unfold entry_parents.
  destruct (match l_live st !! ce_id lev with Some o => Some o | None => lc_live st !! ce_id lev end); [|reflexivity].
  cbn [parents_of]. rewrite Hct.
  unfold find_ctype in Hct. apply List.find_some in Hct. destruct Hct as [Hin _].
  rewrite Forall_forall in Hfk. rewrite (Hfk ct) by (apply elem_of_list_In; exact Hin). reflexivity.
Qed.
End Drain.

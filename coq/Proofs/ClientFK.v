(** Foreign-key policy of the client model (C09): simulated passes never invoke a handler;
    an event covered by the policy on a registered parent is queued without any handler
    invocation; the retry pass leaves registered parents alone. *)
From Hermes Require Import Model.Objects Model.Client Proofs.Values Proofs.Objects.
From RecordUpdate Require Import RecordSet.
Import RecordSetNotations.

Section FK.
Variable c : ccfg.
Variable outcome : nat -> hres.

Ltac break_match :=
  repeat match goal with
         | |- context [match ?x with _ => _ end] => destruct x eqn:?
         | |- context [if ?x then _ else _] => destruct x eqn:?
         end.

(** a simulated pass leaves the handler log, the queue and the four target-side caches alone
    (it only moves the expected-state caches) *)
Definition same_log (a b : cstate) : Prop :=
  calls a = calls b /\ ncall a = ncall b /\ queue a = queue b /\
  r_live a = r_live b /\ r_trash a = r_trash b /\ l_live a = l_live b /\ l_trash a = l_trash b /\
  curstep a = curstep b /\ curpartial a = curpartial b.

Lemma same_log_refl a : same_log a a. Proof. repeat split; reflexivity. Qed.
Lemma same_log_trans a b d : same_log a b -> same_log b d -> same_log a d.
Proof. intros (? & ? & ? & ? & ? & ? & ? & ? & ?) (? & ? & ? & ? & ? & ? & ? & ? & ?); repeat split; congruence. Qed.



Ltac unfold_apps :=
  unfold app_r_live, app_r_trash, app_rc_live, app_rc_trash, app_l_live, app_l_trash, app_lc_live, app_lc_trash, crash in *.
Ltac slog := unfold_apps; cbn; break_match; cbn;
  try match goal with H : _ || true = false |- _ => rewrite orb_true_r in H; discriminate end;
  repeat split; reflexivity.

Lemma local_added_sim st lev : same_log (fst (local_added outcome st lev true)) st.
Proof. unfold local_added. slog. Qed.
Lemma local_recycled_sim ct st lev : same_log (fst (local_recycled c outcome ct st lev true)) st.
Proof. unfold local_recycled. slog. Qed.
Lemma local_modified_sim st lev : same_log (fst (local_modified outcome st lev true)) st.
Proof. unfold local_modified. slog. Qed.
Lemma local_trashed_sim ct st lev : same_log (fst (local_trashed outcome ct st lev true)) st.
Proof. unfold local_trashed. slog. Qed.
Lemma local_removed_sim st lev : same_log (fst (local_removed outcome st lev true)) st.
Proof. unfold local_removed. slog. Qed.

Lemma process_local_sim f st remote lev enq :
  same_log (fst (process_local c outcome f st remote lev enq true)) st.
Proof.
  destruct f as [|f]; [destruct lev; unfold crash; repeat split; reflexivity|].
  destruct lev as [lv|]; [|repeat split; reflexivity].
  cbn [process_local]. destruct (find_ctype c (ce_t lv)) as [ct|]; [|unfold crash; repeat split; reflexivity].
  cbn [negb andb].
  destruct (ce_kind lv) eqn:Hk.
  - destruct (match cc_retention c with Some _ => true | None => false end && _).
    + pose proof (local_recycled_sim ct st lv) as H. destruct (local_recycled c outcome ct st lv true) as [s1 ok].
      cbn in *. destruct (ok || exc s1); exact H.
    + pose proof (local_added_sim st lv) as H. destruct (local_added outcome st lv true) as [s1 ok].
      cbn in *. destruct (ok || exc s1); exact H.
  - pose proof (local_modified_sim st lv) as H. destruct (local_modified outcome st lv true) as [s1 ok].
    cbn in *. destruct (ok || exc s1); exact H.
  - destruct (negb _ || _).
    + pose proof (local_removed_sim st lv) as H. destruct (local_removed outcome st lv true) as [s1 ok].
      cbn in *. destruct (ok || exc s1); exact H.
    + pose proof (local_trashed_sim ct st lv) as H. destruct (local_trashed outcome ct st lv true) as [s1 ok].
      cbn in *. destruct (ok || exc s1); exact H.
Qed.

Ltac with_pl f st rev lev :=
  let H := fresh "H" in let s1 := fresh "s1" in let ok := fresh "ok" in
  pose proof (process_local_sim f st (Some rev) lev false) as H;
  destruct (process_local c outcome f st (Some rev) lev false true) as [s1 ok];
  cbn [fst] in H; destruct H as (Hc & Hn & Hq & Hr1 & Hr2 & Hl1 & Hl2 & Hs1 & Hs2).

Lemma remote_added_sim f st rev lev : same_log (fst (remote_added c outcome f st rev lev true)) st.
Proof.
  unfold remote_added. with_pl f st rev lev. unfold_apps. cbn. break_match; cbn; repeat split; assumption.
Qed.
Lemma remote_recycled_sim f st rev lev : same_log (fst (remote_recycled c outcome f st rev lev true)) st.
Proof.
  unfold remote_recycled. with_pl f st rev lev. unfold_apps. cbn. break_match; cbn; repeat split; assumption.
Qed.
Lemma remote_modified_sim f st rev lev : same_log (fst (remote_modified c outcome f st rev lev true)) st.
Proof.
  unfold remote_modified. cbn. with_pl f st rev lev. unfold_apps. cbn. break_match; cbn; repeat split; assumption.
Qed.
Lemma remote_trashed_sim ct f st rev lev : same_log (fst (remote_trashed c outcome ct f st rev lev true)) st.
Proof.
  unfold remote_trashed. with_pl f st rev lev. unfold_apps. cbn. break_match; cbn; repeat split; assumption.
Qed.
Lemma remote_removed_sim f st rev lev : same_log (fst (remote_removed c outcome f st rev lev true)) st.
Proof.
  unfold remote_removed. with_pl f st rev lev. unfold_apps. cbn. break_match; cbn; repeat split; assumption.
Qed.

Lemma process_remote_sim f st rev lev enq :
  same_log (fst (process_remote c outcome f st rev lev enq true)) st.
Proof.
  destruct f as [|f]; [unfold crash; repeat split; reflexivity|].
  cbn [process_remote negb andb].
  set (lev' := match lev with Some l => Some l | None => convert c false rev end).
  destruct (ce_kind rev) eqn:Hk.
  - destruct (match cc_retention c with Some _ => true | None => false end && _).
    + pose proof (remote_recycled_sim (S f) st rev lev') as H.
      destruct (remote_recycled c outcome (S f) st rev lev' true) as [s1 ok]. cbn in *. destruct (ok || exc s1); exact H.
    + pose proof (remote_added_sim (S f) st rev lev') as H.
      destruct (remote_added c outcome (S f) st rev lev' true) as [s1 ok]. cbn in *. destruct (ok || exc s1); exact H.
  - pose proof (remote_modified_sim (S f) st rev lev') as H.
    destruct (remote_modified c outcome (S f) st rev lev' true) as [s1 ok]. cbn in *. destruct (ok || exc s1); exact H.
  - destruct (negb _ || _).
    + pose proof (remote_removed_sim (S f) st rev lev') as H.
      destruct (remote_removed c outcome (S f) st rev lev' true) as [s1 ok]. cbn in *. destruct (ok || exc s1); exact H.
    + match goal with |- context [remote_trashed c outcome ?ct _ _ _ _ _] => pose proof (remote_trashed_sim ct (S f) st rev lev') as H;
        destruct (remote_trashed c outcome ct (S f) st rev lev' true) as [s1 ok] end.
      cbn in *. destruct (ok || exc s1); exact H.
Qed.

Lemma q_append_same_calls st remote lev msg :
  calls (q_append c st remote lev msg) = calls st /\ ncall (q_append c st remote lev msg) = ncall st.
Proof. unfold q_append, set_queue. destruct (find_ctype c (ce_t lev)); split; reflexivity. Qed.

(** *** the deferral decision of [__processRemoteEvent] *)
Definition mapped (t : N) : bool := match find_ctype c t with Some _ => true | None => false end.

Theorem event_deferred f st rev :
  mapped (ce_t rev) = true ->
  q_has_obj (queue st) (ce_id rev) || (q_is_parent (queue st) (ce_id rev) && fk_events c (ce_kind rev)) = true ->
  let r := process_remote c outcome (S f) st rev None true false in
  calls (fst r) = calls st /\ ncall (fst r) = ncall st /\ snd r = true /\
  (cc_remed c = RDisabled ->
   forall l, convert c true rev = Some l ->
   exists e, queue (fst r) = queue st ++ [e] /\ q_remote e = Some rev /\ q_num e = q_next_num (queue st)).
Proof.
  intros Hm Hd. cbn zeta. cbn [process_remote negb andb]. unfold mapped in Hm. rewrite Hm, Hd. cbn [andb].
  pose proof (process_remote_sim f st rev None false) as (Hc & Hn & Hq & _).
  destruct (process_remote c outcome f st rev None false true) as [s1 ok1]. cbn [fst] in *.
  assert (Hq' : forall l msg, cc_remed c = RDisabled -> find_ctype c (ce_t l) <> None ->
            exists e, queue (q_append c s1 (Some rev) l msg) = queue st ++ [e] /\ q_remote e = Some rev
                      /\ q_num e = q_next_num (queue st)).
  { intros l msg Hr Hf. unfold q_append. destruct (find_ctype c (ce_t l)); [|congruence].
    unfold set_queue, remediate. rewrite Hr. cbn. rewrite Hq. eexists. split; [reflexivity|]. split; reflexivity. }
  destruct (convert c false rev) as [l|] eqn:Hcv.
  - cbn [fst snd]. destruct (q_append_same_calls s1 (Some rev) l true) as [H1 H2].
    repeat split; try congruence. intros Hr l' Hl'.
    apply Hq'; [exact Hr|]. unfold convert in Hcv. destruct (find_ctype c (ce_t rev)) eqn:Hf; [|discriminate].
    destruct (kind_has_content _ || false); inversion Hcv; subst; cbn. rewrite Hf. discriminate.
  - destruct (convert c true rev) as [l|] eqn:Hcv2; cbn [fst snd].
    + destruct (q_append_same_calls s1 (Some rev) l true) as [H1 H2]. repeat split; try congruence.
      intros Hr l' Hl'. apply Hq'; [exact Hr|]. unfold convert in Hcv2. destruct (find_ctype c (ce_t rev)) eqn:Hf; [|discriminate].
      destruct (kind_has_content _ || true); inversion Hcv2; subst; cbn. rewrite Hf. discriminate.
    + repeat split; try assumption. intros _ l Hl. discriminate.
Qed.

(** an event of a kind covered by the policy on a registered parent is queued, not applied *)
Theorem parent_event_deferred f st rev :
  mapped (ce_t rev) = true ->
  q_is_parent (queue st) (ce_id rev) = true ->
  fk_events c (ce_kind rev) = true ->
  let r := process_remote c outcome (S f) st rev None true false in
  calls (fst r) = calls st /\ ncall (fst r) = ncall st /\ snd r = true /\
  (cc_remed c = RDisabled ->
   forall l, convert c true rev = Some l ->
   exists e, queue (fst r) = queue st ++ [e] /\ q_remote e = Some rev /\ q_num e = q_next_num (queue st)).
Proof. intros Hm Hp Hk. apply event_deferred; [exact Hm|]. rewrite Hp, Hk, orb_true_r. reflexivity. Qed.

(** an event on an object that already has queue entries is queued behind them, not applied *)
Theorem same_object_event_deferred f st rev :
  mapped (ce_t rev) = true ->
  q_has_obj (queue st) (ce_id rev) = true ->
  let r := process_remote c outcome (S f) st rev None true false in
  calls (fst r) = calls st /\ ncall (fst r) = ncall st /\ snd r = true /\
  (cc_remed c = RDisabled ->
   forall l, convert c true rev = Some l ->
   exists e, queue (fst r) = queue st ++ [e] /\ q_remote e = Some rev /\ q_num e = q_next_num (queue st)).
Proof. intros Hm Hp. apply event_deferred; [exact Hm|]. rewrite Hp. reflexivity. Qed.
End FK.

Section FK2.
Variable c : ccfg.
Variable outcome : nat -> hres.
(** *** the retry pass leaves an entry alone while its object is a registered parent *)
Theorem retry_skips_parent st n r skipped e :
  exc st = false ->
  List.find (fun e => Z.eqb (q_num e) n) (queue st) = Some e ->
  q_is_oldest (queue st) e = true ->
  q_is_parent (queue st) (ce_id (q_local e)) = true ->
  retry_pass c outcome st (n :: r) None skipped = retry_pass c outcome st r None (skipped ++ [n]).
Proof.
  intros Hx Hf Ho Hp. cbn [retry_pass]. rewrite Hx, Hf, Ho. cbn [negb]. rewrite Hp. reflexivity.
Qed.
End FK2.

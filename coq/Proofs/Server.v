(** Proofs about one server cycle: the generated events are exactly the
    differences, and replaying them turns the old visible view into the new one. *)
From Hermes Require Import Model.Objects Model.Server Proofs.Values Proofs.Objects.

Definition cfg_ok (c : cfg) : Prop := NoDup (map t_id c).

Lemma lookup_tcfg_Some c t tc : lookup_tcfg c t = Some tc -> tc ∈ c /\ t_id tc = t.
Proof.
  unfold lookup_tcfg. intros H. apply find_some in H. destruct H as [Hin He].
  apply N.eqb_eq in He. split; [apply elem_of_list_In; exact Hin|exact He].
Qed.

Lemma lookup_tcfg_in c tc : cfg_ok c -> tc ∈ c -> lookup_tcfg c (t_id tc) = Some tc.
Proof.
  unfold cfg_ok, lookup_tcfg. induction c as [|x r IH]; intros Hnd Hin; [inversion Hin|].
  simpl in *. inversion Hnd as [|? ? Hni Hnd']; subst.
  destruct (N.eqb_spec (t_id x) (t_id tc)) as [He|Hne].
  - apply elem_of_cons in Hin. destruct Hin as [->|Hin]; [reflexivity|].
    exfalso. apply Hni. rewrite He. apply elem_of_list_fmap. eauto.
  - apply elem_of_cons in Hin. destruct Hin as [->|Hin]; [congruence|]. apply IH; assumption.
Qed.

Lemma tc_inj c tc tc' : cfg_ok c -> tc ∈ c -> tc' ∈ c -> t_id tc = t_id tc' -> tc = tc'.
Proof.
  intros Hc H1 H2 He. apply (lookup_tcfg_in c tc Hc) in H1. apply (lookup_tcfg_in c tc' Hc) in H2.
  rewrite He in H1. congruence.
Qed.

Lemma lookup_wmap (c : cfg) (f : tcfg -> obj -> obj) (w : world) (t : N) (k : Z) :
  wmap c f w !! (t, k) = match lookup_tcfg c t with
                         | Some tc => f tc <$> w !! (t, k)
                         | None => None end.
Proof.
  unfold wmap. rewrite map_lookup_imap. simpl.
  destruct (w !! (t, k)); simpl; destruct (lookup_tcfg c t); reflexivity.
Qed.

(** ** membership in the three per-type groups *)
Lemma elem_of_ev_added tc n o e :
  e ∈ ev_added tc n o <->
  exists k no, e = Ev (t_id tc) k (KAdded (vis_obj tc no)) /\ n !! (t_id tc, k) = Some no /\ o !! (t_id tc, k) = None.
Proof.
  unfold ev_added. rewrite elem_of_list_omap. split.
  - intros [k [Hk He]]. destruct (n !! (t_id tc, k)) as [no|] eqn:Hn; [|discriminate].
    destruct (o !! (t_id tc, k)) eqn:Ho; [discriminate|]. inversion He. eauto.
  - intros [k [no [-> [Hn Ho]]]]. exists k. split; [apply elem_of_keys_of; eauto|].
    rewrite Hn, Ho. reflexivity.
Qed.

Lemma elem_of_ev_modified tc n o e :
  e ∈ ev_modified tc n o <->
  exists k no oo, e = Ev (t_id tc) k (KModified (odiff (vis_obj tc no) (vis_obj tc oo)))
                  /\ n !! (t_id tc, k) = Some no /\ o !! (t_id tc, k) = Some oo
                  /\ vis_obj tc no <> vis_obj tc oo.
Proof.
  unfold ev_modified. rewrite elem_of_list_omap. split.
  - intros [k [Hk He]]. destruct (n !! (t_id tc, k)) as [no|] eqn:Hn; [|discriminate].
    destruct (o !! (t_id tc, k)) as [oo|] eqn:Ho; [|discriminate].
    destruct (md_empty _) eqn:Hd; [discriminate|]. inversion He. exists k, no, oo.
    repeat split; try assumption. intros Heq. apply md_empty_odiff in Heq. congruence.
  - intros [k [no [oo [-> [Hn [Ho Hne]]]]]]. exists k. split; [apply elem_of_keys_of; eauto|].
    rewrite Hn, Ho. destruct (md_empty _) eqn:Hd; [|reflexivity].
    apply md_empty_odiff in Hd. contradiction.
Qed.

Lemma elem_of_ev_removed tc n o e :
  e ∈ ev_removed tc n o <->
  exists k, e = Ev (t_id tc) k KRemoved /\ n !! (t_id tc, k) = None /\ is_Some (o !! (t_id tc, k)).
Proof.
  unfold ev_removed. rewrite elem_of_list_omap. split.
  - intros [k [Hk He]]. destruct (n !! (t_id tc, k)) eqn:Hn; [discriminate|]. inversion He.
    exists k. repeat split; try assumption. apply elem_of_keys_of. exact Hk.
  - intros [k [-> [Hn Ho]]]. exists k. split; [apply elem_of_keys_of; exact Ho|].
    rewrite Hn. reflexivity.
Qed.

(** ids inside one group are distinct *)
Lemma NoDup_omap_keys {A} (f : Z -> option A) (g : A -> N * Z) t l :
  NoDup l -> (forall k a, f k = Some a -> g a = (t, k)) -> NoDup (map g (omap f l)).
Proof.
  intros Hnd Hf. induction Hnd as [|k l Hni Hnd IH]; simpl; [constructor|].
  destruct (f k) as [a|] eqn:Hk; [|exact IH]. simpl. constructor; [|exact IH].
  rewrite (Hf _ _ Hk). intros Hin. apply elem_of_list_fmap in Hin. destruct Hin as [a' [Ha' Hin]].
  apply elem_of_list_omap in Hin. destruct Hin as [k' [Hk' Hfk']].
  rewrite (Hf _ _ Hfk') in Ha'. inversion Ha'; subst. contradiction.
Qed.

Lemma NoDup_ids_added tc n o : NoDup (map ev_id (ev_added tc n o)).
Proof.
  unfold ev_added. apply (NoDup_omap_keys _ _ (t_id tc)); [apply NoDup_keys_of|].
  intros k a H. destruct (n !! _); [|discriminate]. destruct (o !! _); [discriminate|].
  inversion H. reflexivity.
Qed.
Lemma NoDup_ids_modified tc n o : NoDup (map ev_id (ev_modified tc n o)).
Proof.
  unfold ev_modified. apply (NoDup_omap_keys _ _ (t_id tc)); [apply NoDup_keys_of|].
  intros k a H. destruct (n !! _); [|discriminate]. destruct (o !! _); [|discriminate].
  destruct (md_empty _); [discriminate|]. inversion H. reflexivity.
Qed.
Lemma NoDup_ids_removed tc n o : NoDup (map ev_id (ev_removed tc n o)).
Proof.
  unfold ev_removed. apply (NoDup_omap_keys _ _ (t_id tc)); [apply NoDup_keys_of|].
  intros k a H. destruct (n !! _); [discriminate|]. inversion H. reflexivity.
Qed.

(** ** reorder is a permutation (for lists with distinct ids) *)
Lemma id_eqb_eq a b : id_eqb a b = true <-> a = b.
Proof.
  destruct a, b. unfold id_eqb. simpl. rewrite andb_true_iff, N.eqb_eq, Z.eqb_eq.
  split; [intros [-> ->]; reflexivity|intros H; inversion H; auto].
Qed.

Lemma find_id_Some evs i e :
  List.find (fun e => id_eqb (ev_id e) i) evs = Some e -> e ∈ evs /\ ev_id e = i.
Proof.
  intros H. apply find_some in H. destruct H as [Hin He]. apply id_eqb_eq in He.
  split; [apply elem_of_list_In; exact Hin|exact He].
Qed.

Lemma find_id_in evs e :
  NoDup (map ev_id evs) -> e ∈ evs -> List.find (fun e' => id_eqb (ev_id e') (ev_id e)) evs = Some e.
Proof.
  induction evs as [|x r IH]; intros Hnd Hin; [inversion Hin|].
  simpl in *. inversion Hnd as [|? ? Hni Hnd']; subst.
  destruct (id_eqb (ev_id x) (ev_id e)) eqn:He.
  - apply id_eqb_eq in He. apply elem_of_cons in Hin. destruct Hin as [->|Hin]; [reflexivity|].
    exfalso. apply Hni. rewrite He. apply elem_of_list_fmap. eauto.
  - apply elem_of_cons in Hin. destruct Hin as [->|Hin].
    + assert (id_eqb (ev_id x) (ev_id x) = true) by (apply id_eqb_eq; reflexivity). congruence.
    + apply IH; assumption.
Qed.

Lemma existsb_id hint i : existsb (id_eqb i) hint = true <-> i ∈ hint.
Proof.
  rewrite existsb_exists. split.
  - intros [x [Hin He]]. apply id_eqb_eq in He. subst. apply elem_of_list_In. exact Hin.
  - intros Hin. exists i. split; [apply elem_of_list_In; exact Hin|apply id_eqb_eq; reflexivity].
Qed.

Lemma elem_of_reorder hint evs e :
  NoDup (map ev_id evs) -> e ∈ reorder hint evs <-> e ∈ evs.
Proof.
  intros Hnd. unfold reorder. rewrite elem_of_app, elem_of_list_omap, elem_of_list_In, filter_In,
    <- elem_of_list_In. split.
  - intros [[i [Hi Hf]]|[Hin _]]; [|exact Hin]. apply find_id_Some in Hf. tauto.
  - intros Hin. destruct (decide (ev_id e ∈ hint)) as [Hh|Hh].
    + left. exists (ev_id e). split; [apply elem_of_remove_dups; exact Hh|]. apply find_id_in; assumption.
    + right. split; [exact Hin|]. apply negb_true_iff.
      destruct (existsb (id_eqb (ev_id e)) hint) eqn:E; [|reflexivity].
      apply existsb_id in E. contradiction.
Qed.

Lemma NoDup_ids_reorder hint evs :
  NoDup (map ev_id evs) -> NoDup (map ev_id (reorder hint evs)).
Proof.
  intros Hnd. unfold reorder. rewrite map_app. apply NoDup_app. repeat split.
  - assert (Hh := NoDup_remove_dups hint).
    induction Hh as [|i l Hni Hh IH]; simpl; [constructor|].
    destruct (List.find _ evs) as [e|] eqn:Hf; [|exact IH]. simpl.
    apply find_id_Some in Hf. destruct Hf as [_ Hid]. constructor; [|exact IH].
    rewrite Hid. intros Hin. apply elem_of_list_fmap in Hin. destruct Hin as [e' [He' Hin]].
    apply elem_of_list_omap in Hin. destruct Hin as [i' [Hi' Hf']].
    apply find_id_Some in Hf'. destruct Hf' as [_ Hid']. subst. rewrite He' in Hni. contradiction.
  - intros i Hin1 Hin2.
    apply elem_of_list_fmap in Hin1. destruct Hin1 as [e1 [-> Hin1]].
    apply elem_of_list_omap in Hin1. destruct Hin1 as [i1 [Hi1 Hf1]].
    apply find_id_Some in Hf1. destruct Hf1 as [_ Hid1].
    apply elem_of_list_fmap in Hin2. destruct Hin2 as [e2 [He2 Hin2]].
    apply elem_of_list_In, filter_In in Hin2. destruct Hin2 as [_ Hneg].
    apply negb_true_iff in Hneg. apply (proj1 (elem_of_remove_dups _ _)) in Hi1.
    assert (existsb (id_eqb (ev_id e2)) hint = true); [|congruence].
    apply existsb_id. rewrite <- He2, Hid1. exact Hi1.
  - induction evs as [|x r IH]; simpl; [constructor|].
    simpl in Hnd. inversion Hnd as [|? ? Hni Hnd']; subst.
    destruct (negb _); [|apply IH; exact Hnd']. simpl. constructor; [|apply IH; exact Hnd'].
    intros Hin. apply Hni. apply elem_of_list_fmap in Hin. destruct Hin as [e [He Hin]].
    apply elem_of_list_In, filter_In in Hin. destruct Hin as [Hin _].
    apply elem_of_list_fmap. exists e. split; [exact He|apply elem_of_list_In; exact Hin].
Qed.

(** ** concatenation over types *)
Lemma NoDup_ids_concat (f : tcfg -> list event) (c : cfg) :
  NoDup (map t_id c) ->
  (forall tc, NoDup (map ev_id (f tc))) ->
  (forall tc e, e ∈ f tc -> e_t e = t_id tc) ->
  NoDup (map ev_id (concat (map f c))).
Proof.
  intros Hnd Hf Ht. induction c as [|tc r IH]; simpl; [constructor|].
  simpl in Hnd. inversion Hnd as [|? ? Hni Hnd']; subst.
  rewrite map_app. apply NoDup_app. repeat split; [apply Hf| |apply IH; exact Hnd'].
  intros i Hin1 Hin2.
  apply elem_of_list_fmap in Hin1. destruct Hin1 as [e1 [-> Hin1]].
  apply elem_of_list_fmap in Hin2. destruct Hin2 as [e2 [He2 Hin2]].
  apply elem_of_list_In, in_concat in Hin2. destruct Hin2 as [l [Hl Hin2]].
  apply in_map_iff in Hl. destruct Hl as [tc2 [<- Htc2]].
  apply elem_of_list_In in Hin2. apply Ht in Hin1. apply Ht in Hin2.
  apply Hni. unfold ev_id in He2. inversion He2 as [[Het Hek]].
  rewrite <- Hin1, Het, Hin2. apply elem_of_list_fmap. exists tc2. split; [reflexivity|].
  apply elem_of_list_In. exact Htc2.
Qed.

Lemma elem_of_concat_map {A B} (f : A -> list B) (l : list A) (b : B) :
  b ∈ concat (map f l) <-> exists a, a ∈ l /\ b ∈ f a.
Proof.
  rewrite elem_of_list_In, in_concat. split.
  - intros [x [Hx Hb]]. apply in_map_iff in Hx. destruct Hx as [a [<- Ha]].
    exists a. rewrite !elem_of_list_In. tauto.
  - intros [a [Ha Hb]]. exists (f a). rewrite <- !elem_of_list_In. split; [|exact Hb].
    apply elem_of_list_In, in_map, elem_of_list_In. exact Ha.
Qed.

Lemma elem_of_rev {A} (l : list A) x : x ∈ rev l <-> x ∈ l.
Proof. rewrite !elem_of_list_In. symmetry. apply in_rev. Qed.

(** Specification of the event list of a cycle: [e] is *the* event the
    difference between [n] and [o] at its object calls for. *)
Inductive diff_event (c : cfg) (n o : world) : event -> Prop :=
| DE_added tc k no : tc ∈ c -> n !! (t_id tc, k) = Some no -> o !! (t_id tc, k) = None ->
    diff_event c n o (Ev (t_id tc) k (KAdded (vis_obj tc no)))
| DE_modified tc k no oo : tc ∈ c -> n !! (t_id tc, k) = Some no -> o !! (t_id tc, k) = Some oo ->
    vis_obj tc no <> vis_obj tc oo ->
    diff_event c n o (Ev (t_id tc) k (KModified (odiff (vis_obj tc no) (vis_obj tc oo))))
| DE_removed tc k : tc ∈ c -> n !! (t_id tc, k) = None -> is_Some (o !! (t_id tc, k)) ->
    diff_event c n o (Ev (t_id tc) k KRemoved).

Theorem gen_events_h_spec c hint n o e :
  e ∈ gen_events_h c hint n o <-> diff_event c n o e.
Proof.
  unfold gen_events_h. rewrite !elem_of_app, !elem_of_concat_map. split.
  - intros [[tc [Htc He]]|[[tc [Htc He]]|[tc [Htc He]]]].
    + apply elem_of_ev_added in He. destruct He as [k [no [-> [Hn Ho]]]]. econstructor; eassumption.
    + apply elem_of_reorder in He; [|apply NoDup_ids_modified].
      apply elem_of_ev_modified in He. destruct He as [k [no [oo [-> [Hn [Ho Hne]]]]]].
      econstructor; eassumption.
    + apply elem_of_ev_removed in He. destruct He as [k [-> [Hn Ho]]].
      apply (proj1 (elem_of_rev _ _)) in Htc. econstructor; eassumption.
  - intros [tc k no Htc Hn Ho|tc k no oo Htc Hn Ho Hne|tc k Htc Hn Ho].
    + left. exists tc. split; [exact Htc|]. apply elem_of_ev_added. eauto.
    + right; left. exists tc. split; [exact Htc|]. apply elem_of_reorder; [apply NoDup_ids_modified|].
      apply elem_of_ev_modified. eauto 10.
    + right; right. exists tc. split; [apply elem_of_rev; exact Htc|]. apply elem_of_ev_removed. eauto.
Qed.

(** At most one event per object and per cycle. *)
Theorem gen_events_h_NoDup c hint n o :
  cfg_ok c -> NoDup (map ev_id (gen_events_h c hint n o)).
Proof.
  intros Hc. unfold gen_events_h. rewrite !map_app.
  assert (HA : forall e, e ∈ concat (map (fun tc => ev_added tc n o) c) ->
               is_Some (n !! ev_id e) /\ o !! ev_id e = None).
  { intros e He. apply elem_of_concat_map in He. destruct He as [tc [_ He]].
    apply elem_of_ev_added in He. destruct He as [k [no [-> [Hn Ho]]]]. unfold ev_id. simpl. eauto. }
  assert (HM : forall e, e ∈ concat (map (fun tc => reorder hint (ev_modified tc n o)) c) ->
               is_Some (n !! ev_id e) /\ is_Some (o !! ev_id e)).
  { intros e He. apply elem_of_concat_map in He. destruct He as [tc [_ He]].
    apply elem_of_reorder in He; [|apply NoDup_ids_modified].
    apply elem_of_ev_modified in He. destruct He as [k [no [oo [-> [Hn [Ho _]]]]]]. unfold ev_id. simpl. eauto. }
  assert (HR : forall e, e ∈ concat (map (fun tc => ev_removed tc n o) (rev c)) ->
               n !! ev_id e = None).
  { intros e He. apply elem_of_concat_map in He. destruct He as [tc [_ He]].
    apply elem_of_ev_removed in He. destruct He as [k [-> [Hn _]]]. exact Hn. }
  apply NoDup_app. repeat split.
  - apply NoDup_ids_concat; [exact Hc|intros; apply NoDup_ids_added|].
    intros tc e He. apply elem_of_ev_added in He. destruct He as [k [no [-> _]]]. reflexivity.
  - intros i Hi1 Hi2. apply elem_of_list_fmap in Hi1. destruct Hi1 as [e1 [-> He1]].
    apply HA in He1. destruct He1 as [[x Hn] Ho].
    apply elem_of_app in Hi2. destruct Hi2 as [Hi2|Hi2];
      apply elem_of_list_fmap in Hi2; destruct Hi2 as [e2 [He2 Hin2]].
    + apply HM in Hin2. destruct Hin2 as [_ [y Hy]]. congruence.
    + apply HR in Hin2. congruence.
  - apply NoDup_app. repeat split.
    + apply NoDup_ids_concat; [exact Hc|intros; apply NoDup_ids_reorder, NoDup_ids_modified|].
      intros tc e He. apply elem_of_reorder in He; [|apply NoDup_ids_modified].
      apply elem_of_ev_modified in He. destruct He as [k [no [oo [-> _]]]]. reflexivity.
    + intros i Hi1 Hi2. apply elem_of_list_fmap in Hi1. destruct Hi1 as [e1 [-> He1]].
      apply HM in He1. destruct He1 as [[x Hn] _].
      apply elem_of_list_fmap in Hi2. destruct Hi2 as [e2 [He2 Hin2]].
      apply HR in Hin2. congruence.
    + apply NoDup_ids_concat; [unfold cfg_ok in Hc; rewrite map_rev; apply NoDup_ListNoDup, NoDup_rev, NoDup_ListNoDup; exact Hc
                              |intros; apply NoDup_ids_removed|].
      intros tc e He. apply elem_of_ev_removed in He. destruct He as [k [-> _]]. reflexivity.
Qed.

(** ** C01, one cycle: replaying the cycle's events on the old visible view
    gives the new visible view - nothing missing, nothing phantom. *)
Theorem replay_cycle c hint n o :
  cfg_ok c ->
  replay (gen_events_h c hint n o) (vis c o) = vis c n.
Proof.
  intros Hc. apply map_eq. intros [t k].
  assert (Hnd := gen_events_h_NoDup c hint n o Hc).
  unfold vis at 2. rewrite lookup_wmap.
  destruct (lookup_tcfg c t) as [tc|] eqn:Htc.
  - apply lookup_tcfg_Some in Htc. destruct Htc as [Htc <-].
    destruct (n !! (t_id tc, k)) as [no|] eqn:Hn, (o !! (t_id tc, k)) as [oo|] eqn:Ho; simpl.
    + destruct (decide (vis_obj tc no = vis_obj tc oo)) as [Heq|Hne].
      * rewrite replay_lookup_notin.
        { unfold vis. rewrite lookup_wmap, (lookup_tcfg_in c tc Hc Htc), Ho. simpl. congruence. }
        intros Hin. apply elem_of_list_fmap in Hin. destruct Hin as [e [He Hin]].
        apply gen_events_h_spec in Hin. destruct Hin as [tc' k' no' Htc' Hn' Ho'|tc' k' no' oo' Htc' Hn' Ho' Hne'|tc' k' Htc' Hn' Ho'];
          unfold ev_id in He; simpl in He; inversion He as [[Ht Hk]]; subst k';
          assert (tc = tc') by (apply (tc_inj c); assumption); subst tc'; try congruence.
      * assert (Hin : Ev (t_id tc) k (KModified (odiff (vis_obj tc no) (vis_obj tc oo))) ∈ gen_events_h c hint n o).
        { apply gen_events_h_spec. econstructor; eassumption. }
        rewrite (replay_lookup_in _ _ _ Hnd Hin : replay _ _ !! (t_id tc, k) = _).
        unfold apply1. simpl. unfold vis, ev_id. simpl. rewrite lookup_wmap, (lookup_tcfg_in c tc Hc Htc), Ho. simpl.
        rewrite apply_mod_odiff. reflexivity.
    + assert (Hin : Ev (t_id tc) k (KAdded (vis_obj tc no)) ∈ gen_events_h c hint n o).
      { apply gen_events_h_spec. econstructor; eassumption. }
      rewrite (replay_lookup_in _ _ _ Hnd Hin : replay _ _ !! (t_id tc, k) = _). reflexivity.
    + assert (Hin : Ev (t_id tc) k KRemoved ∈ gen_events_h c hint n o).
      { apply gen_events_h_spec. econstructor; eauto. }
      rewrite (replay_lookup_in _ _ _ Hnd Hin : replay _ _ !! (t_id tc, k) = _). reflexivity.
    + rewrite replay_lookup_notin.
      { unfold vis. rewrite lookup_wmap, (lookup_tcfg_in c tc Hc Htc), Ho. reflexivity. }
      intros Hin. apply elem_of_list_fmap in Hin. destruct Hin as [e [He Hin]].
      apply gen_events_h_spec in Hin. destruct Hin as [tc' k' no' Htc' Hn' Ho'|tc' k' no' oo' Htc' Hn' Ho' Hne'|tc' k' Htc' Hn' [? Ho']];
          unfold ev_id in He; simpl in He; inversion He as [[Ht Hk]]; subst k';
          assert (tc = tc') by (apply (tc_inj c); assumption); subst tc'; congruence.
  - rewrite replay_lookup_notin.
    + unfold vis. rewrite lookup_wmap, Htc. reflexivity.
    + intros Hin. apply elem_of_list_fmap in Hin. destruct Hin as [e [He Hin]].
      apply gen_events_h_spec in Hin.
      assert (Hx : exists tc', tc' ∈ c /\ e_t e = t_id tc') by (destruct Hin; simpl; eauto).
      destruct Hx as [tc' [Htc' Het]]. unfold ev_id in He. inversion He as [[Ht Hk]].
      rewrite Het in Ht. rewrite Ht in Htc. rewrite (lookup_tcfg_in c tc' Hc Htc') in Htc. discriminate.
Qed.

(** C02: a cycle whose view equals the published one is silent. *)
Theorem gen_events_h_silent c hint w : gen_events_h c hint w w = [].
Proof.
  destruct (gen_events_h c hint w w) as [|e l] eqn:E; [reflexivity|].
  assert (H : e ∈ gen_events_h c hint w w) by (rewrite E; left).
  apply gen_events_h_spec in H. destruct H as [? ? ? _ Hn Ho|? ? ? ? _ Hn Ho Hne|? ? _ Hn [? Ho]]; congruence.
Qed.

(** ** The memory cache follows exactly what the bus accepted (C04 core) *)
Definition upd1 (n : world) (e : event) (x : option obj) : option obj :=
  match e_kind e with
  | KRemoved => None
  | _ => match n !! ev_id e with Some o => Some o | None => x end
  end.

Lemma lookup_upd_cache n w e i :
  upd_cache n w e !! i = if decide (i = ev_id e) then upd1 n e (w !! i) else w !! i.
Proof.
  unfold upd_cache, upd1. destruct (decide (i = ev_id e)) as [->|Hne].
  - destruct (e_kind e); try (destruct (n !! ev_id e); [apply lookup_insert|reflexivity]).
    apply lookup_delete.
  - destruct (e_kind e); try (destruct (n !! ev_id e); [apply lookup_insert_ne; congruence|reflexivity]).
    apply lookup_delete_ne. congruence.
Qed.

Lemma foldl_upd_notin n evs w i :
  i ∉ map ev_id evs -> foldl (upd_cache n) w evs !! i = w !! i.
Proof.
  revert w. induction evs as [|e r IH]; intros w Hni; [reflexivity|].
  simpl in *. rewrite not_elem_of_cons in Hni. destruct Hni as [Hne Hni].
  rewrite IH by exact Hni. rewrite lookup_upd_cache.
  destruct (decide (i = ev_id e)); [contradiction|reflexivity].
Qed.

Lemma foldl_upd_in n evs w e :
  NoDup (map ev_id evs) -> e ∈ evs ->
  foldl (upd_cache n) w evs !! ev_id e = upd1 n e (w !! ev_id e).
Proof.
  revert w. induction evs as [|e' r IH]; intros w Hnd Hin; [inversion Hin|].
  simpl in Hnd. inversion Hnd as [|? ? Hni Hnd']; subst. simpl.
  apply elem_of_cons in Hin. destruct Hin as [->|Hin].
  - rewrite foldl_upd_notin by exact Hni. rewrite lookup_upd_cache.
    destruct (decide (ev_id e' = ev_id e')); [reflexivity|contradiction].
  - rewrite (IH _ Hnd' Hin). rewrite lookup_upd_cache.
    destruct (decide (ev_id e = ev_id e')) as [Heq|]; [|reflexivity].
    exfalso. apply Hni. rewrite <- Heq. apply elem_of_list_fmap. eauto.
Qed.

(** Whatever prefix of a cycle's events was accepted, the visible projection of
    the cache equals the old visible view with exactly that prefix replayed. *)
Theorem cache_tracks_prefix c hint n o pre post :
  cfg_ok c -> gen_events_h c hint n o = pre ++ post ->
  vis c (foldl (upd_cache n) o pre) = replay pre (vis c o).
Proof.
  intros Hc Hsplit. assert (Hnd := gen_events_h_NoDup c hint n o Hc). rewrite Hsplit in Hnd.
  rewrite map_app in Hnd. apply NoDup_app in Hnd. destruct Hnd as [Hnd _].
  assert (Hspec : forall e, e ∈ pre -> diff_event c n o e).
  { intros e He. apply gen_events_h_spec with (hint := hint). rewrite Hsplit. apply elem_of_app. left. exact He. }
  apply map_eq. intros [t k]. unfold vis at 1. rewrite lookup_wmap.
  destruct (decide ((t, k) ∈ map ev_id pre)) as [Hin|Hni].
  - apply elem_of_list_fmap in Hin. destruct Hin as [e [Hid He]].
    rewrite Hid. rewrite (replay_lookup_in _ _ _ Hnd He), (foldl_upd_in _ _ _ _ Hnd He).
    assert (Hd := Hspec e He). unfold vis. rewrite <- Hid, lookup_wmap. rewrite Hid.
    destruct Hd as [tc k' no Htc Hn Ho|tc k' no oo Htc Hn Ho Hne|tc k' Htc Hn Ho];
      unfold ev_id in Hid; simpl in Hid; inversion Hid; subst t k';
      unfold upd1, apply1, ev_id; simpl; rewrite (lookup_tcfg_in c tc Hc Htc), ?Hn, ?Ho; simpl;
      try reflexivity.
    rewrite apply_mod_odiff. reflexivity.
  - rewrite foldl_upd_notin by exact Hni. rewrite replay_lookup_notin by exact Hni.
    unfold vis. rewrite lookup_wmap. reflexivity.
Qed.

Corollary cache_after_cycle c hint n o :
  cfg_ok c ->
  vis c (foldl (upd_cache n) o (gen_events_h c hint n o)) = vis c n.
Proof.
  intros Hc. rewrite (cache_tracks_prefix c hint n o _ []) by (try rewrite app_nil_r; auto).
  apply replay_cycle; assumption.
Qed.

(** ** send_loop: accepted prefix, abort at the first refusal *)
Lemma send_loop_spec c n evs mem refused i mem' tr ok :
  send_loop c n evs mem refused i = (mem', tr, ok) ->
  exists pre post, evs = pre ++ post /\ base_events tr = pre /\ mem' = foldl (upd_cache n) mem pre
                   /\ (ok = true -> post = [])
                   /\ (ok = false -> exists e r, post = e :: r /\ exists tr0, tr = tr0 ++ [ARefused (Some e)]).
Proof.
  revert mem i mem' tr ok. induction evs as [|e r IH]; intros mem i mem' tr ok H; simpl in H.
  - inversion H; subst. exists [], []. repeat split; auto. discriminate.
  - destruct (is_refused refused i).
    + inversion H; subst. exists [], (e :: r). repeat split; auto; [discriminate|].
      intros _. exists e, r. split; [reflexivity|]. exists []. reflexivity.
    + destruct (send_loop c n r (upd_cache n mem e) refused (S i)) as [[m2 t2] ok2] eqn:E.
      inversion H; subst. destruct (IH _ _ _ _ _ E) as [pre [post [-> [Hb [-> [Hok Hko]]]]]].
      exists (e :: pre), post. repeat split; auto.
      * simpl. f_equal. unfold base_events. rewrite omap_app.
        assert (Hc1 : omap (fun a => match a with ASend false e0 => Some e0 | _ => None end) (commit_one_of c e) = []).
        { unfold commit_one_of. destruct (lookup_tcfg c (e_t e)) as [tc|]; [destruct (t_commit_one tc)|]; reflexivity. }
        rewrite Hc1. exact Hb.
      * intros Hf. destruct (Hko Hf) as [e' [r' [-> [tr0 ->]]]]. exists e', r'. split; [reflexivity|].
        exists (ASend false e :: commit_one_of c e ++ tr0). simpl. rewrite <- app_assoc. reflexivity.
Qed.

Lemma send_loop_commits c n evs mem refused i mem' tr ok :
  send_loop c n evs mem refused i = (mem', tr, ok) -> commits_follow_sends c tr = true.
Proof.
  revert mem i mem' tr ok. induction evs as [|e r IH]; intros mem i mem' tr ok H; simpl in H.
  - inversion H; reflexivity.
  - destruct (is_refused refused i); [inversion H; reflexivity|].
    destruct (send_loop c n r (upd_cache n mem e) refused (S i)) as [[m2 t2] ok2] eqn:E.
    inversion H; subst. apply IH in E. simpl. unfold commit_one_of.
    destruct (lookup_tcfg c (e_t e)) as [tc|]; [|exact E].
    destruct (t_commit_one tc); simpl; [|exact E].
    rewrite N.eqb_refl, Z.eqb_refl. exact E.
Qed.

(** ** Histories: the bus state tracks the server's published state, and equals
    the view after every completely published poll - for every refusal schedule,
    every open failure, every initsync request (no restart; see C01 for those). *)
Definition track (c : cfg) (B : option world) (s : sstep) (st' : sstate) (tr : list action) : option world :=
  match s with
  | SRestart => B
  | SPoll _ _ view _ _ =>
      match B with
      | Some b => Some (replay (base_events tr) b)
      | None => if s_first st' then None else Some (vis c view)
      end
  end.

Definition inv (c : cfg) (B : option world) (st : sstate) : Prop :=
  match B with
  | None => s_first st = true
  | Some b => s_first st = false /\ b = vis c (s_mem st)
  end.

Lemma base_events_app a b : base_events (a ++ b) = base_events a ++ base_events b.
Proof. unfold base_events. apply omap_app. Qed.

Lemma base_events_isync_loop evs refused i tr i' ok :
  isync_loop evs refused i = (tr, i', ok) -> base_events tr = [].
Proof.
  revert i tr i' ok. induction evs as [|e r IH]; intros i tr i' ok H; simpl in H.
  - inversion H; reflexivity.
  - destruct (is_refused refused i); [inversion H; reflexivity|].
    destruct (isync_loop r refused (S i)) as [[t2 i2] ok2] eqn:E. inversion H; subst.
    simpl. eapply IH; eassumption.
Qed.

Lemma base_events_initsync c mem refused tr i ok :
  initsync_run c mem refused = (tr, i, ok) -> base_events tr = [].
Proof.
  unfold initsync_run. destruct (is_refused refused 0); [intros H; inversion H; reflexivity|].
  destruct (isync_loop (ev_initsync c mem) refused 1) as [[t2 i2] ok2] eqn:E.
  apply base_events_isync_loop in E.
  destruct (negb ok2); [intros H; inversion H; subst; simpl; exact E|].
  destruct (is_refused refused i2); intros H; inversion H; subst; simpl;
    rewrite base_events_app, E; reflexivity.
Qed.

Lemma base_events_commit_alls c : base_events (commit_alls c) = [].
Proof.
  unfold commit_alls. induction c as [|tc r IH]; [reflexivity|]. simpl.
  destruct (t_commit_all tc); simpl; exact IH.
Qed.

Definition no_refusal (tr : list action) : bool :=
  forallb (fun a => match a with ARefused _ => false | _ => true end) tr.

Lemma no_refusal_app a b : no_refusal (a ++ b) = no_refusal a && no_refusal b.
Proof. unfold no_refusal. apply forallb_app. Qed.

Lemma poll_inv c st view refused hint i0 B st' tr isync openfail :
  cfg_ok c -> inv c B st -> poll c st view refused hint i0 = (st', tr) ->
  inv c (track c B (SPoll isync openfail view refused hint) st' tr) st'
  /\ (no_refusal tr = true ->
      track c B (SPoll isync openfail view refused hint) st' tr = Some (vis c view)).
Proof.
  intros Hc Hinv H. unfold poll in H. destruct (s_first st) eqn:Hf.
  - inversion H; subst. destruct B as [b|]; [destruct Hinv as [Hx _]; congruence|].
    simpl. split; [|reflexivity]. split; [reflexivity|]. symmetry. apply cache_after_cycle. exact Hc.
  - destruct B as [b|]; [|simpl in Hinv; congruence]. destruct Hinv as [_ ->].
    destruct (send_loop c view _ (s_mem st) refused i0) as [[mem' tr0] ok] eqn:E.
    inversion H; subst. destruct (send_loop_spec _ _ _ _ _ _ _ _ _ E) as [pre [post [Hsplit [Hb [-> [Hok Hko]]]]]].
    assert (Hbe : base_events (tr0 ++ (if ok then commit_alls c else [])) = pre).
    { rewrite base_events_app, Hb. destruct ok; [rewrite base_events_commit_alls|]; apply app_nil_r. }
    simpl. rewrite Hbe. split.
    + split; [reflexivity|]. symmetry. eapply cache_tracks_prefix; eassumption.
    + intros Hnr. rewrite no_refusal_app in Hnr. apply andb_true_iff in Hnr. destruct Hnr as [Hnr _].
      destruct ok.
      * rewrite (Hok eq_refl), app_nil_r in Hsplit. subst pre. f_equal. apply replay_cycle. exact Hc.
      * destruct (Hko eq_refl) as [e [r [_ [tr1 ->]]]]. rewrite no_refusal_app in Hnr.
        apply andb_true_iff in Hnr. destruct Hnr as [_ Hnr]. discriminate.
Qed.

Lemma sstep_inv c st s B st' tr :
  cfg_ok c -> inv c B st -> s <> SRestart -> sstep_run c st s = (st', tr) ->
  inv c (track c B s st' tr) st'.
Proof.
  intros Hc Hinv Hs H. destruct s as [isync openfail view refused hint|]; [|contradiction].
  simpl in H. destruct openfail.
  { inversion H; subst. simpl. destruct B as [b|]; simpl in *; [exact Hinv|rewrite Hinv; exact Hinv]. }
  destruct isync.
  - destruct (initsync_run c (s_mem st) refused) as [[tr0 i0] ok0] eqn:E0.
    assert (Hb0 := base_events_initsync _ _ _ _ _ _ E0). destruct ok0.
    + destruct (poll c st view refused hint i0) as [st2 tr2] eqn:E. inversion H; subst.
      destruct (poll_inv c st view refused hint i0 B st' tr2 true false Hc Hinv E) as [Hi _].
      simpl in *. destruct B as [b|]; [|exact Hi]. rewrite base_events_app, Hb0. exact Hi.
    + inversion H; subst. simpl. destruct B as [b|]; simpl in *; [rewrite Hb0; exact Hinv|rewrite Hinv; exact Hinv].
  - destruct (poll_inv c st view refused hint 0 B st' tr false false Hc Hinv H) as [Hi _]. exact Hi.
Qed.

(** The tracked bus state over a whole run. *)
Fixpoint track_run (c : cfg) (B : option world) (st : sstate) (steps : list sstep) : option world * sstate :=
  match steps with
  | [] => (B, st)
  | s :: r => let '(st', tr) := sstep_run c st s in track_run c (track c B s st' tr) st' r
  end.

Definition no_restart (steps : list sstep) : Prop := Forall (fun s => s <> SRestart) steps.

Theorem run_inv c steps : forall B st,
  cfg_ok c -> no_restart steps -> inv c B st ->
  let '(B', st') := track_run c B st steps in inv c B' st'.
Proof.
  induction steps as [|s r IH]; intros B st Hc Hnr Hinv; simpl; [exact Hinv|].
  inversion Hnr as [|? ? Hs Hr]; subst.
  destruct (sstep_run c st s) as [st' tr] eqn:E.
  apply IH; [exact Hc|exact Hr|]. eapply sstep_inv; eassumption.
Qed.

Lemma no_refusal_initsync_ok c mem refused tr i ok :
  initsync_run c mem refused = (tr, i, ok) -> no_refusal tr = true -> ok = true.
Proof.
  unfold initsync_run. destruct (is_refused refused 0); [intros H; inversion H; subst; discriminate|].
  destruct (isync_loop (ev_initsync c mem) refused 1) as [[t2 i2] ok2] eqn:E.
  assert (Hl : no_refusal t2 = true -> ok2 = true).
  { clear -E. revert E. generalize 1%nat. revert t2 i2 ok2.
    induction (ev_initsync c mem) as [|e r IH]; intros t2 i2 ok2 i E; simpl in E.
    - inversion E; reflexivity.
    - destruct (is_refused refused i); [inversion E; subst; discriminate|].
      destruct (isync_loop r refused (S i)) as [[t3 i3] ok3] eqn:E3. inversion E; subst.
      simpl. eapply IH; eassumption. }
  destruct ok2; simpl.
  - destruct (is_refused refused i2); intros H; inversion H; subst; [|reflexivity].
    intros Hn. simpl in Hn. rewrite no_refusal_app in Hn. apply andb_true_iff in Hn. destruct Hn; discriminate.
  - intros H; inversion H; subst. intros Hn. simpl in Hn. apply Hl in Hn. discriminate.
Qed.

(** After a poll whose sends were all accepted, the bus state IS the visible view. *)
Theorem sstep_complete c st B isync view refused hint st' tr :
  cfg_ok c -> inv c B st ->
  sstep_run c st (SPoll isync false view refused hint) = (st', tr) -> no_refusal tr = true ->
  track c B (SPoll isync false view refused hint) st' tr = Some (vis c view).
Proof.
  intros Hc Hinv H Hnr. simpl in H. destruct isync.
  - destruct (initsync_run c (s_mem st) refused) as [[tr0 i0] ok0] eqn:E0.
    assert (Hb0 := base_events_initsync _ _ _ _ _ _ E0). destruct ok0.
    + destruct (poll c st view refused hint i0) as [st2 tr2] eqn:E. inversion H; subst.
      rewrite no_refusal_app in Hnr. apply andb_true_iff in Hnr. destruct Hnr as [_ Hnr].
      destruct (poll_inv c st view refused hint i0 B st' tr2 true false Hc Hinv E) as [_ Hc2].
      specialize (Hc2 Hnr). simpl in *. destruct B as [b|]; [|exact Hc2].
      rewrite base_events_app, Hb0. exact Hc2.
    + inversion H; subst. apply (no_refusal_initsync_ok _ _ _ _ _ _ E0) in Hnr. discriminate.
  - destruct (poll_inv c st view refused hint 0 B st' tr false false Hc Hinv H) as [_ Hc2]. auto.
Qed.

(** One failure, then healing (C07), 'added' events: the failed creation of an object is parked
    (target side untouched, expected-state caches already hold the object); the next retry
    with a handler that succeeds leaves exactly the state of the failure-free run. *)
From Hermes Require Import Model.Objects Model.Client Proofs.Values Proofs.Objects Proofs.Client Proofs.ClientHealthy Proofs.ClientHeal.
From RecordUpdate Require Import RecordSet.
Import RecordSetNotations.

Section HealAdd.
Variable c : ccfg.
Variable outcome : nat -> hres.
Hypothesis Hret : cc_retention c = None.
Hypothesis Hrem : cc_remed c = RDisabled.

Definition add_call (e : cev) (ct : ctype) (a : obj) (rty : bool) (out : hres) : call :=
  Call HAdded (ce_t e) (ce_k e) (KAdded (conv_obj ct a)) (Some (conv_obj ct a)) None (ce_step e) (ce_partial e) rty out.
Definition parked_add (r l : world) (n : nat) (cs : list call) (rty fr : bool) (e : cev) (ct : ctype) (a : obj) : cstate :=
  CState r ∅ (<[ce_id e := a]> r) ∅ l ∅ (<[ce_id e := conv_obj ct a]> l) ∅
         [QEntry 1 (Some (mark_of e (KAdded a))) (mark_of e (KAdded (conv_obj ct a))) true []]
         (S n) (cs ++ [add_call e ct a rty HFail]) (ce_step e) (ce_partial e) rty false fr [].

Lemma added_fails_once r l n cs stp prt rty fr e ct a :
  find_ctype c (ce_t e) = Some ct -> ct_fks ct = [] -> ce_kind e = KAdded a ->
  is_empty_map (conv_obj ct a) = false ->
  r !! ce_id e = None -> l !! ce_id e = None ->
  outcome n = HFail ->
  process_remote c outcome FUEL (hstate r l n cs stp prt rty fr) e None true false = (parked_add r l n cs rty fr e ct a, true).
Proof.
  intros Hct Hfk Hk Hne Hr Hl Hfail.
  assert (Hcv : convert c false e = Some (lev_of ct e)).
  { apply (convert_Some c); [exact Hct|]. rewrite Hk. cbn. rewrite Hne. reflexivity. }
  assert (Hid : ce_id (lev_of ct e) = ce_id e) by reflexivity.
  unfold FUEL. cbn [process_remote]. rewrite Hcv, Hct. cbn [hstate queue q_has_obj q_is_parent existsb orb andb negb].
  rewrite Hk, Hret. cbn [r_trash hstate]. rewrite lookup_empty. cbn [andb].
  unfold remote_added. cbn [process_local]. change (ce_t (lev_of ct e)) with (ce_t e). rewrite Hct.
  change (ce_kind (lev_of ct e)) with (conv_kind ct (ce_kind e)). rewrite Hk. cbn [conv_kind]. rewrite Hret. cbn [negb andb orb].
  unfold hstate. cbn [queue set q_has_obj q_is_parent existsb orb andb negb].
  unfold local_added, call_handler. cbn. rewrite Hfail. cbn.
  unfold app_l_live, app_lc_live, app_r_live, app_rc_live, wappend. cbn.
  rewrite ?Hid, ?Hk. cbn. unfold ce_id in *. cbn. rewrite ?Hl, ?Hr. cbn. rewrite ?Hl, ?Hr. cbn.
  unfold q_append. cbn. rewrite Hct. cbn. unfold remediate. rewrite Hrem. unfold entry_parents, ce_id. cbn. rewrite ?Hl. cbn.
  rewrite ?lookup_insert. cbn. rewrite Hct, Hfk. cbn.
  reflexivity.
Qed.

Lemma added_direct r rc l lc q n cs stp prt rty fr rev lev ct a ca orc olc :
  find_ctype c (ce_t rev) = Some ct -> ce_kind rev = KAdded a -> ce_kind lev = KAdded ca ->
  ce_id lev = ce_id rev -> ce_t lev = ce_t rev ->
  r !! ce_id rev = None -> rc !! ce_id rev = Some orc -> l !! ce_id rev = None -> lc !! ce_id rev = Some olc ->
  outcome n = HOk ->
  process_remote c outcome FUEL (gstate r rc l lc q n cs stp prt rty fr) rev (Some lev) false false =
    (gstate (<[ce_id rev := a]> r) rc (<[ce_id rev := ca]> l) lc q (S n)
            (cs ++ [Call HAdded (ce_t rev) (ce_k lev) (KAdded ca) (Some ca) None (ce_step lev) (ce_partial lev) rty HOk])
            (ce_step lev) (ce_partial lev) rty fr, true).
Proof.
  intros Hct Hk Hlk Hid Htt Hr Hrc Hl Hlc Hok.
  unfold FUEL. cbn [process_remote]. rewrite Hct. cbn [andb negb].
  rewrite Hk, Hret. cbn [r_trash gstate andb].
  unfold remote_added. cbn [process_local]. rewrite Htt, Hct. rewrite Hlk. rewrite Hret. cbn [negb andb orb].
  unfold gstate. cbn [queue set l_trash].
  unfold local_added, call_handler. cbn. rewrite Hok. cbn.
  unfold app_l_live, app_lc_live, app_r_live, app_rc_live, wappend. cbn.
  rewrite ?Hid, ?Hlk, ?Hk. cbn. rewrite ?Hl, ?Hlc. cbn. rewrite ?Hr, ?Hrc. cbn. rewrite ?Hlc, ?Hrc. cbn.
  rewrite ?Hr. cbn. rewrite ?Hrc. cbn. rewrite ?Htt.
  reflexivity.
Qed.

Lemma parked_add_retry_heals r l n cs rty fr e ct a :
  find_ctype c (ce_t e) = Some ct -> ce_kind e = KAdded a ->
  r !! ce_id e = None -> l !! ce_id e = None ->
  outcome (S n) = HOk ->
  retry_queue c outcome (parked_add r l n cs rty fr e ct a) =
    hstate (<[ce_id e := a]> r) (<[ce_id e := conv_obj ct a]> l) (S (S n))
           (cs ++ [add_call e ct a rty HFail] ++ [add_call e ct a true HOk])
           (ce_step e) (ce_partial e) false false.
Proof.
  intros Hct Hk Hr Hl Hok.
  set (rev := mark_of e (KAdded a)). set (lev := mark_of e (KAdded (conv_obj ct a))).
  set (cs1 := cs ++ [add_call e ct a rty HFail]).
  set (rc := <[ce_id e := a]> r). set (lc := <[ce_id e := conv_obj ct a]> l).
  set (ent := QEntry 1 (Some rev) lev true []).
  assert (Hdir := added_direct r rc l lc [ent] (S n) cs1 (ce_step e) (ce_partial e) true fr rev lev ct a (conv_obj ct a)
                    a (conv_obj ct a)
                    Hct eq_refl eq_refl eq_refl eq_refl Hr (lookup_insert _ _ _) Hl (lookup_insert _ _ _) Hok).
  unfold retry_queue.
  change (parked_add r l n cs rty fr e ct a <| is_retry := true |>)
    with (gstate r rc l lc [ent] (S n) cs1 (ce_step e) (ce_partial e) true fr).
  change (length (queue (parked_add r l n cs rty fr e ct a))) with 1%nat.
  cbn [retry_loop]. change (map q_num (queue (gstate r rc l lc [ent] (S n) cs1 (ce_step e) (ce_partial e) true fr))) with [1%Z].
  cbn [retry_pass]. change (exc (gstate r rc l lc [ent] (S n) cs1 (ce_step e) (ce_partial e) true fr)) with false. cbn iota.
  change (queue (gstate r rc l lc [ent] (S n) cs1 (ce_step e) (ce_partial e) true fr)) with [ent].
  change (List.find (fun e0 => Z.eqb (q_num e0) 1) [ent]) with (Some ent). cbn iota.
  assert (Hold : q_is_oldest [ent] ent = true).
  { unfold q_is_oldest. cbn. rewrite orb_true_r. reflexivity. }
  rewrite Hold. cbn [negb]. cbn iota.
  change (q_is_parent [ent] (ce_id (q_local ent))) with false. cbn iota.
  change (q_remote ent) with (Some rev). cbn iota. change (q_local ent) with lev.
  rewrite Hdir. clear Hdir.
  cbn. subst rc lc cs1 rev lev. cbn.
  change (ce_id (mark_of e (KAdded a))) with (ce_id e). rewrite <- app_assoc.
  reflexivity.
Qed.

Theorem added_failure_heals r l n cs stp prt rty fr e ct a :
  find_ctype c (ce_t e) = Some ct -> ct_fks ct = [] -> ce_kind e = KAdded a ->
  is_empty_map (conv_obj ct a) = false ->
  r !! ce_id e = None -> l !! ce_id e = None ->
  outcome n = HFail -> outcome (S n) = HOk ->
  let st1 := fst (process_remote c outcome FUEL (hstate r l n cs stp prt rty fr) e None true false) in
  (r_live st1 = r /\ l_live st1 = l /\ length (queue st1) = 1%nat) /\
  retry_queue c outcome st1 =
    hstate (<[ce_id e := a]> r) (<[ce_id e := conv_obj ct a]> l) (S (S n))
           (cs ++ [add_call e ct a rty HFail] ++ [add_call e ct a true HOk])
           (ce_step e) (ce_partial e) false false.
Proof.
  intros Hct Hfk Hk Hne Hr Hl Hf Hok. cbn zeta.
  rewrite (added_fails_once r l n cs stp prt rty fr e ct a Hct Hfk Hk Hne Hr Hl Hf). cbn [fst].
  split; [repeat split|]. apply parked_add_retry_heals; assumption.
Qed.
End HealAdd.

(** Serialisation round trip. *)
From Hermes Require Import Model.Serial Proofs.Values.
From Coq Require Import Lia ZifyN ZifyBool.
Ltac Zify.zify_post_hook ::= Z.div_mod_to_equations.

Lemma strip_prefix_app p s : strip_prefix p (p ++ s) = Some s.
Proof. induction p as [|a p IH]; simpl; [reflexivity|]. rewrite N.eqb_refl. exact IH. Qed.

Lemma unsnoc_app s c : unsnoc (s ++ [c]) = Some (s, c).
Proof. unfold unsnoc. rewrite rev_app_distr. simpl. rewrite rev_involutive. reflexivity. Qed.

Lemma is_digit_digit n : (n <= 9)%N -> is_digit (digit n) = true.
Proof. unfold is_digit, digit. intros. apply andb_true_iff. split; apply N.leb_le; lia. Qed.
Lemma dval_digit n : dval (digit n) = n.
Proof. unfold dval, digit. lia. Qed.

(** a valid datetime survives formatting and parsing *)
Lemma parse_fmt_dt d : valid_dt d = true -> parse_dt (fmt_dt d) = Some d.
Proof.
  destruct d as [y mo dd h mi se]. unfold valid_dt. simpl. intros Hv.
  repeat (apply andb_true_iff in Hv; destruct Hv as [Hv ?]).
  assert (Hy : (y <= 9999)%N) by (apply N.leb_le; assumption).
  assert (Hmo : (mo <= 12)%N) by (apply N.leb_le; assumption).
  assert (Hh : (h < 24)%N) by (apply N.ltb_lt; assumption).
  assert (Hmi : (mi < 60)%N) by (apply N.ltb_lt; assumption).
  assert (Hse : (se < 60)%N) by (apply N.ltb_lt; assumption).
  assert (Hdd : (dd <= 31)%N).
  { assert (Hd : (dd <= days_in_month y mo)%N) by (apply N.leb_le; assumption).
    assert (days_in_month y mo <= 31)%N; [|lia].
    unfold days_in_month. destruct (mo =? 2)%N; [destruct (leap y); lia|].
    destruct ((mo =? 4)%N || (mo =? 6)%N || (mo =? 9)%N || (mo =? 11)%N); lia. }
  unfold fmt_dt, pad4, pad2. cbn [app dt_y dt_mo dt_d dt_h dt_mi dt_s].
  unfold parse_dt. cbv iota beta.
  rewrite !is_digit_digit by lia. cbn [andb].
  rewrite !dval_digit.
  replace (y / 1000 * 1000 + y / 100 mod 10 * 100 + y / 10 mod 10 * 10 + y mod 10)%N with y by lia.
  replace (mo / 10 * 10 + mo mod 10)%N with mo by lia.
  replace (dd / 10 * 10 + dd mod 10)%N with dd by lia.
  replace (h / 10 * 10 + h mod 10)%N with h by lia.
  replace (mi / 10 * 10 + mi mod 10)%N with mi by lia.
  replace (se / 10 * 10 + se mod 10)%N with se by lia.
  unfold valid_dt. simpl.
  repeat match goal with H : _ = true |- _ => rewrite H end. reflexivity.
Qed.

Section Codec.
Variable b64enc : str -> str.
Variable b64dec : str -> option str.
Hypothesis b64_roundtrip : forall b, b64dec (b64enc b) = Some b.
Hypothesis b64_alphabet : forall b, existsb (N.eqb c_rparen) (b64enc b) = false.

Lemma decode_encoded_date d : valid_dt d = true ->
  decode_str b64dec (s_HermesDatetime ++ fmt_dt d ++ [c_Z; c_rparen]) = VDate d.
Proof.
  intros Hv. unfold decode_str. rewrite strip_prefix_app.
  replace (fmt_dt d ++ [c_Z; c_rparen]) with ((fmt_dt d ++ [c_Z]) ++ [c_rparen]) by (rewrite <- app_assoc; reflexivity).
  rewrite unsnoc_app, unsnoc_app. rewrite !N.eqb_refl. cbn [andb]. rewrite (parse_fmt_dt d Hv). reflexivity.
Qed.

Lemma decode_encoded_bytes b :
  decode_str b64dec (s_HermesBytes ++ b64enc b ++ [c_rparen]) = VBytes b.
Proof.
  unfold decode_str.
  assert (H1 : strip_prefix s_HermesDatetime (s_HermesBytes ++ b64enc b ++ [c_rparen]) = None) by reflexivity.
  rewrite H1. rewrite strip_prefix_app, unsnoc_app, N.eqb_refl, b64_alphabet. cbn [andb negb].
  rewrite b64_roundtrip. reflexivity.
Qed.

(** Round trip: every value of the grammar, at any depth, whose datetimes are valid
    and none of whose string leaves is a decodable look-alike of the in-band
    encodings, is restored identically. *)
Theorem roundtrip : forall v,
  dates_valid v = true -> no_lookalike b64dec v = true ->
  decode b64dec (encode b64enc v) = v.
Proof.
  induction v as [| x | x | x | s | s | d | l IH | dd IH] using value_ind'; intros Hd Hn; try reflexivity.
  - (* string *)
    cbn [encode decode]. destruct s as [|c s]; [reflexivity|]. cbn [no_lookalike] in Hn. unfold lookalike in Hn.
    destruct (decode_str b64dec (c :: s)) eqn:E; try discriminate.
    assert (Hs : forall t, decode_str b64dec (c :: s) = VStr t -> t = c :: s).
    { clear. intros t. unfold decode_str.
      repeat match goal with
             | |- context [match ?x with _ => _ end] => destruct x
             end; intros H; inversion H; reflexivity. }
    rewrite (Hs _ E). reflexivity.
  - (* bytes *)
    cbn [encode decode].
    assert (Hne : exists c r, s_HermesBytes ++ b64enc s ++ [c_rparen] = c :: r) by (eexists; eexists; reflexivity).
    destruct Hne as [c [r E]]. rewrite E. rewrite <- E. apply decode_encoded_bytes.
  - (* datetime *)
    cbn [encode decode]. cbn [dates_valid] in Hd.
    assert (Hne : exists c r, s_HermesDatetime ++ fmt_dt d ++ [c_Z; c_rparen] = c :: r) by (eexists; eexists; reflexivity).
    destruct Hne as [c [r E]]. rewrite E. rewrite <- E. apply decode_encoded_date. exact Hd.
  - (* list *)
    cbn [encode decode]. f_equal. cbn [dates_valid no_lookalike] in Hd, Hn.
    induction IH as [|x xs Hx Hxs IHl]; [reflexivity|]. cbn [map forallb] in *.
    apply andb_true_iff in Hd. apply andb_true_iff in Hn. destruct Hd, Hn.
    f_equal; [apply Hx; assumption|apply IHl; assumption].
  - (* dict *)
    cbn [encode decode]. f_equal. cbn [dates_valid no_lookalike] in Hd, Hn.
    induction IH as [|[k x] xs Hx Hxs IHl]; [reflexivity|]. cbn [map forallb fst snd] in *.
    apply andb_true_iff in Hd. apply andb_true_iff in Hn. destruct Hd, Hn.
    f_equal; [f_equal; apply Hx; assumption|apply IHl; assumption].
Qed.

(** Genuine datetimes and byte strings always round-trip. *)
Corollary roundtrip_datetime d : valid_dt d = true -> decode b64dec (encode b64enc (VDate d)) = VDate d.
Proof. intros H. apply roundtrip; [exact H|reflexivity]. Qed.
Corollary roundtrip_bytes b : decode b64dec (encode b64enc (VBytes b)) = VBytes b.
Proof. apply roundtrip; reflexivity. Qed.

(** ... but a string that looks like an encoded datetime / byte string does NOT:
    the property as stated (such strings are in its grammar) is refuted. *)
Theorem lookalike_not_restored s :
  lookalike b64dec s = true -> decode b64dec (encode b64enc (VStr s)) <> VStr s.
Proof.
  unfold lookalike. simpl. destruct s as [|c s]; [discriminate|].
  destruct (decode_str b64dec (c :: s)); try discriminate; intros _ H; discriminate.
Qed.
End Codec.

(** witness: "HermesDatetime(2020-01-02T03:04:05Z)" held as a *string* comes back as a datetime *)
Example lookalike_witness :
  let s := s_HermesDatetime ++ fmt_dt (mkdt 2020 1 2 3 4 5) ++ [c_Z; c_rparen] in
  decode (fun _ => None) (encode (fun b => b) (VStr s)) = VDate (mkdt 2020 1 2 3 4 5).
Proof. vm_compute. reflexivity. Qed.

(** Cache files: atomic replacement without backups, the window opened by backup
    rotation, extension lookup across a compression switch. *)
From Hermes Require Import Model.Disk.
From Coq Require Import Lia.

Lemma fn_eqb_eq a b : fn_eqb a b = true <-> a = b.
Proof.
  destruct a as [[n i] e], b as [[n' i'] e']. unfold fn_eqb. simpl.
  rewrite !andb_true_iff, Z.eqb_eq, Nat.eqb_eq, Bool.eqb_true_iff.
  split; [intros [[-> ->] ->]; reflexivity|intros H; inversion H; auto].
Qed.
Lemma fn_eqb_refl a : fn_eqb a a = true.
Proof. apply fn_eqb_eq. reflexivity. Qed.
Lemma fn_eqb_neq a b : a <> b -> fn_eqb a b = false.
Proof. intros H. destruct (fn_eqb a b) eqn:E; [apply fn_eqb_eq in E; contradiction|reflexivity]. Qed.

Lemma fs_get_del_eq fs n : fs_get (fs_del fs n) n = None.
Proof.
  unfold fs_del. induction fs as [|[m c] r IH]; simpl; [reflexivity|].
  destruct (fn_eqb m n) eqn:E; simpl; [exact IH|]. rewrite E. exact IH.
Qed.
Lemma fs_get_del_ne fs n m : n <> m -> fs_get (fs_del fs n) m = fs_get fs m.
Proof.
  intros Hne. unfold fs_del. induction fs as [|[x c] r IH]; simpl; [reflexivity|].
  destruct (fn_eqb x n) eqn:E; simpl.
  - apply fn_eqb_eq in E. subst x. rewrite (fn_eqb_neq n m Hne). exact IH.
  - destruct (fn_eqb x m); [reflexivity|exact IH].
Qed.
Lemma fs_get_put_eq fs n c : fs_get (fs_put fs n c) n = Some c.
Proof. unfold fs_put. simpl. rewrite fn_eqb_refl. reflexivity. Qed.
Lemma fs_get_put_ne fs n m c : n <> m -> fs_get (fs_put fs n c) m = fs_get fs m.
Proof. intros Hne. unfold fs_put. simpl. rewrite (fn_eqb_neq n m Hne). apply fs_get_del_ne. exact Hne. Qed.

Lemma lookup_put_other fs compress name bak n c :
  (forall e, n <> (name, bak, e)) ->
  lookup (fs_put fs n c) compress name bak = lookup fs compress name bak.
Proof. intros H. unfold lookup. rewrite !fs_get_put_ne by apply H. reflexivity. Qed.

Lemma load_put_other fs compress name n c :
  (forall e, n <> (name, 0%nat, e)) -> load (fs_put fs n c) compress name = load fs compress name.
Proof. intros H. unfold load. rewrite lookup_put_other by exact H. reflexivity. Qed.

Lemma tmp_other name compress e : name <> 0%Z -> tmpname compress <> (name, 0%nat, e).
Proof. unfold tmpname. intros H E. inversion E. congruence. Qed.

Lemma run3 fs t d c :
  fs_run fs [OCreate t; OWrite t c; ORename t d]
  = fs_put (fs_del (fs_put (fs_put fs t None) t (Some c)) t) d (Some c).
Proof. unfold fs_run. cbn [fold_left fs_apply]. rewrite fs_get_put_eq. reflexivity. Qed.

Lemma load_run3 fs compress name c :
  load (fs_run fs [OCreate (tmpname compress); OWrite (tmpname compress) c;
                   ORename (tmpname compress) (name, 0%nat, compress)]) compress name = LContent c.
Proof. rewrite run3. unfold load, lookup. rewrite fs_get_put_eq. reflexivity. Qed.

(** Without backups, a cache file is replaced atomically: whenever the process dies,
    the live file holds the complete old content or the complete new one. *)
Theorem save_atomic_without_backup fs compress backups name c k :
  name <> 0%Z ->
  let ops := save_ops fs compress backups false name c in
  load (crash_at fs ops k) compress name = load fs compress name
  \/ load (crash_at fs ops k) compress name = LContent c.
Proof.
  intros Hn ops.
  assert (Hops : ops = [] \/ ops = [OCreate (tmpname compress); OWrite (tmpname compress) c;
                                     ORename (tmpname compress) (name, 0%nat, compress)]).
  { unfold ops, save_ops. destruct (load fs compress name) as [|old|]; auto.
    destruct (Z.eqb old c); auto. }
  unfold crash_at. destruct Hops as [-> | ->].
  - rewrite firstn_nil. left. reflexivity.
  - destruct k as [|[|[|k]]]; simpl.
    + left. reflexivity.
    + left. unfold fs_run. cbn [fold_left fs_apply]. apply load_put_other. intros e. apply tmp_other. exact Hn.
    + left. unfold fs_run. cbn [fold_left fs_apply]. rewrite !load_put_other by (intros e; apply tmp_other; exact Hn). reflexivity.
    + right. rewrite firstn_nil. apply load_run3.
Qed.

(** After a completed save the live file holds the new content, under either
    compression setting and whatever files of the other extension exist. *)
Theorem save_then_load fs compress backups name c :
  name <> 0%Z ->
  load (fs_run fs (save_ops fs compress backups false name c)) compress name = LContent c.
Proof.
  intros Hn. unfold save_ops.
  destruct (load fs compress name) as [|old|] eqn:El; cbn [app]; try apply load_run3.
  destruct (Z.eqb_spec old c) as [->|Hne]; [exact El|]. cbn [app]. apply load_run3.
Qed.

(** One change of the compression setting: the file written under the old setting
    is found under the new one (no file of the new extension exists yet). *)
Theorem single_switch_loads_latest fs compress name c :
  fs_get fs (name, 0%nat, negb compress) = None ->
  fs_get fs (name, 0%nat, compress) = Some (Some c) ->
  load fs (negb compress) name = LContent c.
Proof.
  intros H1 H2. unfold load, lookup. rewrite H1, negb_involutive, H2. reflexivity.
Qed.

(** F15: switching twice with backup_count = 0 resurrects the stale file *)
Example double_switch_refuted :
  let fs1 := fs_run [] (save_ops [] true 0 false 5%Z 1%Z) in          (* content 1, compressed *)
  let fs2 := fs_run fs1 (save_ops fs1 false 0 false 5%Z 2%Z) in       (* content 2, plain *)
  load fs2 false 5%Z = LContent 2%Z /\ load fs2 true 5%Z = LContent 1%Z.
Proof. vm_compute. split; reflexivity. Qed.

(** F14: with backups, between the rotation of the live file and the final rename the
    cache file is absent: a restart in that window loads an empty cache *)
Example rotation_window_refuted :
  let fs1 := fs_run [] (save_ops [] false 1 true 5%Z 1%Z) in
  let ops := save_ops fs1 false 1 true 5%Z 2%Z in
  load fs1 false 5%Z = LContent 1%Z /\ load (crash_at fs1 ops 3) false 5%Z = LEmpty
  /\ load (crash_at fs1 ops 4) false 5%Z = LContent 2%Z.
Proof. vm_compute. repeat split; reflexivity. Qed.

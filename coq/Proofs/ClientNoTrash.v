(** Retention 0 (C10, last sentence): a client that runs without trashbin never puts anything
    into any of its four trashbin caches - for every bus, every handler behaviour (failures,
    partial failures), every remediation and foreign-key policy, retries and purge passes
    included.  Hence "an object is never both live and trashed" and nothing about a removed
    object remains in a trashbin cache.  (The switch R>0 -> 0 across a restart, which starts from
    non-empty trashbins, is finding F23 and is excluded by the hypothesis on the initial state.) *)
From Hermes Require Import Model.Objects Model.Client Proofs.Values Proofs.Objects Proofs.Client.
From RecordUpdate Require Import RecordSet.
Import RecordSetNotations.

Definition tb_empty (st : cstate) : Prop :=
  l_trash st = ∅ /\ r_trash st = ∅ /\ lc_trash st = ∅ /\ rc_trash st = ∅.

Section NoTrash.
Variable c : ccfg.
Variable outcome : nat -> hres.
Hypothesis Hret : cc_retention c = None.

Ltac unfold_apps :=
  unfold app_r_live, app_r_trash, app_rc_live, app_rc_trash, app_l_live, app_l_trash, app_lc_live, app_lc_trash,
         crash, call_handler, wappend in *.
Ltac break_match :=
  repeat match goal with
         | |- context [match ?x with _ => _ end] => destruct x eqn:?
         | |- context [if ?x then _ else _] => destruct x eqn:?
         end.
Lemma del_e (w : world) i : w = ∅ -> delete i w = ∅.
Proof. intros ->. apply delete_empty. Qed.
Lemma lookup2_r_empty (a b : world) i x o : b = ∅ -> lookup2 a b i = Some (false, o) -> x.
Proof. intros -> H. unfold lookup2 in H. destruct (a !! i); [discriminate|]. rewrite lookup_empty in H. discriminate. Qed.
Ltac fin :=
  unfold tb_empty in *; cbn in *;
  repeat match goal with H : _ /\ _ |- _ => destruct H end;
  repeat split; auto using del_e;
  try (exfalso; eapply lookup2_r_empty; [|eassumption]; assumption).

Lemma q_append_tb st remote lev msg : tb_empty st -> tb_empty (q_append c st remote lev msg).
Proof. intros H. unfold q_append. destruct (find_ctype c (ce_t lev)); [|exact H]. exact H. Qed.

Lemma local_added_tb st lev sim : tb_empty st -> tb_empty (fst (local_added outcome st lev sim)).
Proof. intros H. unfold local_added. unfold_apps. destruct sim, (outcome (ncall st)); cbn; break_match; fin. Qed.

Lemma local_modified_tb st lev sim : tb_empty st -> tb_empty (fst (local_modified outcome st lev sim)).
Proof.
  intros H. unfold local_modified. unfold_apps.
  destruct (lookup2 (lc_live st) (lc_trash st) (ce_id lev)) as [[[] oc]|] eqn:Hc;
    destruct sim; cbn; try solve [fin];
    destruct (l_live st !! ce_id lev); cbn; destruct (outcome (ncall st)); cbn; break_match; fin.
Qed.

Lemma local_removed_tb st lev sim : tb_empty st -> tb_empty (fst (local_removed outcome st lev sim)).
Proof.
  intros H. unfold local_removed. unfold_apps.
  destruct (lookup2 (l_live st) (l_trash st) (ce_id lev)) as [[[] o]|] eqn:Hl;
    destruct (lookup2 (lc_live st) (lc_trash st) (ce_id lev)) as [[[] oc]|] eqn:Hc;
    destruct sim; cbn; try solve [fin]; destruct (outcome (ncall st)); cbn; fin.
Qed.

Local Arguments local_added : simpl never.
Local Arguments local_modified : simpl never.
Local Arguments local_removed : simpl never.
Local Arguments local_trashed : simpl never.
Local Arguments local_recycled : simpl never.
Local Arguments q_append : simpl never.

Lemma tb_marker st s p : tb_empty st -> tb_empty (st <| curstep := s |> <| curpartial := p |>).
Proof. intros H; exact H. Qed.

(** [process_local], any mode *)
Lemma process_local_tb : forall f st remote lev enq sim,
  tb_empty st -> tb_empty (fst (process_local c outcome f st remote lev enq sim)).
Proof.
  induction f as [|f IH]; intros st remote lev enq sim H.
  - destruct lev; cbn; exact H.
  - destruct lev as [lv|]; [|exact H].
    cbn [process_local]. destruct (find_ctype c (ce_t lv)) as [ct|]; [|exact H].
    set (st0 := if sim then st else st <| curstep := ce_step lv |> <| curpartial := ce_partial lv |>).
    assert (H0 : tb_empty st0) by (subst st0; destruct sim; [exact H|apply tb_marker; exact H]).
    clearbody st0.
    destruct (negb sim && enq && _).
    + pose proof (IH st0 None (Some lv) false true H0) as H1.
      destruct (process_local c outcome f st0 None (Some lv) false true) as [s1 b1]. cbn [fst] in *.
      apply q_append_tb. exact H1.
    + rewrite Hret. cbn [andb negb orb].
      assert (Hl : l_trash st0 = ∅) by (destruct H0 as (? & _); assumption).
      rewrite Hl, lookup_empty.
      assert (Hstep : forall r : cstate * bool, tb_empty (fst r) ->
                tb_empty (fst (let '(st1, ok) := r in
                               if ok || exc st1 then (st1, ok)
                               else if negb sim && enq
                                    then let '(st2, _) := process_local c outcome f st1 None (Some lv) false true in
                                         (q_append c st2
                                            (option_map (fun e => CEv (ce_t e) (ce_k e) (ce_kind e) (ce_ts e) (curstep st2) (curpartial st2)) remote)
                                            (CEv (ce_t lv) (ce_k lv) (ce_kind lv) (ce_ts lv) (curstep st2) (curpartial st2)) true, true)
                                    else (st1, false)))).
      { intros [s1 ok] H1. cbn [fst] in H1. destruct (ok || exc s1); [exact H1|].
        destruct (negb sim && enq); [|exact H1].
        pose proof (IH s1 None (Some lv) false true H1) as H2.
        destruct (process_local c outcome f s1 None (Some lv) false true) as [s2 b2]. cbn [fst] in *.
        apply q_append_tb. exact H2. }
      destruct (ce_kind lv); cbn [andb negb]; rewrite ?andb_false_r; apply Hstep;
        [apply local_added_tb|apply local_modified_tb|apply local_removed_tb]; exact H0.
Qed.

Ltac with_pl f st rev lev sim H :=
  let Hp := fresh "Hp" in
  pose proof (process_local_tb f st (Some rev) lev false sim H) as Hp;
  destruct (process_local c outcome f st (Some rev) lev false sim) as [s1 ok1]; cbn [fst] in Hp.

Lemma remote_added_tb f st rev lev sim : tb_empty st -> tb_empty (fst (remote_added c outcome f st rev lev sim)).
Proof.
  intros H. unfold remote_added. with_pl f st rev lev sim H.
  destruct ok1; cbn [negb]; [|exact Hp]. unfold_apps. destruct sim; cbn; break_match; fin.
Qed.

Lemma remote_modified_tb f st rev lev sim : tb_empty st -> tb_empty (fst (remote_modified c outcome f st rev lev sim)).
Proof.
  intros H. unfold remote_modified.
  destruct (lookup2 (rc_live st) (rc_trash st) (ce_id rev)) as [[[] oc]|] eqn:Hc;
    try (exfalso; eapply lookup2_r_empty; [|exact Hc]; apply H).
  - destruct sim.
    + with_pl f st rev lev true H. destruct ok1; cbn [negb]; [|exact Hp]. fin.
    + destruct (r_live st !! ce_id rev).
      * with_pl f st rev lev false H. destruct ok1; cbn [negb]; [|exact Hp]. fin.
      * destruct (negb _); [unfold crash; fin|].
        with_pl f st rev lev false H. destruct ok1; cbn [negb]; [|exact Hp]. unfold crash; fin.
  - destruct sim.
    + with_pl f st rev lev true H. destruct ok1; cbn [negb]; [|exact Hp]. fin.
    + destruct (r_live st !! ce_id rev).
      * with_pl f st rev lev false H. destruct ok1; cbn [negb]; [|exact Hp]. fin.
      * destruct (negb _); [unfold crash; fin|].
        with_pl f st rev lev false H. destruct ok1; cbn [negb]; [|exact Hp]. unfold crash; fin.
Qed.

Lemma remote_removed_tb f st rev lev sim : tb_empty st -> tb_empty (fst (remote_removed c outcome f st rev lev sim)).
Proof.
  intros H. unfold remote_removed.
  destruct (lookup2 (r_live st) (r_trash st) (ce_id rev)) as [[[] o]|] eqn:Hl;
    try (exfalso; eapply lookup2_r_empty; [|exact Hl]; apply H);
    (destruct (lookup2 (rc_live st) (rc_trash st) (ce_id rev)) as [[[] oc]|] eqn:Hc;
     try (exfalso; eapply lookup2_r_empty; [|exact Hc]; apply H));
    with_pl f st rev lev sim H; (destruct ok1; cbn [negb]; [|exact Hp]); unfold crash; destruct sim; cbn; fin.
Qed.

Local Arguments remote_added : simpl never.
Local Arguments remote_modified : simpl never.
Local Arguments remote_removed : simpl never.
Local Arguments remote_trashed : simpl never.
Local Arguments remote_recycled : simpl never.
Local Arguments process_local : simpl never.

(** [process_remote], any mode *)
Lemma process_remote_tb : forall f st rev lev enq sim,
  tb_empty st -> tb_empty (fst (process_remote c outcome f st rev lev enq sim)).
Proof.
  induction f as [|f IH]; intros st rev lev enq sim H; [exact H|].
  cbn [process_remote].
  set (lv := match lev with Some l => Some l | None => convert c false rev end).
  destruct (negb sim && enq && _ && _).
  - pose proof (IH st rev None false true H) as H1.
    destruct (process_remote c outcome f st rev None false true) as [s1 b1]. cbn [fst] in *.
    destruct (match lv with Some l => Some l | None => convert c true rev end); [apply q_append_tb|]; exact H1.
  - rewrite Hret. cbn [andb negb orb].
    assert (Hstep : forall r : cstate * bool, tb_empty (fst r) ->
              tb_empty (fst (let '(st1, ok) := r in
                             if ok || exc st1 then (st1, ok)
                             else if negb sim && enq
                                  then let '(st2, _) := process_remote c outcome f st1 rev None false true in
                                       match lv with
                                       | Some l => (q_append c st2
                                                      (Some (CEv (ce_t rev) (ce_k rev) (ce_kind rev) (ce_ts rev) (curstep st2) (curpartial st2)))
                                                      (CEv (ce_t l) (ce_k l) (ce_kind l) (ce_ts l) (curstep st2) (curpartial st2)) true, true)
                                       | None => crash st2
                                       end
                                  else (st1, false)))).
    { intros [s1 ok] H1. cbn [fst] in H1. destruct (ok || exc s1); [exact H1|].
      destruct (negb sim && enq); [|exact H1].
      pose proof (IH s1 rev None false true H1) as H2.
      destruct (process_remote c outcome f s1 rev None false true) as [s2 b2]. cbn [fst] in *.
      destruct lv; [apply q_append_tb; exact H2|unfold crash; cbn; exact H2]. }
    destruct (ce_kind rev); apply Hstep;
      [apply remote_added_tb|apply remote_modified_tb|apply remote_removed_tb]; exact H.
Qed.

Local Arguments process_remote : simpl never.

(** ** retry, purge, event loop *)
Lemma mark_entry_tb st n : tb_empty st -> tb_empty (mark_entry st n).
Proof. intros H; exact H. Qed.

Lemma retry_pass_tb : forall nums st only skipped,
  tb_empty st -> tb_empty (fst (retry_pass c outcome st nums only skipped)).
Proof.
  induction nums as [|n r IH]; intros st only skipped H; [exact H|].
  cbn [retry_pass]. destruct (exc st); [exact H|].
  destruct (List.find _ (queue st)) as [e|]; [|apply IH; exact H].
  destruct (negb (q_is_oldest (queue st) e)); [apply IH; exact H|].
  destruct (match only with Some l => _ | None => false end); [apply IH; exact H|].
  destruct (q_is_parent (queue st) (ce_id (q_local e))); [apply IH; exact H|].
  destruct (q_remote e) as [rev|];
    [pose proof (process_remote_tb FUEL st rev (Some (q_local e)) false false H) as H1;
     destruct (process_remote c outcome FUEL st rev (Some (q_local e)) false false) as [s1 ok]
    |pose proof (process_local_tb FUEL st None (Some (q_local e)) false false H) as H1;
     destruct (process_local c outcome FUEL st None (Some (q_local e)) false false) as [s1 ok]];
    cbn [fst] in H1; (destruct (exc s1); [exact H1|]); apply IH; destruct ok; exact H1.
Qed.

Lemma retry_loop_tb : forall fuel st only, tb_empty st -> tb_empty (retry_loop c outcome fuel st only).
Proof.
  induction fuel as [|f IH]; intros st only H; [exact H|].
  cbn [retry_loop].
  pose proof (retry_pass_tb (map q_num (queue st)) st only [] H) as H1.
  destruct (retry_pass c outcome st (map q_num (queue st)) only []) as [st1 sk]. cbn [fst] in H1.
  destruct (exc st1); [exact H1|].
  destruct (_ || _); [exact H1|apply IH; exact H1].
Qed.

Lemma tb_flags st a b : tb_empty st -> tb_empty (st <| is_retry := a |> <| force_retry := b |>).
Proof. intros H; exact H. Qed.
Lemma retry_queue_tb st : tb_empty st -> tb_empty (retry_queue c outcome st).
Proof. intros H. unfold retry_queue. apply tb_flags, retry_loop_tb. exact H. Qed.

Lemma purge_one_tb st t k now : tb_empty st -> tb_empty (purge_one c outcome st t k now).
Proof.
  intros H. unfold purge_one. destruct (exc st); [exact H|].
  destruct (r_trash st !! (t, k)); [|exact H].
  destruct (negb _); [exact H|].
  destruct (_ && _); apply process_remote_tb; exact H.
Qed.

Lemma empty_trashbin_tb st now : tb_empty st -> tb_empty (empty_trashbin c outcome st now).
Proof.
  unfold empty_trashbin. generalize (rev (cc_alltypes c)). intros ts. revert st.
  induction ts as [|t ts IH]; intros st H; [exact H|].
  cbn [fold_left]. apply IH.
  generalize (keys_of t (r_trash st)). intros ks. revert st H.
  induction ks as [|k ks IHk]; intros st H; [exact H|].
  cbn [fold_left]. apply IHk. apply purge_one_tb. exact H.
Qed.

Lemma process_events_tb : forall evs st next,
  tb_empty st -> tb_empty (fst (process_events c outcome st next evs)).
Proof.
  induction evs as [|[off ev] r IH]; intros st next H; cbn [process_events]; [exact H|].
  destruct (exc st); [exact H|].
  pose proof (process_remote_tb FUEL st ev None true false H) as H1.
  destruct (process_remote c outcome FUEL st ev None true false) as [st1 b]. cbn [fst] in H1.
  destruct (exc st1); [exact H1|apply IH; exact H1].
Qed.

(** one iteration of the main loop *)
Theorem client_iter_tb cl now evs :
  tb_empty (cl_st cl) -> tb_empty (cl_st (client_iter c outcome cl now evs)).
Proof.
  intros H. unfold client_iter.
  assert (H0 : tb_empty (cl_st cl <| exc := false |>)) by exact H.
  pose proof (retry_queue_tb _ H0) as H1.
  destruct (exc (retry_queue c outcome (cl_st cl <| exc := false |>))); [exact H1|].
  pose proof (empty_trashbin_tb _ now H1) as H2.
  destruct (exc (empty_trashbin c outcome _ now)); [exact H2|].
  pose proof (process_events_tb evs _ (cl_next cl) H2) as H3.
  destruct (process_events c outcome _ (cl_next cl) evs) as [st3 next]. exact H3.
Qed.

(** every reachable state of a client that runs without trashbin: any number of iterations, any
    clock, any delivery *)
Theorem run_tb : forall (its : list (Z * list (Z * cev))) cl,
  tb_empty (cl_st cl) ->
  tb_empty (cl_st (fold_left (fun cl it => client_iter c outcome cl (fst it) (snd it)) its cl)).
Proof.
  induction its as [|it its IH]; intros cl H; [exact H|].
  cbn [fold_left]. apply IH. apply client_iter_tb. exact H.
Qed.
End NoTrash.

Theorem run_never_both : forall c outcome,
  cc_retention c = None ->
  forall its cl i, tb_empty (cl_st cl) ->
  let st := cl_st (fold_left (fun cl it => client_iter c outcome cl (fst it) (snd it)) its cl) in
  l_trash st !! i = None /\ r_trash st !! i = None /\ lc_trash st !! i = None /\ rc_trash st !! i = None.
Proof.
  intros c outcome Hr its cl i H. destruct (run_tb c outcome Hr its cl H) as (H1 & H2 & H3 & H4).
  cbn zeta. rewrite H1, H2, H3, H4. repeat split; apply lookup_empty.
Qed.

(** Control socket: total decoding, pause semantics, no burst after resume. *)
From Hermes Require Import Model.Socket.
From Coq Require Import Lia.

(** every byte string is either dropped or handled: the listener never stops *)
Theorem decode_total m : decode m = Dropped \/ exists w, decode m = Handled w.
Proof.
  destruct m as [| |j]; simpl; auto. destruct j as [| | | | |[a|]]; simpl; auto.
  destruct a; simpl; eauto.
Qed.

Definition is_poll (a : loopact) : bool := match a with LPoll | LIsyncPoll => true | _ => false end.

(** a paused application that was not forced neither polls nor processes *)
Theorem paused_is_idle interval s :
  f_paused (sc_flags s) = true -> f_force (sc_flags s) = false ->
  is_poll (snd (loop_iter interval s)) = false.
Proof.
  intros Hp Hf. unfold loop_iter. rewrite Hp, Hf. simpl. destruct (f_isync (sc_flags s)); reflexivity.
Qed.

(** and a forced update while paused runs exactly one poll and clears the force flag *)
Theorem forced_update_polls_once interval s :
  f_force (sc_flags s) = true ->
  is_poll (snd (loop_iter interval s)) = true /\ f_force (sc_flags (fst (loop_iter interval s))) = false
  /\ sc_next (fst (loop_iter interval s)) = sc_next s.
Proof.
  intros Hf. unfold loop_iter. rewrite Hf. simpl. destruct (f_isync (sc_flags s)); repeat split; reflexivity.
Qed.

(** the schedule never lags more than one interval behind the clock, whatever the
    commands (pause, resume, forced updates): iterations keep it caught up *)
Theorem lag_invariant interval s :
  1 <= interval -> lag s <= interval -> lag (fst (loop_iter interval s)) <= interval.
Proof.
  intros Hi Hl. unfold loop_iter, lag in *.
  destruct (f_force (sc_flags s) || (negb (f_paused (sc_flags s)) && (sc_next s <=? sc_now s))) eqn:Hr; simpl.
  - destruct (f_force (sc_flags s)); simpl; lia.
  - destruct (Z.ltb_spec (sc_next s + interval) (sc_now s + 1)); simpl; lia.
Qed.

Lemma command_keeps_clock a f w s :
  lag (Sched (snd (command a f w)) (sc_next s) (sc_now s)) = lag s.
Proof. reflexivity. Qed.

Lemma poll_noforce interval s :
  f_force (sc_flags s) = false -> is_poll (snd (loop_iter interval s)) = true ->
  f_paused (sc_flags s) = false /\ sc_next s <= sc_now s
  /\ fst (loop_iter interval s) =
     Sched (Flags (f_stopped (sc_flags s)) false false false) (sc_next s + interval) (sc_now s).
Proof.
  intros Hf. unfold loop_iter. rewrite Hf. simpl.
  destruct (f_paused (sc_flags s)) eqn:Hp; simpl.
  { destruct (f_isync (sc_flags s)); discriminate. }
  destruct (Z.leb_spec (sc_next s) (sc_now s)); simpl.
  - intros _. split; [reflexivity|]. split; [assumption|]. reflexivity.
  - destruct (f_isync (sc_flags s)); discriminate.
Qed.

(** hence no burst: without a forced update, at most two polls can follow each other *)
Theorem no_burst interval s :
  1 <= interval -> lag s <= interval -> f_force (sc_flags s) = false ->
  let s1 := fst (loop_iter interval s) in
  let s2 := fst (loop_iter interval s1) in
  is_poll (snd (loop_iter interval s)) = true ->
  is_poll (snd (loop_iter interval s1)) = true ->
  is_poll (snd (loop_iter interval s2)) = false.
Proof.
  intros Hi Hl Hf s1 s2 H1 H2.
  destruct (poll_noforce interval s Hf H1) as [Hp1 [Hn1 E1]].
  assert (Hf1 : f_force (sc_flags s1) = false) by (unfold s1; rewrite E1; reflexivity).
  destruct (poll_noforce interval s1 Hf1 H2) as [Hp2 [Hn2 E2]].
  unfold s2. rewrite E2. unfold s1. rewrite E1. unfold loop_iter. simpl.
  unfold s1 in Hn2. rewrite E1 in Hn2. simpl in Hn2. unfold lag in Hl.
  destruct (Z.leb_spec (sc_next s + interval + interval) (sc_now s)); simpl; [lia|reflexivity].
Qed.

(** without the catch-up performed by idle iterations the bound would fail *)
Example burst_without_catchup :
  let s := Sched (Flags false false false false) 0 10 in
  lag s > 2 /\ is_poll (snd (loop_iter 2 s)) = true
  /\ is_poll (snd (loop_iter 2 (fst (loop_iter 2 s)))) = true
  /\ is_poll (snd (loop_iter 2 (fst (loop_iter 2 (fst (loop_iter 2 s)))))) = true.
Proof. vm_compute. repeat split; reflexivity. Qed.

(** command table *)
Theorem pause_twice_refused a f :
  f_stopped f = false -> f_paused f = false ->
  fst (command a f [1%nat]) = 0 /\ fst (command a (snd (command a f [1%nat])) [1%nat]) = 1.
Proof.
  intros Hs Hp. destruct f as [st pa fo isy]. simpl in *. subst st pa. simpl. split; reflexivity.
Qed.

Theorem resume_needs_pause a f :
  f_stopped f = false -> f_paused f = false -> fst (command a f [2%nat]) = 1.
Proof. intros Hs Hp. destruct f as [st pa fo isy]. simpl in *. subst st pa. reflexivity. Qed.

Theorem stopping_refuses_pause_resume a f w :
  f_stopped f = true -> (w = [1%nat] \/ w = [2%nat]) -> command a f w = (1, f).
Proof. intros Hs Hw. destruct f as [st pa fo isy]. simpl in *. subst st. destruct Hw as [->| ->]; reflexivity. Qed.

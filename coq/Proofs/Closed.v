(** Every prefix of a cycle's event stream is referentially closed (C03). *)
From Hermes Require Import Model.Objects Model.Server Proofs.Values Proofs.Objects Proofs.Server.

(** ** prefix-closed order on a list *)
Definition pre {A} (E : list A) (e1 e2 : A) : Prop :=
  forall P Q, E = P ++ Q -> In e2 P -> In e1 P.

Lemma app_split {A} (X Y P Q : list A) : X ++ Y = P ++ Q ->
  (exists P', P = X ++ P' /\ Y = P' ++ Q) \/ (exists X', X = P ++ X' /\ Q = X' ++ Y).
Proof.
  revert P. induction X as [|x X IH]; intros P H.
  - left. exists P. split; [reflexivity|exact H].
  - destruct P as [|p P].
    + right. exists (x :: X). split; [reflexivity|]. cbn in H. symmetry. exact H.
    + cbn in H. inversion H; subst. destruct (IH P H2) as [(P' & -> & HY)|(X' & -> & HQ)].
      * left. exists P'. split; [reflexivity|exact HY].
      * right. exists X'. split; [reflexivity|exact HQ].
Qed.

Lemma pre_app_lr {A} (X Y : list A) e1 e2 : In e1 X -> ~ In e2 X -> pre (X ++ Y) e1 e2.
Proof.
  intros H1 H2 P Q HE HP. destruct (app_split _ _ _ _ HE) as [(P' & -> & _)|(X' & -> & _)].
  - apply in_or_app. left. exact H1.
  - exfalso. apply H2. apply in_or_app. left. exact HP.
Qed.
Lemma pre_app_r {A} (X Y : list A) e1 e2 : pre Y e1 e2 -> ~ In e2 X -> pre (X ++ Y) e1 e2.
Proof.
  intros Hp H2 P Q HE HP. destruct (app_split _ _ _ _ HE) as [(P' & -> & HY)|(X' & -> & _)].
  - apply in_app_or in HP. destruct HP as [HP|HP]; [contradiction|].
    apply in_or_app. right. exact (Hp P' Q HY HP).
  - exfalso. apply H2. apply in_or_app. left. exact HP.
Qed.
Lemma pre_app_l {A} (X Y : list A) e1 e2 : pre X e1 e2 -> In e1 X -> pre (X ++ Y) e1 e2.
Proof.
  intros Hp H1 P Q HE HP. destruct (app_split _ _ _ _ HE) as [(P' & -> & _)|(X' & -> & _)].
  - apply in_or_app. left. exact H1.
  - exact (Hp P X' eq_refl HP).
Qed.

(** ** declaration order *)
Definition before (c : cfg) (tc1 tc2 : tcfg) : Prop := exists l1 l2 l3, c = l1 ++ tc1 :: l2 ++ tc2 :: l3.
(** parents first: every foreign key points to a type declared earlier *)
Definition parents_first (c : cfg) : Prop :=
  forall tc a pt, In tc c -> In (a, pt) (t_fks tc) -> exists tcp, t_id tcp = pt /\ before c tcp tc.

Lemma before_in c tc1 tc2 : before c tc1 tc2 -> In tc1 c /\ In tc2 c.
Proof.
  intros (l1 & l2 & l3 & ->). split; apply in_or_app; right.
  - left. reflexivity.
  - right. apply in_or_app. right. left. reflexivity.
Qed.
Lemma before_ne c tc1 tc2 : cfg_ok c -> before c tc1 tc2 -> t_id tc1 <> t_id tc2.
Proof.
  intros Hc (l1 & l2 & l3 & ->) Heq. unfold cfg_ok in Hc. rewrite map_app in Hc. cbn in Hc.
  apply NoDup_ListNoDup in Hc. apply List.NoDup_remove_2 in Hc. apply Hc.
  apply in_or_app. right. rewrite map_app. apply in_or_app. right. cbn. left. symmetry. exact Heq.
Qed.

(** events of a type all carry its id *)
Definition typed (f : tcfg -> list event) : Prop := forall tc e, In e (f tc) -> e_t e = t_id tc.

Lemma concat_map_pre (f : tcfg -> list event) c tc1 tc2 e1 e2 :
  cfg_ok c -> typed f -> before c tc1 tc2 -> In e1 (f tc1) -> In e2 (f tc2) ->
  pre (concat (map f c)) e1 e2.
Proof.
  intros Hc Ht (l1 & l2 & l3 & Hcc) H1 H2. subst c.
  assert (Hne : forall tc, In tc (l1 ++ [tc1]) -> t_id tc <> t_id tc2).
  { intros tc Hin Heq. unfold cfg_ok in Hc.
    replace (l1 ++ tc1 :: l2 ++ tc2 :: l3) with ((l1 ++ [tc1]) ++ l2 ++ tc2 :: l3) in Hc
      by (rewrite <- app_assoc; reflexivity).
    rewrite map_app in Hc. apply NoDup_app in Hc. destruct Hc as (_ & Hd & _).
    apply (Hd (t_id tc2)).
    - rewrite <- Heq. apply elem_of_list_In. apply in_map. exact Hin.
    - apply elem_of_list_In. rewrite map_app. apply in_or_app. right. left. reflexivity. }
  rewrite map_app, concat_app. cbn [map concat].
  apply pre_app_r.
  - apply pre_app_lr; [exact H1|]. intros Hin. apply (Hne tc1); [apply in_or_app; right; left; reflexivity|].
    rewrite <- (Ht _ _ Hin). apply Ht. exact H2.
  - intros Hin. apply in_concat in Hin. destruct Hin as (l & Hl & He). apply in_map_iff in Hl.
    destruct Hl as (tc & <- & Htc). apply (Hne tc); [apply in_or_app; left; exact Htc|].
    rewrite <- (Ht _ _ He). apply Ht. exact H2.
Qed.

(** ** referential closedness of a (visible) store *)
Definition pkey_of (o : obj) (a : N) : option Z := match o !! a with Some (VInt z) => Some z | _ => None end.
Definition oclosed (c : cfg) (w : world) (t : N) (ob : obj) : Prop :=
  forall tc a pt, lookup_tcfg c t = Some tc -> In (a, pt) (t_fks tc) ->
    exists pk, pkey_of ob a = Some pk /\ is_Some (w !! (pt, pk)).
Definition wclosed (c : cfg) (w : world) : Prop := forall t k ob, w !! (t, k) = Some ob -> oclosed c w t ob.

Section Cycle.
Variables (c : cfg) (hint : list (N * Z)) (n o : world).
Hypothesis Hc : cfg_ok c.
Let EA := concat (map (fun tc => ev_added tc n o) c).
Let EM := concat (map (fun tc => reorder hint (ev_modified tc n o)) c).
Let ER := concat (map (fun tc => ev_removed tc n o) (rev c)).
Let E := gen_events_h c hint n o.

Lemma E_eq : E = EA ++ EM ++ ER. Proof. reflexivity. Qed.

Lemma in_EA e : In e EA <-> exists tc, In tc c /\ e ∈ ev_added tc n o.
Proof.
  unfold EA. rewrite in_concat. split.
  - intros (l & Hl & He). apply in_map_iff in Hl. destruct Hl as (tc & <- & Htc). exists tc. split; [exact Htc|apply elem_of_list_In; exact He].
  - intros (tc & Htc & He). exists (ev_added tc n o). split; [apply (in_map (fun tc => ev_added tc n o)); exact Htc|apply elem_of_list_In; exact He].
Qed.
Lemma in_EM e : In e EM <-> exists tc, In tc c /\ e ∈ ev_modified tc n o.
Proof.
  unfold EM. rewrite in_concat. split.
  - intros (l & Hl & He). apply in_map_iff in Hl. destruct Hl as (tc & <- & Htc). exists tc. split; [exact Htc|].
    apply elem_of_list_In in He. apply elem_of_reorder in He; [exact He|apply NoDup_ids_modified].
  - intros (tc & Htc & He). exists (reorder hint (ev_modified tc n o)). split; [apply (in_map (fun tc => reorder hint (ev_modified tc n o))); exact Htc|].
    apply elem_of_list_In. apply elem_of_reorder; [apply NoDup_ids_modified|exact He].
Qed.
Lemma in_ER e : In e ER <-> exists tc, In tc c /\ e ∈ ev_removed tc n o.
Proof.
  unfold ER. rewrite in_concat. split.
  - intros (l & Hl & He). apply in_map_iff in Hl. destruct Hl as (tc & <- & Htc). exists tc. split; [apply in_rev; exact Htc|apply elem_of_list_In; exact He].
  - intros (tc & Htc & He). exists (ev_removed tc n o). split; [apply (in_map (fun tc => ev_removed tc n o)); apply in_rev in Htc; exact Htc|apply elem_of_list_In; exact He].
Qed.

Lemma kind_EA e : In e EA -> exists a, e_kind e = KAdded a.
Proof. intros H. apply in_EA in H. destruct H as (tc & _ & He). apply elem_of_ev_added in He. destruct He as (k & no & -> & _). eexists. reflexivity. Qed.
Lemma kind_EM e : In e EM -> exists d, e_kind e = KModified d.
Proof. intros H. apply in_EM in H. destruct H as (tc & _ & He). apply elem_of_ev_modified in He. destruct He as (k & no & oo & -> & _). eexists. reflexivity. Qed.
Lemma kind_ER e : In e ER -> e_kind e = KRemoved.
Proof. intros H. apply in_ER in H. destruct H as (tc & _ & He). apply elem_of_ev_removed in He. destruct He as (k & -> & _). reflexivity. Qed.

(** phases: every 'added' before every 'modified' and 'removed'; every 'modified' before every 'removed' *)
Lemma pre_added_first e1 e2 : In e1 EA -> In e2 (EM ++ ER) -> pre E e1 e2.
Proof.
  intros H1 H2. rewrite E_eq. apply pre_app_lr; [exact H1|]. intros H. destruct (kind_EA _ H) as (a & Ha).
  apply in_app_or in H2. destruct H2 as [H2|H2].
  - destruct (kind_EM _ H2) as (d & Hd). congruence.
  - rewrite (kind_ER _ H2) in Ha. discriminate.
Qed.
Lemma pre_modified_before_removed e1 e2 : In e1 EM -> In e2 ER -> pre E e1 e2.
Proof.
  intros H1 H2. rewrite E_eq. apply pre_app_r.
  - apply pre_app_lr; [exact H1|]. intros H. destruct (kind_EM _ H) as (d & Hd). rewrite (kind_ER _ H2) in Hd. discriminate.
  - intros H. destruct (kind_EA _ H) as (a & Ha). rewrite (kind_ER _ H2) in Ha. discriminate.
Qed.

Lemma typed_added : typed (fun tc => ev_added tc n o).
Proof. intros tc e H. apply elem_of_list_In in H. apply elem_of_ev_added in H. destruct H as (k & no & -> & _). reflexivity. Qed.
Lemma typed_removed : typed (fun tc => ev_removed tc n o).
Proof. intros tc e H. apply elem_of_list_In in H. apply elem_of_ev_removed in H. destruct H as (k & -> & _). reflexivity. Qed.

(** parents are announced first, children are withdrawn first *)
Lemma pre_added_parent_first tc1 tc2 e1 e2 :
  before c tc1 tc2 -> e1 ∈ ev_added tc1 n o -> e2 ∈ ev_added tc2 n o -> pre E e1 e2.
Proof.
  intros Hb H1 H2. rewrite E_eq. apply pre_app_l.
  - apply (concat_map_pre _ c tc1 tc2); auto using typed_added; apply elem_of_list_In; assumption.
  - apply in_EA. exists tc1. split; [apply (before_in _ _ _ Hb)|exact H1].
Qed.

Lemma before_rev tc1 tc2 : before c tc1 tc2 -> before (rev c) tc2 tc1.
Proof.
  intros (l1 & l2 & l3 & ->). exists (rev l3), (rev l2), (rev l1).
  rewrite !rev_app_distr. cbn. rewrite !rev_app_distr. cbn. rewrite <- !app_assoc. cbn. reflexivity.
Qed.
Lemma cfg_ok_rev : cfg_ok (rev c).
Proof. unfold cfg_ok in *. rewrite map_rev. apply NoDup_ListNoDup, NoDup_rev, NoDup_ListNoDup. exact Hc. Qed.

Lemma pre_removed_child_first tc1 tc2 e1 e2 :
  before c tc1 tc2 -> e1 ∈ ev_removed tc1 n o -> e2 ∈ ev_removed tc2 n o -> pre E e2 e1.
Proof.
  intros Hb H1 H2. rewrite E_eq.
  assert (He1 : In e1 ER) by (apply in_ER; exists tc1; split; [apply (before_in _ _ _ Hb)|exact H1]).
  apply pre_app_r; [apply pre_app_r|].
  - apply (concat_map_pre _ (rev c) tc2 tc1); auto using typed_removed, cfg_ok_rev, before_rev; apply elem_of_list_In; assumption.
  - intros H. destruct (kind_EM _ H) as (d & Hd). rewrite (kind_ER _ He1) in Hd. discriminate.
  - intros H. destruct (kind_EA _ H) as (a & Ha). rewrite (kind_ER _ He1) in Ha. discriminate.
Qed.
End Cycle.

Lemma vis_lookup c w tc k : cfg_ok c -> tc ∈ c -> vis c w !! (t_id tc, k) = vis_obj tc <$> w !! (t_id tc, k).
Proof. intros Hc Htc. unfold vis. rewrite lookup_wmap, (lookup_tcfg_in c tc Hc Htc). reflexivity. Qed.

Lemma NoDup_ids_prefix (P Q : list event) : NoDup (map ev_id (P ++ Q)) -> NoDup (map ev_id P).
Proof. rewrite map_app. intros H. apply NoDup_app in H. tauto. Qed.

Lemma in_ids_event (P : list event) i : i ∈ map ev_id P -> exists e, In e P /\ ev_id e = i.
Proof. intros H. apply elem_of_list_fmap in H. destruct H as (e & -> & He). exists e. split; [apply elem_of_list_In; exact He|reflexivity]. Qed.

Section Main.
Variables (c : cfg) (hint : list (N * Z)) (n o : world) (P Q : list event).
Hypothesis Hc : cfg_ok c.
Hypothesis Hpf : parents_first c.
Hypothesis HN : wclosed c (vis c n).
Hypothesis HB : wclosed c (vis c o).
Hypothesis HE : gen_events_h c hint n o = P ++ Q.
Let E := gen_events_h c hint n o.
Let S := replay P (vis c o).

Lemma P_in_E e : In e P -> e ∈ E.
Proof. intros H. unfold E. rewrite HE. apply elem_of_list_In. apply in_or_app. left. exact H. Qed.
Lemma P_nodup : NoDup (map ev_id P).
Proof. apply (NoDup_ids_prefix P Q). rewrite <- HE. apply gen_events_h_NoDup. exact Hc. Qed.
Lemma E_unique e1 e2 : e1 ∈ E -> e2 ∈ E -> ev_id e1 = ev_id e2 -> e1 = e2.
Proof.
  intros H1 H2 Hid. pose proof (gen_events_h_NoDup c hint n o Hc) as Hnd. fold E in Hnd.
  apply elem_of_list_lookup in H1, H2. destruct H1 as (i1 & H1). destruct H2 as (i2 & H2).
  assert (i1 = i2).
  { eapply NoDup_lookup; [exact Hnd| |]; rewrite list_lookup_fmap.
    - rewrite H1. reflexivity.
    - rewrite H2. cbn. rewrite Hid. reflexivity. }
  subst. congruence.
Qed.
Lemma S_in e : In e P -> S !! ev_id e = apply1 e (vis c o !! ev_id e).
Proof. intros H. apply replay_lookup_in; [exact P_nodup|apply elem_of_list_In; exact H]. Qed.
Lemma S_notin i : i ∉ map ev_id P -> S !! i = vis c o !! i.
Proof. apply replay_lookup_notin. Qed.
Lemma pre_P e1 e2 : pre E e1 e2 -> In e2 P -> In e1 P.
Proof. intros Hp H. exact (Hp P Q HE H). Qed.

(** a parent that the new view holds is present after the prefix as soon as its 'added' (if any) is in the prefix *)
Lemma parent_present_new tcp pk pno :
  tcp ∈ c -> n !! (t_id tcp, pk) = Some pno ->
  (forall ej, ej ∈ ev_added tcp n o -> ev_id ej = (t_id tcp, pk) -> In ej P) ->
  is_Some (S !! (t_id tcp, pk)).
Proof.
  intros Htcp Hn Hadd. destruct (decide ((t_id tcp, pk) ∈ map ev_id P)) as [Hin|Hni].
  - destruct (in_ids_event _ _ Hin) as (ej & HejP & Hid). rewrite <- Hid, (S_in _ HejP), Hid.
    pose proof (P_in_E _ HejP) as HejE. apply gen_events_h_spec in HejE.
    destruct HejE as [tc' k' no' Htc' Hn' Ho'|tc' k' no' oo' Htc' Hn' Ho' Hne|tc' k' Htc' Hn' Ho']; unfold apply1; cbn in Hid |- *.
    + eauto.
    + injection Hid as Ht Hk. subst k'. assert (tc' = tcp) by (eapply tc_inj; eauto). subst tc'.
      rewrite (vis_lookup c o tcp pk Hc Htcp), Ho'. cbn. eauto.
    + injection Hid as Ht Hk. subst k'. assert (tc' = tcp) by (eapply tc_inj; eauto). subst tc'. congruence.
  - rewrite (S_notin _ Hni), (vis_lookup c o tcp pk Hc Htcp).
    destruct (o !! (t_id tcp, pk)) as [oo|] eqn:Ho; [cbn; eauto|exfalso].
    apply Hni. set (ej := Ev (t_id tcp) pk (KAdded (vis_obj tcp pno))).
    assert (Hej : ej ∈ ev_added tcp n o) by (apply elem_of_ev_added; exists pk, pno; auto).
    apply elem_of_list_fmap. exists ej. split; [reflexivity|]. apply elem_of_list_In. apply Hadd; [exact Hej|reflexivity].
Qed.

(** a parent that the old view holds is present after the prefix as long as its 'removed' (if any) is not in the prefix *)
Lemma parent_present_old tcp pk poo :
  tcp ∈ c -> o !! (t_id tcp, pk) = Some poo ->
  (forall ej, ej ∈ ev_removed tcp n o -> ev_id ej = (t_id tcp, pk) -> ~ In ej P) ->
  is_Some (S !! (t_id tcp, pk)).
Proof.
  intros Htcp Ho Hrem. destruct (decide ((t_id tcp, pk) ∈ map ev_id P)) as [Hin|Hni].
  - destruct (in_ids_event _ _ Hin) as (ej & HejP & Hid). rewrite <- Hid, (S_in _ HejP), Hid.
    pose proof (P_in_E _ HejP) as HejE. apply gen_events_h_spec in HejE.
    destruct HejE as [tc' k' no' Htc' Hn' Ho'|tc' k' no' oo' Htc' Hn' Ho' Hne|tc' k' Htc' Hn' Ho']; unfold apply1; cbn in Hid |- *.
    + eauto.
    + injection Hid as Ht Hk. subst k'. assert (tc' = tcp) by (eapply tc_inj; eauto). subst tc'.
      rewrite (vis_lookup c o tcp pk Hc Htcp), Ho'. cbn. eauto.
    + exfalso. injection Hid as Ht Hk. subst k'. assert (tc' = tcp) by (eapply tc_inj; eauto). subst tc'.
      apply (Hrem (Ev (t_id tcp) pk KRemoved)); [apply elem_of_ev_removed; exists pk; auto|reflexivity|exact HejP].
  - rewrite (S_notin _ Hni), (vis_lookup c o tcp pk Hc Htcp), Ho. cbn. eauto.
Qed.

Lemma vis_Some_inv w tc k ob : tc ∈ c -> vis c w !! (t_id tc, k) = Some ob -> exists wo, w !! (t_id tc, k) = Some wo /\ ob = vis_obj tc wo.
Proof.
  intros Htc H. rewrite (vis_lookup c w tc k Hc Htc) in H. destruct (w !! (t_id tc, k)) as [wo|]; [|discriminate].
  cbn in H. inversion H. eauto.
Qed.

Theorem prefix_closed : wclosed c S.
Proof.
  intros t k ob HS tc a pt Htc Hfk.
  apply lookup_tcfg_Some in Htc. destruct Htc as [Htc <-].
  assert (HtcIn : In tc c) by (apply elem_of_list_In; exact Htc).
  destruct (Hpf tc a pt HtcIn Hfk) as (tcp & <- & Hbef).
  assert (Htcp : tcp ∈ c) by (apply elem_of_list_In; apply (before_in _ _ _ Hbef)).
  assert (HtcL : lookup_tcfg c (t_id tc) = Some tc) by (apply lookup_tcfg_in; assumption).
  destruct (decide ((t_id tc, k) ∈ map ev_id P)) as [Hin|Hni].
  - (* the object's own event is in the prefix: it carries its new value *)
    destruct (in_ids_event _ _ Hin) as (ei & HeiP & Hid).
    pose proof (P_in_E _ HeiP) as HeiE. pose proof HeiE as Hspec. apply gen_events_h_spec in Hspec.
    rewrite <- Hid, (S_in _ HeiP), Hid in HS.
    destruct Hspec as [tc' k' no' Htc' Hn' Ho'|tc' k' no' oo' Htc' Hn' Ho' Hne|tc' k' Htc' Hn' Ho']; unfold apply1 in HS; cbn in Hid, HS.
    + injection Hid as Ht Hk. subst k'. assert (tc' = tc) by (eapply tc_inj; eauto). subst tc'. inversion HS; subst ob.
      assert (HNi : vis c n !! (t_id tc, k) = Some (vis_obj tc no')) by (rewrite (vis_lookup c n tc k Hc Htc), Hn'; reflexivity).
      destruct (HN _ _ _ HNi tc a (t_id tcp) HtcL Hfk) as (pk & Hpk & Hpar). exists pk. split; [exact Hpk|].
      destruct Hpar as [pv Hpv]. destruct (vis_Some_inv n tcp pk pv Htcp Hpv) as (pno & Hpn & _).
      apply (parent_present_new tcp pk pno Htcp Hpn). intros ej Hej Hidj.
      apply (pre_P ej (Ev (t_id tc) k (KAdded (vis_obj tc no')))); [|exact HeiP].
      apply (pre_added_parent_first c hint n o Hc tcp tc); [exact Hbef|exact Hej|].
      apply elem_of_ev_added. exists k, no'. auto.
    + injection Hid as Ht Hk. subst k'. assert (tc' = tc) by (eapply tc_inj; eauto). subst tc'.
      rewrite (vis_lookup c o tc k Hc Htc), Ho' in HS. cbn [fmap option_fmap option_map] in HS. rewrite apply_mod_odiff in HS. inversion HS; subst ob.
      assert (HNi : vis c n !! (t_id tc, k) = Some (vis_obj tc no')) by (rewrite (vis_lookup c n tc k Hc Htc), Hn'; reflexivity).
      destruct (HN _ _ _ HNi tc a (t_id tcp) HtcL Hfk) as (pk & Hpk & Hpar). exists pk. split; [exact Hpk|].
      destruct Hpar as [pv Hpv]. destruct (vis_Some_inv n tcp pk pv Htcp Hpv) as (pno & Hpn & _).
      apply (parent_present_new tcp pk pno Htcp Hpn). intros ej Hej Hidj.
      apply (pre_P ej (Ev (t_id tc) k (KModified (odiff (vis_obj tc no') (vis_obj tc oo'))))); [|exact HeiP].
      apply (pre_added_first c hint n o).
      * apply in_EA. exists tcp. split; [apply elem_of_list_In; exact Htcp|exact Hej].
      * apply in_or_app. left. apply in_EM. exists tc. split; [exact HtcIn|].
        apply elem_of_ev_modified. exists k, no', oo'. auto.
    + discriminate.
  - (* no event of the object in the prefix: it still has its old value *)
    rewrite (S_notin _ Hni) in HS.
    destruct (vis_Some_inv o tc k ob Htc HS) as (oo & Hoo & ->).
    destruct (HB _ _ _ HS tc a (t_id tcp) HtcL Hfk) as (pk & Hpk & Hpar). exists pk. split; [exact Hpk|].
    destruct Hpar as [pv Hpv]. destruct (vis_Some_inv o tcp pk pv Htcp Hpv) as (poo & Hpo & _).
    apply (parent_present_old tcp pk poo Htcp Hpo). intros ej Hej Hidj HejP.
    apply elem_of_ev_removed in Hej. destruct Hej as (pk' & -> & Hnj & _). cbn in Hidj. injection Hidj as Hpk'. subst pk'.
    (* the child's own status *)
    apply Hni. destruct (n !! (t_id tc, k)) as [no|] eqn:Hn.
    + destruct (decide (vis_obj tc no = vis_obj tc oo)) as [Heq|Hne].
      * (* unchanged child: the new view, being closed, still holds the parent *)
        exfalso. assert (HNi : vis c n !! (t_id tc, k) = Some (vis_obj tc oo)) by (rewrite (vis_lookup c n tc k Hc Htc), Hn; cbn; congruence).
        destruct (HN _ _ _ HNi tc a (t_id tcp) HtcL Hfk) as (pk2 & Hpk2 & [pv2 Hpv2]).
        assert (pk2 = pk) by congruence. subst pk2.
        destruct (vis_Some_inv n tcp pk pv2 Htcp Hpv2) as (? & Hcontra & _). congruence.
      * (* modified child, not yet sent: no 'removed' can be in the prefix *)
        set (ei := Ev (t_id tc) k (KModified (odiff (vis_obj tc no) (vis_obj tc oo)))).
        assert (In ei P).
        { apply (pre_P ei (Ev (t_id tcp) pk KRemoved)); [|exact HejP]. apply (pre_modified_before_removed c hint n o).
          - apply in_EM. exists tc. split; [exact HtcIn|]. apply elem_of_ev_modified. exists k, no, oo. auto.
          - apply in_ER. exists tcp. split; [apply elem_of_list_In; exact Htcp|]. apply elem_of_ev_removed. exists pk. eauto. }
        apply elem_of_list_fmap. exists ei. split; [reflexivity|apply elem_of_list_In; assumption].
    + (* removed child, not yet sent: its parent's removal comes later *)
      set (ei := Ev (t_id tc) k KRemoved).
      assert (In ei P).
      { apply (pre_P ei (Ev (t_id tcp) pk KRemoved)); [|exact HejP].
        apply (pre_removed_child_first c hint n o Hc tcp tc); [exact Hbef| |].
        - apply elem_of_ev_removed. exists pk. eauto.
        - apply elem_of_ev_removed. exists k. eauto. }
      apply elem_of_list_fmap. exists ei. split; [reflexivity|apply elem_of_list_In; assumption].
Qed.
End Main.

(** Proofs for the integrity fixpoint (C14) and the multi-source merge (C13). *)
From Hermes Require Import Model.Fetch Proofs.Values Proofs.Objects.
From Coq Require Import Lia.

(** * Integrity constraints: greatest closed subset *)
Section Integrity.
Variable ics : N -> list (N * N).

Definition iclosed (S : list vobj) : Prop := forall x, In x S -> sat ics S x = true.

Lemma has_key_mono S S' t k : incl S S' -> has_key S t k = true -> has_key S' t k = true.
Proof.
  unfold has_key. rewrite !existsb_exists. intros Hi [x [Hx Hb]]. exists x. split; [apply Hi; exact Hx|exact Hb].
Qed.

(** Constraints that require the presence of other objects are monotone. *)
Lemma sat_mono S S' x : incl S S' -> sat ics S x = true -> sat ics S' x = true.
Proof.
  unfold sat. rewrite !forallb_forall. intros Hi H ap Hap. specialize (H ap Hap).
  destruct (attr_key (snd x) (fst ap)); [|exact H]. eapply has_key_mono; eassumption.
Qed.

Lemma filter_length_le {A} (f : A -> bool) (l : list A) : length (List.filter f l) <= length l.
Proof. induction l as [|a l IH]; simpl; [lia|]. destruct (f a); simpl; lia. Qed.
Lemma iround_incl S : incl (iround ics S) S.
Proof. intros x H. apply filter_In in H. tauto. Qed.
Lemma iround_len S : length (iround ics S) <= length S.
Proof. apply filter_length_le. Qed.
Lemma filter_fix {A} (f : A -> bool) (l : list A) : length (List.filter f l) = length l -> List.filter f l = l.
Proof.
  induction l as [|a l IH]; simpl; auto. destruct (f a); simpl; intros H.
  - f_equal. apply IH. lia.
  - pose proof (filter_length_le f l). lia.
Qed.

Lemma iloop_spec fuel : forall S R, iloop ics fuel S = Some R ->
  incl R S /\ iclosed R /\ (forall T, incl T S -> iclosed T -> incl T R).
Proof.
  induction fuel as [|f IH]; intros S R H; [discriminate|].
  simpl in H. destruct (Nat.eqb_spec (length (iround ics S)) (length S)) as [e|ne].
  - injection H as <-. split; [apply incl_refl|]. split.
    + intros x Hx. apply filter_fix in e. unfold iround in e. rewrite <- e in Hx. apply filter_In in Hx. tauto.
    + auto.
  - apply IH in H as (Hi & Hc & Hm). split; [eapply incl_tran; [exact Hi | apply iround_incl]|].
    split; auto. intros T HT HcT. apply Hm; auto.
    intros x Hx. apply filter_In. split; [auto|]. apply (sat_mono T S x HT). apply HcT; auto.
Qed.

Lemma iloop_terminates : forall fuel S, length S < fuel -> exists R, iloop ics fuel S = Some R.
Proof.
  induction fuel as [|f IH]; intros S H; [lia|].
  simpl. destruct (Nat.eqb_spec (length (iround ics S)) (length S)); [eauto|].
  apply IH. pose proof (iround_len S). lia.
Qed.

(** The published view is the largest subset of the merged data in which every
    object satisfies its constraints against the published content itself. *)
Theorem integrity_greatest_closed S :
  incl (integrity ics S) S /\ iclosed (integrity ics S)
  /\ (forall T, incl T S -> iclosed T -> incl T (integrity ics S)).
Proof.
  unfold integrity. destruct (iloop_terminates (Datatypes.S (length S)) S ltac:(lia)) as [R HR].
  rewrite HR. eapply iloop_spec. exact HR.
Qed.

(** What is filtered really violates a constraint in every closed subset. *)
Corollary integrity_filters_nothing_admissible S x T :
  In x S -> ~ In x (integrity ics S) -> incl T S -> iclosed T -> ~ In x T.
Proof.
  intros Hx Hn HT Hc Hin. apply Hn. destruct (integrity_greatest_closed S) as (_ & _ & Hm).
  apply (Hm T HT Hc). exact Hin.
Qed.

(** A single pass is NOT enough (the fixpoint matters): see [one_pass_refuted]. *)
Definition one_pass (S : list vobj) : list vobj := iround ics S.
End Integrity.

Definition chain_ics (t : N) : list (N * N) :=
  if N.eqb t 2 then [(1%N, 1%N)] else if N.eqb t 3 then [(1%N, 2%N)] else [].
Example one_pass_refuted :
  let S := [ (2%N, 1%Z, (list_to_map [(1%N, VInt 1)] : obj)); (3%N, 1%Z, (list_to_map [(1%N, VInt 1)] : obj)) ] in
  length (one_pass chain_ics S) = 1%nat /\ integrity chain_ics S = [].
Proof. vm_compute. split; reflexivity. Qed.

(** * Multi-source merge *)
Lemma alookup_app k l k' o :
  alookup k (l ++ [(k', o)]) = match alookup k l with
                               | Some x => Some x
                               | None => if Z.eqb k k' then Some o else None end.
Proof.
  induction l as [|[k2 o2] r IH]; simpl; [destruct (Z.eqb k k'); reflexivity|].
  destruct (Z.eqb k k2); [reflexivity|exact IH].
Qed.

Lemma alookup_aremove k k' l :
  alookup k (aremove k' l) = if Z.eqb k k' then None else alookup k l.
Proof.
  unfold aremove. induction l as [|[k2 o2] r IH]; simpl; [destruct (Z.eqb k k'); reflexivity|].
  destruct (Z.eqb_spec k' k2) as [->|Hne]; simpl.
  - rewrite IH. destruct (Z.eqb k k2); reflexivity.
  - rewrite IH. destruct (Z.eqb_spec k k2) as [->|]; [|reflexivity].
    destruct (Z.eqb_spec k2 k'); [congruence|reflexivity].
Qed.

Lemma alookup_areplace k k' o l :
  alookup k (areplace k' o l) =
    if Z.eqb k k' then match alookup k l with Some _ => Some o | None => None end else alookup k l.
Proof.
  induction l as [|[k2 o2] r IH]; simpl; [destruct (Z.eqb k k'); reflexivity|].
  destruct (Z.eqb_spec k' k2) as [->|Hne]; simpl.
  - destruct (Z.eqb k k2); reflexivity.
  - rewrite IH. destruct (Z.eqb_spec k k2) as [->|]; [|reflexivity].
    destruct (Z.eqb_spec k2 k'); [congruence|reflexivity].
Qed.

Lemma alookup_filter_keys k (f : Z -> bool) l :
  alookup k (List.filter (fun p => f (fst p)) l) = if f k then alookup k l else None.
Proof.
  induction l as [|[k2 o2] r IH]; simpl; [destruct (f k); reflexivity|].
  destruct (f k2) eqn:Hf; simpl.
  - destruct (Z.eqb_spec k k2) as [->|]; [rewrite Hf; reflexivity|exact IH].
  - rewrite IH. destruct (Z.eqb_spec k k2) as [->|]; [rewrite Hf; reflexivity|reflexivity].
Qed.

Lemma zmem_In k l : zmem k l = true <-> In k l.
Proof.
  unfold zmem. rewrite existsb_exists. split.
  - intros [x [Hx He]]. apply Z.eqb_eq in He. subst. exact Hx.
  - intros H. exists k. split; [exact H|apply Z.eqb_refl].
Qed.

Lemma alookup_None_keys k l : alookup k l = None <-> ~ In k (akeys l).
Proof.
  induction l as [|[k2 o2] r IH]; simpl; [tauto|].
  destruct (Z.eqb_spec k k2) as [->|Hne].
  - split; [discriminate|]. intros H. exfalso. apply H. left. reflexivity.
  - rewrite IH. split; [intros H [He|Hin]; [congruence|contradiction]|tauto].
Qed.

Lemma alookup_Some_keys k l o : alookup k l = Some o -> In k (akeys l).
Proof.
  intros H. destruct (in_dec Z.eq_dec k (akeys l)) as [Hi|Hn]; [exact Hi|].
  apply alookup_None_keys in Hn. congruence.
Qed.

(** per-key view of the accumulator *)
Definition kview (k : Z) (acc : macc) : option obj * bool * bool * bool * bool :=
  (alookup k (l_data (m_st acc)), zmem k (l_incons (m_st acc)) || zmem k (l_conf (m_st acc)),
   zmem k (m_merged acc), zmem k (m_remove acc), zmem k (l_conf (m_st acc))).

(** what one row does to its own key *)
Definition kstep (c : pmc) (dmoc : bool) (v : option obj * bool * bool * bool * bool) (o : obj)
  : option obj * bool * bool * bool * bool :=
  let '(cur, flagged, merged, rem, conf) := v in
  match cur with
  | None =>
      match c with
      | NoConstraint | MustNotExist => (if flagged then None else Some o, flagged, true, rem, conf)
      | _ => (None, flagged, merged, rem, conf)
      end
  | Some a =>
      match c with
      | MustNotExist => (Some a, flagged, merged, true, conf)
      | _ => if dmoc && obj_conflict a o then (None, true, true, rem, true)
             else (Some (obj_union a o), flagged, true, rem, conf)
      end
  end.

Lemma zmem_cons k k' l : zmem k (k' :: l) = Z.eqb k k' || zmem k l.
Proof. reflexivity. Qed.

Lemma merge_step_local c dmoc acc ko k :
  kview k (merge_step c dmoc acc ko) =
    if Z.eqb k (fst ko) then kstep c dmoc (kview k acc) (snd ko) else kview k acc.
Proof.
  destruct ko as [k' o]. unfold merge_step, kview, kstep. simpl fst; simpl snd.
  destruct (Z.eqb_spec k k') as [->|Hne].
  - destruct (alookup k' (l_data (m_st acc))) as [cur|] eqn:Hl.
    + destruct c; simpl; rewrite ?Hl, ?zmem_cons, ?Z.eqb_refl, ?orb_true_r; try reflexivity;
        destruct (dmoc && obj_conflict cur o); simpl;
        rewrite ?alookup_aremove, ?alookup_areplace, ?Hl, ?zmem_cons, ?Z.eqb_refl, ?orb_true_r; reflexivity.
    + destruct c; simpl; rewrite ?Hl, ?zmem_cons, ?Z.eqb_refl; try reflexivity;
        unfold lappend; simpl;
        destruct (zmem k' (l_incons (m_st acc)) || zmem k' (l_conf (m_st acc))) eqn:Hf; simpl;
        rewrite ?Hl; simpl; rewrite ?alookup_app, ?Hl, ?Z.eqb_refl, ?Hf; reflexivity.
  - assert (Hk : Z.eqb k k' = false) by (apply Z.eqb_neq; exact Hne).
    destruct (alookup k' (l_data (m_st acc))) as [cur|] eqn:Hl.
    + destruct c; simpl; rewrite ?zmem_cons, ?Hk; simpl; try reflexivity;
        destruct (dmoc && obj_conflict cur o); simpl;
        rewrite ?alookup_aremove, ?alookup_areplace, ?zmem_cons, ?Hk; reflexivity.
    + destruct c; simpl; rewrite ?zmem_cons, ?Hk; simpl; try reflexivity;
        unfold lappend; simpl;
        destruct (zmem k' (l_incons (m_st acc)) || zmem k' (l_conf (m_st acc))); simpl;
        rewrite ?Hl; simpl; rewrite ?alookup_app, ?Hk; try reflexivity;
        destruct (alookup k (l_data (m_st acc))); reflexivity.
Qed.

Lemma fold_merge_local c dmoc objs : forall acc k,
  NoDup (akeys objs) ->
  kview k (fold_left (merge_step c dmoc) objs acc) =
    match alookup k objs with
    | Some o => kstep c dmoc (kview k acc) o
    | None => kview k acc
    end.
Proof.
  induction objs as [|[k' o] r IH]; intros acc k Hnd; [reflexivity|].
  simpl in Hnd. apply NoDup_cons in Hnd. destruct Hnd as [Hni Hnd]. simpl.
  rewrite IH by exact Hnd. rewrite merge_step_local. simpl.
  destruct (Z.eqb_spec k k') as [->|Hne]; [|reflexivity].
  assert (alookup k' r = None) as ->; [|reflexivity].
  apply alookup_None_keys. intros Hin. apply Hni. apply elem_of_list_In. exact Hin.
Qed.

Lemma zmem_app k a b : zmem k (a ++ b) = zmem k a || zmem k b.
Proof. unfold zmem. apply existsb_app. Qed.

Lemma zmem_filter k (f : Z -> bool) l : zmem k (List.filter f l) = f k && zmem k l.
Proof.
  induction l as [|x r IH]; simpl; [rewrite andb_false_r; reflexivity|].
  destruct (f x) eqn:Hf; simpl; rewrite ?zmem_cons, IH.
  - destruct (Z.eqb_spec k x) as [->|]; [rewrite Hf; reflexivity|reflexivity].
  - unfold zmem at 2. simpl. destruct (Z.eqb_spec k x) as [->|]; [rewrite Hf; reflexivity|reflexivity].
Qed.

Lemma zmem_akeys k l : zmem k (akeys l) = match alookup k l with Some _ => true | None => false end.
Proof.
  induction l as [|[k2 o2] r IH]; simpl; [reflexivity|].
  unfold zmem in *. simpl. destruct (Z.eqb k k2); [reflexivity|exact IH].
Qed.

(** The complete per-key specification of one merge step with a duplicate-free
    source: union / only-new (both sides dropped) / only-existing enriched /
    intersection; attributes united with the earlier source winning ([∪] is
    left-biased); a conflict under use_cached_entry removes the key. *)
Theorem merge_with_spec c dmoc st objs k :
  NoDup (akeys objs) -> l_incons st = [] -> l_conf st = [] ->
  alookup k (l_data (fst (merge_with c dmoc st objs))) =
    match alookup k (l_data st), alookup k objs with
    | Some a, Some b => match c with
                        | MustNotExist => None
                        | _ => if dmoc && obj_conflict a b then None else Some (obj_union a b) end
    | Some a, None => match c with MustExistInBoth => None | _ => Some a end
    | None, Some b => match c with NoConstraint | MustNotExist => Some b | _ => None end
    | None, None => None
    end.
Proof.
  intros Hnd Hi Hc. unfold merge_with.
  set (acc := fold_left (merge_step c dmoc) objs (MAcc st [] [] [])).
  assert (Hv := fold_merge_local c dmoc objs (MAcc st [] [] []) k Hnd). fold acc in Hv.
  unfold kview in Hv. simpl in Hv. rewrite Hi, Hc in Hv. simpl in Hv.
  simpl fst. simpl l_data.
  rewrite (alookup_filter_keys k (fun k0 => negb (zmem k0 _))).
  destruct (alookup k (l_data st)) as [a|] eqn:Ha, (alookup k objs) as [b|] eqn:Hb;
    unfold kstep in Hv; destruct c; try (destruct (dmoc && obj_conflict a b));
    apply pair_equal_spec in Hv; destruct Hv as [Hv H5];
    apply pair_equal_spec in Hv; destruct Hv as [Hv H4];
    apply pair_equal_spec in Hv; destruct Hv as [Hv H3];
    apply pair_equal_spec in Hv; destruct Hv as [H1 H2];
    rewrite ?H1; rewrite ?zmem_app, ?zmem_filter, ?zmem_akeys, ?H1, ?H3, ?H4; reflexivity.
Qed.

(** Conflicting keys are reported; nothing else is. *)
Theorem merge_with_conflicts c dmoc st objs k :
  NoDup (akeys objs) -> l_incons st = [] -> l_conf st = [] ->
  zmem k (l_conf (fst (merge_with c dmoc st objs))) =
    match alookup k (l_data st), alookup k objs with
    | Some a, Some b => match c with MustNotExist => false | _ => dmoc && obj_conflict a b end
    | _, _ => false
    end.
Proof.
  intros Hnd Hi Hc. unfold merge_with.
  set (acc := fold_left (merge_step c dmoc) objs (MAcc st [] [] [])).
  assert (Hv := fold_merge_local c dmoc objs (MAcc st [] [] []) k Hnd). fold acc in Hv.
  unfold kview in Hv. simpl in Hv. rewrite Hi, Hc in Hv. simpl in Hv. simpl.
  destruct (alookup k (l_data st)) as [a|] eqn:Ha, (alookup k objs) as [b|] eqn:Hb;
    unfold kstep in Hv; destruct c; try (destruct (dmoc && obj_conflict a b));
    apply pair_equal_spec in Hv; destruct Hv as [Hv H5]; rewrite ?H5; reflexivity.
Qed.

(** Duplicates inside the first source: flagged, removed, later rows ignored. *)
Lemma lappend_dup st k o o' :
  zmem k (l_incons st) = false -> zmem k (l_conf st) = false -> alookup k (l_data st) = None ->
  let st2 := lappend (lappend st (k, o)) (k, o') in
  alookup k (l_data st2) = None /\ zmem k (l_incons st2) = true.
Proof.
  intros Hi Hc Hl.
  assert (H1 : lappend st (k, o) = LState (l_data st ++ [(k, o)]) (l_incons st) (l_conf st)).
  { unfold lappend. simpl. rewrite Hi, Hc, Hl. reflexivity. }
  rewrite H1. unfold lappend. simpl. rewrite Hi, Hc. simpl. rewrite alookup_app, Hl, Z.eqb_refl. simpl.
  split; [rewrite alookup_aremove, Z.eqb_refl; reflexivity|].
  unfold zmem. simpl. rewrite Z.eqb_refl. reflexivity.
Qed.

Lemma lappend_flagged st ko :
  zmem (fst ko) (l_incons st) = true -> lappend st ko = st.
Proof. intros H. unfold lappend. rewrite H. reflexivity. Qed.

(** A flagged key falls back to its last published value, or stays absent. *)
Lemma use_cached_go_notin cache ks d k :
  ~ In k ks -> alookup k ((fix go (ks : list Z) (d : olist) : olist :=
    match ks with
    | [] => d
    | k :: r => match alookup k cache with
                | Some o => go r (match alookup k d with Some _ => areplace k o d | None => d ++ [(k, o)] end)
                | None => go r d
                end
    end) ks d) = alookup k d.
Proof.
  revert d. induction ks as [|k' r IH]; intros d Hni; [reflexivity|].
  simpl in Hni. assert (Hne : k <> k') by (intros ->; apply Hni; left; reflexivity).
  assert (Hr : ~ In k r) by tauto. apply Z.eqb_neq in Hne.
  destruct (alookup k' cache) as [o|]; [|apply IH; exact Hr].
  rewrite IH by exact Hr. destruct (alookup k' d); [rewrite alookup_areplace, Hne; reflexivity|].
  rewrite alookup_app, Hne. destruct (alookup k d); reflexivity.
Qed.

(** Proofs about the client model. *)
From Hermes Require Import Model.Objects Model.Client Proofs.Values Proofs.Objects.
From RecordUpdate Require Import RecordSet.

(** ** the queue only ever offers the oldest entry of each object (C07, FIFO) *)
Lemma idq_eq a b : idq a b = true <-> a = b.
Proof.
  destruct a, b. unfold idq. simpl. rewrite andb_true_iff, N.eqb_eq, Z.eqb_eq.
  split; [intros [-> ->]; reflexivity|intros H; inversion H; auto].
Qed.

Theorem oldest_is_minimal q e e' :
  q_is_oldest q e = true -> In e' q -> ce_id (q_local e') = ce_id (q_local e) -> (q_num e <= q_num e')%Z.
Proof.
  unfold q_is_oldest. rewrite forallb_forall. intros H Hin Hid. specialize (H e' Hin).
  apply orb_true_iff in H. destruct H as [H|H].
  - apply negb_true_iff in H. assert (idq (ce_id (q_local e')) (ce_id (q_local e)) = true) by (apply idq_eq; exact Hid).
    congruence.
  - apply Z.leb_le. exact H.
Qed.


(** Proofs about the client model. *)
From Hermes Require Import Model.Objects Model.Client Proofs.Values Proofs.Objects.
From RecordUpdate Require Import RecordSet.

(** ** the queue only ever offers the oldest entry of each object (C07, FIFO) *)
Lemma idq_eq a b : idq a b = true <-> a = b.
Proof.
  destruct a, b. unfold idq. simpl. rewrite andb_true_iff, N.eqb_eq, Z.eqb_eq.
  split; [intros [-> ->]; reflexivity|intros H; inversion H; auto].
Qed.

Theorem oldest_is_minimal q e e' :
  q_is_oldest q e = true -> In e' q -> ce_id (q_local e') = ce_id (q_local e) -> (q_num e <= q_num e')%Z.
Proof.
  unfold q_is_oldest. rewrite forallb_forall. intros H Hin Hid. specialize (H e' Hin).
  apply orb_true_iff in H. destruct H as [H|H].
  - apply negb_true_iff in H. assert (idq (ce_id (q_local e')) (ce_id (q_local e)) = true) by (apply idq_eq; exact Hid).
    congruence.
  - apply Z.leb_le. exact H.
Qed.


(** ** Auto-remediation: merging two queued 'modified' events has the effect of
    applying them in order (C08) *)
Lemma lookup_difference_o (m1 m2 : obj) i :
  (m1 ∖ m2) !! i = match m2 !! i with Some _ => None | None => m1 !! i end.
Proof. apply lookup_difference'. Qed.

Lemma lookup_filter_none (a : obj) (m : obj) i :
  filter (fun kv => a !! fst kv = None) m !! i = match a !! i with Some _ => None | None => m !! i end.
Proof.
  rewrite map_filter_lookup. destruct (m !! i) as [x|] eqn:Hm; simpl.
  - destruct (a !! i) eqn:Ha.
    + rewrite option_guard_False; [reflexivity|]. simpl. discriminate.
    + rewrite option_guard_True; [reflexivity|]. simpl. reflexivity.
  - destruct (a !! i); reflexivity.
Qed.

(** a diff is well formed w.r.t. the object it applies to *)
Definition wf_diff (d : mdiff) (o : obj) : Prop :=
  forall a,
    (is_Some (md_a d !! a) -> o !! a = None /\ md_m d !! a = None /\ md_r d !! a = None)
    /\ (is_Some (md_m d !! a) -> is_Some (o !! a) /\ md_r d !! a = None)
    /\ (is_Some (md_r d !! a) -> is_Some (o !! a)).

Theorem merge_mod_effect p l o :
  wf_diff p o -> wf_diff l (apply_mod p o) ->
  apply_mod (merge_mod p l) o = apply_mod l (apply_mod p o).
Proof.
  intros Hp Hl. apply map_eq. intros a.
  specialize (Hp a). specialize (Hl a). rewrite lookup_apply_mod in Hl.
  rewrite !lookup_apply_mod. unfold merge_mod. cbn [md_a md_m md_r].
  rewrite !lookup_union, !lookup_difference_o, !lookup_filter_none, !map_lookup_imap, !lookup_union,
    ?lookup_difference_o, ?lookup_filter_none, ?map_lookup_imap, ?lookup_union.
  destruct Hp as (Hpa & Hpm & Hpr). destruct Hl as (Hla & Hlm & Hlr).
  destruct (md_a p !! a) as [pa|] eqn:Epa, (md_m p !! a) as [pm|] eqn:Epm, (md_r p !! a) as [pr|] eqn:Epr,
           (md_a l !! a) as [la|] eqn:Ela, (md_m l !! a) as [lm|] eqn:Elm, (md_r l !! a) as [lr|] eqn:Elr,
           (o !! a) as [ov|] eqn:Eo; simpl in *;
    try reflexivity;
    try (exfalso; first
      [ destruct (Hpa ltac:(eauto)) as (? & ? & ?); congruence
      | destruct (Hpm ltac:(eauto)) as ([? ?] & ?); congruence
      | destruct (Hpr ltac:(eauto)) as [? ?]; congruence
      | destruct (Hla ltac:(eauto)) as (? & ? & ?); congruence
      | destruct (Hlm ltac:(eauto)) as ([? ?] & ?); congruence
      | destruct (Hlr ltac:(eauto)) as [? ?]; congruence ]).
Qed.

(** 'added' followed by 'modified' merges into the 'added' of the final object *)
Theorem merge_added_modified_effect a l : apply_to_added a l = apply_mod l a.
Proof. reflexivity. Qed.

(** a partially processed event is never merged *)
Theorem remediate_skips_partial c st q num last prev rest :
  cc_remed c <> RDisabled ->
  List.find (fun e => Z.eqb (q_num e) num) q = Some last ->
  rev (List.filter (fun e => idq (ce_id (q_local e)) (ce_id (q_local last))) q) = last :: prev :: rest ->
  ce_partial (q_local prev) || ce_partial (q_local last)
    || ev_partial (q_remote prev) || ev_partial (q_remote last) = true ->
  remediate c st q num = q.
Proof.
  intros Hpol Hf Hrev Hp. unfold remediate. destruct (cc_remed c); [contradiction| |];
    rewrite Hf, Hrev, Hp; reflexivity.
Qed.

(** with remediation disabled the queue is left alone *)
Theorem remediate_disabled c st q num : cc_remed c = RDisabled -> remediate c st q num = q.
Proof. intros H. unfold remediate. rewrite H. reflexivity. Qed.

(** An initsync sequence reproduces the published state (C12, server side): replaying its
    events from nothing yields, object by object, the published cache without its secrets. *)
From Hermes Require Import Model.Objects Model.Server Proofs.Values Proofs.Objects Proofs.Server.

Definition pub (c : cfg) (w : world) : world := wmap c pub_obj w.

Lemma elem_of_ev_initsync_type tc cache e :
  e ∈ omap (fun k => match cache !! (t_id tc, k) with
                     | Some o => Some (Ev (t_id tc) k (KAdded (pub_obj tc o)))
                     | None => None end) (keys_of (t_id tc) cache) <->
  exists k o, e = Ev (t_id tc) k (KAdded (pub_obj tc o)) /\ cache !! (t_id tc, k) = Some o.
Proof.
  rewrite elem_of_list_omap. split.
  - intros (k & _ & He). destruct (cache !! (t_id tc, k)) as [o|] eqn:Ho; [|discriminate]. inversion He. eauto.
  - intros (k & o & -> & Ho). exists k. split; [apply elem_of_keys_of; eauto|]. rewrite Ho. reflexivity.
Qed.

Lemma NoDup_ids_initsync c cache : cfg_ok c -> NoDup (map ev_id (ev_initsync c cache)).
Proof.
  intros Hc. unfold ev_initsync. apply NoDup_ids_concat; [exact Hc| |].
  - intros tc. apply (NoDup_omap_keys _ _ (t_id tc)); [apply NoDup_keys_of|].
    intros k a H. destruct (cache !! _); [|discriminate]. inversion H. reflexivity.
  - intros tc e He. apply elem_of_ev_initsync_type in He. destruct He as (k & o & -> & _). reflexivity.
Qed.

Theorem initsync_is_published_state c cache :
  cfg_ok c -> replay (ev_initsync c cache) ∅ = pub c cache.
Proof.
  intros Hc. apply map_eq. intros [t k]. unfold pub. rewrite lookup_wmap.
  pose proof (NoDup_ids_initsync c cache Hc) as Hnd.
  destruct (lookup_tcfg c t) as [tc|] eqn:Htc.
  - apply lookup_tcfg_Some in Htc. destruct Htc as [Htc <-].
    destruct (cache !! (t_id tc, k)) as [o|] eqn:Ho.
    + set (e := Ev (t_id tc) k (KAdded (pub_obj tc o))).
      assert (He : e ∈ ev_initsync c cache).
      { unfold ev_initsync. apply elem_of_concat_map. exists tc. split; [exact Htc|].
        apply elem_of_ev_initsync_type. exists k, o. auto. }
      change (t_id tc, k) with (ev_id e). rewrite (replay_lookup_in _ _ e Hnd He). reflexivity.
    + rewrite replay_lookup_notin; [rewrite lookup_empty; reflexivity|].
      intros Hin. apply elem_of_list_fmap in Hin. destruct Hin as (e & Hid & He).
      unfold ev_initsync in He. apply elem_of_concat_map in He. destruct He as (tc' & Htc' & He).
      apply elem_of_ev_initsync_type in He. destruct He as (k' & o' & -> & Ho'). cbn in Hid. inversion Hid; subst.
      assert (tc' = tc) by (eapply tc_inj; eauto). subst. congruence.
  - rewrite replay_lookup_notin; [apply lookup_empty|].
    intros Hin. apply elem_of_list_fmap in Hin. destruct Hin as (e & Hid & He).
    unfold ev_initsync in He. apply elem_of_concat_map in He. destruct He as (tc' & Htc' & He).
    apply elem_of_ev_initsync_type in He. destruct He as (k' & o' & -> & Ho'). cbn in Hid. inversion Hid; subst.
    rewrite (lookup_tcfg_in c tc' Hc Htc') in Htc. discriminate.
Qed.

(** Histories with server restarts (C01): secrets are not kept in the cache files, so after a
    restart the bus state and the reloaded cache agree on everything but the secret
    attributes; that agreement is kept by every later step, and a complete poll brings the
    bus state back to the view on every non-secret attribute. *)
From Hermes Require Import Model.Objects Model.Server Proofs.Values Proofs.Objects Proofs.Server.

Definition nsec_obj (tc : tcfg) (o : obj) : obj := ofilter (fun a => mem a (t_secret tc)) o.
Definition nsec (c : cfg) (w : world) : world := wmap c nsec_obj w.

Lemma nsec_obj_apply_mod tc d x y :
  nsec_obj tc x = nsec_obj tc y -> nsec_obj tc (apply_mod d x) = nsec_obj tc (apply_mod d y).
Proof.
  intros H. apply map_eq. intros a. unfold nsec_obj. rewrite !lookup_ofilter.
  destruct (mem a (t_secret tc)) eqn:Hs; [reflexivity|].
  rewrite !lookup_apply_mod.
  assert (Hxy : x !! a = y !! a).
  { assert (H' := f_equal (fun m => m !! a) H). cbn in H'. unfold nsec_obj in H'. rewrite !lookup_ofilter, Hs in H'. exact H'. }
  rewrite Hxy. reflexivity.
Qed.

Lemma nsec_lookup c w t k : nsec c w !! (t, k) = match lookup_tcfg c t with Some tc => nsec_obj tc <$> w !! (t, k) | None => None end.
Proof. unfold nsec. apply lookup_wmap. Qed.

Lemma nsec_apply_ev c b m e : nsec c b = nsec c m -> nsec c (apply_ev b e) = nsec c (apply_ev m e).
Proof.
  intros H. apply map_eq. intros [t k]. rewrite !nsec_lookup.
  assert (Hi := f_equal (fun w => w !! (t, k)) H). cbn in Hi. rewrite !nsec_lookup in Hi.
  destruct (lookup_tcfg c t) as [tc|]; [|reflexivity].
  rewrite !lookup_apply_ev. destruct (decide ((t, k) = ev_id e)) as [Heq|Hne]; [|exact Hi].
  unfold apply1. destruct (e_kind e) as [a|d|]; [reflexivity| |reflexivity].
  destruct (b !! (t, k)) as [x|], (m !! (t, k)) as [y|]; cbn in *; try discriminate; [|reflexivity].
  inversion Hi as [Hxy]. f_equal. apply nsec_obj_apply_mod. exact Hxy.
Qed.

Lemma nsec_replay c evs : forall b m, nsec c b = nsec c m -> nsec c (replay evs b) = nsec c (replay evs m).
Proof.
  induction evs as [|e r IH]; intros b m H; [exact H|]. unfold replay. cbn.
  apply IH. apply nsec_apply_ev. exact H.
Qed.

(** what a restarted server reloads agrees with what it had published, secrets apart *)
Lemma nsec_vis_jsn c w : nsec c (vis c (jsn c w)) = nsec c (vis c w).
Proof.
  apply map_eq. intros [t k]. rewrite !nsec_lookup. unfold vis, jsn. rewrite !lookup_wmap.
  destruct (lookup_tcfg c t) as [tc|]; [|reflexivity].
  destruct (w !! (t, k)) as [o|]; [|reflexivity]. cbn. f_equal.
  apply map_eq. intros a. unfold nsec_obj, vis_obj, jsn_obj. rewrite !lookup_ofilter.
  unfold hidden_of, unsaved_of. destruct (mem a (t_secret tc)), (mem a (t_local tc)), (mem a (t_cacheonly tc)); reflexivity.
Qed.

Definition inv2 (c : cfg) (B : option world) (st : sstate) : Prop :=
  match B with
  | None => s_first st = true
  | Some b => s_first st = false /\ nsec c b = nsec c (vis c (s_mem st))
  end.

Lemma inv_inv2 c B st : inv c B st -> inv2 c B st.
Proof. destruct B as [b|]; cbn; [intros [H ->]; split; [exact H|reflexivity]|auto]. Qed.

Lemma sstep_inv2 c st s B st' tr :
  cfg_ok c -> inv2 c B st -> sstep_run c st s = (st', tr) -> inv2 c (track c B s st' tr) st'.
Proof.
  intros Hc Hinv H. destruct s as [isync openfail view refused hint|].
  - destruct B as [b|].
    + destruct Hinv as [Hf Hb]. set (b0 := vis c (s_mem st)).
      assert (H0 : inv c (Some b0) st) by (split; [exact Hf|reflexivity]).
      assert (Hs : SPoll isync openfail view refused hint <> SRestart) by discriminate.
      pose proof (sstep_inv c st _ (Some b0) st' tr Hc H0 Hs H) as Hi. cbn in Hi |- *.
      destruct Hi as [Hf' Heq]. split; [exact Hf'|]. rewrite <- Heq. apply nsec_replay. exact Hb.
    + assert (Hs : SPoll isync openfail view refused hint <> SRestart) by discriminate.
      apply inv_inv2. apply (sstep_inv c st _ None st' tr Hc Hinv Hs H).
  - cbn in H. inversion H; subst. cbn. destruct B as [b|]; cbn in *; [|exact Hinv].
    destruct Hinv as [Hf Hb]. split; [exact Hf|]. rewrite nsec_vis_jsn. exact Hb.
Qed.

(** any history, restarts included *)
Theorem run_inv2 c steps : forall B st,
  cfg_ok c -> inv2 c B st -> let '(B', st') := track_run c B st steps in inv2 c B' st'.
Proof.
  induction steps as [|s r IH]; intros B st Hc Hinv; cbn; [exact Hinv|].
  destruct (sstep_run c st s) as [st' tr] eqn:E. apply IH; [exact Hc|]. eapply sstep_inv2; eassumption.
Qed.

(** after a poll all of whose sends were accepted, the bus state equals the view on every
    non-secret attribute - whatever happened before, restarts included *)
Theorem complete_poll_after_anything c st b isync view refused hint st' tr :
  cfg_ok c -> inv2 c (Some b) st ->
  sstep_run c st (SPoll isync false view refused hint) = (st', tr) -> no_refusal tr = true ->
  nsec c (replay (base_events tr) b) = nsec c (vis c view).
Proof.
  intros Hc [Hf Hb] H Hnr. set (b0 := vis c (s_mem st)).
  assert (H0 : inv c (Some b0) st) by (split; [exact Hf|reflexivity]).
  pose proof (sstep_complete c st (Some b0) isync view refused hint st' tr Hc H0 H Hnr) as Hcmp.
  cbn in Hcmp. inversion Hcmp as [Heq]. rewrite Heq. rewrite <- Heq at 1. apply nsec_replay. exact Hb.
Qed.

(** A raising handler leaves the client's caches and queue untouched (C07): whatever the
    operation, the only trace of the failed invocation is the handler log and the progress
    marker; parking the event is done by the caller ([process_remote]). *)
From Hermes Require Import Model.Objects Model.Client Proofs.Values Proofs.Objects Proofs.Client.
From RecordUpdate Require Import RecordSet.
Import RecordSetNotations.

Section Fail.
Variable c : ccfg.
Variable outcome : nat -> hres.

(** everything but the handler log and the step marker *)
Definition same_data (a b : cstate) : Prop :=
  r_live a = r_live b /\ r_trash a = r_trash b /\ rc_live a = rc_live b /\ rc_trash a = rc_trash b /\
  l_live a = l_live b /\ l_trash a = l_trash b /\ lc_live a = lc_live b /\ lc_trash a = lc_trash b /\
  queue a = queue b /\ exc a = exc b /\ poison a = poison b.

Lemma call_handler_fail st hk t k attrs new old :
  outcome (ncall st) <> HOk ->
  let r := call_handler outcome st hk t k attrs new old in
  snd r = false /\ same_data (fst r) st /\
  calls (fst r) = calls st ++ [Call hk t k attrs new old (curstep st) (curpartial st) (is_retry st) (outcome (ncall st))] /\
  ncall (fst r) = S (ncall st) /\
  (curstep (fst r), curpartial (fst r)) =
    match outcome (ncall st) with HFailPartial s => (s, true) | _ => (curstep st, curpartial st) end.
Proof.
  intros Hf. cbn zeta. unfold call_handler. destruct (outcome (ncall st)) as [| |s]; [contradiction| |];
    cbn; repeat split; reflexivity.
Qed.

Ltac fail_tac Hf :=
  match goal with
  | |- context [call_handler outcome ?st ?hk ?t ?k ?attrs ?new ?old] =>
      let H := fresh in
      pose proof (call_handler_fail st hk t k attrs new old Hf) as H; cbn zeta in H;
      destruct (call_handler outcome st hk t k attrs new old) as [st1 ok];
      cbn [fst snd] in H; destruct H as (-> & Hd & Hc & Hn & Hm); cbn [negb];
      exists st1; split; [reflexivity|split; [exact Hd|exact Hc]]
  end.

Theorem added_handler_raises st lev :
  outcome (ncall st) <> HOk ->
  exists st1, local_added outcome st lev false = (st1, false) /\ same_data st1 st /\
    calls st1 = calls st ++ [Call HAdded (ce_t lev) (ce_k lev) (ce_kind lev) (Some (new_obj (ce_kind lev))) None
                                  (curstep st) (curpartial st) (is_retry st) (outcome (ncall st))].
Proof. intros Hf. unfold local_added. fail_tac Hf. Qed.

Theorem modified_handler_raises st lev old :
  outcome (ncall st) <> HOk -> l_live st !! ce_id lev = Some old ->
  exists st1, local_modified outcome st lev false = (st1, false) /\ same_data st1 st /\
    calls st1 = calls st ++ [Call HModified (ce_t lev) (ce_k lev) (ce_kind lev) (Some (apply_mod (the_diff (ce_kind lev)) old)) (Some old)
                                  (curstep st) (curpartial st) (is_retry st) (outcome (ncall st))].
Proof. intros Hf Hl. unfold local_modified. rewrite Hl. fail_tac Hf. Qed.

Theorem removed_handler_raises st lev :
  outcome (ncall st) <> HOk ->
  exists st1, local_removed outcome st lev false = (st1, false) /\ same_data st1 st /\
    calls st1 = calls st ++ [Call HRemoved (ce_t lev) (ce_k lev) (ce_kind lev) None
                                  (option_map snd (lookup2 (l_live st) (l_trash st) (ce_id lev)))
                                  (curstep st) (curpartial st) (is_retry st) (outcome (ncall st))].
Proof. intros Hf. unfold local_removed. fail_tac Hf. Qed.

Theorem trashed_handler_raises ct st lev :
  outcome (ncall st) <> HOk ->
  exists st1, local_trashed outcome ct st lev false = (st1, false) /\ same_data st1 st /\
    calls st1 = calls st ++ [Call HTrashed (ce_t lev) (ce_k lev) (ce_kind lev) None (l_live st !! ce_id lev)
                                  (curstep st) (curpartial st) (is_retry st) (outcome (ncall st))].
Proof. intros Hf. unfold local_trashed. fail_tac Hf. Qed.

Theorem recycled_handler_raises ct st lev tr0 :
  outcome (ncall st) <> HOk -> l_trash st !! ce_id lev = Some tr0 ->
  exists st1, local_recycled c outcome ct st lev false = (st1, false) /\ same_data st1 st /\
    calls st1 = calls st ++ [Call HRecycled (ce_t lev) (ce_k lev) (KAdded (del_ts ct tr0)) (Some (del_ts ct tr0)) None
                                  (curstep st) (curpartial st) (is_retry st) (outcome (ncall st))].
Proof. intros Hf Ht. unfold local_recycled. rewrite Ht. fail_tac Hf. Qed.
End Fail.

(** Server datamodel evolution (C17). *)
From Hermes Require Import Model.Objects Model.Server Model.Evolution Proofs.Values Proofs.Objects Proofs.Server.

Lemma lookup_drop_types (dropped : list N) (w : world) (t : N) (k : Z) :
  drop_types dropped w !! (t, k) = if mem t dropped then None else w !! (t, k).
Proof.
  unfold drop_types. destruct (w !! (t, k)) as [o|] eqn:E.
  - destruct (mem t dropped) eqn:Hm.
    + apply map_filter_lookup_None. right. intros x _ Hx. cbn in Hx. congruence.
    + apply map_filter_lookup_Some. split; [exact E|exact Hm].
  - assert (filter (fun kv : N * Z * obj => mem (fst (fst kv)) dropped = false) w !! (t, k) = None) as ->
      by (apply map_filter_lookup_None; left; exact E).
    destruct (mem t dropped); reflexivity.
Qed.

(** exactly one 'removed' for every cached object of a dropped type, and nothing else *)
Theorem schema_step_spec c dropped cache e :
  e ∈ schema_step c dropped cache <->
  exists tc k, tc ∈ c /\ mem (t_id tc) dropped = true /\ is_Some (cache !! (t_id tc, k)) /\ e = Ev (t_id tc) k KRemoved.
Proof.
  unfold schema_step. rewrite gen_events_h_spec. split.
  - intros H. destruct H as [tc k no Htc Hn Ho|tc k no oo Htc Hn Ho Hne|tc k Htc Hn Ho].
    + rewrite lookup_drop_types in Hn. destruct (mem (t_id tc) dropped); congruence.
    + rewrite lookup_drop_types in Hn. destruct (mem (t_id tc) dropped); [discriminate|]. congruence.
    + rewrite lookup_drop_types in Hn. destruct (mem (t_id tc) dropped) eqn:Hm.
      * exists tc, k. repeat split; auto.
      * destruct Ho as [x Hx]. congruence.
  - intros (tc & k & Htc & Hm & Ho & ->). apply DE_removed; [exact Htc| |exact Ho].
    rewrite lookup_drop_types, Hm. reflexivity.
Qed.

Theorem schema_step_once c dropped cache : cfg_ok c -> NoDup (map ev_id (schema_step c dropped cache)).
Proof. intros Hc. apply gen_events_h_NoDup. exact Hc. Qed.

(** replaying them on what clients hold yields the published cache without the dropped types *)
Theorem schema_step_replay c dropped cache :
  cfg_ok c -> replay (schema_step c dropped cache) (vis c cache) = vis c (drop_types dropped cache).
Proof. intros Hc. apply replay_cycle. exact Hc. Qed.

(** no type dropped: nothing is sent ahead of the schema *)
Theorem schema_step_nothing_dropped c cache : schema_step c [] cache = [].
Proof.
  unfold schema_step. assert (drop_types [] cache = cache) as ->.
  { apply map_eq. intros [t k]. rewrite lookup_drop_types. reflexivity. }
  apply gen_events_h_silent.
Qed.

(** Server crash recovery (C05): whatever prefix of a cycle was sent before the
    process died and whatever part of it had been saved, one complete poll after the
    restart makes the bus replay equal to the view again - provided the objects whose
    events were sent but not saved did not change in the meantime. *)
From Hermes Require Import Model.Objects Model.Server Proofs.Values Proofs.Objects Proofs.Server.

Lemma apply_mod_odiff_idem n o : apply_mod (odiff n o) n = n.
Proof.
  apply map_eq. intros a. rewrite lookup_apply_mod. simpl.
  rewrite lookup_d_removed, lookup_d_modified, lookup_d_added.
  destruct (n !! a) as [x|] eqn:Hn, (o !! a) as [y|] eqn:Ho; try reflexivity.
  destruct (vdiff x y); reflexivity.
Qed.

Lemma replay_app a b w : replay (a ++ b) w = replay b (replay a w).
Proof. unfold replay. apply foldl_app. Qed.

Lemma sublist_NoDup_prefix {A} (pre post : list A) : NoDup (pre ++ post) -> NoDup pre.
Proof. intros H. apply NoDup_app in H. tauto. Qed.

(** the state of object [i] in the old and new views determines its event *)
Lemma event_of_id c n o e :
  cfg_ok c -> diff_event c n o e ->
  exists tc, tc ∈ c /\ e_t e = t_id tc /\
    match e_kind e with
    | KAdded a => exists no, n !! ev_id e = Some no /\ o !! ev_id e = None /\ a = vis_obj tc no
    | KModified d => exists no oo, n !! ev_id e = Some no /\ o !! ev_id e = Some oo
                                   /\ d = odiff (vis_obj tc no) (vis_obj tc oo)
    | KRemoved => n !! ev_id e = None /\ is_Some (o !! ev_id e)
    end.
Proof.
  intros Hc [tc k no Htc Hn Ho|tc k no oo Htc Hn Ho Hne|tc k Htc Hn Ho]; exists tc; simpl; eauto 10.
Qed.

Theorem crash_recovery c hint hint' n o n' saved pre post :
  cfg_ok c ->
  gen_events_h c hint n o = pre ++ post ->
  (* each object's saved state is its old one, or the one its sent event produced *)
  (forall i, saved !! i = o !! i \/ (i ∈ map ev_id pre /\ saved !! i = n !! i)) ->
  (* objects whose event was sent but not saved did not change before the next poll *)
  (forall i, i ∈ map ev_id pre -> saved !! i = o !! i -> n' !! i = n !! i) ->
  replay (pre ++ gen_events_h c hint' n' saved) (vis c o) = vis c n'.
Proof.
  intros Hc Hsplit Hsaved Hstable.
  assert (Hnd := gen_events_h_NoDup c hint n o Hc). rewrite Hsplit, map_app in Hnd.
  apply NoDup_app in Hnd. destruct Hnd as [Hndp _].
  assert (Hspec : forall e, e ∈ pre -> diff_event c n o e).
  { intros e He. apply gen_events_h_spec with (hint := hint). rewrite Hsplit. apply elem_of_app. left. exact He. }
  rewrite replay_app.
  (* stage 1: the interrupted cycle; stage 2: the complete poll after the restart *)
  assert (H1 : forall t k, replay pre (vis c o) !! (t, k) =
                match lookup_tcfg c t with
                | Some tc => vis_obj tc <$> (if decide ((t, k) ∈ map ev_id pre) then n !! (t, k) else o !! (t, k))
                | None => None end).
  { intros t k. destruct (decide ((t, k) ∈ map ev_id pre)) as [Hin|Hni].
    - apply elem_of_list_fmap in Hin. destruct Hin as [e [Hid He]]. rewrite Hid.
      rewrite (replay_lookup_in _ _ _ Hndp He).
      destruct (event_of_id c n o e Hc (Hspec e He)) as [tc [Htc [Het Hk]]].
      assert (Ht : t = t_id tc) by (unfold ev_id in Hid; inversion Hid; congruence).
      rewrite <- Hid, Ht, (lookup_tcfg_in c tc Hc Htc). rewrite Ht in Hid. rewrite Hid.
      unfold apply1. destruct (e_kind e) as [a|d|].
      + destruct Hk as [no [Hn [Ho ->]]]. rewrite Hn. reflexivity.
      + destruct Hk as [no [oo [Hn [Ho ->]]]]. rewrite Hn. unfold vis. rewrite <- Hid, lookup_wmap, (lookup_tcfg_in c tc Hc Htc).
        rewrite Hid, Ho. simpl. rewrite apply_mod_odiff. reflexivity.
      + destruct Hk as [Hn _]. rewrite Hn. reflexivity.
    - rewrite replay_lookup_notin by exact Hni. unfold vis. rewrite lookup_wmap. reflexivity. }
  set (W1 := replay pre (vis c o)) in *.
  (* W1 agrees with vis c saved except on in-flight objects, where it already holds n = n' *)
  assert (Hnd2 := gen_events_h_NoDup c hint' n' saved Hc).
  apply map_eq. intros [t k]. unfold vis at 1. rewrite lookup_wmap.
  destruct (lookup_tcfg c t) as [tc|] eqn:Htc.
  2:{ rewrite replay_lookup_notin; [rewrite H1, Htc; reflexivity|].
      intros Hin. apply elem_of_list_fmap in Hin. destruct Hin as [e [He Hin]].
      apply gen_events_h_spec in Hin.
      assert (Hx : exists tc', tc' ∈ c /\ e_t e = t_id tc') by (destruct Hin; simpl; eauto).
      destruct Hx as [tc' [Htc' Het]]. unfold ev_id in He. inversion He as [[Ht Hk]].
      rewrite Het in Ht. rewrite Ht in Htc. rewrite (lookup_tcfg_in c tc' Hc Htc') in Htc. discriminate. }
  apply lookup_tcfg_Some in Htc. destruct Htc as [Htc <-].
  (* is the object in flight (sent, not saved)? *)
  assert (Hcase : (saved !! (t_id tc, k) = o !! (t_id tc, k) /\ (t_id tc, k) ∉ map ev_id pre)
                  \/ ((t_id tc, k) ∈ map ev_id pre /\ saved !! (t_id tc, k) = n !! (t_id tc, k))
                  \/ ((t_id tc, k) ∈ map ev_id pre /\ saved !! (t_id tc, k) = o !! (t_id tc, k)
                      /\ n' !! (t_id tc, k) = n !! (t_id tc, k))).
  { destruct (decide ((t_id tc, k) ∈ map ev_id pre)) as [Hin|Hni].
    - destruct (Hsaved (t_id tc, k)) as [Ho|[_ Hn]]; [right; right|right; left]; auto.
    - destruct (Hsaved (t_id tc, k)) as [Ho|[Hin _]]; [left; auto|contradiction]. }
  assert (HW1 : W1 !! (t_id tc, k) = vis_obj tc <$>
            (if decide ((t_id tc, k) ∈ map ev_id pre) then n !! (t_id tc, k) else o !! (t_id tc, k))).
  { rewrite H1, (lookup_tcfg_in c tc Hc Htc). reflexivity. }
  (* the event of the second poll at this object, if any *)
  assert (Hev : forall e, e ∈ gen_events_h c hint' n' saved -> ev_id e = (t_id tc, k) ->
            apply1 e (W1 !! (t_id tc, k)) = vis_obj tc <$> n' !! (t_id tc, k)).
  { intros e He Hid. apply gen_events_h_spec in He.
    destruct (event_of_id c n' saved e Hc He) as [tc' [Htc' [Het Hk]]].
    assert (tc' = tc) by (apply (tc_inj c); try assumption; unfold ev_id in Hid; inversion Hid; congruence). subst tc'.
    rewrite Hid in Hk. unfold apply1. rewrite HW1.
    destruct (e_kind e) as [a|d|].
    - destruct Hk as [no [Hn' [Hs ->]]]. rewrite Hn'. reflexivity.
    - destruct Hk as [no [so [Hn' [Hs ->]]]]. rewrite Hn'. simpl.
      destruct Hcase as [[Ho Hni]|[[Hin Hsn]|[Hin [Hso Hst]]]].
      + destruct (decide _); [contradiction|]. rewrite <- Ho, Hs. simpl. rewrite apply_mod_odiff. reflexivity.
      + destruct (decide _); [|contradiction]. rewrite <- Hsn, Hs. simpl. rewrite apply_mod_odiff. reflexivity.
      + destruct (decide _); [|contradiction]. rewrite <- Hst, Hn'. simpl. rewrite apply_mod_odiff_idem. reflexivity.
    - destruct Hk as [Hn' _]. rewrite Hn'. reflexivity. }
  destruct (decide ((t_id tc, k) ∈ map ev_id (gen_events_h c hint' n' saved))) as [Hin|Hni].
  - apply elem_of_list_fmap in Hin. destruct Hin as [e [Hid He]].
    rewrite Hid. rewrite (replay_lookup_in _ _ _ Hnd2 He). rewrite <- Hid. apply Hev; [exact He|symmetry; exact Hid].
  - rewrite replay_lookup_notin by exact Hni. rewrite HW1.
    (* no event at this object in the second poll: n' and saved agree visibly there *)
    assert (Hno : vis_obj tc <$> n' !! (t_id tc, k) = vis_obj tc <$> saved !! (t_id tc, k)).
    { destruct (n' !! (t_id tc, k)) as [no|] eqn:Hn', (saved !! (t_id tc, k)) as [so|] eqn:Hs; simpl; try reflexivity.
      - destruct (decide (vis_obj tc no = vis_obj tc so)) as [->|Hne]; [reflexivity|].
        exfalso. apply Hni. apply elem_of_list_fmap.
        exists (Ev (t_id tc) k (KModified (odiff (vis_obj tc no) (vis_obj tc so)))). split; [reflexivity|].
        apply gen_events_h_spec. econstructor; eassumption.
      - exfalso. apply Hni. apply elem_of_list_fmap.
        exists (Ev (t_id tc) k (KAdded (vis_obj tc no))). split; [reflexivity|].
        apply gen_events_h_spec. econstructor; eassumption.
      - exfalso. apply Hni. apply elem_of_list_fmap.
        exists (Ev (t_id tc) k KRemoved). split; [reflexivity|].
        apply gen_events_h_spec. econstructor; eauto. }
    rewrite Hno.
    destruct Hcase as [[Ho Hni']|[[Hin Hsn]|[Hin [Hso Hst]]]].
    + destruct (decide _); [contradiction|]. rewrite Ho. reflexivity.
    + destruct (decide _); [|contradiction]. rewrite Hsn. reflexivity.
    + destruct (decide _); [|contradiction]. rewrite <- Hno, Hst. reflexivity.
Qed.

(** F3: without that proviso the statement is false - an 'added' that was sent but not
    saved, for an object that vanished from the source before the restart, is never
    withdrawn (phantom) *)
Example crash_recovery_refuted :
  let c := [TCfg 1 [] [] [] [] false false] in
  let o : world := ∅ in
  let n : world := list_to_map [((1%N, 1%Z), list_to_map [(1%N, VInt 1)])] in
  let pre := gen_events_h c [] n o in        (* 'added 1' was sent ... *)
  let saved := o in                          (* ... but the crash came before the save *)
  let n' : world := ∅ in                     (* and the object is gone at the next poll *)
  replay (pre ++ gen_events_h c [] n' saved) (vis c o) <> vis c n'.
Proof. vm_compute. discriminate. Qed.

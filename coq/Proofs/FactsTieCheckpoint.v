(** * Tie between the hand-written models and the tables / call orders regenerated from
    /repo's source text ([Generated/Facts.v], written by harness/facts_extract.py at every run).

    Each lemma says: the model uses exactly the table (or order) the source declares now.  The
    property files import these lemmas, so an edit of the source table changes [Facts.v] and
    breaks a proof obligation of every property that rests on it. *)
From Coq Require Import String.
From Hermes Require Import Generated.Facts.
From Hermes Require Import Model.Objects Model.Client Model.Checkpoint.

Local Notation seqb := String.eqb.

(** ** client checkpoint: error queue, then the data files, then the offset file *)
Definition ds_indices (name : string) : option (N * N) :=     (* (live index, trashbin index) *)
  if seqb name "localdata" then Some (4, 5)%N
  else if seqb name "localdata_complete" then Some (6, 7)%N
  else if seqb name "remotedata" then Some (0, 1)%N
  else if seqb name "remotedata_complete" then Some (2, 3)%N else None.
Definition ds_files (types : list N) (name : string) : list fileid :=
  match ds_indices name with
  | None => []
  | Some (li, ti) =>
      flat_map (fun kind => if seqb kind "live" then map (FData li) types
                            else if seqb kind "trash" then map (FData ti) types else [])
               datasource_save_kinds
  end.
Definition call_files (types : list N) (call : string) : list fileid :=
  if seqb call "saveErrorQueue" then [FQueue]
  else if seqb call "saveLocalAndRemoteData" then flat_map (ds_files types) save_data_calls
  else if seqb call "savecachefile" then [FOffset] else [].
Definition save_order_facts (types : list N) : list fileid := flat_map (call_files types) checkpoint_calls.
Lemma checkpoint_order_tie : forall types, save_order_facts types = save_order types.
Proof.
  intros types. unfold save_order_facts, save_order, call_files, ds_files, ds_indices.
  cbn -[app map]. rewrite ?app_nil_r, ?app_nil_l, <- ?app_assoc. reflexivity.
Qed.
(** the offset file is the last file of the checkpoint, whatever the types *)
Lemma offset_saved_last_tie : forall types, exists l, save_order_facts types = l ++ [FOffset] /\ ~ In FOffset l.
Proof.
  intros types. rewrite checkpoint_order_tie. unfold save_order.
  eexists. rewrite !app_assoc. split; [reflexivity|].
  rewrite !in_app_iff, !in_map_iff. cbn. intros H.
  repeat match goal with
         | H : _ \/ _ |- _ => destruct H
         | H : exists _, _ |- _ => destruct H as (? & ? & ?)
         | H : False |- _ => destruct H
         end; discriminate.
Qed.

(** * Tie between the hand-written models and the tables / call orders regenerated from
    /repo's source text ([Generated/Facts.v], written by harness/facts_extract.py at every run).

    Each lemma says: the model uses exactly the table (or order) the source declares now.  The
    property files import these lemmas, so an edit of the source table changes [Facts.v] and
    breaks a proof obligation of every property that rests on it. *)
From Coq Require Import String.
From Hermes Require Import Generated.Facts.
From Hermes Require Import Model.Objects Model.Server.

Local Notation seqb := String.eqb.

(** ** server cycle: order of the passes, reversal for removals, send before commit_one *)
Definition ev_phase (name : string) (tc : tcfg) (n o : world) : list event :=
  if seqb name "added" then ev_added tc n o
  else if seqb name "modified" then ev_modified tc n o
  else if seqb name "removed" then ev_removed tc n o else [].
Definition gen_events_facts (c : cfg) (n o : world) : list event :=
  concat (map (fun name => concat (map (fun tc => ev_phase name tc n o)
                 (if existsb (seqb name) reversed_change_types then rev c else c)))
              change_type_order).
Lemma server_phases_tie : forall c n o, gen_events_facts c n o = gen_events c n o.
Proof.
  intros c n o. unfold gen_events_facts, gen_events, ev_phase.
  cbn -[app rev ev_added ev_modified ev_removed]. rewrite ?app_nil_r. reflexivity.
Qed.

Definition action_call (a : action) : string :=
  match a with ASend _ _ => "send" | ACommitOne _ _ => "commit_one" | ACommitAll _ => "commit_all"
  | _ => "" end.
Lemma send_then_commit_one_tie : forall c e t k,
  commit_one_of c e = [ACommitOne t k] ->
  map action_call (ASend false e :: commit_one_of c e) = cycle_bus_calls.
Proof. intros c e t k H. rewrite H. reflexivity. Qed.


(** The healthy client mirrors the source (C06): one event, handlers never failing, no
    trashbin, nothing queued - the remote cache follows the event, the local cache stays the
    mapped projection of the remote one, exactly the owed handler call is made. *)
From Hermes Require Import Model.Objects Model.Client Proofs.Values Proofs.Objects Proofs.Client.
From RecordUpdate Require Import RecordSet.
Import RecordSetNotations.

(** ** the mapping of one object *)
Definition amap_lookup (ct : ctype) (l : N) : option N :=
  snd <$> List.find (fun lr => N.eqb (fst lr) l) (ct_amap ct).

Lemma lookup_conv_obj ct r l :
  NoDup (map fst (ct_amap ct)) ->
  conv_obj ct r !! l = match amap_lookup ct l with Some ra => r !! ra | None => None end.
Proof.
  unfold conv_obj, amap_lookup. induction (ct_amap ct) as [|[l0 ra0] am IH]; intros Hnd; [reflexivity|].
  cbn [map fst] in Hnd. apply NoDup_cons in Hnd. destruct Hnd as [Hni Hnd].
  simpl. destruct (N.eqb l0 l) eqn:El.
  - apply N.eqb_eq in El. subst l0. simpl. destruct (r !! ra0) as [v|] eqn:Er; simpl.
    + rewrite lookup_insert. reflexivity.
    + apply not_elem_of_list_to_map_1. intros Hin. apply Hni. apply elem_of_list_fmap in Hin.
      destruct Hin as ([l' v] & -> & Hin). apply elem_of_list_omap in Hin. destruct Hin as ([l1 ra1] & Hin1 & Hf).
      cbn in Hf. destruct (r !! ra1); inversion Hf; subst. apply elem_of_list_fmap. exists (l', ra1). split; [reflexivity|exact Hin1].
  - destruct (r !! ra0) as [v|]; simpl.
    + rewrite lookup_insert_ne by (intros ->; rewrite N.eqb_refl in El; discriminate). apply IH. exact Hnd.
    + apply IH. exact Hnd.
Qed.

Definition conv_diff (ct : ctype) (d : mdiff) : mdiff :=
  MDiff (conv_obj ct (md_a d)) (conv_obj ct (md_m d)) (conv_obj ct (md_r d)).

(** mapping commutes with applying a change *)
Theorem conv_apply_mod ct d o :
  NoDup (map fst (ct_amap ct)) ->
  conv_obj ct (apply_mod d o) = apply_mod (conv_diff ct d) (conv_obj ct o).
Proof.
  intros Hnd. apply map_eq. intros l. rewrite lookup_apply_mod. cbn [conv_diff md_a md_m md_r].
  rewrite !(lookup_conv_obj ct _ l Hnd). destruct (amap_lookup ct l) as [ra|]; [|reflexivity].
  rewrite lookup_apply_mod. reflexivity.
Qed.

(** ** one event through a healthy client *)
Definition hstate (r l : world) (n : nat) (cs : list call) (stp : Z) (prt rty fr : bool) : cstate :=
  CState r ∅ r ∅ l ∅ l ∅ [] n cs stp prt rty false fr [].

Section Healthy.
Variable c : ccfg.
Variable outcome : nat -> hres.
Hypothesis Hok : forall n, outcome n = HOk.
Hypothesis Hret : cc_retention c = None.

Definition lev_of (ct : ctype) (e : cev) : cev :=
  CEv (ce_t e) (ce_k e) (conv_kind ct (ce_kind e)) (ce_ts e) (ce_step e) (ce_partial e).

Lemma convert_Some ct e b : find_ctype c (ce_t e) = Some ct -> kind_has_content (conv_kind ct (ce_kind e)) = true ->
  convert c b e = Some (lev_of ct e).
Proof. intros Hct Hh. unfold convert. rewrite Hct, Hh. reflexivity. Qed.

Lemma added_healthy r l n cs stp prt rty fr e ct a :
  find_ctype c (ce_t e) = Some ct -> ce_kind e = KAdded a ->
  is_empty_map (conv_obj ct a) = false ->
  r !! ce_id e = None -> l !! ce_id e = None ->
  process_remote c outcome FUEL (hstate r l n cs stp prt rty fr) e None true false =
    (hstate (<[ce_id e := a]> r) (<[ce_id e := conv_obj ct a]> l) (S n)
            (cs ++ [Call HAdded (ce_t e) (ce_k e) (KAdded (conv_obj ct a)) (Some (conv_obj ct a)) None (ce_step e) (ce_partial e) rty HOk])
            (ce_step e) (ce_partial e) rty fr, true).
Proof.
  intros Hct Hk Hne Hr Hl.
  assert (Hcv : convert c false e = Some (lev_of ct e)).
  { apply convert_Some; [exact Hct|]. rewrite Hk. cbn. rewrite Hne. reflexivity. }
  assert (Hid : ce_id (lev_of ct e) = ce_id e) by reflexivity.
  unfold FUEL. cbn [process_remote]. rewrite Hcv, Hct. cbn [hstate queue q_has_obj q_is_parent existsb orb andb negb].
  rewrite Hk, Hret. cbn [r_trash hstate]. rewrite lookup_empty. cbn [andb].
  unfold remote_added. cbn [process_local]. change (ce_t (lev_of ct e)) with (ce_t e). rewrite Hct.
  change (ce_kind (lev_of ct e)) with (conv_kind ct (ce_kind e)). rewrite Hk. cbn [conv_kind]. rewrite Hret. cbn [negb andb orb].
  unfold hstate. cbn [queue set q_has_obj q_is_parent existsb orb andb negb].
  unfold local_added, call_handler. cbn. rewrite Hok. cbn.
  unfold app_l_live, app_lc_live, app_r_live, app_rc_live, wappend. cbn.
  rewrite !Hid, Hk. cbn. rewrite !Hl. cbn. rewrite !Hl. cbn. rewrite !Hr. cbn. rewrite !Hr. cbn.
  reflexivity.
Qed.

Lemma modified_healthy r l n cs stp prt rty fr e ct d old lold :
  find_ctype c (ce_t e) = Some ct -> ce_kind e = KModified d ->
  md_empty (conv_diff ct d) = false ->
  r !! ce_id e = Some old -> l !! ce_id e = Some lold ->
  process_remote c outcome FUEL (hstate r l n cs stp prt rty fr) e None true false =
    (hstate (<[ce_id e := apply_mod d old]> r) (<[ce_id e := apply_mod (conv_diff ct d) lold]> l) (S n)
            (cs ++ [Call HModified (ce_t e) (ce_k e) (KModified (conv_diff ct d)) (Some (apply_mod (conv_diff ct d) lold)) (Some lold)
                         (ce_step e) (ce_partial e) rty HOk])
            (ce_step e) (ce_partial e) rty fr, true).
Proof.
  intros Hct Hk Hne Hr Hl.
  assert (Hcv : convert c false e = Some (lev_of ct e)).
  { apply convert_Some; [exact Hct|]. rewrite Hk. cbn. fold (conv_diff ct d). rewrite Hne. reflexivity. }
  assert (Hid : ce_id (lev_of ct e) = ce_id e) by reflexivity.
  unfold FUEL. cbn [process_remote]. rewrite Hcv, Hct. cbn [hstate queue q_has_obj q_is_parent existsb orb andb negb].
  rewrite Hk. cbn [r_trash hstate].
  unfold remote_modified. cbn [negb]. cbn [hstate r_live rc_live rc_trash]. rewrite Hr. unfold lookup2. rewrite Hr.
  cbn [process_local]. change (ce_t (lev_of ct e)) with (ce_t e). rewrite Hct.
  change (ce_kind (lev_of ct e)) with (conv_kind ct (ce_kind e)). rewrite Hk. cbn [conv_kind]. fold (conv_diff ct d).
  cbn [negb andb orb].
  unfold hstate. cbn [queue set q_has_obj q_is_parent existsb orb andb negb l_trash].
  rewrite Hid, lookup_empty. cbn [andb].
  unfold local_modified, call_handler, lookup2. cbn. unfold ce_id in *. cbn [lev_of ce_t ce_k]. rewrite !Hl. cbn. rewrite Hok. cbn. rewrite ?Hl. cbn.
  rewrite ?Hk. cbn. reflexivity.
Qed.

Lemma removed_healthy r l n cs stp prt rty fr e ct old lold :
  find_ctype c (ce_t e) = Some ct -> ce_kind e = KRemoved ->
  r !! ce_id e = Some old -> l !! ce_id e = Some lold ->
  process_remote c outcome FUEL (hstate r l n cs stp prt rty fr) e None true false =
    (hstate (delete (ce_id e) r) (delete (ce_id e) l) (S n)
            (cs ++ [Call HRemoved (ce_t e) (ce_k e) KRemoved None (Some lold) (ce_step e) (ce_partial e) rty HOk])
            (ce_step e) (ce_partial e) rty fr, true).
Proof.
  intros Hct Hk Hr Hl.
  assert (Hcv : convert c false e = Some (lev_of ct e)).
  { apply convert_Some; [exact Hct|]. rewrite Hk. reflexivity. }
  assert (Hid : ce_id (lev_of ct e) = ce_id e) by reflexivity.
  unfold FUEL. cbn [process_remote]. rewrite Hcv, Hct. cbn [hstate queue q_has_obj q_is_parent existsb orb andb negb].
  rewrite Hk, Hret. cbn [r_trash hstate negb orb].
  unfold remote_removed. cbn [hstate r_live r_trash rc_live rc_trash]. unfold lookup2. rewrite Hr.
  cbn [process_local]. change (ce_t (lev_of ct e)) with (ce_t e). rewrite Hct.
  change (ce_kind (lev_of ct e)) with (conv_kind ct (ce_kind e)). rewrite Hk. cbn [conv_kind]. rewrite Hret.
  cbn [negb andb orb].
  unfold hstate. cbn [queue set q_has_obj q_is_parent existsb orb andb negb l_trash].
  unfold local_removed, call_handler, lookup2. cbn. unfold ce_id in *. cbn [lev_of ce_t ce_k]. rewrite !Hl. cbn. rewrite Hok. cbn.
  rewrite ?Hk. cbn. reflexivity.
Qed.

Lemma apply_mod_empty (d : mdiff) (o : obj) : md_empty d = true -> apply_mod d o = o.
Proof.
  unfold md_empty. rewrite !andb_true_iff, !is_empty_map_true. intros [[Ha Hm] Hr].
  unfold apply_mod. rewrite Ha, Hm, Hr. rewrite !map_empty_union, map_difference_empty. reflexivity.
Qed.

Lemma modified_healthy_nolocal r l n cs stp prt rty fr e ct d old :
  find_ctype c (ce_t e) = Some ct -> ce_kind e = KModified d ->
  md_empty (conv_diff ct d) = true ->
  r !! ce_id e = Some old ->
  process_remote c outcome FUEL (hstate r l n cs stp prt rty fr) e None true false =
    (hstate (<[ce_id e := apply_mod d old]> r) l n cs stp prt rty fr, true).
Proof.
  intros Hct Hk He Hr.
  assert (Hcv : convert c false e = None).
  { unfold convert. rewrite Hct, Hk. cbn. fold (conv_diff ct d). rewrite He. reflexivity. }
  unfold FUEL. cbn [process_remote]. rewrite Hcv, Hct. cbn [hstate queue q_has_obj q_is_parent existsb orb andb negb].
  rewrite Hk. unfold remote_modified. cbn [negb]. cbn [hstate r_live rc_live rc_trash]. unfold lookup2. rewrite Hr.
  cbn [process_local]. cbn. unfold ce_id in *. rewrite Hk. cbn. reflexivity.
Qed.

(** events of a type the client does not map only move the remote cache *)
Lemma unmapped_healthy r l n cs stp prt rty fr e :
  find_ctype c (ce_t e) = None ->
  match ce_kind e with
  | KAdded _ => r !! ce_id e = None
  | _ => is_Some (r !! ce_id e) end ->
  process_remote c outcome FUEL (hstate r l n cs stp prt rty fr) e None true false =
    (hstate (match ce_kind e with
             | KAdded a => <[ce_id e := a]> r
             | KModified d => alter (apply_mod d) (ce_id e) r
             | KRemoved => delete (ce_id e) r end) l n cs stp prt rty fr, true).
Proof.
  intros Hct Hcons.
  assert (Hcv : convert c false e = None) by (unfold convert; rewrite Hct; reflexivity).
  unfold FUEL. cbn [process_remote]. rewrite Hcv, Hct. cbn [andb negb].
  destruct (ce_kind e) as [a|d|] eqn:Hk.
  - rewrite Hret. cbn [andb]. unfold remote_added. cbn [process_local negb]. unfold hstate.
    unfold app_r_live, app_rc_live, wappend. cbn. unfold ce_id in *. rewrite !Hcons. cbn. rewrite ?Hcons, ?Hk. cbn. rewrite ?Hcons. reflexivity.
  - destruct Hcons as [old Hr].
    assert (Halt : alter (apply_mod d) (ce_id e) r = <[ce_id e := apply_mod d old]> r).
    { apply map_eq. intros j. destruct (decide (j = ce_id e)) as [->|Hne].
      - rewrite lookup_alter, lookup_insert, Hr. reflexivity.
      - rewrite lookup_alter_ne, lookup_insert_ne by congruence. reflexivity. }
    rewrite Halt. unfold remote_modified. cbn [negb hstate r_live rc_live rc_trash]. unfold lookup2. rewrite Hr.
    cbn [process_local]. cbn. unfold ce_id in *. rewrite Hk. cbn. reflexivity.
  - destruct Hcons as [old Hr]. rewrite Hret. cbn [negb orb]. unfold remote_removed. cbn [hstate r_live r_trash rc_live rc_trash].
    unfold lookup2. rewrite Hr. cbn [process_local]. cbn. reflexivity.
Qed.

(** ** the local cache is the mapped projection of the remote one, before and after *)
Definition project (w : world) : world :=
  map_imap (fun i o => match find_ctype c (fst i) with Some ct => Some (conv_obj ct o) | None => None end) w.
Definition rapply (w : world) (e : cev) : world :=
  match ce_kind e with
  | KAdded a => <[ce_id e := a]> w
  | KModified d => alter (apply_mod d) (ce_id e) w
  | KRemoved => delete (ce_id e) w
  end.
(** an event is consistent with the state it arrives on (what C01/C02 give for the bus) *)
Definition consistent (w : world) (e : cev) : Prop :=
  match ce_kind e with
  | KAdded _ => w !! ce_id e = None
  | _ => is_Some (w !! ce_id e) end.
(** well-formed client configuration: local attribute names are unique per type, and an
    'added' always carries a mapped attribute (the primary key attributes are always mapped) *)
Definition wf_ccfg : Prop := forall ct, In ct (cc_types c) -> NoDup (map fst (ct_amap ct)).
Definition added_has_local (e : cev) : Prop :=
  forall ct a, find_ctype c (ce_t e) = Some ct -> ce_kind e = KAdded a -> is_empty_map (conv_obj ct a) = false.

(** the one call owed to an event on a healthy client *)
Definition owed (w : world) (e : cev) (rty : bool) : list call :=
  match find_ctype c (ce_t e) with
  | None => []
  | Some ct =>
      match ce_kind e with
      | KAdded a => [Call HAdded (ce_t e) (ce_k e) (KAdded (conv_obj ct a)) (Some (conv_obj ct a)) None (ce_step e) (ce_partial e) rty HOk]
      | KModified d =>
          if md_empty (conv_diff ct d) then [] else
          match w !! ce_id e with
          | Some old => [Call HModified (ce_t e) (ce_k e) (KModified (conv_diff ct d))
                              (Some (conv_obj ct (apply_mod d old))) (Some (conv_obj ct old)) (ce_step e) (ce_partial e) rty HOk]
          | None => [] end
      | KRemoved =>
          match w !! ce_id e with
          | Some old => [Call HRemoved (ce_t e) (ce_k e) KRemoved None (Some (conv_obj ct old)) (ce_step e) (ce_partial e) rty HOk]
          | None => [] end
      end
  end.

Lemma find_ctype_In t ct : find_ctype c t = Some ct -> In ct (cc_types c) /\ ct_id ct = t.
Proof. unfold find_ctype. intros H. apply find_some in H. destruct H as [H1 H2]. apply N.eqb_eq in H2. auto. Qed.

Lemma project_lookup w i : project w !! i =
  match find_ctype c (fst i) with Some ct => conv_obj ct <$> w !! i | None => None end.
Proof. unfold project. rewrite map_lookup_imap. destruct (w !! i); cbn; destruct (find_ctype c (fst i)); reflexivity. Qed.

Theorem healthy_event r n cs stp prt rty fr e :
  wf_ccfg -> added_has_local e -> consistent r e ->
  exists stp' prt' n',
  process_remote c outcome FUEL (hstate r (project r) n cs stp prt rty fr) e None true false =
    (hstate (rapply r e) (project (rapply r e)) n' (cs ++ owed r e rty) stp' prt' rty fr, true).
Proof.
  intros Hwf Hal Hcons. unfold consistent in Hcons. unfold rapply, owed.
  destruct (find_ctype c (ce_t e)) as [ct|] eqn:Hct.
  - destruct (find_ctype_In _ _ Hct) as [Hin _]. pose proof (Hwf ct Hin) as Hnd.
    assert (Hfst : find_ctype c (fst (ce_id e)) = Some ct) by exact Hct.
    destruct (ce_kind e) as [a|d|] eqn:Hk.
    + exists (ce_step e), (ce_partial e), (S n).
      rewrite (added_healthy r (project r) n cs stp prt rty fr e ct a Hct Hk (Hal ct a Hct Hk) Hcons)
        by (rewrite project_lookup, Hfst, Hcons; reflexivity).
      unfold project at 2. rewrite (map_imap_insert_Some _ _ _ _ (conv_obj ct a)) by (cbn; rewrite Hct; reflexivity).
      reflexivity.
    + destruct Hcons as [old Hr].
      assert (Halt : alter (apply_mod d) (ce_id e) r = <[ce_id e := apply_mod d old]> r).
      { apply map_eq. intros j. destruct (decide (j = ce_id e)) as [->|Hne].
        - rewrite lookup_alter, lookup_insert, Hr. reflexivity.
        - rewrite lookup_alter_ne, lookup_insert_ne by congruence. reflexivity. }
      rewrite Halt, Hr.
      assert (Hproj : project (<[ce_id e := apply_mod d old]> r) = <[ce_id e := apply_mod (conv_diff ct d) (conv_obj ct old)]> (project r)).
      { unfold project. rewrite (map_imap_insert_Some _ _ _ _ (conv_obj ct (apply_mod d old))) by (cbn; rewrite Hct; reflexivity).
        rewrite (conv_apply_mod ct d old Hnd). reflexivity. }
      destruct (md_empty (conv_diff ct d)) eqn:He.
      * exists stp, prt, n.
        rewrite (modified_healthy_nolocal r (project r) n cs stp prt rty fr e ct d old Hct Hk He Hr).
        rewrite Hproj, (apply_mod_empty _ _ He), app_nil_r.
        rewrite (insert_id (project r)) by (rewrite project_lookup, Hfst, Hr; reflexivity). reflexivity.
      * exists (ce_step e), (ce_partial e), (S n).
        rewrite (modified_healthy r (project r) n cs stp prt rty fr e ct d old (conv_obj ct old) Hct Hk He Hr)
          by (rewrite project_lookup, Hfst, Hr; reflexivity).
        rewrite Hproj, (conv_apply_mod ct d old Hnd). reflexivity.
    + destruct Hcons as [old Hr]. rewrite Hr. exists (ce_step e), (ce_partial e), (S n).
      rewrite (removed_healthy r (project r) n cs stp prt rty fr e ct old (conv_obj ct old) Hct Hk Hr)
        by (rewrite project_lookup, Hfst, Hr; reflexivity).
      unfold project at 2. rewrite map_imap_delete. reflexivity.
  - exists stp, prt, n. rewrite (unmapped_healthy r (project r) n cs stp prt rty fr e Hct) by exact Hcons.
    rewrite app_nil_r. f_equal. f_equal.
    (* the projection ignores objects of unmapped types *)
    apply map_eq. intros j. rewrite !project_lookup.
    destruct (decide (j = ce_id e)) as [->|Hne].
    + change (fst (ce_id e)) with (ce_t e). rewrite Hct. reflexivity.
    + destruct (ce_kind e); rewrite ?lookup_insert_ne, ?lookup_alter_ne, ?lookup_delete_ne by congruence; reflexivity.
Qed.

(** ** a whole delivery: exactly once, in order, mirroring the source *)
Fixpoint consistent_stream (w : world) (evs : list (Z * cev)) : Prop :=
  match evs with
  | [] => True
  | (_, e) :: r => consistent w e /\ added_has_local e /\ consistent_stream (rapply w e) r
  end.
Fixpoint rreplay (w : world) (evs : list (Z * cev)) : world :=
  match evs with [] => w | (_, e) :: r => rreplay (rapply w e) r end.
Fixpoint owed_all (w : world) (evs : list (Z * cev)) (rty : bool) : list call :=
  match evs with [] => [] | (_, e) :: r => owed w e rty ++ owed_all (rapply w e) r rty end.
Definition next_after (next : Z) (evs : list (Z * cev)) : Z :=
  match last evs with Some (off, _) => (off + 1)%Z | None => next end.

Lemma next_after_cons next off e evs : next_after next ((off, e) :: evs) = next_after (off + 1)%Z evs.
Proof.
  unfold next_after. destruct evs as [|p evs']; [reflexivity|].
  change (last ((off, e) :: p :: evs')) with (last (p :: evs')).
  assert (H : exists x, last (p :: evs') = Some x).
  { clear. revert p. induction evs' as [|q l IH]; intros p; [exists p; reflexivity|]. destruct (IH q) as [x Hx]. exists x. exact Hx. }
  destruct H as [[o2 e2] ->]. reflexivity.
Qed.

Theorem healthy_stream evs : forall r n cs stp prt rty fr next,
  wf_ccfg -> consistent_stream r evs ->
  exists stp' prt' n',
  process_events c outcome (hstate r (project r) n cs stp prt rty fr) next evs =
    (hstate (rreplay r evs) (project (rreplay r evs)) n' (cs ++ owed_all r evs rty) stp' prt' rty fr, next_after next evs).
Proof.
  induction evs as [|[off e] evs IH]; intros r n cs stp prt rty fr next Hwf Hcs.
  - exists stp, prt, n. cbn. rewrite app_nil_r. reflexivity.
  - destruct Hcs as (Hc1 & Hal & Hrest).
    destruct (healthy_event r n cs stp prt rty fr e Hwf Hal Hc1) as (stp1 & prt1 & n1 & H1).
    cbn [process_events]. change (exc (hstate _ _ _ _ _ _ _ _)) with false. cbn iota. rewrite H1.
    change (exc (hstate _ _ _ _ _ _ _ _)) with false. cbn iota.
    destruct (IH (rapply r e) n1 (cs ++ owed r e rty) stp1 prt1 rty fr (off + 1)%Z Hwf Hrest) as (stp2 & prt2 & n2 & H2).
    exists stp2, prt2, n2. rewrite H2. cbn [rreplay owed_all]. rewrite <- app_assoc, next_after_cons. reflexivity.
Qed.
End Healthy.

(** Lemmas on objects, diffs and replay. *)
From Hermes Require Import Model.Objects Proofs.Values.

Global Instance value_eq_decision : EqDecision value := value_eq_dec.

Lemma lookup_ofilter drop (o : obj) a :
  ofilter drop o !! a = if drop a then None else o !! a.
Proof.
  unfold ofilter. destruct (drop a) eqn:E.
  - apply map_filter_lookup_None. right. intros v _. simpl. congruence.
  - destruct (o !! a) as [v|] eqn:Ho.
    + apply map_filter_lookup_Some. split; [exact Ho|exact E].
    + apply map_filter_lookup_None. left. exact Ho.
Qed.

Lemma lookup_d_added n o a :
  d_added n o !! a = match n !! a, o !! a with Some x, None => Some x | _, _ => None end.
Proof. unfold d_added. rewrite lookup_merge. destruct (n !! a), (o !! a); reflexivity. Qed.
Lemma lookup_d_modified n o a :
  d_modified n o !! a = match n !! a, o !! a with
                        | Some x, Some y => if vdiff x y then Some x else None
                        | _, _ => None end.
Proof. unfold d_modified. rewrite lookup_merge. destruct (n !! a), (o !! a); reflexivity. Qed.
Lemma lookup_d_removed n o a :
  d_removed n o !! a = match n !! a, o !! a with None, Some _ => Some VNone | _, _ => None end.
Proof. unfold d_removed. rewrite lookup_merge. destruct (n !! a), (o !! a); reflexivity. Qed.

Lemma lookup_difference' (m1 m2 : obj) i :
  (m1 ∖ m2) !! i = match m2 !! i with Some _ => None | None => m1 !! i end.
Proof.
  unfold difference, map_difference. rewrite lookup_difference_with.
  destruct (m1 !! i), (m2 !! i); reflexivity.
Qed.

Lemma lookup_apply_mod d o a :
  apply_mod d o !! a =
    match md_r d !! a with
    | Some _ => None
    | None => match md_m d !! a with
              | Some v => Some v
              | None => match md_a d !! a with Some v => Some v | None => o !! a end
              end
    end.
Proof.
  unfold apply_mod. rewrite lookup_difference', !lookup_union.
  destruct (md_r d !! a), (md_m d !! a), (md_a d !! a), (o !! a); reflexivity.
Qed.

(** The key lemma: patching the old object with the diff gives the new one. *)
Lemma apply_mod_odiff n o : apply_mod (odiff n o) o = n.
Proof.
  apply map_eq. intros a. rewrite lookup_apply_mod. simpl.
  rewrite lookup_d_removed, lookup_d_modified, lookup_d_added.
  destruct (n !! a) as [x|] eqn:Hn, (o !! a) as [y|] eqn:Ho; try reflexivity.
  destruct (vdiff x y) eqn:Hd; [reflexivity|]. apply vdiff_eq in Hd. congruence.
Qed.

Lemma is_empty_map_true (m : obj) : is_empty_map m = true <-> m = ∅.
Proof.
  unfold is_empty_map. split.
  - destruct (map_to_list m) eqn:E; [|discriminate]. intros _. apply map_to_list_empty_iff. exact E.
  - intros ->. rewrite map_to_list_empty. reflexivity.
Qed.

(** A 'modified' diff is empty exactly when nothing visible differs. *)
Lemma md_empty_odiff n o : md_empty (odiff n o) = true <-> n = o.
Proof.
  unfold md_empty. rewrite !andb_true_iff, !is_empty_map_true. simpl. split.
  - intros [[Ha Hm] Hr]. apply map_eq. intros a.
    assert (H1 := lookup_d_added n o a). assert (H2 := lookup_d_modified n o a).
    assert (H3 := lookup_d_removed n o a).
    rewrite Ha, lookup_empty in H1. rewrite Hm, lookup_empty in H2. rewrite Hr, lookup_empty in H3.
    destruct (n !! a) as [x|], (o !! a) as [y|]; try congruence.
    destruct (vdiff x y) eqn:Hd; [discriminate|]. apply vdiff_eq in Hd. congruence.
  - intros ->. repeat split; apply map_eq; intros a;
      rewrite ?lookup_d_added, ?lookup_d_modified, ?lookup_d_removed, lookup_empty;
      destruct (o !! a) as [y|]; try reflexivity. rewrite vdiff_refl. reflexivity.
Qed.

(** Exactness of the three attribute sets. *)
Lemma odiff_added_iff n o a v :
  md_a (odiff n o) !! a = Some v <-> n !! a = Some v /\ o !! a = None.
Proof.
  simpl. rewrite lookup_d_added. destruct (n !! a), (o !! a); split; try congruence;
    try (intros [? ?]; congruence). intros H; inversion H; auto.
Qed.
Lemma odiff_modified_iff n o a v :
  md_m (odiff n o) !! a = Some v <-> n !! a = Some v /\ exists w, o !! a = Some w /\ v <> w.
Proof.
  simpl. rewrite lookup_d_modified. destruct (n !! a) as [x|], (o !! a) as [y|]; split;
    try congruence; try (intros [? [? [? ?]]]; congruence).
  - destruct (vdiff x y) eqn:Hd; [|discriminate]. intros H; inversion H; subst.
    split; [reflexivity|]. exists y. split; [reflexivity|]. intros ->. rewrite vdiff_refl in Hd. discriminate.
  - intros [H [w [Hw Hne]]]. inversion H; inversion Hw; subst.
    destruct (vdiff v w) eqn:Hd; [reflexivity|]. apply vdiff_eq in Hd. contradiction.
Qed.
Lemma odiff_removed_iff n o a :
  is_Some (md_r (odiff n o) !! a) <-> n !! a = None /\ is_Some (o !! a).
Proof.
  simpl. rewrite lookup_d_removed. unfold is_Some.
  destruct (n !! a), (o !! a); split; intros H.
  all: try (destruct H as [? H]; discriminate).
  all: try (destruct H as [H1 [? H2]]; discriminate).
  - split; eauto.
  - eauto.
Qed.

(** ** keys_of *)
Lemma elem_of_keys_of t w k : k ∈ keys_of t w <-> is_Some (w !! (t, k)).
Proof.
  unfold keys_of. rewrite merge_sort_Permutation, elem_of_list_omap. split.
  - intros [[[t' k'] o] [Hin Heq]]. simpl in Heq. destruct (N.eqb_spec t' t); [|discriminate].
    inversion Heq; subst. apply elem_of_map_to_list in Hin. eauto.
  - intros [o Ho]. exists ((t, k), o). split; [apply elem_of_map_to_list; exact Ho|].
    simpl. rewrite N.eqb_refl. reflexivity.
Qed.

Lemma NoDup_keys_of t w : NoDup (keys_of t w).
Proof.
  unfold keys_of. rewrite merge_sort_Permutation.
  assert (Hnd := NoDup_fst_map_to_list w).
  induction (map_to_list w) as [|[[t' k'] o] l IH]; simpl; [constructor|].
  inversion Hnd as [|? ? Hni Hnd']; subst. specialize (IH Hnd').
  destruct (N.eqb_spec t' t); [|exact IH]. subst. constructor; [|exact IH].
  rewrite elem_of_list_omap. intros [[[t2 k2] o2] [Hin Heq]]. simpl in Heq.
  destruct (N.eqb_spec t2 t) as [->|]; [|discriminate]. inversion Heq as [Hk]. subst k2.
  apply Hni. apply elem_of_list_fmap. exists ((t, k'), o2). split; [reflexivity|exact Hin].
Qed.

(** ** replay on distinct objects *)
Definition apply1 (e : event) (x : option obj) : option obj :=
  match e_kind e with
  | KAdded a => Some a
  | KModified d => apply_mod d <$> x
  | KRemoved => None
  end.

Lemma lookup_apply_ev w e i :
  apply_ev w e !! i = if decide (i = ev_id e) then apply1 e (w !! i) else w !! i.
Proof.
  unfold apply_ev, apply1, ev_id. destruct (e_kind e); destruct (decide (i = (e_t e, e_k e))) as [->|Hne].
  - apply lookup_insert.
  - apply lookup_insert_ne. congruence.
  - apply lookup_alter.
  - apply lookup_alter_ne. congruence.
  - apply lookup_delete.
  - apply lookup_delete_ne. congruence.
Qed.

Lemma replay_lookup_notin evs w i :
  i ∉ map ev_id evs -> replay evs w !! i = w !! i.
Proof.
  revert w. induction evs as [|e r IH]; intros w Hni; [reflexivity|].
  simpl. simpl in Hni. rewrite not_elem_of_cons in Hni. destruct Hni as [Hne Hni].
  unfold replay in *. simpl. rewrite IH by exact Hni. rewrite lookup_apply_ev.
  destruct (decide (i = ev_id e)); [contradiction|reflexivity].
Qed.

Lemma replay_lookup_in evs w e :
  NoDup (map ev_id evs) -> e ∈ evs -> replay evs w !! ev_id e = apply1 e (w !! ev_id e).
Proof.
  revert w. induction evs as [|e' r IH]; intros w Hnd Hin; [inversion Hin|].
  simpl in Hnd. inversion Hnd as [|? ? Hni Hnd']; subst.
  apply elem_of_cons in Hin. destruct Hin as [->|Hin].
  - unfold replay. simpl. fold (replay r (apply_ev w e')). rewrite replay_lookup_notin by exact Hni.
    rewrite lookup_apply_ev. destruct (decide (ev_id e' = ev_id e')); [reflexivity|contradiction].
  - unfold replay. simpl. fold (replay r (apply_ev w e')). rewrite (IH _ Hnd' Hin).
    rewrite lookup_apply_ev. destruct (decide (ev_id e = ev_id e')) as [Heq|]; [|reflexivity].
    exfalso. apply Hni. rewrite <- Heq. apply elem_of_list_fmap. eauto.
Qed.

(** Events about distinct objects commute: replay is invariant under permutation. *)
Lemma replay_perm evs evs' w :
  NoDup (map ev_id evs) -> evs ≡ₚ evs' -> replay evs w = replay evs' w.
Proof.
  intros Hnd Hp. apply map_eq. intros i.
  assert (Hnd' : NoDup (map ev_id evs')) by (rewrite <- Hp; exact Hnd).
  destruct (decide (i ∈ map ev_id evs)) as [Hin|Hni].
  - apply elem_of_list_fmap in Hin. destruct Hin as [e [-> He]].
    rewrite (replay_lookup_in evs w e Hnd He).
    rewrite (replay_lookup_in evs' w e Hnd'); [reflexivity|]. rewrite <- Hp. exact He.
  - rewrite replay_lookup_notin by exact Hni. rewrite replay_lookup_notin; [reflexivity|].
    rewrite <- Hp. exact Hni.
Qed.

(** A healthy client restarted with a new mapping ends with local data equal to the projection of
    its remote cache under the NEW mapping - whatever the old mapping was. *)
From Hermes Require Import Model.Objects Model.Client Model.ClientEvo Proofs.Values Proofs.Objects Proofs.Client Proofs.ClientHealthy.
From RecordUpdate Require Import RecordSet.
Import RecordSetNotations.

Section HealthyRemap.
Variable c : ccfg.
Variable outcome : nat -> hres.
Hypothesis Hok : forall n, outcome n = HOk.
Hypothesis Hret : cc_retention c = None.

Lemma local_added_h r l n cs stp prt rty fr t k ct a :
  find_ctype c t = Some ct -> l !! (t, k) = None ->
  process_local c outcome FUEL (hstate r l n cs stp prt rty fr) None (Some (CEv t k (KAdded a) 0 0 false)) true false =
    (hstate r (<[(t, k) := a]> l) (S n)
            (cs ++ [Call HAdded t k (KAdded a) (Some a) None 0 false rty HOk]) 0 false rty fr, true).
Proof.
  intros Hct Hl. unfold FUEL. cbn [process_local ce_t ce_kind ce_step ce_partial]. rewrite Hct.
  unfold hstate. cbn [queue set q_has_obj q_is_parent existsb orb andb negb l_trash ce_id ce_t ce_k].
  rewrite Hret. cbn [negb andb orb].
  unfold local_added, call_handler. cbn. rewrite Hok. cbn.
  unfold app_l_live, app_lc_live, wappend. cbn. unfold ce_id; cbn [ce_t ce_k]. rewrite !Hl. cbn. rewrite ?Hl. cbn. reflexivity.
Qed.

Lemma local_modified_h r l n cs stp prt rty fr t k ct d lo :
  find_ctype c t = Some ct -> l !! (t, k) = Some lo ->
  process_local c outcome FUEL (hstate r l n cs stp prt rty fr) None (Some (CEv t k (KModified d) 0 0 false)) true false =
    (hstate r (<[(t, k) := apply_mod d lo]> l) (S n)
            (cs ++ [Call HModified t k (KModified d) (Some (apply_mod d lo)) (Some lo) 0 false rty HOk]) 0 false rty fr, true).
Proof.
  intros Hct Hl. unfold FUEL. cbn [process_local ce_t ce_kind ce_step ce_partial]. rewrite Hct.
  unfold hstate. cbn [queue set q_has_obj q_is_parent existsb orb andb negb l_trash ce_id ce_t ce_k].
  rewrite lookup_empty. cbn [negb andb orb].
  unfold local_modified, call_handler, lookup2. cbn. unfold ce_id; cbn [ce_t ce_k]. rewrite !Hl. cbn. rewrite Hok. cbn. rewrite ?Hl. cbn. reflexivity.
Qed.

Lemma local_removed_h r l n cs stp prt rty fr t k ct lo :
  find_ctype c t = Some ct -> l !! (t, k) = Some lo ->
  process_local c outcome FUEL (hstate r l n cs stp prt rty fr) None (Some (CEv t k KRemoved 0 0 false)) true false =
    (hstate r (delete (t, k) l) (S n)
            (cs ++ [Call HRemoved t k KRemoved None (Some lo) 0 false rty HOk]) 0 false rty fr, true).
Proof.
  intros Hct Hl. unfold FUEL. cbn [process_local ce_t ce_kind ce_step ce_partial]. rewrite Hct.
  unfold hstate. cbn [queue set q_has_obj q_is_parent existsb orb andb negb l_trash ce_id ce_t ce_k].
  rewrite Hret. cbn [negb andb orb].
  unfold local_removed, call_handler, lookup2. cbn. unfold ce_id; cbn [ce_t ce_k]. rewrite !Hl. cbn. rewrite Hok. cbn. rewrite ?Hl. cbn. reflexivity.
Qed.

(** the state stays healthy: only the local caches, the handler log and the progress marker move *)
Definition hs (st : cstate) (r l : world) (rty fr : bool) : Prop :=
  exists n cs stp prt, st = hstate r l n cs stp prt rty fr.

Definition ins_key (ct : ctype) (r : world) (l : world) (k : Z) : world :=
  match r !! (ct_id ct, k) with Some ro => <[(ct_id ct, k) := conv_obj ct ro]> l | None => l end.
Definition del_key (ct : ctype) (r : world) (l : world) (k : Z) : world :=
  match r !! (ct_id ct, k) with None => delete (ct_id ct, k) l | Some _ => l end.

Lemma remap_step_hs st r l rty fr ev l' :
  hs st r l rty fr ->
  (forall n cs stp prt, exists n' cs' stp' prt',
     process_local c outcome FUEL (hstate r l n cs stp prt rty fr) None (Some ev) true false
     = (hstate r l' n' cs' stp' prt' rty fr, true)) ->
  hs (remap_step c outcome st ev) r l' rty fr.
Proof.
  intros [n [cs [stp [prt ->]]]] H. unfold remap_step. cbn [exc hstate].
  destruct (H n cs stp prt) as [n' [cs' [stp' [prt' ->]]]]. cbn [fst]. repeat eexists.
Qed.

Lemma remap_present_fold ct r l0 rty fr :
  find_ctype c (ct_id ct) = Some ct ->
  forall ks, NoDup ks ->
  forall st l, hs st r l rty fr ->
  (forall k, k ∈ ks -> l !! (ct_id ct, k) = l0 !! (ct_id ct, k)) ->
  hs (fold_left (remap_step c outcome) (omap (remap_event ct r l0) ks) st) r
     (fold_left (ins_key ct r) ks l) rty fr.
Proof.
  intros Hct ks. induction ks as [|k ks IH]; intros Hnd st l Hs Hag; [exact Hs|].
  apply NoDup_cons in Hnd. destruct Hnd as [Hk Hnd].
  assert (Hag' : forall l1 : world, (forall j, j <> (ct_id ct, k) -> l1 !! j = l !! j) ->
                 forall k', k' ∈ ks -> l1 !! (ct_id ct, k') = l0 !! (ct_id ct, k')).
  { intros l1 H1 k' Hk'. rewrite H1; [apply Hag; right; exact Hk'|]. intros E. inversion E; subst. contradiction. }
  change (omap (remap_event ct r l0) (k :: ks)) with
    (match remap_event ct r l0 k with Some y => y :: omap (remap_event ct r l0) ks | None => omap (remap_event ct r l0) ks end).
  change (fold_left (ins_key ct r) (k :: ks) l) with (fold_left (ins_key ct r) ks (ins_key ct r l k)).
  specialize (IH Hnd). revert IH. generalize (omap (remap_event ct r l0) ks) as rest. intros rest IH.
  unfold remap_event, ins_key at 2.
  destruct (r !! (ct_id ct, k)) as [ro|] eqn:Hr.
  - pose proof (Hag k ltac:(left)) as Hlk.
    destruct (l0 !! (ct_id ct, k)) as [lo|] eqn:Hl0.
    + destruct (md_empty (odiff (conv_obj ct ro) lo)) eqn:He.
      * (* nothing to do: the local object already is the new projection *)
        apply md_empty_odiff in He. subst lo.
        rewrite (insert_id l _ _ Hlk). apply IH; [exact Hs|exact (Hag' l (fun _ _ => eq_refl))].
      * cbn [fold_left]. apply IH.
        -- eapply remap_step_hs; [exact Hs|]. intros n cs stp prt.
           rewrite (local_modified_h r l n cs stp prt rty fr (ct_id ct) k ct _ lo Hct Hlk).
           rewrite apply_mod_odiff. repeat eexists.
        -- apply Hag'. intros j Hj. apply lookup_insert_ne. congruence.
    + cbn [fold_left]. apply IH.
      * eapply remap_step_hs; [exact Hs|]. intros n cs stp prt.
        rewrite (local_added_h r l n cs stp prt rty fr (ct_id ct) k ct _ Hct Hlk). repeat eexists.
      * apply Hag'. intros j Hj. apply lookup_insert_ne. congruence.
  - apply IH; [exact Hs|exact (Hag' l (fun _ _ => eq_refl))].
Qed.

Lemma remap_gone_fold ct r rty fr :
  find_ctype c (ct_id ct) = Some ct ->
  forall ks, NoDup ks ->
  forall st l, hs st r l rty fr ->
  (forall k, k ∈ ks -> is_Some (l !! (ct_id ct, k))) ->
  hs (fold_left (remap_step c outcome) (omap (remap_gone ct r) ks) st) r
     (fold_left (del_key ct r) ks l) rty fr.
Proof.
  intros Hct ks. induction ks as [|k ks IH]; intros Hnd st l Hs Hin; [exact Hs|].
  apply NoDup_cons in Hnd. destruct Hnd as [Hk Hnd].
  change (omap (remap_gone ct r) (k :: ks)) with
    (match remap_gone ct r k with Some y => y :: omap (remap_gone ct r) ks | None => omap (remap_gone ct r) ks end).
  change (fold_left (del_key ct r) (k :: ks) l) with (fold_left (del_key ct r) ks (del_key ct r l k)).
  specialize (IH Hnd). revert IH. generalize (omap (remap_gone ct r) ks) as rest. intros rest IH.
  unfold remap_gone, del_key at 2.
  destruct (r !! (ct_id ct, k)) as [ro|] eqn:Hr.
  - apply IH; [exact Hs|]. intros k' Hk'. apply Hin. right. exact Hk'.
  - destruct (Hin k ltac:(left)) as [lo Hlo]. cbn [fold_left]. apply IH.
    + eapply remap_step_hs; [exact Hs|]. intros n cs stp prt.
      rewrite (local_removed_h r l n cs stp prt rty fr (ct_id ct) k ct lo Hct Hlo). repeat eexists.
    + intros k' Hk'. rewrite lookup_delete_ne; [apply Hin; right; exact Hk'|].
      intros E. inversion E; subst. contradiction.
Qed.

(** pointwise description of the two folds *)
Lemma ins_fold_other ct r ks : forall (l : world) j,
  (forall k, k ∈ ks -> j <> (ct_id ct, k)) -> fold_left (ins_key ct r) ks l !! j = l !! j.
Proof.
  induction ks as [|k ks IH]; intros l j Hj; [reflexivity|]. cbn [fold_left].
  rewrite IH; [|intros k' Hk'; apply Hj; right; exact Hk'].
  unfold ins_key. destruct (r !! (ct_id ct, k)); [|reflexivity].
  apply lookup_insert_ne. intros E. apply (Hj k ltac:(left)). symmetry. exact E.
Qed.
Lemma ins_fold_in ct r ks : forall (l : world) k ro,
  k ∈ ks -> r !! (ct_id ct, k) = Some ro -> fold_left (ins_key ct r) ks l !! (ct_id ct, k) = Some (conv_obj ct ro).
Proof.
  induction ks as [|k0 ks IH]; intros l k ro Hk Hr; [inversion Hk|]. cbn [fold_left].
  destruct (decide (k ∈ ks)) as [Hin|Hnin]; [apply IH; assumption|].
  apply elem_of_cons in Hk. destruct Hk as [->|Hk]; [|contradiction].
  rewrite ins_fold_other; [|intros k' Hk' E; inversion E; subst; contradiction].
  unfold ins_key. rewrite Hr. apply lookup_insert.
Qed.
Lemma del_fold_other ct r ks : forall (l : world) j,
  (forall k, k ∈ ks -> r !! (ct_id ct, k) = None -> j <> (ct_id ct, k)) -> fold_left (del_key ct r) ks l !! j = l !! j.
Proof.
  induction ks as [|k ks IH]; intros l j Hj; [reflexivity|]. cbn [fold_left].
  rewrite IH; [|intros k' Hk'; apply Hj; right; exact Hk'].
  unfold del_key. destruct (r !! (ct_id ct, k)) eqn:Hr; [reflexivity|].
  apply lookup_delete_ne. intros E. apply (Hj k ltac:(left) Hr). symmetry. exact E.
Qed.
Lemma del_fold_in ct r ks : forall (l : world) k,
  k ∈ ks -> r !! (ct_id ct, k) = None -> fold_left (del_key ct r) ks l !! (ct_id ct, k) = None.
Proof.
  induction ks as [|k0 ks IH]; intros l k Hk Hr; [inversion Hk|]. cbn [fold_left].
  destruct (decide (k ∈ ks)) as [Hin|Hnin]; [apply IH; assumption|].
  apply elem_of_cons in Hk. destruct Hk as [->|Hk]; [|contradiction].
  rewrite del_fold_other; [|intros k' Hk' _ E; inversion E; subst; contradiction].
  unfold del_key. rewrite Hr. apply lookup_delete.
Qed.

(** one type: afterwards its local objects are exactly the new projection of its remote objects;
    the other types are untouched *)
Lemma remap_type_healthy ct r l rty fr st :
  find_ctype c (ct_id ct) = Some ct -> hs st r l rty fr ->
  exists l' : world, hs (remap_type c outcome st ct) r l' rty fr /\ forall j, l' !! j = if N.eqb (fst j) (ct_id ct) then conv_obj ct <$> (r !! j) else l !! j.
Proof.
  intros Hct Hs. pose proof Hs as [n [cs [stp [prt ->]]]].
  unfold remap_type, remap_events. cbn [rc_live lc_live hstate]. rewrite fold_left_app.
  set (l1 := fold_left (ins_key ct r) (keys_of (ct_id ct) r) l).
  assert (H1 : hs (fold_left (remap_step c outcome) (omap (remap_event ct r l) (keys_of (ct_id ct) r))
                             (hstate r l n cs stp prt rty fr)) r l1 rty fr).
  { apply remap_present_fold; [exact Hct|apply NoDup_keys_of|exact Hs|reflexivity]. }
  assert (Hl1 : forall j, l1 !! j = if N.eqb (fst j) (ct_id ct) then (match r !! j with Some ro => Some (conv_obj ct ro) | None => l !! j end) else l !! j).
  { intros [t k]. cbn [fst]. unfold l1. destruct (N.eqb_spec t (ct_id ct)) as [->|Hne].
    - destruct (r !! (ct_id ct, k)) as [ro|] eqn:Hr.
      + apply ins_fold_in; [apply elem_of_keys_of; rewrite Hr; eauto|exact Hr].
      + apply ins_fold_other. intros k' Hk' E. inversion E; subst.
        apply elem_of_keys_of in Hk'. rewrite Hr in Hk'. destruct Hk' as [? ?]. discriminate.
    - apply ins_fold_other. intros k' _ E. inversion E. contradiction. }
  (* the keys that went away are looked for in the cache as it was before the update ... *)
  assert (H2 : hs (fold_left (remap_step c outcome) (omap (remap_gone ct r) (keys_of (ct_id ct) l))
                    (fold_left (remap_step c outcome) (omap (remap_event ct r l) (keys_of (ct_id ct) r))
                               (hstate r l n cs stp prt rty fr))) r
                  (fold_left (del_key ct r) (keys_of (ct_id ct) l) l1) rty fr).
  { (* only the keys without remote object matter: there [l1] still holds what [l] held *)
    set (ks := keys_of (ct_id ct) l).
    assert (Hks : forall k, k ∈ ks -> r !! (ct_id ct, k) = None -> is_Some (l1 !! (ct_id ct, k))).
    { intros k Hk Hr. rewrite Hl1. cbn [fst]. rewrite N.eqb_refl, Hr. apply elem_of_keys_of. exact Hk. }
    clearbody l1. revert H1 Hks. generalize (fold_left (remap_step c outcome) (omap (remap_event ct r l) (keys_of (ct_id ct) r))
                               (hstate r l n cs stp prt rty fr)) as st1.
    assert (Hnd : NoDup ks) by apply NoDup_keys_of. clearbody ks. clear Hl1.
    revert l1. induction ks as [|k ks IH]; intros l1 st1 H1 Hks; [exact H1|].
    apply NoDup_cons in Hnd. destruct Hnd as [Hk Hnd].
    change (omap (remap_gone ct r) (k :: ks)) with
      (match remap_gone ct r k with Some y => y :: omap (remap_gone ct r) ks | None => omap (remap_gone ct r) ks end).
    change (fold_left (del_key ct r) (k :: ks) l1) with (fold_left (del_key ct r) ks (del_key ct r l1 k)).
    unfold remap_gone at 1, del_key at 2. destruct (r !! (ct_id ct, k)) as [ro|] eqn:Hr.
    - apply IH; [exact Hnd|exact H1|]. intros k' Hk' Hr'. apply Hks; [right; exact Hk'|exact Hr'].
    - destruct (Hks k ltac:(left) Hr) as [lo Hlo]. cbn [fold_left]. apply IH; [exact Hnd| |].
      + eapply remap_step_hs; [exact H1|]. intros n0 cs0 stp0 prt0.
        rewrite (local_removed_h r l1 n0 cs0 stp0 prt0 rty fr (ct_id ct) k ct lo Hct Hlo). repeat eexists.
      + intros k' Hk' Hr'. rewrite lookup_delete_ne; [apply Hks; [right; exact Hk'|exact Hr']|].
        intros E. inversion E; subst. contradiction. }
  eexists. split; [exact H2|].
  intros [t k]. cbn [fst]. destruct (N.eqb_spec t (ct_id ct)) as [->|Hne].
  - destruct (r !! (ct_id ct, k)) as [ro|] eqn:Hr.
    + rewrite del_fold_other; [|intros k' _ Hr' E; inversion E; subst; rewrite Hr in Hr'; discriminate].
      rewrite Hl1. cbn [fst]. rewrite N.eqb_refl, Hr. reflexivity.
    + cbn. destruct (l !! (ct_id ct, k)) as [lo|] eqn:Hl.
      * apply del_fold_in; [apply elem_of_keys_of; rewrite Hl; eauto|exact Hr].
      * rewrite del_fold_other; [|intros k' Hk' _ E; inversion E; subst; apply elem_of_keys_of in Hk'; rewrite Hl in Hk'; destruct Hk'; discriminate].
        rewrite Hl1. cbn [fst]. rewrite N.eqb_refl, Hr. exact Hl.
  - rewrite del_fold_other; [|intros k' _ _ E; inversion E; contradiction].
    rewrite Hl1. cbn [fst]. destruct (N.eqb_spec t (ct_id ct)); [contradiction|reflexivity].
Qed.

Lemma remap_types_healthy (r : world) rty fr : forall ts,
  NoDup (map ct_id ts) -> (forall ct, In ct ts -> find_ctype c (ct_id ct) = Some ct) ->
  forall st (l : world), hs st r l rty fr ->
  exists l' : world, hs (fold_left (remap_type c outcome) ts st) r l' rty fr /\
    forall j, l' !! j = match List.find (fun ct => N.eqb (ct_id ct) (fst j)) ts with
                        | Some ct => conv_obj ct <$> (r !! j) | None => l !! j end.
Proof.
  induction ts as [|ct ts IH]; intros Hnd Hf st l Hs; [exists l; split; [exact Hs|reflexivity]|].
  cbn [map] in Hnd. apply NoDup_cons in Hnd. destruct Hnd as [Hnin Hnd]. cbn [fold_left].
  destruct (remap_type_healthy ct r l rty fr st (Hf ct ltac:(left; reflexivity)) Hs) as [l1 [H1 Hl1]].
  destruct (IH Hnd (fun ct' Hin => Hf ct' (or_intror Hin)) _ l1 H1) as [l' [H' Hl']].
  exists l'. split; [exact H'|]. intros j. rewrite Hl'. cbn [List.find].
  destruct (N.eqb_spec (ct_id ct) (fst j)) as [E|Hne].
  - assert (Hno : List.find (fun ct0 => N.eqb (ct_id ct0) (fst j)) ts = None).
    { destruct (List.find _ ts) as [ct'|] eqn:Hfd; [|reflexivity]. apply find_some in Hfd. destruct Hfd as [Hin He].
      apply N.eqb_eq in He. exfalso. apply Hnin. rewrite E, <- He. apply elem_of_list_In. apply in_map. exact Hin. }
    rewrite Hno, Hl1. rewrite <- E, N.eqb_refl. reflexivity.
  - destruct (List.find _ ts); [reflexivity|]. rewrite Hl1.
    destruct (N.eqb_spec (fst j) (ct_id ct)); [congruence|reflexivity].
Qed.

Lemma find_ctype_self : NoDup (map ct_id (cc_types c)) -> forall ct, In ct (cc_types c) -> find_ctype c (ct_id ct) = Some ct.
Proof.
  unfold find_ctype. induction (cc_types c) as [|x ts IH]; intros Hnd ct Hin; [inversion Hin|].
  cbn [map] in Hnd. apply NoDup_cons in Hnd. destruct Hnd as [Hnin Hnd]. cbn [List.find].
  destruct Hin as [->|Hin]; [rewrite N.eqb_refl; reflexivity|].
  destruct (N.eqb_spec (ct_id x) (ct_id ct)) as [E|_]; [|apply IH; assumption].
  exfalso. apply Hnin. rewrite E. apply elem_of_list_In. apply in_map. exact Hin.
Qed.

(** A client whose handlers succeed, with an empty error queue and no trashbin, restarted under
    a new mapping [c] (no local type dropped): after the datamodel update its local data - and
    their expected-state copy - are the projection of the remote cache under the NEW mapping,
    whatever they were before; the remote caches, the queue and the exception flag are untouched. *)
Theorem remap_healthy (r l : world) n cs stp prt rty fr :
  NoDup (map ct_id (cc_types c)) ->
  (forall i, is_Some (l !! i) -> is_Some (find_ctype c (fst i))) ->
  exists n' cs' stp' prt',
    remap c outcome (hstate r l n cs stp prt rty fr) = hstate r (project c r) n' cs' stp' prt' rty fr.
Proof.
  intros Hnd Hl.
  destruct (remap_types_healthy r rty fr (cc_types c) Hnd (find_ctype_self Hnd) (hstate r l n cs stp prt rty fr) l
              ltac:(repeat eexists)) as [l' [[n' [cs' [stp' [prt' Heq]]]] Hl']].
  exists n', cs', stp', prt'. unfold remap. rewrite Heq. f_equal. apply map_eq. intros j.
  rewrite Hl', project_lookup. fold (find_ctype c (fst j)).
  destruct (find_ctype c (fst j)) eqn:Hf; [reflexivity|].
  destruct (l !! j) eqn:Hlj; [|reflexivity]. destruct (Hl j ltac:(rewrite Hlj; eauto)) as [? H]. rewrite Hf in H. discriminate.
Qed.
End HealthyRemap.

(** ** evolved = fresh
    A healthy client consumes a bus under the mapping [c_old], is restarted under [c_new] (every
    local type kept) and updates its datamodel; a fresh client consumes the same bus under
    [c_new]. Both end with the same remote cache and the same local data. *)
Theorem evolved_equals_fresh (c_old c_new : ccfg) outcome evs next :
  (forall n, outcome n = HOk) ->
  cc_retention c_old = None -> cc_retention c_new = None ->
  wf_ccfg c_old -> wf_ccfg c_new -> NoDup (map ct_id (cc_types c_new)) ->
  (forall t, is_Some (find_ctype c_old t) -> is_Some (find_ctype c_new t)) ->
  consistent_stream c_old ∅ evs -> consistent_stream c_new ∅ evs ->
  let st0 := hstate ∅ ∅ 0 [] 0 false false false in
  let evolved := remap c_new outcome (fst (process_events c_old outcome st0 next evs)) in
  let fresh := fst (process_events c_new outcome st0 next evs) in
  r_live evolved = r_live fresh /\ l_live evolved = l_live fresh /\ lc_live evolved = lc_live fresh /\
  l_live evolved = project c_new (rreplay ∅ evs) /\ queue evolved = [] /\ exc evolved = false.
Proof.
  intros Hok Hr1 Hr2 Hw1 Hw2 Hnd Hkeep Hc1 Hc2 st0 evolved fresh.
  assert (Hp1 : project c_old ∅ = ∅) by (unfold project; apply map_imap_empty).
  assert (Hp2 : project c_new ∅ = ∅) by (unfold project; apply map_imap_empty).
  destruct (healthy_stream c_old outcome Hok Hr1 evs ∅ 0%nat [] 0%Z false false false next Hw1 Hc1) as (s1 & p1 & n1 & H1).
  destruct (healthy_stream c_new outcome Hok Hr2 evs ∅ 0%nat [] 0%Z false false false next Hw2 Hc2) as (s2 & p2 & n2 & H2).
  rewrite Hp1 in H1. rewrite Hp2 in H2.
  subst evolved fresh st0. rewrite H1, H2. cbn [fst].
  destruct (remap_healthy c_new outcome Hok Hr2 (rreplay ∅ evs) (project c_old (rreplay ∅ evs)) n1
              ([] ++ owed_all c_old ∅ evs false) s1 p1 false false Hnd) as (n' & cs' & s' & p' & He).
  { intros i [o Ho]. rewrite project_lookup in Ho. apply Hkeep.
    destruct (find_ctype c_old (fst i)); [eauto|discriminate]. }
  rewrite He. cbn [hstate r_live l_live lc_live queue exc]. repeat split; reflexivity.
Qed.

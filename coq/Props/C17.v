(** C17 - Datamodel evolution is equivalent to a fresh deployment (server side of the schema
    step; the equivalence with a fresh deployment is decided by the differential runs of the
    harness). *)
From Hermes Require Import Model.Objects Model.Server Model.Evolution Proofs.Server Proofs.Evolution.

(** ahead of the new schema the server sends exactly one 'removed' for every published object
    of a dropped type, and nothing else *)
Theorem C17_removed_types_yield_removed_events : forall c dropped cache e,
  e ∈ schema_step c dropped cache <->
  exists tc k, tc ∈ c /\ mem (t_id tc) dropped = true /\ is_Some (cache !! (t_id tc, k)) /\ e = Ev (t_id tc) k KRemoved.
Proof. exact schema_step_spec. Qed.
Print Assumptions C17_removed_types_yield_removed_events.
Theorem C17_each_object_once : forall c dropped cache, cfg_ok c -> NoDup (map ev_id (schema_step c dropped cache)).
Proof. exact schema_step_once. Qed.
Print Assumptions C17_each_object_once.

(** replayed by a client, they leave the published state without the dropped types *)
Theorem C17_schema_step_replay : forall c dropped cache,
  cfg_ok c -> replay (schema_step c dropped cache) (vis c cache) = vis c (drop_types dropped cache).
Proof. exact schema_step_replay. Qed.
Print Assumptions C17_schema_step_replay.

Theorem C17_nothing_dropped_nothing_sent : forall c cache, schema_step c [] cache = [].
Proof. exact schema_step_nothing_dropped. Qed.
Print Assumptions C17_nothing_dropped_nothing_sent.

(** C17 - Datamodel evolution is equivalent to a fresh deployment: the server side of the schema
    step, and the client side of a change of the client datamodel (types newly mapped, attributes
    mapped, unmapped or mapped to another remote attribute) on a healthy client; the remaining
    combinations (failures, queue entries, primary-key moves, types leaving the client datamodel)
    are decided by the differential runs of the harness. *)
From Hermes Require Import Model.Objects Model.Server Model.Evolution Proofs.Server Proofs.Evolution.
From Hermes Require Import Model.Client Model.ClientEvo Proofs.ClientHealthy Proofs.ClientEvo.

(** ahead of the new schema the server sends exactly one 'removed' for every published object
    of a dropped type, and nothing else *)
Theorem C17_removed_types_yield_removed_events : forall c dropped cache e,
  e ∈ schema_step c dropped cache <->
  exists tc k, tc ∈ c /\ mem (t_id tc) dropped = true /\ is_Some (cache !! (t_id tc, k)) /\ e = Ev (t_id tc) k KRemoved.
Proof. exact schema_step_spec. Qed.
Print Assumptions C17_removed_types_yield_removed_events.
Theorem C17_each_object_once : forall c dropped cache, cfg_ok c -> NoDup (map ev_id (schema_step c dropped cache)).
Proof. exact schema_step_once. Qed.
Print Assumptions C17_each_object_once.

(** replayed by a client, they leave the published state without the dropped types *)
Theorem C17_schema_step_replay : forall c dropped cache,
  cfg_ok c -> replay (schema_step c dropped cache) (vis c cache) = vis c (drop_types dropped cache).
Proof. exact schema_step_replay. Qed.
Print Assumptions C17_schema_step_replay.

Theorem C17_nothing_dropped_nothing_sent : forall c cache, schema_step c [] cache = [].
Proof. exact schema_step_nothing_dropped. Qed.
Print Assumptions C17_nothing_dropped_nothing_sent.

(** ** client side: change of the client datamodel *)
(** A client whose handlers succeed, with an empty error queue and no trashbin, restarted under a
    new mapping [c] that keeps every local type: after the datamodel update its local data and
    their expected-state copy are the projection of the remote cache under the NEW mapping,
    whatever they were; the remote caches, the queue and the exception flag are untouched. *)
Theorem C17_client_remap_healthy : forall c outcome,
  (forall n, outcome n = HOk) -> cc_retention c = None ->
  forall (r l : world) n cs stp prt rty fr,
  NoDup (map ct_id (cc_types c)) ->
  (forall i, is_Some (l !! i) -> is_Some (find_ctype c (fst i))) ->
  exists n' cs' stp' prt',
    remap c outcome (hstate r l n cs stp prt rty fr) = hstate r (project c r) n' cs' stp' prt' rty fr.
Proof. exact remap_healthy. Qed.
Print Assumptions C17_client_remap_healthy.

(** evolved = fresh: consume a bus under [c_old], restart under [c_new], update - or consume the
    same bus under [c_new] from scratch: same remote cache, same local data, nothing queued *)
Theorem C17_evolved_client_equals_fresh : forall (c_old c_new : ccfg) outcome evs next,
  (forall n, outcome n = HOk) ->
  cc_retention c_old = None -> cc_retention c_new = None ->
  wf_ccfg c_old -> wf_ccfg c_new -> NoDup (map ct_id (cc_types c_new)) ->
  (forall t, is_Some (find_ctype c_old t) -> is_Some (find_ctype c_new t)) ->
  consistent_stream c_old ∅ evs -> consistent_stream c_new ∅ evs ->
  let st0 := hstate ∅ ∅ 0 [] 0 false false false in
  let evolved := remap c_new outcome (fst (process_events c_old outcome st0 next evs)) in
  let fresh := fst (process_events c_new outcome st0 next evs) in
  r_live evolved = r_live fresh /\ l_live evolved = l_live fresh /\ lc_live evolved = lc_live fresh /\
  l_live evolved = project c_new (rreplay ∅ evs) /\ queue evolved = [] /\ exc evolved = false.
Proof. exact evolved_equals_fresh. Qed.
Print Assumptions C17_evolved_client_equals_fresh.

(** non-vacuity: one type with two remote attributes (1, 2) and its key (3); the old mapping has
    local 10 <- 1 (and the key 12 <- 3), the new one 11 <- 2: the update removes 10 and adds 11 on
    the first object and adds the second object of a newly mapped type *)
Definition ex_old : ccfg := CCfg [CType 1 [(10%N, 1%N); (12%N, 3%N)] [] 99] None FKDisabled RDisabled 99 [1%N; 2%N].
Definition ex_new : ccfg := CCfg [CType 1 [(11%N, 2%N); (12%N, 3%N)] [] 99; CType 2 [(12%N, 3%N)] [] 99] None FKDisabled RDisabled 99 [1%N; 2%N].
Definition ex_bus : list (Z * cev) :=
  [(3%Z, CEv 1 7 (KAdded {[ 1%N := VInt 5; 2%N := VInt 6; 3%N := VInt 7 ]}) 0 0 false);
   (4%Z, CEv 2 8 (KAdded {[ 3%N := VInt 8 ]}) 0 0 false)].
Definition wl (w : world) := map (fun p => (fst p, map_to_list (snd p))) (map_to_list w).
Example C17_client_remap_example :
  let st0 := hstate ∅ ∅ 0 [] 0 false false false in
  let evolved := remap ex_new (fun _ => HOk) (fst (process_events ex_old (fun _ => HOk) st0 3 ex_bus)) in
  let fresh := fst (process_events ex_new (fun _ => HOk) st0 3 ex_bus) in
  wl (l_live evolved) = wl (l_live fresh) /\
  map (fun cl => (cl_kind cl, cl_t cl, cl_k cl)) (calls evolved) =
    [(HAdded, 1%N, 7%Z); (HModified, 1%N, 7%Z); (HAdded, 2%N, 8%Z)].
Proof. vm_compute. split; reflexivity. Qed.

(** C05 - Server survives a crash at any instant: nothing lost, cache always loadable. *)
From Hermes Require Import Model.Objects Model.Server Model.Disk Proofs.Server Proofs.Disk Proofs.Crash.

(** cache files without backups: whenever the process dies during a save, the live
    file holds the complete old content or the complete new one *)
Theorem C05_files_loadable_nobackup : forall fs compress backups name c k,
  name <> 0%Z ->
  let ops := save_ops fs compress backups false name c in
  load (crash_at fs ops k) compress name = load fs compress name
  \/ load (crash_at fs ops k) compress name = LContent c.
Proof. exact save_atomic_without_backup. Qed.
Print Assumptions C05_files_loadable_nobackup.

(** with backups the same statement is refuted (F14): between the rotation of the
    live file and the final rename a restart loads an empty cache *)
Example C05_files_loadable_with_backups_refuted :
  let fs1 := fs_run [] (save_ops [] false 1 true 5%Z 1%Z) in
  let ops := save_ops fs1 false 1 true 5%Z 2%Z in
  load fs1 false 5%Z = LContent 1%Z /\ load (crash_at fs1 ops 3) false 5%Z = LEmpty
  /\ load (crash_at fs1 ops 4) false 5%Z = LContent 2%Z.
Proof. exact rotation_window_refuted. Qed.

(** recovery: any sent prefix, any per-object mixture of saved old/new states; after the
    restart one complete poll makes the replay equal to the view, provided in-flight
    objects did not change in between *)
Theorem C05_recovery : forall c hint hint' n o n' saved pre post,
  cfg_ok c ->
  gen_events_h c hint n o = pre ++ post ->
  (forall i, saved !! i = o !! i \/ (i ∈ map ev_id pre /\ saved !! i = n !! i)) ->
  (forall i, i ∈ map ev_id pre -> saved !! i = o !! i -> n' !! i = n !! i) ->
  replay (pre ++ gen_events_h c hint' n' saved) (vis c o) = vis c n'.
Proof. exact crash_recovery. Qed.
Print Assumptions C05_recovery.

(** F3: without the proviso the statement fails (phantom object) *)
Example C05_recovery_refuted :
  let c := [TCfg 1 [] [] [] [] false false] in
  let o : world := ∅ in
  let n : world := list_to_map [((1%N, 1%Z), list_to_map [(1%N, VInt 1)])] in
  let pre := gen_events_h c [] n o in
  replay (pre ++ gen_events_h c [] ∅ o) (vis c o) <> vis c (∅ : world).
Proof. exact crash_recovery_refuted. Qed.

(** only events of the interrupted cycle can be published twice: the recovery poll
    diffs against what was saved, and an object saved in its new state gets no event *)
Theorem C05_saved_objects_not_resent : forall c hint w, gen_events_h c hint w w = [].
Proof. exact gen_events_h_silent. Qed.

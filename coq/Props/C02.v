(** C02 - Events are exact and minimal; an unchanged source is silent. *)
From Hermes Require Import Model.Objects Model.Server Proofs.Values Proofs.Objects Proofs.Server.

(** Type-sensitive recursive comparison is sound and complete on the whole value
    grammar (any nesting): it answers "equal" exactly for structurally equal values. *)
Theorem C02_vdiff_sound_complete : forall a b, vdiff a b = false <-> a = b.
Proof. exact vdiff_eq. Qed.
Print Assumptions C02_vdiff_sound_complete.

Theorem C02_lookalikes_differ : forall f s,
  vdiff (VInt 1) (VFloat f) = true /\ vdiff (VInt 1) (VBool true) = true /\
  vdiff (VInt 1) (VStr s) = true /\ vdiff (VFloat f) (VBool true) = true /\
  vdiff (VList []) VNone = true /\ vdiff (VDict []) (VList []) = true.
Proof. exact vdiff_lookalikes. Qed.

(** The three attribute sets of a 'modified' payload are exactly appeared /
    changed / disappeared, with the new values. *)
Theorem C02_attr_added_iff : forall n o a v,
  md_a (odiff n o) !! a = Some v <-> n !! a = Some v /\ o !! a = None.
Proof. exact odiff_added_iff. Qed.
Theorem C02_attr_modified_iff : forall n o a v,
  md_m (odiff n o) !! a = Some v <-> n !! a = Some v /\ exists w, o !! a = Some w /\ v <> w.
Proof. exact odiff_modified_iff. Qed.
Theorem C02_attr_removed_iff : forall n o a,
  is_Some (md_r (odiff n o) !! a) <-> n !! a = None /\ is_Some (o !! a).
Proof. exact odiff_removed_iff. Qed.
Print Assumptions C02_attr_modified_iff.

(** Never an empty 'modified': the diff is empty exactly when nothing differs. *)
Theorem C02_modified_never_empty : forall n o, md_empty (odiff n o) = true <-> n = o.
Proof. exact md_empty_odiff. Qed.

(** 'added' only for an absent object (all visible attributes), 'removed' only for a
    present one, 'modified' only for one present in both whose visible attributes differ. *)
Theorem C02_event_iff : forall c hint n o e,
  e ∈ gen_events_h c hint n o <-> diff_event c n o e.
Proof. exact gen_events_h_spec. Qed.
Print Assumptions C02_event_iff.

(** At most one event per object and per poll. *)
Theorem C02_one_event_per_object : forall c hint n o,
  cfg_ok c -> NoDup (map ev_id (gen_events_h c hint n o)).
Proof. exact gen_events_h_NoDup. Qed.
Print Assumptions C02_one_event_per_object.

(** A poll whose view equals the published one emits nothing. *)
Theorem C02_silent : forall c hint w, gen_events_h c hint w w = [].
Proof. exact gen_events_h_silent. Qed.
Print Assumptions C02_silent.

Example C02_nonvacuous :
  vdiff (VList [VInt 1; VDict [([107%N], VBool true)]]) (VList [VInt 1; VDict [([107%N], VInt 1)]]) = true
  /\ md_empty (odiff (list_to_map [(1%N, VInt 1)]) (list_to_map [(1%N, VFloat 1)])) = false.
Proof. split; vm_compute; reflexivity. Qed.

(** C06 - Healthy client: every event applied exactly once, in order, mirroring the source. *)
From Hermes Require Import Model.Objects Model.Client Proofs.Client Proofs.ClientHealthy.

(** One event on a healthy client (handlers never fail, no trashbin, nothing queued, local
    cache = mapped projection of the remote cache): the remote cache follows the event, the
    local cache is again the projection, exactly the owed call is appended to the handler
    log, nothing is queued, no exception.  For every configuration with unique local
    attribute names, every state of that form and every event consistent with it. *)
Theorem C06_one_event : forall c outcome,
  (forall n, outcome n = HOk) -> cc_retention c = None ->
  forall r n cs stp prt rty fr e,
  wf_ccfg c -> added_has_local c e -> consistent r e ->
  exists stp' prt' n',
  process_remote c outcome FUEL (hstate r (project c r) n cs stp prt rty fr) e None true false =
    (hstate (rapply r e) (project c (rapply r e)) n' (cs ++ owed c r e rty) stp' prt' rty fr, true).
Proof. intros c outcome Hok Hret. exact (healthy_event c outcome Hok Hret). Qed.
Print Assumptions C06_one_event.

(** A whole delivery of any length: the calls are exactly those owed, one per event that has
    a local effect, in bus order; both caches end as the replay of the stream and its
    projection; the saved offset is the one after the last event. *)
Theorem C06_exactly_once_in_order : forall c outcome,
  (forall n, outcome n = HOk) -> cc_retention c = None ->
  forall evs r n cs stp prt rty fr next,
  wf_ccfg c -> consistent_stream c r evs ->
  exists stp' prt' n',
  process_events c outcome (hstate r (project c r) n cs stp prt rty fr) next evs =
    (hstate (rreplay r evs) (project c (rreplay r evs)) n' (cs ++ owed_all c r evs rty) stp' prt' rty fr, next_after next evs).
Proof. intros c outcome Hok Hret. exact (healthy_stream c outcome Hok Hret). Qed.
Print Assumptions C06_exactly_once_in_order.

(** the mapping commutes with applying a change *)
Theorem C06_mapping_commutes : forall ct d o, NoDup (map fst (ct_amap ct)) ->
  conv_obj ct (apply_mod d o) = apply_mod (conv_diff ct d) (conv_obj ct o).
Proof. exact conv_apply_mod. Qed.
Print Assumptions C06_mapping_commutes.

(** the retry offers only the oldest entry of an object (shared with C07) *)
Theorem C06_retry_offers_oldest_only : forall q e e',
  q_is_oldest q e = true -> In e' q -> ce_id (q_local e') = ce_id (q_local e) -> (q_num e <= q_num e')%Z.
Proof. exact oldest_is_minimal. Qed.
Print Assumptions C06_retry_offers_oldest_only.

(** non-vacuity: one mapped type, an 'added' then a 'modified' of the same object *)
Definition ex_c : ccfg := CCfg [CType 1 [(10%N, 1%N); (11%N, 2%N)] [] 99] None FKDisabled RDisabled 99 [1%N].
Definition ex_evs : list (Z * cev) :=
  [(3%Z, CEv 1 5 (KAdded {[ 1%N := VInt 5; 2%N := VInt 7 ]}) 0 0 false);
   (4%Z, CEv 1 5 (KModified (MDiff ∅ {[ 2%N := VInt 8 ]} ∅)) 0 0 false)].
Example C06_hypotheses_satisfiable :
  wf_ccfg ex_c /\ consistent_stream ex_c ∅ ex_evs /\ length (owed_all ex_c ∅ ex_evs false) = 2%nat.
Proof.
  split; [|split].
  - intros ct [<-|[]]. cbn. repeat constructor; set_solver.
  - cbn. split; [reflexivity|]. split.
    { intros ct a Hct Hk. vm_compute in Hct. inversion Hct; subst. inversion Hk; subst. vm_compute. reflexivity. }
    split; [unfold consistent; cbn; rewrite lookup_insert; eauto|]. split; [|exact I].
    intros ct a Hct Hk. discriminate Hk.
  - vm_compute. reflexivity.
Qed.

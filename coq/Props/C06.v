(** C06 - A healthy client applies each event exactly once, in order, mirroring the source. *)
From Hermes Require Import Model.Objects Model.Client Proofs.Client.

(** (theorems on the projection are added below as they are proved) *)
Theorem C06_retry_offers_oldest_only : forall q e e',
  q_is_oldest q e = true -> In e' q -> ce_id (q_local e') = ce_id (q_local e) -> (q_num e <= q_num e')%Z.
Proof. exact oldest_is_minimal. Qed.

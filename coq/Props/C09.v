(** C09 - Foreign-key policy: no parent is touched ahead of its child's pending errors. *)
From Hermes Require Import Model.Objects Model.Client Proofs.Client Proofs.ClientFK Proofs.ClientParents.

(** An event of a kind covered by the policy, on an object registered as a parent by some
    queue entry, invokes no handler at all: the handler log and the invocation counter are
    unchanged, processing reports success, and (remediation disabled) the event becomes the
    newest queue entry.  Holds for every configuration, handler behaviour and state. *)
Theorem C09_parent_event_is_deferred : forall c outcome f st rev,
  mapped c (ce_t rev) = true ->
  q_is_parent (queue st) (ce_id rev) = true ->
  fk_events c (ce_kind rev) = true ->
  let r := process_remote c outcome (S f) st rev None true false in
  calls (fst r) = calls st /\ ncall (fst r) = ncall st /\ snd r = true /\
  (cc_remed c = RDisabled ->
   forall l, convert c true rev = Some l ->
   exists e, queue (fst r) = queue st ++ [e] /\ q_remote e = Some rev /\ q_num e = q_next_num (queue st)).
Proof. exact parent_event_deferred. Qed.
Print Assumptions C09_parent_event_is_deferred.

(** "directly or transitively": with types declared parents-first, the parents an entry
    registers are exactly the objects its child reaches by following foreign keys through
    objects present in the local cache, at any depth ... *)
Theorem C09_registered_parents_are_all_ancestors : forall c live rank, parents_first c rank -> forall t o p,
  In p (parents_of c live (S (length (cc_types c))) t o) <-> exists n, reach c live n t o p.
Proof. exact registered_parents_exact. Qed.
Print Assumptions C09_registered_parents_are_all_ancestors.
(** ... and they are registered at the moment the entry is appended (the child being known to
    the local cache or to its expected-state copy): the first theorem then applies to an event
    on any of them *)
Theorem C09_append_registers_every_ancestor : forall c st remote lev msg o n p rank,
  cc_remed c = RDisabled -> find_ctype c (ce_t lev) <> None ->
  (l_live st !! ce_id lev = Some o \/ (l_live st !! ce_id lev = None /\ lc_live st !! ce_id lev = Some o)) ->
  parents_first c rank -> reach c (l_live st) n (ce_t lev) o p ->
  q_is_parent (queue (q_append c st remote lev msg)) p = true.
Proof. exact q_append_registers. Qed.
Print Assumptions C09_append_registers_every_ancestor.
(** a chain of three types: the grandparent is registered, unless the parent is absent from the
    cache (finding F21: the link is followed through the cached parent) *)
Definition ch_cfg : ccfg :=
  CCfg [CType 1 [(10%N, 1%N)] [] 99; CType 2 [(10%N, 1%N); (11%N, 2%N)] [(11%N, 1%N)] 99;
        CType 3 [(10%N, 1%N); (12%N, 2%N)] [(12%N, 2%N)] 99] None FKOnRemove RDisabled 99 [1%N; 2%N; 3%N].
Definition ch_w : world := {[ (1%N, 7%Z) := {[ 10%N := VInt 7 ]}; (2%N, 8%Z) := {[ 10%N := VInt 8; 11%N := VInt 7 ]} ]}.
Example C09_grandparent_registered :
  parents_of ch_cfg ch_w 4 3 {[ 10%N := VInt 9; 12%N := VInt 8 ]} = [(2%N, 8%Z); (1%N, 7%Z)]
  /\ parents_of ch_cfg (delete (2%N, 8%Z) ch_w) 4 3 {[ 10%N := VInt 9; 12%N := VInt 8 ]} = [].
Proof. vm_compute. split; reflexivity. Qed.

(** the simulated pass used when queueing never invokes a handler nor touches the queue *)
Theorem C09_simulation_is_silent : forall c outcome f st rev lev enq,
  same_log (fst (process_remote c outcome f st rev lev enq true)) st.
Proof. exact process_remote_sim. Qed.
Print Assumptions C09_simulation_is_silent.

(** the retry pass skips (and remembers) an entry whose object is a registered parent *)
Theorem C09_retry_skips_parent : forall c outcome st n r skipped e,
  exc st = false ->
  List.find (fun e => Z.eqb (q_num e) n) (queue st) = Some e ->
  q_is_oldest (queue st) e = true ->
  q_is_parent (queue st) (ce_id (q_local e)) = true ->
  retry_pass c outcome st (n :: r) None skipped = retry_pass c outcome st r None (skipped ++ [n]).
Proof. exact retry_skips_parent. Qed.
Print Assumptions C09_retry_skips_parent.

(** the retry only offers the oldest entry of an object (shared with C07) *)
Theorem C09_retry_in_arrival_order : forall q e e',
  q_is_oldest q e = true -> In e' q -> ce_id (q_local e') = ce_id (q_local e) -> (q_num e <= q_num e')%Z.
Proof. exact oldest_is_minimal. Qed.
Print Assumptions C09_retry_in_arrival_order.

(** non-vacuity: a child (type 2, key 5) whose failed 'modified' registered its parent
    (type 1, key 5); the parent's 'removed' meets the hypotheses of the first theorem *)
Definition ex_cfg : ccfg :=
  CCfg [CType 1 [(10%N, 1%N)] [] 99; CType 2 [(10%N, 1%N)] [(10%N, 1%N)] 99] None FKOnRemove RDisabled 99 [1%N; 2%N].
Definition ex_obj : obj := {[ 10%N := VInt 5 ]}.
Definition ex_child_ev : cev := CEv 2 5 (KModified (MDiff ∅ {[ 11%N := VInt 1 ]} ∅)) 0 0 false.
Definition ex_state : cstate :=
  CState {[ (1%N, 5%Z) := ex_obj; (2%N, 5%Z) := ex_obj ]} ∅ {[ (1%N, 5%Z) := ex_obj; (2%N, 5%Z) := ex_obj ]} ∅
         {[ (1%N, 5%Z) := ex_obj; (2%N, 5%Z) := ex_obj ]} ∅ {[ (1%N, 5%Z) := ex_obj; (2%N, 5%Z) := ex_obj ]} ∅
         [QEntry 1 (Some ex_child_ev) ex_child_ev true
                 (entry_parents ex_cfg {[ (1%N, 5%Z) := ex_obj; (2%N, 5%Z) := ex_obj ]}
                                       {[ (1%N, 5%Z) := ex_obj; (2%N, 5%Z) := ex_obj ]} ex_child_ev)]
         0 [] 0 false false false false [].
Definition ex_parent_removed : cev := CEv 1 5 KRemoved 0 0 false.
Example C09_hypotheses_satisfiable :
  mapped ex_cfg (ce_t ex_parent_removed) = true /\
  q_is_parent (queue ex_state) (ce_id ex_parent_removed) = true /\
  fk_events ex_cfg (ce_kind ex_parent_removed) = true /\
  convert ex_cfg true ex_parent_removed <> None.
Proof. vm_compute. repeat split; congruence. Qed.

(** ** tie to the source text (Generated/Facts.v): the event types each policy defers are those of
    [GenericClient.__FOREIGNKEYS_POLICIES] now *)
From Hermes Require Import Proofs.FactsTieClient.
Theorem C09_policy_table_is_the_source_s : forall c k, fk_events c k = facts_fk_events (cc_fkpolicy c) k.
Proof. exact fk_policy_tie. Qed.
Print Assumptions C09_policy_table_is_the_source_s.

(** C09 - Foreign-key policy: no parent is touched ahead of its child's pending errors. *)
From Hermes Require Import Model.Objects Model.Client Proofs.Client.

(** the retry only offers the oldest entry of an object (shared with C07) *)
Theorem C09_retry_in_arrival_order : forall q e e',
  q_is_oldest q e = true -> In e' q -> ce_id (q_local e') = ce_id (q_local e) -> (q_num e <= q_num e')%Z.
Proof. exact oldest_is_minimal. Qed.
Print Assumptions C09_retry_in_arrival_order.

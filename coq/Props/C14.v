(** C14 - Integrity constraints are enforced to a fixpoint across types. *)
From Hermes Require Import Model.Fetch Proofs.Fetch.

(** The published view is a subset of the merged data, closed (every object
    satisfies all constraints of its type against the published content of all
    types), and the LARGEST such subset: nothing is filtered that could stay. *)
Theorem C14_greatest_closed_subset : forall ics S,
  incl (integrity ics S) S /\ iclosed ics (integrity ics S)
  /\ (forall T, incl T S -> iclosed ics T -> incl T (integrity ics S)).
Proof. exact integrity_greatest_closed. Qed.
Print Assumptions C14_greatest_closed_subset.

(** The code's loop always terminates: |data|+1 rounds suffice. *)
Theorem C14_terminates : forall ics fuel S, length S < fuel -> exists R, iloop ics fuel S = Some R.
Proof. exact iloop_terminates. Qed.
Print Assumptions C14_terminates.

(** Constraints requiring the presence of other objects are monotone - the fact
    that makes "largest subset" well defined. *)
Theorem C14_constraints_monotone : forall ics S S' x,
  incl S S' -> sat ics S x = true -> sat ics S' x = true.
Proof. exact sat_mono. Qed.

Theorem C14_nothing_admissible_is_filtered : forall ics S x T,
  In x S -> ~ In x (integrity ics S) -> incl T S -> iclosed ics T -> ~ In x T.
Proof. exact integrity_filters_nothing_admissible. Qed.
Print Assumptions C14_nothing_admissible_is_filtered.

(** The theorem distinguishes the fixpoint from a single pass: on a depth-2 chain
    whose root is missing, one pass leaves a dangling grandchild. *)
Example C14_single_pass_refuted :
  let S := [ (2%N, 1%Z, (list_to_map [(1%N, VInt 1)] : obj)); (3%N, 1%Z, (list_to_map [(1%N, VInt 1)] : obj)) ] in
  length (one_pass chain_ics S) = 1%nat /\ integrity chain_ics S = [].
Proof. exact one_pass_refuted. Qed.

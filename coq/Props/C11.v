(** C11 - Client stop or crash at any instant loses no event and corrupts no state. *)
From Hermes Require Import Model.Objects Model.Client Model.Checkpoint Proofs.Client Proofs.Checkpoint.

(** the saved offset is the last file of the checkpoint ... *)
Theorem C11_offset_saved_last : forall types,
  exists before, save_order types = before ++ [FOffset] /\ ~ In FOffset before.
Proof. exact offset_saved_last. Qed.
Print Assumptions C11_offset_saved_last.

(** ... so whatever subset of the other files a process death let through, the restarted
    client starts from the old offset: no event of the bus is skipped *)
Theorem C11_offset_never_ahead : forall old new repl,
  ~ In FOffset repl -> cl_next (mix_client old new repl) = cl_next old.
Proof. exact offset_never_ahead. Qed.
Print Assumptions C11_offset_never_ahead.

(** what the restarted client loads: object by object, the new checkpoint where the file of
    its cache and type was replaced, the old one elsewhere *)
Theorem C11_loaded_state : forall old new repl i k,
  mix_world old new repl i !! k =
    if replaced_in repl (FData i (fst k)) then world_of new i !! k else world_of old i !! k.
Proof. exact mix_lookup. Qed.
Print Assumptions C11_loaded_state.
Theorem C11_killed_before_the_checkpoint : forall old new i, mix_world old new [] i = world_of old i.
Proof. exact mix_nothing. Qed.
Print Assumptions C11_killed_before_the_checkpoint.
Theorem C11_killed_after_the_checkpoint : forall old new repl i,
  (forall t, In (FData i t) repl) -> mix_world old new repl i = world_of new i.
Proof. exact mix_everything. Qed.
Print Assumptions C11_killed_after_the_checkpoint.

(** the retry after a graceful stop offers each object's oldest entry only (no event applied
    twice, shared with C07) *)
Theorem C11_retry_in_arrival_order : forall q e e',
  q_is_oldest q e = true -> In e' q -> ce_id (q_local e') = ce_id (q_local e) -> (q_num e <= q_num e')%Z.
Proof. exact oldest_is_minimal. Qed.
Print Assumptions C11_retry_in_arrival_order.

(** Refutation of the full statement (finding F7): a process death between the replacement of
    the data files and of the offset file.  One type; the iteration applies the 'added' of
    object 5; the data files are replaced, the offset is not; the restarted client is handed
    the same 'added' again, drops the object as a duplicate, and the 'modified' that follows
    raises - whereas the uninterrupted client applies it. *)
Definition ex_c : ccfg := CCfg [CType 1 [(10%N, 1%N); (11%N, 2%N)] [] 99] None FKDisabled RDisabled 99 [1%N].
Definition ex_added : cev := CEv 1 5 (KAdded {[ 1%N := VInt 5; 2%N := VInt 7 ]}) 0 0 false.
Definition ex_modified : cev := CEv 1 5 (KModified (MDiff ∅ {[ 2%N := VInt 8 ]} ∅)) 0 0 false.
Definition ok (_ : nat) : hres := HOk.
Definition ex_old : client := Client cstate0 3.
Definition ex_new : client := client_iter ex_c ok ex_old 0 [(3%Z, ex_added)].
Definition ex_uninterrupted : client := client_iter ex_c ok ex_new 1 [(4%Z, ex_modified)].
Definition ex_killed : client := mix_client ex_old ex_new [FData 4 1; FData 6 1; FData 0 1; FData 2 1].
Definition ex_recovered : client := client_iter ex_c ok ex_killed 1 [(3%Z, ex_added); (4%Z, ex_modified)].
Example C11_kill_inside_checkpoint_refuted :
  exc (cl_st ex_uninterrupted) = false /\ is_Some (l_live (cl_st ex_uninterrupted) !! (1%N, 5%Z)) /\
  exc (cl_st ex_recovered) = true /\ l_live (cl_st ex_recovered) !! (1%N, 5%Z) = None.
Proof. vm_compute. repeat split; eauto. Qed.

(** ** tie to the source text (Generated/Facts.v): the order of the checkpoint files in the model is
    the order of the calls in the [finally] block of [GenericClient.mainLoop],
    [Datamodel.saveLocalAndRemoteData] and [Datasource.save] now; the offset file comes last *)
From Hermes Require Import Proofs.FactsTieCheckpoint.
Theorem C11_checkpoint_order_is_the_source_s : forall types, save_order_facts types = save_order types.
Proof. exact checkpoint_order_tie. Qed.
Print Assumptions C11_checkpoint_order_is_the_source_s.
Theorem C11_source_saves_offset_last : forall types,
  exists l, save_order_facts types = l ++ [FOffset] /\ ~ In FOffset l.
Proof. exact offset_saved_last_tie. Qed.
Print Assumptions C11_source_saves_offset_last.

(** C19 - Configuration acceptance is exact (foreign-key decision logic). *)
From Hermes Require Import Model.FKGraph Model.Config Proofs.FKGraph.

(** An acyclic foreign-key graph - diamonds, several keys to a type that itself has a
    parent - is never refused as circular. *)
Theorem C19_acyclic_accepted : forall s,
  ~ has_cycle (fs_fks s) -> schema_check s <> Circular.
Proof. exact acyclic_never_circular. Qed.
Print Assumptions C19_acyclic_accepted.

(** A genuinely cyclic graph (all keys individually well-formed) is always refused. *)
Theorem C19_cyclic_rejected : forall s,
  has_cycle (fs_fks s) -> (forall d, In d (fs_fks s) -> fk_check s d = None) ->
  schema_check s = Circular.
Proof. exact cyclic_always_circular. Qed.
Print Assumptions C19_cyclic_rejected.

(** The check always gives an answer (|keys|+2 levels of recursion suffice). *)
Theorem C19_check_terminates : forall s, schema_check s <> OutOfFuel.
Proof. exact check_always_decides. Qed.
Print Assumptions C19_check_terminates.

Example C19_diamond : 
  let t := FType [0] [0] in
  let pair := FType [0; 1] [0; 1] in
  schema_check (FSchema [t; FType [0] [0]; pair; pair]
                        [FK 1 0 0 0; FK 2 0 1 0; FK 2 1 0 0; FK 3 0 1 0; FK 3 1 1 0]) = Accepted.
Proof. exact diamond_accepted. Qed.

(** Exactness of the foreign-key part of configuration acceptance.  One declared key is accepted
    exactly when its attribute exists in its own type and belongs to that type's primary key, the
    target type exists, and the target attribute exists there and is that type's single-attribute
    primary key ... *)
Theorem C19_fk_rules_exact : forall s d, fk_check s d = None <-> fk_valid s d.
Proof. exact fk_check_exact. Qed.
Print Assumptions C19_fk_rules_exact.
(** ... and a schema's foreign keys are accepted exactly when every declared key is valid and
    the graph they form has no cycle: nothing valid is refused, nothing invalid or cyclic starts. *)
Theorem C19_fk_acceptance_exact : forall s,
  schema_check s = Accepted <-> (forall d, In d (fs_fks s) -> fk_valid s d) /\ ~ has_cycle (fs_fks s).
Proof. exact schema_check_exact. Qed.
Print Assumptions C19_fk_acceptance_exact.
(** non-vacuity: a valid two-type schema, and each documented mistake refused for its own reason *)
Example C19_fk_rules_examples :
  let u := FType [0; 1] [0] in let m := FType [0; 1] [0; 1] in
  fk_check (FSchema [u; m] []) (FK 1 0 0 0) = None /\
  fk_check (FSchema [u; m] []) (FK 1 5 0 0) = Some EAttrUnknown /\
  fk_check (FSchema [u; FType [0; 1] [0]] []) (FK 1 1 0 0) = Some EAttrNotPkey /\
  fk_check (FSchema [u; m] []) (FK 1 0 7 0) = Some ETypeUnknown /\
  fk_check (FSchema [u; m] []) (FK 1 0 0 9) = Some EToAttrUnknown /\
  fk_check (FSchema [u; m] []) (FK 1 0 0 1) = Some EToNotPkey /\
  fk_check (FSchema [u; m] []) (FK 0 0 1 0) = Some EToTuple.
Proof. vm_compute. repeat split; reflexivity. Qed.

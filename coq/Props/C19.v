(** C19 - Configuration acceptance is exact (foreign-key decision logic). *)
From Hermes Require Import Model.FKGraph Model.Config Proofs.FKGraph.

(** An acyclic foreign-key graph - diamonds, several keys to a type that itself has a
    parent - is never refused as circular. *)
Theorem C19_acyclic_accepted : forall s,
  ~ has_cycle (fs_fks s) -> schema_check s <> Circular.
Proof. exact acyclic_never_circular. Qed.
Print Assumptions C19_acyclic_accepted.

(** A genuinely cyclic graph (all keys individually well-formed) is always refused. *)
Theorem C19_cyclic_rejected : forall s,
  has_cycle (fs_fks s) -> (forall d, In d (fs_fks s) -> fk_check s d = None) ->
  schema_check s = Circular.
Proof. exact cyclic_always_circular. Qed.
Print Assumptions C19_cyclic_rejected.

(** The check always gives an answer (|keys|+2 levels of recursion suffice). *)
Theorem C19_check_terminates : forall s, schema_check s <> OutOfFuel.
Proof. exact check_always_decides. Qed.
Print Assumptions C19_check_terminates.

Example C19_diamond : 
  let t := FType [0] [0] in
  let pair := FType [0; 1] [0; 1] in
  schema_check (FSchema [t; FType [0] [0]; pair; pair]
                        [FK 1 0 0 0; FK 2 0 1 0; FK 2 1 0 0; FK 3 0 1 0; FK 3 1 1 0]) = Accepted.
Proof. exact diamond_accepted. Qed.

(** C16 - Cache and bus serialisation is lossless, so a restart is silent. *)
From Hermes Require Import Model.Serial Model.Disk Proofs.Serial Proofs.Disk Proofs.Server.
From Hermes Require Import Model.Objects Model.Server.

(** base64 is CPython's codec: the theorems hold for any pair (enc, dec) that is a
    bijection onto strings without ')' - the trusted-base statement about base64. *)
Section Codec.
Variable b64enc : str -> str.
Variable b64dec : str -> option str.
Hypothesis b64_roundtrip : forall b, b64dec (b64enc b) = Some b.
Hypothesis b64_alphabet : forall b, existsb (N.eqb c_rparen) (b64enc b) = false.

(** Every value of the grammar, at any nesting depth, with valid datetimes and no
    string leaf that is a decodable look-alike of the in-band encodings, is restored
    identically. *)
Theorem C16_roundtrip : forall v,
  dates_valid v = true -> no_lookalike b64dec v = true -> Serial.decode b64dec (Serial.encode b64enc v) = v.
Proof. exact (roundtrip b64enc b64dec b64_roundtrip b64_alphabet). Qed.

Theorem C16_roundtrip_datetime : forall d, valid_dt d = true ->
  Serial.decode b64dec (Serial.encode b64enc (VDate d)) = VDate d.
Proof. exact (roundtrip_datetime b64enc b64dec b64_roundtrip b64_alphabet). Qed.
Theorem C16_roundtrip_bytes : forall b, Serial.decode b64dec (Serial.encode b64enc (VBytes b)) = VBytes b.
Proof. exact (roundtrip_bytes b64enc b64dec b64_roundtrip b64_alphabet). Qed.

(** The property as stated includes look-alike strings in its grammar: refuted (F10). *)
Theorem C16_lookalike_refuted : forall s,
  lookalike b64dec s = true -> Serial.decode b64dec (Serial.encode b64enc (VStr s)) <> VStr s.
Proof. exact (lookalike_not_restored b64enc b64dec). Qed.
End Codec.
Print Assumptions C16_roundtrip.
Print Assumptions C16_lookalike_refuted.

Theorem C16_valid_datetime_parses : forall d, valid_dt d = true -> parse_dt (fmt_dt d) = Some d.
Proof. exact parse_fmt_dt. Qed.
Print Assumptions C16_valid_datetime_parses.

(** cache files: found under either compression setting, and across one change of it *)
Theorem C16_save_then_load : forall fs compress backups name c,
  name <> 0%Z -> load (fs_run fs (save_ops fs compress backups false name c)) compress name = LContent c.
Proof. exact save_then_load. Qed.
Theorem C16_single_switch : forall fs compress name c,
  fs_get fs (name, 0%nat, negb compress) = None -> fs_get fs (name, 0%nat, compress) = Some (Some c) ->
  load fs (negb compress) name = LContent c.
Proof. exact single_switch_loads_latest. Qed.
Print Assumptions C16_single_switch.

(** F15: a second switch with backup_count = 0 prefers the stale file *)
Example C16_double_switch_refuted :
  let fs1 := fs_run [] (save_ops [] true 0 false 5%Z 1%Z) in
  let fs2 := fs_run fs1 (save_ops fs1 false 0 false 5%Z 2%Z) in
  load fs2 false 5%Z = LContent 2%Z /\ load fs2 true 5%Z = LContent 1%Z.
Proof. exact double_switch_refuted. Qed.

(** restart silent: a poll whose view equals the published state emits nothing *)
Theorem C16_unchanged_view_silent : forall c hint w, gen_events_h c hint w w = [].
Proof. exact gen_events_h_silent. Qed.

(** ** tie to the source text (Generated/Facts.v, regenerated at every run): the in-band prefixes
    and suffixes the encoder writes and the two patterns the parser matches are those of
    lib/datamodel/serialization.py now *)
From Hermes Require Import Proofs.FactsTieSerial.
From Coq Require Import String.
Theorem C16_encoder_affixes_are_the_source_s :
  map (fun p => (codes (fst p), codes (snd p))) Generated.Facts.inband_encoders
  = [(s_HermesDatetime, [c_Z; c_rparen]); (s_HermesBytes, [c_rparen])].
Proof. exact encoder_affixes_tie. Qed.
Print Assumptions C16_encoder_affixes_are_the_source_s.
Theorem C16_parser_patterns_are_the_source_s :
  Generated.Facts.inband_regexes
  = ["HermesDatetime\(\d{4}-\d{2}-\d{2}T\d{2}:\d{2}:\d{2}Z\)"; "HermesBytes\([^)]*\)"]%string.
Proof. exact parser_patterns_tie. Qed.
Print Assumptions C16_parser_patterns_are_the_source_s.

(** C01 - Replaying the bus reproduces the source view: no lost or phantom change.
    Only statements; every proof is [exact <lemma of Proofs/>]. *)
From Hermes Require Import Model.Objects Model.Server Proofs.Objects Proofs.Server Proofs.ServerRestart.

(** One cycle, any configuration, any pair (published cache, new view), any order the
    implementation happens to choose for 'modified' events: replaying the emitted
    events on the old visible view yields exactly the new visible view. *)
Theorem C01_replay_cycle : forall c hint n o,
  cfg_ok c -> replay (gen_events_h c hint n o) (vis c o) = vis c n.
Proof. exact replay_cycle. Qed.
Print Assumptions C01_replay_cycle.

(** Nothing missing, nothing phantom: an event is on the bus iff it is the event
    the difference between the two views calls for at its object. *)
Theorem C01_events_are_exactly_the_differences : forall c hint n o e,
  e ∈ gen_events_h c hint n o <-> diff_event c n o e.
Proof. exact gen_events_h_spec. Qed.
Print Assumptions C01_events_are_exactly_the_differences.

(** Whole histories (any number of polls, any producer refusals, open failures,
    initsync requests; no restart): the state obtained by replaying every accepted
    base event from the first silent poll always equals the server's published state... *)
Theorem C01_history_tracks_published_state : forall c steps B st,
  cfg_ok c -> no_restart steps -> inv c B st ->
  let '(B', st') := track_run c B st steps in inv c B' st'.
Proof. exact run_inv. Qed.
Print Assumptions C01_history_tracks_published_state.

(** ... and after every poll all of whose sends were accepted it equals the view. *)
Theorem C01_complete_poll_equals_view : forall c st B isync view refused hint st' tr,
  cfg_ok c -> inv c B st ->
  sstep_run c st (SPoll isync false view refused hint) = (st', tr) -> no_refusal tr = true ->
  track c B (SPoll isync false view refused hint) st' tr = Some (vis c view).
Proof. exact sstep_complete. Qed.
Print Assumptions C01_complete_poll_equals_view.

(** With restarts: the cache files hold no secret, so a restarted server agrees with what it
    had published on every attribute but the secret ones; that agreement (bus state = published
    state, secrets apart) is an invariant of EVERY history - polls, refusals, open failures,
    initsync requests and restarts in any order ... *)
Theorem C01_history_with_restarts : forall c steps B st,
  cfg_ok c -> inv2 c B st -> let '(B', st') := track_run c B st steps in inv2 c B' st'.
Proof. exact run_inv2. Qed.
Print Assumptions C01_history_with_restarts.

(** ... and after any poll all of whose sends were accepted the replayed bus equals the view
    on every non-secret attribute. *)
Theorem C01_complete_poll_after_anything : forall c st b isync view refused hint st' tr,
  cfg_ok c -> inv2 c (Some b) st ->
  sstep_run c st (SPoll isync false view refused hint) = (st', tr) -> no_refusal tr = true ->
  nsec c (replay (base_events tr) b) = nsec c (vis c view).
Proof. exact complete_poll_after_anything. Qed.
Print Assumptions C01_complete_poll_after_anything.

(** The projection cannot be dropped (finding F13): a secret attribute that disappears from the
    source while the server is down is never withdrawn.  Type 1 with secret attribute 3: the
    published object holds it; restart (the reloaded cache has no secret); the new view no
    longer has it; the poll is silent and the bus state keeps the secret. *)
Definition f13_c : cfg := [TCfg 1 [] [] [3%N] [] false false].
Definition f13_mem : world := {[ (1%N, 1%Z) := {[ 1%N := VInt 1; 3%N := VInt 7 ]} ]}.
Definition f13_view : world := {[ (1%N, 1%Z) := {[ 1%N := VInt 1 ]} ]}.
Example C01_secret_removed_while_down_refuted :
  gen_events_h f13_c [] f13_view (jsn f13_c f13_mem) = [] /\
  vis f13_c f13_mem !! (1%N, 1%Z) <> vis f13_c f13_view !! (1%N, 1%Z).
Proof. split; [vm_compute; reflexivity|]. vm_compute. discriminate. Qed.

(** Events about distinct objects commute, so the theorems hold for whatever order
    the implementation emits one type's 'modified' events in. *)
Theorem C01_order_inside_a_group_is_irrelevant : forall evs evs' w,
  NoDup (map ev_id evs) -> evs ≡ₚ evs' -> replay evs w = replay evs' w.
Proof. exact replay_perm. Qed.
Print Assumptions C01_order_inside_a_group_is_irrelevant.

(** Non-vacuity: a two-type configuration, an add + modify + remove in one cycle. *)
Example C01_nonvacuous :
  let c := [TCfg 1 [] [] [3%N] [] false false; TCfg 2 [5%N] [] [] [] false false] in
  let o : world := list_to_map [((1%N, 1%Z), list_to_map [(1%N, VInt 1); (2%N, VStr [97%N])]);
                                ((1%N, 2%Z), list_to_map [(1%N, VInt 2)])] in
  let n : world := list_to_map [((1%N, 1%Z), list_to_map [(1%N, VInt 1); (2%N, VFloat 1); (3%N, VInt 7)]);
                                ((2%N, 5%Z), list_to_map [(1%N, VInt 5); (5%N, VInt 0)])] in
  cfg_ok c /\ length (gen_events_h c [] n o) = 3%nat.
Proof. split; [repeat constructor; set_solver|vm_compute; reflexivity]. Qed.

(** C18 - The SQLite bus plugins form a faithful ordered log. *)
From Hermes Require Import Model.BusLog Proofs.BusLog.

(** Every state reachable by any interleaving of producer and consumer operations
    satisfies the log invariant: consecutive ids, last id = sequence, timestamps in
    insertion order - as long as the producer's clock never steps back ([BBack]); the
    retention theorem [C18_purge_only_old] below holds per event without that hypothesis. *)
Theorem C18_invariant_reachable : forall ops st, Forall monotone_clock ops ->
  inv (s_bus st) (s_now st) -> inv (s_bus (bfinal st ops)) (s_now (bfinal st ops)).
Proof. exact inv_reachable. Qed.
Print Assumptions C18_invariant_reachable.

Theorem C18_offsets_strictly_increasing : forall b now, inv b now ->
  forall i j a c, (i < j)%nat -> nth_error (ids b) i = Some a -> nth_error (ids b) j = Some c -> a < c.
Proof. exact offsets_strictly_increasing. Qed.
Print Assumptions C18_offsets_strictly_increasing.

(** never reused: a new event's offset is above every retained one, and the sequence
    it is taken from is untouched by purges (even a purge of everything). *)
Theorem C18_offsets_never_reused : forall b now, inv b now ->
  forall r, In r (b_rows b) -> r_id r < next_id b.
Proof. exact new_offset_is_fresh. Qed.
Theorem C18_sequence_survives_purge : forall limit b, b_seq (purge limit b) = b_seq b.
Proof. exact sequence_survives_purge. Qed.

(** delivery = exactly the retained events from the cursor on, in insertion order *)
Theorem C18_fifo : forall b c, fst (c_iter b (Some c)) = filter (fun r => c <=? r_id r) (b_rows b).
Proof. exact iter_delivers_suffix. Qed.

(** resume at exactly the saved offset *)
Theorem C18_resume_exact : forall b now o, inv b now -> In o (ids b) ->
  forall r, hd_error (fst (c_iter b (Some o))) = Some r -> r_id r = o.
Proof. exact resume_exact. Qed.
Print Assumptions C18_resume_exact.

(** seek accepted exactly between the oldest retained event and the next to be
    written; purged or future offsets, and a fresh database, are refused *)
Theorem C18_seek_accepts_iff : forall b now o, inv b now -> b_exists b = true ->
  forall s, b_seq b = Some s -> (c_seek b o = SeekOk <-> low_bound b s <= o <= s + 1).
Proof. exact seek_accepts_iff. Qed.
Theorem C18_seek_refused : forall b o s,
  b_exists b = true -> b_seq b = Some s -> (o < low_bound b s \/ s + 1 < o) -> c_seek b o = SeekIndexError.
Proof. exact seek_refused_when_purged_or_future. Qed.
Theorem C18_seek_refused_on_fresh_db : forall o, c_seek bus0 o = SeekIndexError.
Proof. exact seek_refused_on_fresh_db. Qed.
Print Assumptions C18_seek_accepts_iff.

(** retention purges only events older than the limit *)
Theorem C18_purge_only_old : forall limit b r,
  In r (b_rows (purge limit b)) <-> In r (b_rows b) /\ limit <= r_ts r.
Proof. exact purge_only_old. Qed.
Print Assumptions C18_purge_only_old.

(** clock stepped back: the stale event stored between two fresh ones is the only one purged *)
Example C18_purge_per_event :
  brun bstate0 [BOpen 100; BSend 1; BBack 300; BSend 2; BAge 300; BSend 3; BOpen 100; BSeekBegin; BIter]
  = [ONone; ONone; ONone; ONone; ONone; ONone; ONone; ONone; OIter [(1, 1); (3, 3)]].
Proof. vm_compute. reflexivity. Qed.

(** ... and a purged offset is refused whatever the clock did (repaired finding F31): event 2,
    stamped in the past, is purged from between events 1 and 3; a seek to offset 2 is refused *)
Theorem C18_seek_refused_when_event_gone : forall b o s,
  b_exists b = true -> b_seq b = Some s -> ~ In o (ids b) -> o <> s + 1 -> c_seek b o = SeekIndexError.
Proof. exact seek_refused_when_event_gone. Qed.
Print Assumptions C18_seek_refused_when_event_gone.
Example C18_seek_into_a_hole_refused :
  brun bstate0 [BOpen 100; BSend 1; BBack 300; BSend 2; BAge 300; BSend 3; BOpen 100; BSeek 2; BSeek 3; BIter]
  = [ONone; ONone; ONone; ONone; ONone; ONone; ONone; OSeek SeekIndexError; OSeek SeekOk; OIter [(3, 3)]].
Proof. vm_compute. reflexivity. Qed.

Example C18_nonvacuous :
  brun bstate0 [BOpen 100; BSend 1; BSend 2; BAge 113; BSend 3; BOpen 100; BSeek 1; BSeek 3; BIter; BSend 4; BIter]
  = [ONone; ONone; ONone; ONone; ONone; ONone; OSeek SeekIndexError; OSeek SeekOk; OIter [(3, 3)]; ONone; OIter [(4, 4)]].
Proof. vm_compute. reflexivity. Qed.

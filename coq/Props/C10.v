(** C10 - Trashbin: trashed at once, removed only after retention, recycled on return. *)
From Hermes Require Import Model.Objects Model.Client Proofs.Client Proofs.ClientTrash.

(** no definitive removal before the retention of the stored removal timestamp is over:
    the purge step is the identity on such an object, for every state and clock *)
Theorem C10_purge_respects_retention : forall c outcome st t k now o r ts,
  r_trash st !! (t, k) = Some o -> cc_retention c = Some r -> o !! cc_ts c = Some (VInt ts) ->
  (now - r <= ts)%Z -> purge_one c outcome st t k now = st.
Proof. exact purge_respects_retention. Qed.
Print Assumptions C10_purge_respects_retention.

(** ... and at the first pass after it (or at once when retention is off) the object is
    handed to the processing as a 'removed' *)
Theorem C10_purge_when_expired : forall c outcome st t k now o,
  exc st = false -> r_trash st !! (t, k) = Some o ->
  (cc_retention c = None \/
   exists r ts, cc_retention c = Some r /\ o !! cc_ts c = Some (VInt ts) /\ (ts < now - r)%Z) ->
  purge_one c outcome st t k now =
    let ev := CEv t k KRemoved 0 0 false in
    if q_has_obj (queue st) (t, k) && negb (q_is_parent (queue st) (t, k))
    then fst (process_remote c outcome FUEL st ev None false false)
    else fst (process_remote c outcome FUEL st ev None true false).
Proof. exact purge_expired. Qed.
Print Assumptions C10_purge_when_expired.

(** choice of the operation applied to the target *)
Theorem C10_removal_is_trashed_within_retention : forall c outcome f st remote lv enq ct r st1,
  find_ctype c (ce_t lv) = Some ct -> ce_kind lv = KRemoved ->
  not_deferred c (stepped st lv) lv enq ->
  cc_retention c = Some r -> l_trash st !! ce_id lv = None ->
  local_trashed outcome ct (stepped st lv) lv false = (st1, true) ->
  process_local c outcome (S f) st remote (Some lv) enq false = (st1, true).
Proof. exact removal_is_trashed_within_retention. Qed.
Print Assumptions C10_removal_is_trashed_within_retention.

Theorem C10_removal_is_immediate_without_retention : forall c outcome f st remote lv enq ct st1,
  find_ctype c (ce_t lv) = Some ct -> ce_kind lv = KRemoved ->
  not_deferred c (stepped st lv) lv enq ->
  cc_retention c = None ->
  local_removed outcome (stepped st lv) lv false = (st1, true) ->
  process_local c outcome (S f) st remote (Some lv) enq false = (st1, true).
Proof. exact removal_is_immediate_without_retention. Qed.
Print Assumptions C10_removal_is_immediate_without_retention.

Theorem C10_readd_is_recycled_within_retention : forall c outcome f st remote lv enq ct r a tr st1,
  find_ctype c (ce_t lv) = Some ct -> ce_kind lv = KAdded a ->
  not_deferred c (stepped st lv) lv enq ->
  cc_retention c = Some r -> l_trash st !! ce_id lv = Some tr ->
  local_recycled c outcome ct (stepped st lv) lv false = (st1, true) ->
  process_local c outcome (S f) st remote (Some lv) enq false = (st1, true).
Proof. exact readd_is_recycled_within_retention. Qed.
Print Assumptions C10_readd_is_recycled_within_retention.

(** effect of a successful 'trashed': out of the live cache, into the trashbin with the
    timestamp of the removal event, one handler call of kind trashed *)
Theorem C10_trashed_effect : forall outcome ct st lv o,
  outcome (ncall st) = HOk ->
  l_live st !! ce_id lv = Some o -> l_trash st !! ce_id lv = None -> poison st = [] ->
  let r := local_trashed outcome ct st lv false in
  snd r = true /\
  l_live (fst r) = delete (ce_id lv) (l_live st) /\
  l_trash (fst r) = <[ce_id lv := set_ts ct (ce_ts lv) o]> (l_trash st) /\
  exists cl, calls (fst r) = calls st ++ [cl] /\ cl_kind cl = HTrashed /\ cl_old cl = Some o.
Proof. exact trashed_effect. Qed.
Print Assumptions C10_trashed_effect.

(** effect of a successful 'recycled': the trashed object returns as it was, and exactly
    its differences with the re-added object are queued as one 'modified' whose
    application yields the re-added object *)
Theorem C10_recycled_effect : forall c outcome ct st lv tr0,
  outcome (ncall st) = HOk -> cc_remed c = RDisabled -> find_ctype c (ce_t lv) <> None ->
  l_trash st !! ce_id lv = Some tr0 -> l_live st !! ce_id lv = None -> poison st = [] ->
  let tr := del_ts ct tr0 in
  let o := new_obj (ce_kind lv) in
  let r := local_recycled c outcome ct st lv false in
  snd r = true /\
  l_live (fst r) = <[ce_id lv := tr]> (l_live st) /\
  l_trash (fst r) = delete (ce_id lv) (l_trash st) /\
  (exists cl, calls (fst r) = calls st ++ [cl] /\ cl_kind cl = HRecycled /\ cl_new cl = Some tr) /\
  (md_empty (odiff o tr) = false ->
   exists e, queue (fst r) = queue st ++ [e] /\ q_remote e = None /\
             ce_kind (q_local e) = KModified (odiff o tr) /\ apply_mod (odiff o tr) tr = o) /\
  (md_empty (odiff o tr) = true -> queue (fst r) = queue st).
Proof. exact recycled_effect. Qed.
Print Assumptions C10_recycled_effect.

(** ** R = 0: "an object is never both live and trashed, and nothing about it remains"
    A client that runs without trashbin never puts anything into any of its four trashbin caches:
    for every configuration without retention, every handler behaviour (failures and partial
    failures on any invocation), every remediation and foreign-key policy, every clock and every
    delivery, over any number of loop iterations (retry passes and purge passes included).  So no
    object is ever both live and trashed, and the caches keep no trashed remainder of a removed
    object.  (Starting from non-empty trashbins - retention switched from R to 0 across a restart -
    is finding F23.) *)
From Hermes Require Import Proofs.ClientNoTrash.
Theorem C10_R0_trashbins_stay_empty : forall c outcome,
  cc_retention c = None ->
  forall (its : list (Z * list (Z * cev))) cl,
  tb_empty (cl_st cl) ->
  tb_empty (cl_st (fold_left (fun cl it => client_iter c outcome cl (fst it) (snd it)) its cl)).
Proof. exact run_tb. Qed.
Print Assumptions C10_R0_trashbins_stay_empty.
Corollary C10_R0_never_live_and_trashed : forall c outcome,
  cc_retention c = None ->
  forall its cl i, tb_empty (cl_st cl) ->
  let st := cl_st (fold_left (fun cl it => client_iter c outcome cl (fst it) (snd it)) its cl) in
  l_trash st !! i = None /\ r_trash st !! i = None /\ lc_trash st !! i = None /\ rc_trash st !! i = None.
Proof. exact run_never_both. Qed.
Print Assumptions C10_R0_never_live_and_trashed.
(** non-vacuity: the initial state of a client satisfies the hypothesis *)
Example C10_R0_initial_state : tb_empty cstate0.
Proof. repeat split. Qed.

(** C12 - Initialisation from an initsync sequence is complete, exclusive and one-shot. *)
From Hermes Require Import Model.Objects Model.Server Model.Client Model.Init Proofs.Server Proofs.Init Proofs.Initsync.

(** The scan loop of the client (mutable start marker, early exit) returns exactly the oldest /
    the newest element of the declaratively defined list of complete sequences, for every bus:
    any interleaving of base events, sequences and truncated sequences. *)
Theorem C12_choice : forall first b, scan first b = choose first (complete b).
Proof. exact scan_spec. Qed.
Print Assumptions C12_choice.

(** every listed pair is an init-start, then data events only, then an init-stop: a truncated
    sequence (init-start followed by another init-start) is never chosen *)
Theorem C12_chosen_is_complete : forall b s e, In (s, e) (complete b) ->
  exists pre mid post, b = pre ++ (s, BStart) :: mid ++ (e, BStop) :: post /\ Forall is_data mid.
Proof. exact complete_brackets. Qed.
Print Assumptions C12_chosen_is_complete.

(** a client without state processes nothing while no complete sequence is visible *)
Theorem C12_no_sequence_no_processing : forall c outcome first ic visible budget now,
  initialised ic = false -> complete visible = [] ->
  let ic' := init_iter c outcome first ic visible budget now in
  calls (i_st ic') = calls (i_st ic) /\ ncall (i_st ic') = ncall (i_st ic) /\ queue (i_st ic') = queue (i_st ic) /\
  r_live (i_st ic') = r_live (i_st ic) /\ l_live (i_st ic') = l_live (i_st ic) /\
  i_next ic' = i_next ic /\ i_start ic' = i_start ic /\ i_stop ic' = i_stop ic.
Proof. exact no_sequence_no_processing. Qed.
Print Assumptions C12_no_sequence_no_processing.

(** one-shot: an initialised client keeps its recorded sequence whatever appears on the bus *)
Theorem C12_one_shot : forall c outcome first ic visible budget now,
  initialised ic = true ->
  let ic' := init_iter c outcome first ic visible budget now in
  i_start ic' = i_start ic /\ i_stop ic' = i_stop ic.
Proof. exact initialised_keeps_record. Qed.
Print Assumptions C12_one_shot.

(** a client interrupted inside the sequence it is loading goes on with that sequence, even
    if a newer complete one has appeared (repair of finding F8) *)
Theorem C12_begun_sequence_is_kept : forall c outcome first ic visible budget now ps pe n,
  initialised ic = false ->
  i_start ic = Some ps -> i_stop ic = Some pe -> i_next ic = Some n -> (ps < n)%Z ->
  In (ps, pe) (scan_go first visible None []) ->
  let ic' := init_iter c outcome first ic visible budget now in
  i_start ic' = Some ps /\ i_stop ic' = Some pe.
Proof. exact begun_sequence_is_kept. Qed.
Print Assumptions C12_begun_sequence_is_kept.

(** exclusive: base events met while initialising, and initsync items met afterwards, leave
    the whole client state untouched (they only move the offset) *)
Theorem C12_init_skips_base : forall c outcome st next stop began evs,
  Forall is_base evs -> fst (fst (init_events c outcome st next stop began evs)) = st.
Proof. exact init_skips_base. Qed.
Print Assumptions C12_init_skips_base.
Theorem C12_base_skips_initsync : forall c outcome st next evs,
  Forall is_init evs -> fst (base_events c outcome st next evs) = st.
Proof. exact base_skips_initsync. Qed.
Print Assumptions C12_base_skips_initsync.

(** server side: replaying an initsync sequence from nothing yields, object by object, the
    published cache without its secret attributes - the state at the moment it was requested *)
Theorem C12_initsync_is_published_state : forall c cache,
  cfg_ok c -> replay (ev_initsync c cache) ∅ = pub c cache.
Proof. exact initsync_is_published_state. Qed.
Print Assumptions C12_initsync_is_published_state.

(** non-vacuity: a bus with a truncated sequence, a complete one and a later complete one *)
Definition ex_ev : cev := CEv 1 1 (KAdded ∅) 0 0 false.
Definition ex_bus : ibus :=
  [(1, BData false ex_ev); (2, BStart); (3, BData true ex_ev); (4, BStart); (5, BData true ex_ev); (6, BStop);
   (7, BData false ex_ev); (8, BStop); (9, BStart); (10, BStop)]%Z.
Example C12_example : complete ex_bus = [(4, 6); (9, 10)]%Z /\ scan true ex_bus = Some (4, 6)%Z /\ scan false ex_bus = Some (9, 10)%Z.
Proof. vm_compute. repeat split. Qed.

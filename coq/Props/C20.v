(** C20 - The control socket is robust and truthful. *)
From Hermes Require Import Model.Socket Proofs.Socket.

(** whatever arrives is either dropped or handled; the listener goes on *)
Theorem C20_every_message_dropped_or_handled : forall m,
  decode m = Dropped \/ exists w, decode m = Handled w.
Proof. exact decode_total. Qed.
Print Assumptions C20_every_message_dropped_or_handled.

(** a paused application neither polls nor processes on its own *)
Theorem C20_paused_idle : forall interval s,
  f_paused (sc_flags s) = true -> f_force (sc_flags s) = false ->
  is_poll (snd (loop_iter interval s)) = false.
Proof. exact paused_is_idle. Qed.
Print Assumptions C20_paused_idle.

Theorem C20_forced_update_once : forall interval s,
  f_force (sc_flags s) = true ->
  is_poll (snd (loop_iter interval s)) = true /\ f_force (sc_flags (fst (loop_iter interval s))) = false
  /\ sc_next (fst (loop_iter interval s)) = sc_next s.
Proof. exact forced_update_polls_once. Qed.

(** the schedule stays within one interval of the clock through every iteration ... *)
Theorem C20_lag_invariant : forall interval s,
  1 <= interval -> lag s <= interval -> lag (fst (loop_iter interval s)) <= interval.
Proof. exact lag_invariant. Qed.
Print Assumptions C20_lag_invariant.

(** ... so it does not burst after a pause: at most two polls in a row *)
Theorem C20_no_burst : forall interval s,
  1 <= interval -> lag s <= interval -> f_force (sc_flags s) = false ->
  let s1 := fst (loop_iter interval s) in
  let s2 := fst (loop_iter interval s1) in
  is_poll (snd (loop_iter interval s)) = true ->
  is_poll (snd (loop_iter interval s1)) = true ->
  is_poll (snd (loop_iter interval s2)) = false.
Proof. exact no_burst. Qed.
Print Assumptions C20_no_burst.

Theorem C20_pause_twice : forall a f,
  f_stopped f = false -> f_paused f = false ->
  fst (command a f [1%nat]) = 0 /\ fst (command a (snd (command a f [1%nat])) [1%nat]) = 1.
Proof. exact pause_twice_refused. Qed.
Theorem C20_resume_needs_pause : forall a f,
  f_stopped f = false -> f_paused f = false -> fst (command a f [2%nat]) = 1.
Proof. exact resume_needs_pause. Qed.
Theorem C20_stopping_refuses : forall a f w,
  f_stopped f = true -> (w = [1%nat] \/ w = [2%nat]) -> command a f w = (1, f).
Proof. exact stopping_refuses_pause_resume. Qed.

(** C04 - A change is acknowledged only after the bus accepted it. *)
From Hermes Require Import Model.Objects Model.Server Proofs.Objects Proofs.Server.

(** Whatever prefix of a cycle the bus accepted before refusing, the server's
    published state is the old one with exactly that prefix applied. *)
Theorem C04_cache_tracks_accepted_prefix : forall c hint n o pre post,
  cfg_ok c -> gen_events_h c hint n o = pre ++ post ->
  vis c (foldl (upd_cache n) o pre) = replay pre (vis c o).
Proof. exact cache_tracks_prefix. Qed.
Print Assumptions C04_cache_tracks_accepted_prefix.

(** The send loop accepts a prefix, stops at the first refusal and sends nothing more. *)
Theorem C04_abort_stops_cycle : forall c n evs mem refused i mem' tr ok,
  send_loop c n evs mem refused i = (mem', tr, ok) ->
  exists pre post, evs = pre ++ post /\ base_events tr = pre /\ mem' = foldl (upd_cache n) mem pre
                   /\ (ok = true -> post = [])
                   /\ (ok = false -> exists e r, post = e :: r /\ exists tr0, tr = tr0 ++ [ARefused (Some e)]).
Proof. exact send_loop_spec. Qed.
Print Assumptions C04_abort_stops_cycle.

(** commit_one runs directly after the accepted send of the same object, never else. *)
Theorem C04_commit_one_after_accept : forall c n evs mem refused i mem' tr ok,
  send_loop c n evs mem refused i = (mem', tr, ok) -> commits_follow_sends c tr = true.
Proof. exact send_loop_commits. Qed.
Print Assumptions C04_commit_one_after_accept.

(** Across cycles, for every refusal schedule: what was accepted so far always equals
    the published state, so a later cycle diffs against it and re-sends nothing that
    was accepted and skips nothing that was not (exactly-once). *)
Theorem C04_every_schedule : forall c steps B st,
  cfg_ok c -> no_restart steps -> inv c B st ->
  let '(B', st') := track_run c B st steps in inv c B' st'.
Proof. exact run_inv. Qed.
Print Assumptions C04_every_schedule.

Theorem C04_resumed_cycle_completes_the_view : forall c st B isync view refused hint st' tr,
  cfg_ok c -> inv c B st ->
  sstep_run c st (SPoll isync false view refused hint) = (st', tr) -> no_refusal tr = true ->
  track c B (SPoll isync false view refused hint) st' tr = Some (vis c view).
Proof. exact sstep_complete. Qed.
Print Assumptions C04_resumed_cycle_completes_the_view.

Example C04_nonvacuous :
  let c := [TCfg 1 [] [] [] [] true false] in
  let n : world := list_to_map [((1%N, 1%Z), list_to_map [(1%N, VInt 1)]); ((1%N, 2%Z), list_to_map [(1%N, VInt 2)])] in
  let '(m, tr, ok) := send_loop c n (gen_events_h c [] n ∅) ∅ [1%nat] 0 in
  ok = false /\ length tr = 3%nat.
Proof. vm_compute. split; reflexivity. Qed.

(** ** tie to the source text (Generated/Facts.v): inside the pass loop the call order is
    msgbus.send, then dm.commit_one - the order the model's action trace uses *)
From Hermes Require Import Proofs.FactsTieServer.
Theorem C04_send_then_commit_one_is_the_source_s : forall c e t k,
  commit_one_of c e = [ACommitOne t k] ->
  map action_call (ASend false e :: commit_one_of c e) = Generated.Facts.cycle_bus_calls.
Proof. exact send_then_commit_one_tie. Qed.
Print Assumptions C04_send_then_commit_one_is_the_source_s.

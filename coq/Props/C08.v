(** C08 - Auto-remediation never changes the outcome. *)
From Hermes Require Import Model.Objects Model.Client Proofs.Objects Proofs.Client Proofs.Remediation.

(** merging two queued 'modified' events yields an event whose effect equals applying
    the two in order - for all attribute maps (the second being a well-formed diff
    against the state the first produces) *)
Theorem C08_merge_modified_modified : forall p l o,
  wf_diff p o -> wf_diff l (apply_mod p o) ->
  apply_mod (merge_mod p l) o = apply_mod l (apply_mod p o).
Proof. exact merge_mod_effect. Qed.
Print Assumptions C08_merge_modified_modified.

(** 'added' + 'modified' = 'added' of the final object *)
Theorem C08_merge_added_modified : forall a l, apply_to_added a l = apply_mod l a.
Proof. exact merge_added_modified_effect. Qed.

(** every pair of queued events of one object, every policy: what [_mergeEvents] leaves in the
    queue has the effect of the two events applied in order. [o] is the object on the target
    before the pair (None = absent); the pair is consistent with that state; the caches handed
    to the merge hold [o] and the expected final object. Both entries stay (MNo), both leave
    because nothing is to be done (MBoth), or one event replaces them (MMerged). *)
Theorem C08_merge_pair_effect : forall pol p l (o : option obj),
  match ce_kind p, o with
  | KAdded _, None | KModified _, Some _ | KRemoved, Some _ => True
  | _, _ => False end ->
  match ce_kind l, ev_effect (ce_kind p) o with
  | KAdded _, None | KModified _, Some _ | KRemoved, Some _ => True
  | _, _ => False end ->
  (forall dp, ce_kind p = KModified dp -> forall oo, o = Some oo -> wf_diff dp oo) ->
  (forall dl, ce_kind l = KModified dl -> forall oo, ev_effect (ce_kind p) o = Some oo -> wf_diff dl oo) ->
  let final := ev_effect (ce_kind l) (ev_effect (ce_kind p) o) in
  match merge_events pol (Some p) (Some l) o final with
  | MNo => True
  | MBoth => final = o
  | MMerged (Some e) => ev_effect (ce_kind e) o = final
  | MMerged None | MBug => False
  end.
Proof. exact merge_effect. Qed.
Print Assumptions C08_merge_pair_effect.

(** 'removed' + 'added' under maximum: the 'modified' that turns the object still on the target
    into the re-added one, never empty; cancelled only when the two objects are equal *)
Theorem C08_merge_removed_added : forall p l a co no,
  ce_kind p = KRemoved -> ce_kind l = KAdded a ->
  match merge_events RMaximum (Some p) (Some l) (Some co) (Some no) with
  | MMerged (Some e) => exists d, ce_kind e = KModified d /\ md_empty d = false /\ apply_mod d co = no
  | MBoth => co = no
  | _ => False
  end.
Proof. exact merge_removed_added. Qed.
(** an object that comes back with one attribute less is not a cancellation *)
Example C08_readd_with_fewer_attributes :
  let co : obj := list_to_map [(1%N, VInt 1); (2%N, VInt 1)] in
  let no : obj := list_to_map [(1%N, VInt 1)] in
  match merge_events RMaximum (Some (CEv 1 1 KRemoved 0 0 false)) (Some (CEv 1 1 (KAdded no) 0 0 false)) (Some co) (Some no) with
  | MMerged (Some e) => match ce_kind e with KModified d => map_to_list (apply_mod d co) = map_to_list no | _ => False end
  | _ => False end.
Proof. vm_compute. reflexivity. Qed.

(** an event already partially applied to the target is never merged *)
Theorem C08_partial_never_merged : forall c st q num last prev rest,
  cc_remed c <> RDisabled ->
  List.find (fun e => Z.eqb (q_num e) num) q = Some last ->
  rev (List.filter (fun e => idq (ce_id (q_local e)) (ce_id (q_local last))) q) = last :: prev :: rest ->
  ce_partial (q_local prev) || ce_partial (q_local last)
    || ev_partial (q_remote prev) || ev_partial (q_remote last) = true ->
  remediate c st q num = q.
Proof. exact remediate_skips_partial. Qed.
Print Assumptions C08_partial_never_merged.

Theorem C08_disabled_is_identity : forall c st q num, cc_remed c = RDisabled -> remediate c st q num = q.
Proof. exact remediate_disabled. Qed.

(** the diff of a well-formed object pair is a well-formed diff: the hypothesis of the
    merge theorem is met by every event the server emits *)
Example C08_nonvacuous :
  let o : obj := list_to_map [(1%N, VInt 1); (2%N, VInt 2)] in
  let n : obj := list_to_map [(1%N, VInt 1); (3%N, VInt 3)] in
  let n2 : obj := list_to_map [(2%N, VInt 5); (3%N, VInt 4)] in
  map_to_list (apply_mod (merge_mod (odiff n o) (odiff n2 n)) o) = map_to_list n2.
Proof. vm_compute. reflexivity. Qed.

(** Refutation for chains (finding F20): merging is not closed under chaining.  An attribute
    removed, re-added, then removed again by three queued 'modified' events: merged pairwise
    the three events cancel out and leave the attribute in place, applied in order they
    delete it. *)
Definition f20_o : obj := {[ 1%N := VInt 5 ]}.
Definition f20_d1 : mdiff := MDiff ∅ ∅ {[ 1%N := VNone ]}.
Definition f20_d2 : mdiff := MDiff {[ 1%N := VInt 7 ]} ∅ ∅.
Definition f20_d3 : mdiff := MDiff ∅ ∅ {[ 1%N := VNone ]}.
Example C08_chain_of_three_refuted :
  apply_mod f20_d3 (apply_mod f20_d2 (apply_mod f20_d1 f20_o)) !! 1%N = None /\
  apply_mod (merge_mod (merge_mod f20_d1 f20_d2) f20_d3) f20_o !! 1%N = Some (VInt 5).
Proof. vm_compute. split; reflexivity. Qed.

(** ** tie to the source text (Generated/Facts.v): the pairs [ErrorQueue._mergeEvents] declares
    impossible, and the pairs it merges only under the policy 'maximum', are exactly those of
    the model's [merge_events]; every other pair is merged alike under both merging policies *)
From Hermes Require Import Proofs.FactsTieClient.
Theorem C08_bug_pairs_are_the_source_s : forall pol p l cur new,
  merge_events pol (Some p) (Some l) cur new = MBug <->
  pair_in (kind_name (ce_kind p)) (kind_name (ce_kind l)) Generated.Facts.merge_bug_pairs = true.
Proof. exact merge_bug_tie. Qed.
Print Assumptions C08_bug_pairs_are_the_source_s.
Theorem C08_maximum_only_pairs_are_the_source_s : forall pol p l cur new,
  pol <> RMaximum ->
  pair_in (kind_name (ce_kind p)) (kind_name (ce_kind l)) Generated.Facts.merge_max_only_pairs = true ->
  merge_events pol (Some p) (Some l) cur new = MNo.
Proof. exact merge_max_only_tie. Qed.
Print Assumptions C08_maximum_only_pairs_are_the_source_s.
Theorem C08_other_pairs_policy_independent : forall p l cur new,
  pair_in (kind_name (ce_kind p)) (kind_name (ce_kind l)) Generated.Facts.merge_max_only_pairs = false ->
  merge_events RConservative (Some p) (Some l) cur new = merge_events RMaximum (Some p) (Some l) cur new.
Proof. exact merge_policy_independent_tie. Qed.
Print Assumptions C08_other_pairs_policy_independent.

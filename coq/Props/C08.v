(** C08 - Auto-remediation never changes the outcome. *)
From Hermes Require Import Model.Objects Model.Client Proofs.Objects Proofs.Client.

(** merging two queued 'modified' events yields an event whose effect equals applying
    the two in order - for all attribute maps (the second being a well-formed diff
    against the state the first produces) *)
Theorem C08_merge_modified_modified : forall p l o,
  wf_diff p o -> wf_diff l (apply_mod p o) ->
  apply_mod (merge_mod p l) o = apply_mod l (apply_mod p o).
Proof. exact merge_mod_effect. Qed.
Print Assumptions C08_merge_modified_modified.

(** 'added' + 'modified' = 'added' of the final object *)
Theorem C08_merge_added_modified : forall a l, apply_to_added a l = apply_mod l a.
Proof. exact merge_added_modified_effect. Qed.

(** an event already partially applied to the target is never merged *)
Theorem C08_partial_never_merged : forall c st q num last prev rest,
  cc_remed c <> RDisabled ->
  List.find (fun e => Z.eqb (q_num e) num) q = Some last ->
  rev (List.filter (fun e => idq (ce_id (q_local e)) (ce_id (q_local last))) q) = last :: prev :: rest ->
  ce_partial (q_local prev) || ce_partial (q_local last)
    || ev_partial (q_remote prev) || ev_partial (q_remote last) = true ->
  remediate c st q num = q.
Proof. exact remediate_skips_partial. Qed.
Print Assumptions C08_partial_never_merged.

Theorem C08_disabled_is_identity : forall c st q num, cc_remed c = RDisabled -> remediate c st q num = q.
Proof. exact remediate_disabled. Qed.

(** the diff of a well-formed object pair is a well-formed diff: the hypothesis of the
    merge theorem is met by every event the server emits *)
Example C08_nonvacuous :
  let o : obj := list_to_map [(1%N, VInt 1); (2%N, VInt 2)] in
  let n : obj := list_to_map [(1%N, VInt 1); (3%N, VInt 3)] in
  let n2 : obj := list_to_map [(2%N, VInt 5); (3%N, VInt 4)] in
  map_to_list (apply_mod (merge_mod (odiff n o) (odiff n2 n)) o) = map_to_list n2.
Proof. vm_compute. reflexivity. Qed.

(** Refutation for chains (finding F20): merging is not closed under chaining.  An attribute
    removed, re-added, then removed again by three queued 'modified' events: merged pairwise
    the three events cancel out and leave the attribute in place, applied in order they
    delete it. *)
Definition f20_o : obj := {[ 1%N := VInt 5 ]}.
Definition f20_d1 : mdiff := MDiff ∅ ∅ {[ 1%N := VNone ]}.
Definition f20_d2 : mdiff := MDiff {[ 1%N := VInt 7 ]} ∅ ∅.
Definition f20_d3 : mdiff := MDiff ∅ ∅ {[ 1%N := VNone ]}.
Example C08_chain_of_three_refuted :
  apply_mod f20_d3 (apply_mod f20_d2 (apply_mod f20_d1 f20_o)) !! 1%N = None /\
  apply_mod (merge_mod (merge_mod f20_d1 f20_d2) f20_d3) f20_o !! 1%N = Some (VInt 5).
Proof. vm_compute. split; reflexivity. Qed.

(** C13 - Multi-source merge follows the declared key constraints and conflict policy. *)
From Hermes Require Import Model.Fetch Proofs.Fetch.

(** One merge step with a duplicate-free source, per key - the whole statement:
    noConstraint = union; mustNotExist = only new keys, keys on both sides dropped;
    mustAlreadyExist = only existing keys enriched; mustExistInBoth = intersection;
    attributes united per key with the earlier source's value kept; under
    use_cached_entry a conflicting key is removed from the merge. *)
Theorem C13_merge_step_spec : forall c dmoc st objs k,
  NoDup (akeys objs) -> l_incons st = [] -> l_conf st = [] ->
  alookup k (l_data (fst (merge_with c dmoc st objs))) =
    match alookup k (l_data st), alookup k objs with
    | Some a, Some b => match c with
                        | MustNotExist => None
                        | _ => if dmoc && obj_conflict a b then None else Some (obj_union a b) end
    | Some a, None => match c with MustExistInBoth => None | _ => Some a end
    | None, Some b => match c with NoConstraint | MustNotExist => Some b | _ => None end
    | None, None => None
    end.
Proof. exact merge_with_spec. Qed.
Print Assumptions C13_merge_step_spec.

(** ... and exactly the conflicting keys are reported as merge conflicts
    (none at all under keep_first_value). *)
Theorem C13_conflicts_reported : forall c dmoc st objs k,
  NoDup (akeys objs) -> l_incons st = [] -> l_conf st = [] ->
  zmem k (l_conf (fst (merge_with c dmoc st objs))) =
    match alookup k (l_data st), alookup k objs with
    | Some a, Some b => match c with MustNotExist => false | _ => dmoc && obj_conflict a b end
    | _, _ => false
    end.
Proof. exact merge_with_conflicts. Qed.
Print Assumptions C13_conflicts_reported.

(** Every row of a source only affects its own key (the merge is a per-key fold). *)
Theorem C13_rows_are_independent : forall c dmoc acc ko k,
  kview k (merge_step c dmoc acc ko) =
    if Z.eqb k (fst ko) then kstep c dmoc (kview k acc) (snd ko) else kview k acc.
Proof. exact merge_step_local. Qed.

(** A key duplicated inside the first source is flagged and removed. *)
Theorem C13_duplicate_first_source : forall st k o o',
  zmem k (l_incons st) = false -> zmem k (l_conf st) = false -> alookup k (l_data st) = None ->
  let st2 := lappend (lappend st (k, o)) (k, o') in
  alookup k (l_data st2) = None /\ zmem k (l_incons st2) = true.
Proof. exact lappend_dup. Qed.
Print Assumptions C13_duplicate_first_source.

Example C13_nonvacuous :
  let a : olist := [(1%Z, list_to_map [(1%N, VInt 1); (2%N, VInt 7)]); (2%Z, list_to_map [(1%N, VInt 2)])] in
  let b : olist := [(1%Z, list_to_map [(1%N, VInt 1); (2%N, VInt 8); (3%N, VInt 9)]); (3%Z, list_to_map [(1%N, VInt 3)])] in
  akeys (l_data (fst (merge_with MustExistInBoth false (linit a) b))) = [1%Z]
  /\ l_conf (fst (merge_with NoConstraint true (linit a) b)) = [1%Z].
Proof. vm_compute. split; reflexivity. Qed.

(** C15 - Secret, local and cache-only attribute values go only where allowed
    (projections of the server model; the flows through files, logs and the client are
    decided by the marker scan of the harness). *)
From Hermes Require Import Model.Objects Model.Server Proofs.Server Proofs.Secrets.

(** what is written to a cache file never holds a local or a secret attribute, and is a
    function of the other attributes alone (non-interference) *)
Theorem C15_cache_files_hide_local_and_secret : forall tc o a,
  mem a (t_local tc) = true \/ mem a (t_secret tc) = true -> jsn_obj tc o !! a = None.
Proof. exact jsn_hides. Qed.
Print Assumptions C15_cache_files_hide_local_and_secret.
Theorem C15_cache_files_noninterference : forall tc o1 o2,
  (forall a, unsaved_of tc a = false -> o1 !! a = o2 !! a) -> jsn_obj tc o1 = jsn_obj tc o2.
Proof. exact jsn_noninterference. Qed.
Print Assumptions C15_cache_files_noninterference.

(** no event of any cycle mentions a local or a cache-only attribute *)
Theorem C15_events_hide_local_and_cacheonly : forall c hint n o e tc a,
  cfg_ok c -> e ∈ gen_events_h c hint n o -> tc ∈ c -> e_t e = t_id tc ->
  mem a (t_local tc) = true \/ mem a (t_cacheonly tc) = true -> ~ ev_mentions e a.
Proof. exact events_hide_local_cacheonly. Qed.
Print Assumptions C15_events_hide_local_and_cacheonly.
Theorem C15_published_view_noninterference : forall tc o1 o2,
  (forall a, hidden_of tc a = false -> o1 !! a = o2 !! a) -> vis_obj tc o1 = vis_obj tc o2.
Proof. exact vis_noninterference. Qed.
Print Assumptions C15_published_view_noninterference.

(** a change that only affects local or cache-only attributes produces no event *)
Theorem C15_hidden_changes_silent : forall c hint n o,
  cfg_ok c -> vis c n = vis c o -> (forall i, is_Some (n !! i) <-> is_Some (o !! i)) ->
  gen_events_h c hint n o = [].
Proof. exact hidden_changes_silent. Qed.
Print Assumptions C15_hidden_changes_silent.

(** an initsync sequence mentions no secret attribute (after the repair of F9a) *)
Theorem C15_initsync_secret_free : forall c cache e a tc,
  e ∈ ev_initsync c cache -> e_t e = t_id tc -> tc ∈ c -> cfg_ok c ->
  mem a (t_secret tc) = true -> ~ ev_mentions e a.
Proof. exact initsync_secret_free. Qed.
Print Assumptions C15_initsync_secret_free.

(** C07 - Handler failures stay isolated per object, keep its order, heal when faults end. *)
From Hermes Require Import Model.Objects Model.Client Proofs.Client Proofs.ClientFK Proofs.ClientFail.

(** a raising handler leaves every cache, the queue and the exception flag untouched: its only
    trace is the handler log (with the outcome) and the progress marker - for each of the
    five operations, in every state *)
Theorem C07_added_handler_raises : forall outcome st lev,
  outcome (ncall st) <> HOk ->
  exists st1, local_added outcome st lev false = (st1, false) /\ same_data st1 st /\
    calls st1 = calls st ++ [Call HAdded (ce_t lev) (ce_k lev) (ce_kind lev) (Some (new_obj (ce_kind lev))) None
                                  (curstep st) (curpartial st) (is_retry st) (outcome (ncall st))].
Proof. exact added_handler_raises. Qed.
Print Assumptions C07_added_handler_raises.
Theorem C07_modified_handler_raises : forall outcome st lev old,
  outcome (ncall st) <> HOk -> l_live st !! ce_id lev = Some old ->
  exists st1, local_modified outcome st lev false = (st1, false) /\ same_data st1 st /\
    calls st1 = calls st ++ [Call HModified (ce_t lev) (ce_k lev) (ce_kind lev) (Some (apply_mod (the_diff (ce_kind lev)) old)) (Some old)
                                  (curstep st) (curpartial st) (is_retry st) (outcome (ncall st))].
Proof. exact modified_handler_raises. Qed.
Print Assumptions C07_modified_handler_raises.
Theorem C07_removed_handler_raises : forall outcome st lev,
  outcome (ncall st) <> HOk ->
  exists st1, local_removed outcome st lev false = (st1, false) /\ same_data st1 st /\
    calls st1 = calls st ++ [Call HRemoved (ce_t lev) (ce_k lev) (ce_kind lev) None
                                  (option_map snd (lookup2 (l_live st) (l_trash st) (ce_id lev)))
                                  (curstep st) (curpartial st) (is_retry st) (outcome (ncall st))].
Proof. exact removed_handler_raises. Qed.
Print Assumptions C07_removed_handler_raises.
Theorem C07_trashed_handler_raises : forall outcome ct st lev,
  outcome (ncall st) <> HOk ->
  exists st1, local_trashed outcome ct st lev false = (st1, false) /\ same_data st1 st /\
    calls st1 = calls st ++ [Call HTrashed (ce_t lev) (ce_k lev) (ce_kind lev) None (l_live st !! ce_id lev)
                                  (curstep st) (curpartial st) (is_retry st) (outcome (ncall st))].
Proof. exact trashed_handler_raises. Qed.
Print Assumptions C07_trashed_handler_raises.
Theorem C07_recycled_handler_raises : forall c outcome ct st lev tr0,
  outcome (ncall st) <> HOk -> l_trash st !! ce_id lev = Some tr0 ->
  exists st1, local_recycled c outcome ct st lev false = (st1, false) /\ same_data st1 st /\
    calls st1 = calls st ++ [Call HRecycled (ce_t lev) (ce_k lev) (KAdded (del_ts ct tr0)) (Some (del_ts ct tr0)) None
                                  (curstep st) (curpartial st) (is_retry st) (outcome (ncall st))].
Proof. exact recycled_handler_raises. Qed.
Print Assumptions C07_recycled_handler_raises.

(** a later event for an object that has queue entries invokes no handler and is queued last *)
Theorem C07_same_object_queues_behind : forall c outcome f st rev,
  mapped c (ce_t rev) = true -> q_has_obj (queue st) (ce_id rev) = true ->
  let r := process_remote c outcome (S f) st rev None true false in
  calls (fst r) = calls st /\ ncall (fst r) = ncall st /\ snd r = true /\
  (cc_remed c = RDisabled ->
   forall l, convert c true rev = Some l ->
   exists e, queue (fst r) = queue st ++ [e] /\ q_remote e = Some rev /\ q_num e = q_next_num (queue st)).
Proof. exact same_object_event_deferred. Qed.
Print Assumptions C07_same_object_queues_behind.

(** the simulated pass that follows a failure only moves the expected-state caches *)
Theorem C07_simulation_keeps_target_side : forall c outcome f st rev lev enq,
  same_log (fst (process_remote c outcome f st rev lev enq true)) st.
Proof. exact process_remote_sim. Qed.
Print Assumptions C07_simulation_keeps_target_side.

(** the retry offers only the oldest entry of each object: its events are never re-ordered *)
Theorem C07_retry_offers_oldest_only : forall q e e',
  q_is_oldest q e = true -> In e' q -> ce_id (q_local e') = ce_id (q_local e) -> (q_num e <= q_num e')%Z.
Proof. exact oldest_is_minimal. Qed.
Print Assumptions C07_retry_offers_oldest_only.

(** C07 - Handler failures stay isolated per object, keep its order, heal when faults end. *)
From Hermes Require Import Model.Objects Model.Client Proofs.Client.

(** the retry only ever offers the oldest queued entry of each object: a younger event
    of an object is never applied before an older one *)
Theorem C07_retry_offers_oldest_only : forall q e e',
  q_is_oldest q e = true -> In e' q -> ce_id (q_local e') = ce_id (q_local e) -> (q_num e <= q_num e')%Z.
Proof. exact oldest_is_minimal. Qed.
Print Assumptions C07_retry_offers_oldest_only.

(** C07 - Handler failures stay isolated per object, keep its order, heal when faults end. *)
From Hermes Require Import Model.Objects Model.Client Proofs.Client Proofs.ClientFK Proofs.ClientFail.

(** a raising handler leaves every cache, the queue and the exception flag untouched: its only
    trace is the handler log (with the outcome) and the progress marker - for each of the
    five operations, in every state *)
Theorem C07_added_handler_raises : forall outcome st lev,
  outcome (ncall st) <> HOk ->
  exists st1, local_added outcome st lev false = (st1, false) /\ same_data st1 st /\
    calls st1 = calls st ++ [Call HAdded (ce_t lev) (ce_k lev) (ce_kind lev) (Some (new_obj (ce_kind lev))) None
                                  (curstep st) (curpartial st) (is_retry st) (outcome (ncall st))].
Proof. exact added_handler_raises. Qed.
Print Assumptions C07_added_handler_raises.
Theorem C07_modified_handler_raises : forall outcome st lev old,
  outcome (ncall st) <> HOk -> l_live st !! ce_id lev = Some old ->
  exists st1, local_modified outcome st lev false = (st1, false) /\ same_data st1 st /\
    calls st1 = calls st ++ [Call HModified (ce_t lev) (ce_k lev) (ce_kind lev) (Some (apply_mod (the_diff (ce_kind lev)) old)) (Some old)
                                  (curstep st) (curpartial st) (is_retry st) (outcome (ncall st))].
Proof. exact modified_handler_raises. Qed.
Print Assumptions C07_modified_handler_raises.
Theorem C07_removed_handler_raises : forall outcome st lev,
  outcome (ncall st) <> HOk ->
  exists st1, local_removed outcome st lev false = (st1, false) /\ same_data st1 st /\
    calls st1 = calls st ++ [Call HRemoved (ce_t lev) (ce_k lev) (ce_kind lev) None
                                  (option_map snd (lookup2 (l_live st) (l_trash st) (ce_id lev)))
                                  (curstep st) (curpartial st) (is_retry st) (outcome (ncall st))].
Proof. exact removed_handler_raises. Qed.
Print Assumptions C07_removed_handler_raises.
Theorem C07_trashed_handler_raises : forall outcome ct st lev,
  outcome (ncall st) <> HOk ->
  exists st1, local_trashed outcome ct st lev false = (st1, false) /\ same_data st1 st /\
    calls st1 = calls st ++ [Call HTrashed (ce_t lev) (ce_k lev) (ce_kind lev) None (l_live st !! ce_id lev)
                                  (curstep st) (curpartial st) (is_retry st) (outcome (ncall st))].
Proof. exact trashed_handler_raises. Qed.
Print Assumptions C07_trashed_handler_raises.
Theorem C07_recycled_handler_raises : forall c outcome ct st lev tr0,
  outcome (ncall st) <> HOk -> l_trash st !! ce_id lev = Some tr0 ->
  exists st1, local_recycled c outcome ct st lev false = (st1, false) /\ same_data st1 st /\
    calls st1 = calls st ++ [Call HRecycled (ce_t lev) (ce_k lev) (KAdded (del_ts ct tr0)) (Some (del_ts ct tr0)) None
                                  (curstep st) (curpartial st) (is_retry st) (outcome (ncall st))].
Proof. exact recycled_handler_raises. Qed.
Print Assumptions C07_recycled_handler_raises.

(** a later event for an object that has queue entries invokes no handler and is queued last *)
Theorem C07_same_object_queues_behind : forall c outcome f st rev,
  mapped c (ce_t rev) = true -> q_has_obj (queue st) (ce_id rev) = true ->
  let r := process_remote c outcome (S f) st rev None true false in
  calls (fst r) = calls st /\ ncall (fst r) = ncall st /\ snd r = true /\
  (cc_remed c = RDisabled ->
   forall l, convert c true rev = Some l ->
   exists e, queue (fst r) = queue st ++ [e] /\ q_remote e = Some rev /\ q_num e = q_next_num (queue st)).
Proof. exact same_object_event_deferred. Qed.
Print Assumptions C07_same_object_queues_behind.

(** the simulated pass that follows a failure only moves the expected-state caches *)
Theorem C07_simulation_keeps_target_side : forall c outcome f st rev lev enq,
  same_log (fst (process_remote c outcome f st rev lev enq true)) st.
Proof. exact process_remote_sim. Qed.
Print Assumptions C07_simulation_keeps_target_side.

(** the retry offers only the oldest entry of each object: its events are never re-ordered *)
Theorem C07_retry_offers_oldest_only : forall q e e',
  q_is_oldest q e = true -> In e' q -> ce_id (q_local e') = ce_id (q_local e) -> (q_num e <= q_num e')%Z.
Proof. exact oldest_is_minimal. Qed.
Print Assumptions C07_retry_offers_oldest_only.

(** ** healing: "once handlers stop failing the queue drains on retry"
    From ANY state of a client without trashbin whose queue registers no parent (whatever the
    eight caches and the queue hold, whatever the remediation policy, however the state was
    reached), one [__retryErrorQueue] with handlers that all succeed either empties the queue
    or ends on an unexpected exception (the wedges recorded as findings F5 / F19 / F32: a retried
    event that meets no object).  Queue numbers strictly increasing and "no parent registered"
    are what [q_append] maintains (last two theorems). *)
From Hermes Require Import Proofs.ClientDrain.
From Coq Require Import Sorting.Sorted.
Theorem C07_healthy_retry_drains_the_queue : forall c,
  cc_retention c = None -> forall st, l_trash st = ∅ -> no_parents (queue st) ->
  StronglySorted Z.lt (map q_num (queue st)) ->
  let st' := retry_queue c healthy st in
  exc st' = true \/ queue st' = [].
Proof. exact healthy_retry_drains. Qed.
Print Assumptions C07_healthy_retry_drains_the_queue.
(** every direct processing step of a retry with a healthy handler succeeds or raises, and the
    queue only loses entries *)
Theorem C07_healthy_retry_step : forall c,
  cc_retention c = None -> forall st rev lev, l_trash st = ∅ ->
  let r := process_remote c healthy FUEL st rev lev false false in
  (snd r = true \/ exc (fst r) = true) /\ (forall e, In e (queue (fst r)) -> In e (queue st)) /\
  (l_trash st = ∅ -> l_trash (fst r) = ∅).
Proof. exact process_remote_h. Qed.
Print Assumptions C07_healthy_retry_step.
Theorem C07_append_keeps_numbers_increasing : forall c st remote lev msg,
  cc_remed c = RDisabled -> StronglySorted Z.lt (map q_num (queue st)) ->
  StronglySorted Z.lt (map q_num (queue (q_append c st remote lev msg))).
Proof. exact q_append_keeps_sorted. Qed.
Print Assumptions C07_append_keeps_numbers_increasing.
Theorem C07_append_registers_no_parent_without_fk : forall c st remote lev msg,
  cc_remed c = RDisabled -> Forall (fun ct => ct_fks ct = []) (cc_types c) -> no_parents (queue st) ->
  no_parents (queue (q_append c st remote lev msg)).
Proof. exact q_append_no_parents. Qed.
Print Assumptions C07_append_registers_no_parent_without_fk.

(** non-vacuity: object (1,5) is on the target; its 'modified' failed and a second 'modified'
    was queued behind it; the hypotheses hold, the healthy retry applies both in order (two
    handler calls, the queue is empty, no exception, live = expected state) *)
Definition dr_cfg : ccfg := CCfg [CType 1 [(10%N, 1%N); (11%N, 2%N)] [] 99] None FKDisabled RDisabled 99 [1%N].
Definition dr_obj : obj := {[ 10%N := VInt 5; 11%N := VInt 0 ]}.
Definition dr_ev (v : Z) : cev := CEv 1 5 (KModified (MDiff ∅ {[ 11%N := VInt v ]} ∅)) 0 0 false.
Definition dr_rev (v : Z) : cev := CEv 1 5 (KModified (MDiff ∅ {[ 2%N := VInt v ]} ∅)) 0 0 false.
Definition dr_state : cstate :=
  CState {[ (1%N, 5%Z) := {[ 1%N := VInt 5; 2%N := VInt 0 ]} ]} ∅ {[ (1%N, 5%Z) := {[ 1%N := VInt 5; 2%N := VInt 2 ]} ]} ∅
         {[ (1%N, 5%Z) := dr_obj ]} ∅ {[ (1%N, 5%Z) := {[ 10%N := VInt 5; 11%N := VInt 2 ]} ]} ∅
         [QEntry 1 (Some (dr_rev 1)) (dr_ev 1) true []; QEntry 2 (Some (dr_rev 2)) (dr_ev 2) true []]
         2 [] 0 false false false false [].
Example C07_drain_hypotheses_hold :
  cc_retention dr_cfg = None /\ l_trash dr_state = ∅ /\ no_parents (queue dr_state) /\
  StronglySorted Z.lt (map q_num (queue dr_state)).
Proof. repeat split; try reflexivity; repeat constructor. Qed.
Example C07_drain_example :
  let st' := retry_queue dr_cfg healthy dr_state in
  queue st' = [] /\ exc st' = false /\ length (calls st') = 2%nat /\
  (l_live st' !! (1%N, 5%Z)) ≫= (.!! 11%N) = Some (VInt 2) /\
  (lc_live st' !! (1%N, 5%Z)) ≫= (.!! 11%N) = Some (VInt 2) /\
  (r_live st' !! (1%N, 5%Z)) ≫= (.!! 2%N) = Some (VInt 2).
Proof. vm_compute. repeat split; reflexivity. Qed.

(** ** one failure, then healing = the failure-free run
    On a healthy client (any content: local data = whatever the two caches hold, queue empty) a
    'modified' whose handler raises is parked: the target-side caches are untouched and the queue
    holds the event.  The next retry pass, the handler now succeeding, leaves EXACTLY the state
    the failure-free client reaches on that event ([C06_one_event]): same eight caches, empty
    queue, no exception; only the handler log remembers the failed attempt.  For every
    configuration (remediation disabled, the event's type without foreign key; trashbins empty),
    every such state and every 'modified' event with a local effect. *)
From Hermes Require Import Proofs.ClientHealthy Proofs.ClientHeal.
Theorem C07_modified_failure_then_retry_is_failure_free : forall c outcome,
  cc_remed c = RDisabled ->
  forall r l n cs stp prt rty fr e ct d old lold,
  find_ctype c (ce_t e) = Some ct -> ct_fks ct = [] -> ce_kind e = KModified d ->
  md_empty (conv_diff ct d) = false ->
  r !! ce_id e = Some old -> l !! ce_id e = Some lold ->
  outcome n = HFail -> outcome (S n) = HOk ->
  let st1 := fst (process_remote c outcome FUEL (hstate r l n cs stp prt rty fr) e None true false) in
  (r_live st1 = r /\ l_live st1 = l /\ length (queue st1) = 1%nat) /\
  retry_queue c outcome st1 =
    hstate (<[ce_id e := apply_mod d old]> r) (<[ce_id e := apply_mod (conv_diff ct d) lold]> l) (S (S n))
           (cs ++ [failed_call e ct d lold rty HFail] ++ [failed_call e ct d lold true HOk])
           (ce_step e) (ce_partial e) false false.
Proof. exact modified_failure_heals. Qed.
Print Assumptions C07_modified_failure_then_retry_is_failure_free.
(** non-vacuity: the hypotheses hold for the object and configuration of the drain example *)
Example C07_failure_heals_hypotheses :
  find_ctype dr_cfg 1 = Some (CType 1 [(10%N, 1%N); (11%N, 2%N)] [] 99) /\
  md_empty (conv_diff (CType 1 [(10%N, 1%N); (11%N, 2%N)] [] 99) (MDiff ∅ {[ 2%N := VInt 1 ]} ∅)) = false.
Proof. vm_compute. split; reflexivity. Qed.

(** the same for an 'added' event: the failed creation is parked (nothing on the target side, the
    expected-state caches already hold the object), the healthy retry yields the failure-free state *)
From Hermes Require Import Proofs.ClientHealAdd.
Theorem C07_added_failure_then_retry_is_failure_free : forall c outcome,
  cc_retention c = None -> cc_remed c = RDisabled ->
  forall r l n cs stp prt rty fr e ct a,
  find_ctype c (ce_t e) = Some ct -> ct_fks ct = [] -> ce_kind e = KAdded a ->
  is_empty_map (conv_obj ct a) = false ->
  r !! ce_id e = None -> l !! ce_id e = None ->
  outcome n = HFail -> outcome (S n) = HOk ->
  let st1 := fst (process_remote c outcome FUEL (hstate r l n cs stp prt rty fr) e None true false) in
  (r_live st1 = r /\ l_live st1 = l /\ length (queue st1) = 1%nat) /\
  retry_queue c outcome st1 =
    hstate (<[ce_id e := a]> r) (<[ce_id e := conv_obj ct a]> l) (S (S n))
           (cs ++ [add_call e ct a rty HFail] ++ [add_call e ct a true HOk])
           (ce_step e) (ce_partial e) false false.
Proof. exact added_failure_heals. Qed.
Print Assumptions C07_added_failure_then_retry_is_failure_free.

(** ... and for a 'removed' event (no trashbin): the failed removal is parked (the object stays on
    the target side, the expected-state caches no longer hold it), the healthy retry yields the
    failure-free state.  With the three theorems, one failure of any kind of event on a healthy
    client heals to exactly the failure-free run. *)
From Hermes Require Import Proofs.ClientHealRem.
Theorem C07_removed_failure_then_retry_is_failure_free : forall c outcome,
  cc_retention c = None -> cc_remed c = RDisabled ->
  forall r l n cs stp prt rty fr e ct old lold,
  find_ctype c (ce_t e) = Some ct -> ct_fks ct = [] -> ce_kind e = KRemoved ->
  r !! ce_id e = Some old -> l !! ce_id e = Some lold ->
  outcome n = HFail -> outcome (S n) = HOk ->
  let st1 := fst (process_remote c outcome FUEL (hstate r l n cs stp prt rty fr) e None true false) in
  (r_live st1 = r /\ l_live st1 = l /\ length (queue st1) = 1%nat) /\
  retry_queue c outcome st1 =
    hstate (delete (ce_id e) r) (delete (ce_id e) l) (S (S n))
           (cs ++ [rem_call e lold rty HFail] ++ [rem_call e lold true HOk])
           (ce_step e) (ce_partial e) false false.
Proof. exact removed_failure_heals. Qed.
Print Assumptions C07_removed_failure_then_retry_is_failure_free.

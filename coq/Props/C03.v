(** C03 - Every prefix of the event stream is referentially closed (parents first). *)
From Hermes Require Import Model.Objects Model.Server Proofs.Objects Proofs.Server.

(** Events about one object: at most one per cycle, so they appear in poll order. *)
Theorem C03_per_object_order : forall c hint n o,
  cfg_ok c -> NoDup (map ev_id (gen_events_h c hint n o)).
Proof. exact gen_events_h_NoDup. Qed.
Print Assumptions C03_per_object_order.

(** C03 - Every prefix of the event stream is referentially closed (parents first). *)
From Hermes Require Import Model.Objects Model.Server Proofs.Objects Proofs.Server Proofs.Closed.

(** With types declared parents first, a closed published state and a closed new view, the
    state a reader reconstructs after ANY prefix of the cycle's stream (hence also after a
    cycle cut short by a bus failure) is referentially closed: parents are announced before
    their children, children are withdrawn before their parents.  For every configuration,
    view pair and ordering hint of the 'modified' events. *)
Theorem C03_every_prefix_closed : forall c hint n o P Q,
  cfg_ok c -> parents_first c -> wclosed c (vis c n) -> wclosed c (vis c o) ->
  gen_events_h c hint n o = P ++ Q -> wclosed c (replay P (vis c o)).
Proof. exact prefix_closed. Qed.
Print Assumptions C03_every_prefix_closed.

(** Events about one object: at most one per cycle, so they appear in poll order. *)
Theorem C03_per_object_order : forall c hint n o,
  cfg_ok c -> NoDup (map ev_id (gen_events_h c hint n o)).
Proof. exact gen_events_h_NoDup. Qed.
Print Assumptions C03_per_object_order.

(** the order facts behind it *)
Theorem C03_parents_announced_first : forall c hint n o tc1 tc2 e1 e2,
  cfg_ok c -> before c tc1 tc2 -> e1 ∈ ev_added tc1 n o -> e2 ∈ ev_added tc2 n o ->
  pre (gen_events_h c hint n o) e1 e2.
Proof. intros c hint n o tc1 tc2 e1 e2 Hc. exact (pre_added_parent_first c hint n o Hc tc1 tc2 e1 e2). Qed.
Print Assumptions C03_parents_announced_first.
Theorem C03_children_withdrawn_first : forall c hint n o tc1 tc2 e1 e2,
  cfg_ok c -> before c tc1 tc2 -> e1 ∈ ev_removed tc1 n o -> e2 ∈ ev_removed tc2 n o ->
  pre (gen_events_h c hint n o) e2 e1.
Proof. intros c hint n o tc1 tc2 e1 e2 Hc. exact (pre_removed_child_first c hint n o Hc tc1 tc2 e1 e2). Qed.
Print Assumptions C03_children_withdrawn_first.

(** non-vacuity: a parent type 1 and a child type 2 whose attribute 5 refers to it *)
Definition ex_c : cfg := [TCfg 1 [] [] [] [] false false; TCfg 2 [] [] [] [(5%N, 1%N)] false false].
Definition ex_o : world := {[ (1%N, 7%Z) := {[ 4%N := VInt 7 ]} ]}.
Definition ex_n : world := {[ (1%N, 8%Z) := {[ 4%N := VInt 8 ]}; (2%N, 1%Z) := {[ 5%N := VInt 8 ]} ]}.
Example C03_hypotheses_satisfiable : cfg_ok ex_c /\ parents_first ex_c /\ length (gen_events_h ex_c [] ex_n ex_o) = 3%nat.
Proof.
  split; [|split].
  - unfold cfg_ok. cbn. repeat constructor; set_solver.
  - intros tc a pt Hin Hfk. destruct Hin as [<-|[<-|[]]]; cbn in Hfk; [destruct Hfk|].
    destruct Hfk as [Hfk|[]]. inversion Hfk; subst.
    exists (TCfg 1 [] [] [] [] false false). split; [reflexivity|]. exists [], [], []. reflexivity.
  - vm_compute. reflexivity.
Qed.

(** ** tie to the source text (regenerated at every run, see Generated/Facts.v): the order of the
    three passes and the reversal of the type order for removals are those written in
    [HermesServer.generateAndSendEvents] now *)
From Hermes Require Import Proofs.FactsTieServer.
Theorem C03_pass_order_is_the_source_s : forall c n o, gen_events_facts c n o = gen_events c n o.
Proof. exact server_phases_tie. Qed.
Print Assumptions C03_pass_order_is_the_source_s.

(** Client kill cases (C11): the checkpoint mixture model against the real client killed
    inside its checkpoint, and the recovery run that follows. *)
From Hermes Require Export Corr.RunClient Model.Checkpoint.

Record kcase := KCase {
  kk_cfg : ccfg; kk_outcomes : list hres; kk_bus : list (Z * cev);
  kk_pre : list citer;          (* iterations of the first life, ended by a graceful stop *)
  kk_it : citer;                (* the interrupted iteration, as observed when it is left to complete *)
  kk_repl : list fileid;        (* cache files replaced before the process died, in order *)
  kk_post : list citer          (* what the restarted client did (handlers no longer fail) *)
}.
Definition with_bus (bus : list (Z * cev)) (it : citer) : citer :=
  CIter (ci_now it) (ci_restart it) (List.filter (fun p => (fst p <=? ci_limit it)%Z) bus)
        (ci_calls it) (ci_worlds it) (ci_queue it) (ci_next it) (ci_exc it) (ci_limit it) (ci_ret it) (ci_skips it).

Fixpoint run_iters (c : ccfg) (outs : list hres) (cl : client) (its : list citer) : client :=
  match its with [] => cl | it :: r => run_iters c outs (run_iter c outs cl it) r end.

(** files whose content differs between two checkpoints, in the order they are saved *)
Definition file_changed (old new : client) (f : fileid) : bool :=
  match f with
  | FQueue => negb (list_eqb2 (fun a b => q_eqb a (OQ (q_num b) (q_remote b) (q_local b) (q_msg b)))
                              (queue (cl_st old)) (queue (cl_st new)))
  | FData i t => negb (world_eqb (slice (world_of (cl_st old) i) t) (slice (world_of (cl_st new) i) t))
  | FOffset => negb (Z.eqb (cl_next old) (cl_next new))
  end.
Definition changed_files (c : ccfg) (old new : client) : list fileid :=
  List.filter (file_changed old new) (save_order (cc_alltypes c)).

Definition fileids_eqb (a b : list fileid) : bool :=
  Nat.eqb (length a) (length b) && forallb (fun p => fileid_eqb (fst p) (snd p)) (combine a b).

Definition kcorr (x : kcase) : list bool :=
  let c := kk_cfg x in
  let pre := map (with_bus (kk_bus x)) (kk_pre x) in
  let kit := with_bus (kk_bus x) (kk_it x) in
  let post := map (with_bus (kk_bus x)) (kk_post x) in
  let ok5 t := match t with (a, b, c, d, e) => a && b && c && d && e end in
  let cl_old := run_iters c (kk_outcomes x) client0 pre in
  let cl_new := run_iter c (kk_outcomes x) cl_old kit in
  let expected := changed_files c cl_old cl_new in
  let cl_k := mix_client cl_old cl_new (kk_repl x) in
  [ forallb ok5 (corr_iters c (kk_outcomes x) client0 pre);           (* first life *)
    ok5 (corr_iter (cc_ts c) cl_new kit);                               (* the iteration, uninterrupted *)
    fileids_eqb (kk_repl x) (firstn (length (kk_repl x)) expected);     (* replaced files = a prefix of the predicted order *)
    forallb ok5 (corr_iters c [] cl_k post) ].                          (* recovery from the mixed checkpoint *)
Definition corr_kcase (x : kcase) : bool := forallb id (kcorr x).

Definition check_kcases (f g : kcase -> bool) (l : list kcase) : list (Z * Z * Z) :=
  let fix go (i : Z) (l : list kcase) :=
    match l with
    | [] => []
    | x :: r => (i, b2z (f x), b2z (g x)) :: go (i + 1)%Z r
    end in
  List.filter (fun t => negb (Z.eqb (snd (fst t)) 1%Z && Z.eqb (snd t) 1%Z)) (go 0%Z l).
Definition kcorr_post_detail (x : kcase) :=
  let c := kk_cfg x in
  let pre := map (with_bus (kk_bus x)) (kk_pre x) in
  let kit := with_bus (kk_bus x) (kk_it x) in
  let post := map (with_bus (kk_bus x)) (kk_post x) in
  let cl_old := run_iters c (kk_outcomes x) client0 pre in
  let cl_new := run_iter c (kk_outcomes x) cl_old kit in
  (changed_files c cl_old cl_new, corr_iters c [] (mix_client cl_old cl_new (kk_repl x)) post).

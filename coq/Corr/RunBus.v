(** Correspondence and oracle for the SQLite bus plugins (C18). *)
From Hermes Require Export Model.BusLog.

(* bc_truth: for each BSeek, in order, the ground truth read by plain SQL at that moment:
   oldest retained offset (0 if none) and next offset to be written (0 if unknown) *)
(* bc_purges: for each BOpen, in order, read by plain SQL: the rows before the open as
   (offset, age in hundredths of a day at the moment of the open) and the offsets after it *)
Record bcase := BCase { bc_ops : list bop; bc_obs : list bout; bc_truth : list (Z * Z * bool);
                        bc_purges : list (list (Z * Z) * list Z) }.

Definition seekres_eqb (a b : seekres) : bool :=
  match a, b with SeekOk, SeekOk | SeekIndexError, SeekIndexError | SeekInvalid, SeekInvalid => true | _, _ => false end.
Fixpoint zz_eqb (a b : list (Z * Z)) : bool :=
  match a, b with
  | [], [] => true
  | (x, y) :: r, (x', y') :: r' => Z.eqb x x' && Z.eqb y y' && zz_eqb r r'
  | _, _ => false
  end.
Definition bout_eqb (a b : bout) : bool :=
  match a, b with
  | ONone, ONone => true
  | OSeek x, OSeek y => seekres_eqb x y
  | OIter x, OIter y => zz_eqb x y
  | _, _ => false
  end.
Fixpoint outs_eqb (a b : list bout) : bool :=
  match a, b with [], [] => true | x :: r, y :: r' => bout_eqb x y && outs_eqb r r' | _, _ => false end.
Definition corr_bcase (x : bcase) : bool := outs_eqb (brun bstate0 (bc_ops x)) (bc_obs x).

(** oracle on the observed outputs only: offsets strictly increase across ALL
    deliveries of all iterations following one seek, payloads are the sent ones in send
    order (payload ids are handed out in send order by the harness, so payload = offset
    relation is monotone), a seek below the oldest retained or above next is refused. *)
Fixpoint strictly_inc (l : list Z) : bool :=
  match l with
  | [] | [_] => true
  | x :: ((y :: _) as r) => (x <? y) && strictly_inc r
  end.
Fixpoint o18 (ops : list bop) (obs : list bout) (sent : Z) (last_delivered : option Z)
         (seeked : option Z) : bool :=
  match ops, obs with
  | op :: r, ob :: ro =>
      match op, ob with
      | BSend _, _ => o18 r ro (sent + 1) last_delivered seeked
      | BOpen _, _ => o18 r ro sent last_delivered None   (* a purge may legitimately remove what was sought *)
      | BSeek o, OSeek SeekOk => (o <=? sent + 1) && o18 r ro sent (Some (o - 1)) (Some o)
      | BSeek o, OSeek _ => o18 r ro sent last_delivered seeked
      | BSeekBegin, _ => o18 r ro sent None None
      | BIter, OIter l =>
          let offs := map fst l in
          strictly_inc offs
          && forallb (fun p => (fst p =? snd p)) l          (* payload k was the k-th event sent *)
          && forallb (fun o => o <=? sent) offs
          && match last_delivered, offs with
             | Some d, o :: _ => d <? o
             | _, _ => true end
          (* an accepted seek resumes at exactly that event: nothing silently skipped *)
          && match seeked, offs with
             | Some o, f :: _ => f =? o
             | _, _ => true end
          && o18 r ro sent (match rev offs with o :: _ => Some o | [] => last_delivered end)
                 (match offs with [] => seeked | _ => None end)
      | _, _ => o18 r ro sent last_delivered seeked
      end
  | _, _ => true
  end.
(** seeks are accepted exactly inside [oldest retained (or next when empty), next], and only
    when the event still exists or the offset is the next one to be written (third component of
    the ground truth: the sought offset is in the table) *)
Fixpoint o18_seek (ops : list bop) (obs : list bout) (truth : list (Z * Z * bool)) : bool :=
  match ops, obs with
  | BSeek o :: r, OSeek res :: ro =>
      match truth with
      | (lo, nxt, present) :: rt =>
          (if nxt =? 0 then negb (seekres_eqb res SeekOk)
           else let low := if lo =? 0 then nxt else lo in
                Bool.eqb (seekres_eqb res SeekOk) ((low <=? o) && (o <=? nxt) && (present || (o =? nxt))))
          && o18_seek r ro rt
      | [] => true
      end
  | _ :: r, _ :: ro => o18_seek r ro truth
  | _, _ => true
  end.
(** retention, per event and on SQL ground truth alone: an open with retention R removes every
    event older than R and keeps every younger one (one hundredth of a day of slack either side) *)
Fixpoint o18_purge (ops : list bop) (pur : list (list (Z * Z) * list Z)) : bool :=
  match ops with
  | BOpen ret :: r =>
      match pur with
      | (before, after) :: rp =>
          forallb (fun ia => let kept := existsb (Z.eqb (fst ia)) after in
                             (if ret + 1 <? snd ia then negb kept else true)
                             && (if snd ia <? ret - 1 then kept else true)) before
          && forallb (fun i => existsb (fun ia => Z.eqb (fst ia) i) before) after
          && o18_purge r rp
      | [] => true
      end
  | _ :: r => o18_purge r pur
  | [] => true
  end.
Definition c18_case (x : bcase) : bool :=
  o18 (bc_ops x) (bc_obs x) 0 None None && o18_seek (bc_ops x) (bc_obs x) (bc_truth x)
  && o18_purge (bc_ops x) (bc_purges x).

Definition b2z (b : bool) : Z := if b then 1 else 0.
Definition check_bcases (f g : bcase -> bool) (l : list bcase) : list (Z * Z * Z) :=
  let fix go (i : Z) (l : list bcase) :=
    match l with
    | [] => []
    | x :: r => (i, b2z (f x), b2z (g x)) :: go (i + 1) r
    end in
  List.filter (fun t => negb (Z.eqb (snd (fst t)) 1 && Z.eqb (snd t) 1)) (go 0 l).

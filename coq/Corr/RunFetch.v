(** Correspondence and oracle for the multi-source merge (C13). *)
From Hermes Require Export Corr.Eqb Model.Fetch.

Record fpoll := FPoll {
  fp_cache : olist;                   (* published cache of the type before the poll *)
  fp_srcs : list (olist * pmc);       (* what each source delivered (after ingestion), in order *)
  fp_data : olist;                    (* observed merged list (insertion order) *)
  fp_incons : list Z; fp_conf : list Z; fp_filtered : list Z;   (* observed diagnostics, sorted *)
  fp_evkeys : list Z                  (* keys of 'modified'/'removed' events sent in the poll *)
}.
Record fcase := FCase { f_dmoc : bool; f_polls : list fpoll }.

(* compared as maps: the order in which flagged keys are re-inserted from the cache
   follows the iteration order of a Python set and is not observable by clients *)
Definition key_le (x y : Z * obj) : Prop := (fst x <= fst y)%Z.
Global Instance key_le_dec x y : Decision (key_le x y) := Z_le_dec (fst x) (fst y).
Definition osort (l : olist) : olist := merge_sort key_le l.
Definition olist_eqb (a b : olist) : bool :=
  list_eqb (fun x y => Z.eqb (fst x) (fst y) && obj_eqb (snd x) (snd y)) (osort a) (osort b).
Definition zsort (l : list Z) : list Z := merge_sort Z.le (remove_dups l).
Definition zset_eqb (a b : list Z) : bool := list_eqb Z.eqb (zsort a) (zsort b).

Definition corr_fpoll (dmoc : bool) (p : fpoll) : bool :=
  let '(st, filtered) := fetch_type dmoc (fp_cache p) (fp_srcs p) in
  olist_eqb (l_data st) (fp_data p)
  && zset_eqb (l_incons st) (fp_incons p)
  && zset_eqb (l_conf st) (fp_conf p)
  && zset_eqb filtered (fp_filtered p).
Definition corr_fcase (x : fcase) : bool := forallb (corr_fpoll (f_dmoc x)) (f_polls x).

(** ** Oracle: the declarative statement of C13 on the observed result *)
Definition count_key (k : Z) (l : olist) : nat := length (List.filter (fun p => Z.eqb k (fst p)) l).
Definition dupfree (l : olist) : bool := forallb (fun p => Nat.eqb (count_key (fst p) l) 1) l.

(** key-set algebra of one merge step *)
Definition algebra (c : pmc) (a b : list Z) : list Z :=
  match c with
  | NoConstraint => a ++ b
  | MustNotExist => List.filter (fun k => negb (zmem k b)) a ++ List.filter (fun k => negb (zmem k a)) b
  | MustAlreadyExist => a
  | MustExistInBoth => List.filter (fun k => zmem k b) a
  end.
Definition algebra_keys (srcs : list (olist * pmc)) : list Z :=
  match srcs with
  | [] => []
  | (f, _) :: r => fold_left (fun acc sc => algebra (snd sc) acc (akeys (fst sc))) r (akeys f)
  end.
(** attributes united per key, earliest source first (all-noConstraint case) *)
Definition union_obj (k : Z) (srcs : list (olist * pmc)) : obj :=
  fold_left (fun acc sc => match alookup k (fst sc) with Some o => acc ∪ o | None => acc end) srcs ∅.
Definition all_noconstraint (srcs : list (olist * pmc)) : bool :=
  forallb (fun sc => match snd sc with NoConstraint => true | _ => false end) (tl srcs).

Definition c13_poll (dmoc : bool) (p : fpoll) : bool :=
  let flagged := fp_incons p ++ fp_conf p in
  let clean := forallb (fun sc => dupfree (fst sc)) (fp_srcs p) in
  (* 1. key-set algebra on every key that was not flagged as an error *)
  (if clean then
     zset_eqb (List.filter (fun k => negb (zmem k flagged)) (akeys (fp_data p)))
              (List.filter (fun k => negb (zmem k flagged)) (algebra_keys (fp_srcs p)))
   else true)
  (* 2. attributes united per key, earliest source wins *)
  && (if clean && all_noconstraint (fp_srcs p) then
        forallb (fun ko => zmem (fst ko) flagged || obj_eqb (snd ko) (union_obj (fst ko) (fp_srcs p))) (fp_data p)
      else true)
  (* 3. a flagged key keeps its last published value, or stays absent *)
  && forallb (fun k => match alookup k (fp_cache p), alookup k (fp_data p) with
                       | Some c, Some d => obj_eqb c d
                       | None, None => true
                       | _, _ => false end) flagged
  (* 4. ... and is neither modified nor removed on the bus *)
  && forallb (fun k => negb (zmem k flagged)) (fp_evkeys p)
  (* 5. under keep_first_value nothing is ever reported as a merge conflict *)
  && (if dmoc then true else match fp_conf p with [] => true | _ => false end)
  (* 6. one entry per key in the merged view *)
  && dupfree (fp_data p)
  (* 7. only a key duplicated inside the FIRST source is reported as an inconsistency;
        duplicates of later sources go through the merge path *)
  && forallb (fun k => match fp_srcs p with
                       | (f, _) :: _ => Nat.leb 2 (count_key k f)
                       | [] => false end) (fp_incons p).
Definition c13_case (x : fcase) : bool := forallb (c13_poll (f_dmoc x)) (f_polls x).

Definition check_fcases (f g : fcase -> bool) (l : list fcase) : list (Z * Z * Z) :=
  let fix go (i : Z) (l : list fcase) :=
    match l with
    | [] => []
    | x :: r => (i, b2z (f x), b2z (g x)) :: go (i + 1)%Z r
    end in
  List.filter (fun t => negb (Z.eqb (snd (fst t)) 1%Z && Z.eqb (snd t) 1%Z)) (go 0%Z l).

(** ** Integrity constraints (C14) *)
Record ipoll := IPoll {
  ip_merged : list vobj;        (* merged data of all types before the constraints, declaration order *)
  ip_view : list vobj;          (* observed published view *)
  ip_filtered : list (N * Z)    (* observed integrityFiltered warnings *)
}.
Record icase := ICase { ic_ics : list (N * list (N * N)); ic_polls : list ipoll }.

Definition ics_of (l : list (N * list (N * N))) (t : N) : list (N * N) :=
  match List.find (fun p => N.eqb (fst p) t) l with Some p => snd p | None => [] end.
Definition vid (x : vobj) : N * Z := fst x.
Definition idsort (l : list (N * Z)) : list (N * Z) :=
  merge_sort (fun a b => (fst a < fst b)%N \/ (fst a = fst b /\ (snd a <= snd b)%Z)) (remove_dups l).
Definition idset_eqb (a b : list (N * Z)) : bool := list_eqb id_eqb (idsort a) (idsort b).
Definition vobj_eqb (a b : vobj) : bool := id_eqb (fst a) (fst b) && obj_eqb (snd a) (snd b).
Definition in_ids (i : N * Z) (l : list (N * Z)) : bool := existsb (id_eqb i) l.

Definition corr_ipoll (ics : N -> list (N * N)) (p : ipoll) : bool :=
  let R := integrity ics (ip_merged p) in
  idset_eqb (map vid R) (map vid (ip_view p))
  && forallb (fun x => existsb (vobj_eqb x) (ip_view p)) R.
Definition corr_icase (x : icase) : bool := forallb (corr_ipoll (ics_of (ic_ics x))) (ic_polls x).

(** oracle: the observed view is a closed subset of the merged data, everything
    filtered is reported, and nothing filtered could have stayed: adding back any
    filtered object whose constraints hold against the view would contradict closure
    of the greatest subset - checked directly: each filtered object fails against the
    view extended with ALL filtered objects that do satisfy theirs (one-step test),
    the complete "greatest" claim being the theorem [integrity_greatest_closed]. *)
Definition c14_poll (ics : N -> list (N * N)) (p : ipoll) : bool :=
  let V := ip_view p in
  let S := ip_merged p in
  forallb (fun x => existsb (vobj_eqb x) S) V
  && forallb (sat ics V) V
  && idset_eqb (ip_filtered p) (List.filter (fun i => negb (in_ids i (map vid V))) (map vid S))
  && idset_eqb (map vid V) (map vid (integrity ics S)).
Definition c14_case (x : icase) : bool := forallb (c14_poll (ics_of (ic_ics x))) (ic_polls x).

Definition check_icases (f g : icase -> bool) (l : list icase) : list (Z * Z * Z) :=
  let fix go (i : Z) (l : list icase) :=
    match l with
    | [] => []
    | x :: r => (i, b2z (f x), b2z (g x)) :: go (i + 1)%Z r
    end in
  List.filter (fun t => negb (Z.eqb (snd (fst t)) 1%Z && Z.eqb (snd t) 1%Z)) (go 0%Z l).

(** Boolean equalities used when comparing the model with observed behaviour. *)
From Hermes Require Export Model.Objects Model.Server.

Definition obj_eqb (a b : obj) : bool :=
  let la := map_to_list a in let lb := map_to_list b in
  Nat.eqb (length la) (length lb) &&
  forallb (fun p => N.eqb (fst (fst p)) (fst (snd p)) && veqb (snd (fst p)) (snd (snd p))) (combine la lb).

Definition world_eqb (a b : world) : bool :=
  let la := map_to_list a in let lb := map_to_list b in
  Nat.eqb (length la) (length lb) &&
  forallb (fun p => id_eqb (fst (fst p)) (fst (snd p)) && obj_eqb (snd (fst p)) (snd (snd p))) (combine la lb).

Definition mdiff_eqb (a b : mdiff) : bool :=
  obj_eqb (md_a a) (md_a b) && obj_eqb (md_m a) (md_m b) && obj_eqb (md_r a) (md_r b).

Definition ekind_eqb (a b : ekind) : bool :=
  match a, b with
  | KAdded x, KAdded y => obj_eqb x y
  | KModified x, KModified y => mdiff_eqb x y
  | KRemoved, KRemoved => true
  | _, _ => false
  end.

Definition event_eqb (a b : event) : bool :=
  N.eqb (e_t a) (e_t b) && Z.eqb (e_k a) (e_k b) && ekind_eqb (e_kind a) (e_kind b).

Definition oevent_eqb (a b : option event) : bool :=
  match a, b with Some x, Some y => event_eqb x y | None, None => true | _, _ => false end.

Definition action_eqb (a b : action) : bool :=
  match a, b with
  | AInitStart, AInitStart | AInitStop, AInitStop => true
  | ASend i x, ASend j y => Bool.eqb i j && event_eqb x y
  | ARefused x, ARefused y => oevent_eqb x y
  | ACommitOne t k, ACommitOne t' k' => N.eqb t t' && Z.eqb k k'
  | ACommitAll t, ACommitAll t' => N.eqb t t'
  | _, _ => false
  end.

Fixpoint list_eqb {A} (eqb : A -> A -> bool) (a b : list A) : bool :=
  match a, b with
  | [], [] => true
  | x :: xs, y :: ys => eqb x y && list_eqb eqb xs ys
  | _, _ => false
  end.

Definition mk_obj (l : list (N * value)) : obj := list_to_map l.
Definition mk_world (l : list (N * Z * obj)) : world := list_to_map l.
Definition b2z (b : bool) : Z := if b then 1%Z else 0%Z.

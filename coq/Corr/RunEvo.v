(** Datamodel evolution cases (C17): the events the restarted server sends ahead of the new
    schema, against [schema_step]. *)
From Hermes Require Export Corr.RunClient Model.Evolution.

Record ecase := ECase {
  e_types : list N;           (* types of the old datamodel, in declaration order *)
  e_dropped : list N;
  e_cache : world;            (* what the server had published (its cache) when it was stopped *)
  e_observed : list cev       (* data events between the restart and the dataschema event *)
}.
Definition in_w (w : world) (i : N * Z) : bool := match w !! i with Some _ => true | None => false end.
Definition cfg_of (types : list N) : cfg := map (fun t => TCfg t [] [] [] [] false false) types.
Definition ev_eqb (a : event) (b : cev) : bool :=
  N.eqb (e_t a) (ce_t b) && Z.eqb (e_k a) (ce_k b) && ekind_eqb (e_kind a) (ce_kind b).
Definition corr_ecase (x : ecase) : bool :=
  let evs := schema_step (cfg_of (e_types x)) (e_dropped x) (e_cache x) in
  Nat.eqb (length evs) (length (e_observed x)) && forallb (fun p => ev_eqb (fst p) (snd p)) (combine evs (e_observed x)).
(** oracle on the observation alone: one 'removed' per published object of a dropped type, nothing else *)
Definition c17_ecase (x : ecase) : bool :=
  forallb (fun e => match ce_kind e with KRemoved => mem (ce_t e) (e_dropped x) && in_w (e_cache x) (ce_id e) | _ => false end) (e_observed x)
  && forallb (fun io => negb (mem (fst (fst io)) (e_dropped x)) || existsb (fun e => id_in (ce_id e) [fst io]) (e_observed x))
             (map_to_list (e_cache x))
  && Nat.eqb (length (remove_dups (map ce_id (e_observed x)))) (length (e_observed x)).
Definition check_ecases (f g : ecase -> bool) (l : list ecase) : list (Z * Z * Z) :=
  let fix go (i : Z) (l : list ecase) :=
    match l with
    | [] => []
    | x :: r => (i, b2z (f x), b2z (g x)) :: go (i + 1)%Z r
    end in
  List.filter (fun t => negb (Z.eqb (snd (fst t)) 1%Z && Z.eqb (snd t) 1%Z)) (go 0%Z l).

(** ** change of the client datamodel: the datamodel update of a restarted client *)
From Hermes Require Import Model.ClientEvo.
Record rcase := RCase {
  rm_cfg : ccfg;              (* the new client configuration *)
  rm_remote : world;          (* expected-state remote cache left by the previous life *)
  rm_local : world;           (* local cache left by the previous life (queue empty: live = expected) *)
  rm_calls : list call;       (* handler invocations of the first loop iteration of the new life *)
  rm_after : world            (* local cache after that iteration *)
}.
Definition healthy (r l : world) : cstate := CState r ∅ r ∅ l ∅ l ∅ [] 0 [] 0 false false false false [].
(** the order of the differences inside one type is the code's business: calls compared as sets *)
Definition same_calls (ts : N) (a b : list call) : bool :=
  Nat.eqb (length a) (length b) && forallb (fun x => existsb (call_eqb ts x) b) a && forallb (fun y => existsb (call_eqb ts y) a) b.
Definition corr_rcase (x : rcase) : bool :=
  let st := remap (rm_cfg x) (fun _ => HOk) (healthy (rm_remote x) (rm_local x)) in
  world_eqb (l_live st) (rm_after x) && same_calls (cc_ts (rm_cfg x)) (calls st) (rm_calls x) && negb (exc st).
(** oracle on the observation alone: after the update the local data are the projection of the
    remote cache under the new mapping, and no object got more than one call *)
Definition c17_rcase (x : rcase) : bool :=
  world_eqb (rm_after x) (project (rm_cfg x) (rm_remote x))
  && Nat.eqb (length (remove_dups (map (fun cl => (cl_t cl, cl_k cl)) (rm_calls x)))) (length (rm_calls x))
  && forallb (fun cl => hres_eqb (cl_out cl) HOk) (rm_calls x).
Definition check_rcases (f g : rcase -> bool) (l : list rcase) : list (Z * Z * Z) :=
  let fix go (i : Z) (l : list rcase) :=
    match l with
    | [] => []
    | x :: r => (i, b2z (f x), b2z (g x)) :: go (i + 1)%Z r
    end in
  List.filter (fun t => negb (Z.eqb (snd (fst t)) 1%Z && Z.eqb (snd t) 1%Z)) (go 0%Z l).

(** Datamodel evolution cases (C17): the events the restarted server sends ahead of the new
    schema, against [schema_step]. *)
From Hermes Require Export Corr.RunClient Model.Evolution.

Record ecase := ECase {
  e_types : list N;           (* types of the old datamodel, in declaration order *)
  e_dropped : list N;
  e_cache : world;            (* what the server had published (its cache) when it was stopped *)
  e_observed : list cev       (* data events between the restart and the dataschema event *)
}.
Definition in_w (w : world) (i : N * Z) : bool := match w !! i with Some _ => true | None => false end.
Definition cfg_of (types : list N) : cfg := map (fun t => TCfg t [] [] [] [] false false) types.
Definition ev_eqb (a : event) (b : cev) : bool :=
  N.eqb (e_t a) (ce_t b) && Z.eqb (e_k a) (ce_k b) && ekind_eqb (e_kind a) (ce_kind b).
Definition corr_ecase (x : ecase) : bool :=
  let evs := schema_step (cfg_of (e_types x)) (e_dropped x) (e_cache x) in
  Nat.eqb (length evs) (length (e_observed x)) && forallb (fun p => ev_eqb (fst p) (snd p)) (combine evs (e_observed x)).
(** oracle on the observation alone: one 'removed' per published object of a dropped type, nothing else *)
Definition c17_ecase (x : ecase) : bool :=
  forallb (fun e => match ce_kind e with KRemoved => mem (ce_t e) (e_dropped x) && in_w (e_cache x) (ce_id e) | _ => false end) (e_observed x)
  && forallb (fun io => negb (mem (fst (fst io)) (e_dropped x)) || existsb (fun e => id_in (ce_id e) [fst io]) (e_observed x))
             (map_to_list (e_cache x))
  && Nat.eqb (length (remove_dups (map ce_id (e_observed x)))) (length (e_observed x)).
Definition check_ecases (f g : ecase -> bool) (l : list ecase) : list (Z * Z * Z) :=
  let fix go (i : Z) (l : list ecase) :=
    match l with
    | [] => []
    | x :: r => (i, b2z (f x), b2z (g x)) :: go (i + 1)%Z r
    end in
  List.filter (fun t => negb (Z.eqb (snd (fst t)) 1%Z && Z.eqb (snd t) 1%Z)) (go 0%Z l).

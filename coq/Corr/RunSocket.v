(** Correspondence and oracle for the control socket (C20). *)
From Hermes Require Export Model.Socket.

(** A. one message: observed = (a reply arrived?, its retcode, listener still alive
    afterwards = a following well-formed 'status' was answered with 0) *)
Record mcase := MCase { mc_app : app; mc_flags : flags; mc_msg : message;
                        mc_replied : bool; mc_rc : Z; mc_alive : bool }.
Definition corr_mcase (x : mcase) : bool :=
  match decode (mc_msg x) with
  | Dropped => negb (mc_replied x)
  | Handled w => mc_replied x && Z.eqb (mc_rc x) (fst (command (mc_app x) (mc_flags x) w))
  end.
Definition c20_mcase (x : mcase) : bool := mc_alive x.

(** B. a scheduling script: observed actions and return codes per iteration *)
Record lcase := LCase { lc_app : app; lc_interval : Z; lc_script : list (list (list nat));
                        lc_obs : list (loopact * list Z) }.
Definition act_eqb (a b : loopact) : bool :=
  match a, b with LIdle, LIdle | LPoll, LPoll | LIsyncPoll, LIsyncPoll | LIsyncIdle, LIsyncIdle => true | _, _ => false end.
Fixpoint zl_eqb (a b : list Z) : bool :=
  match a, b with [], [] => true | x :: r, y :: r' => Z.eqb x y && zl_eqb r r' | _, _ => false end.
Fixpoint obs_eqb (a b : list (loopact * list Z)) : bool :=
  match a, b with
  | [], [] => true
  | (x, l) :: r, (y, m) :: r' => act_eqb x y && zl_eqb l m && obs_eqb r r'
  | _, _ => false
  end.
Definition sched0 : sched := Sched (Flags false false false false) 0 0.
Definition corr_lcase (x : lcase) : bool :=
  obs_eqb (loop_run (lc_app x) (lc_interval x) sched0 (lc_script x)) (lc_obs x).

(** oracle on the observed trace alone: while paused (between an accepted 'pause' and
    the next accepted 'resume') no poll happens unless an 'update' was accepted; an accepted
    'update' (also one received while a poll is running) makes the next iteration poll; never
    more than two polls in a row without a forced update *)
Definition is_pollb (a : loopact) : bool := match a with LPoll | LIsyncPoll => true | _ => false end.
Fixpoint o20 (script : list (list (list nat))) (obs : list (loopact * list Z))
         (paused forced : bool) (run : nat) : bool :=
  match script, obs with
  | cmds :: rs, (act, rcs) :: ro =>
      let polled := is_pollb act in
      let ok_pause := negb (paused && polled && negb forced) in
      let ok_forced := negb forced || polled in     (* an accepted 'update' is honoured at the next iteration *)
      let run' := if polled then (if forced then 0%nat else S run) else 0%nat in
      let ok_burst := Nat.leb run' 2 in
      let fix upd (cmds : list (list nat)) (rcs : list Z) (p f : bool) : bool * bool :=
        match cmds, rcs with
        | w :: cr, rc :: rr =>
            let p' := match w with
                      | [1%nat] => if rc =? 0 then true else p
                      | [2%nat] => if rc =? 0 then false else p
                      | _ => p end in
            let f' := match w with [4%nat] => if rc =? 0 then true else f | _ => f end in
            upd cr rr p' f'
        | _, _ => (p, f)
        end in
      let '(p2, f2) := upd cmds rcs paused (if polled then false else forced) in
      ok_pause && ok_forced && ok_burst && o20 rs ro p2 f2 run'
  | _, _ => true
  end.
Definition c20_lcase (x : lcase) : bool :=
  match lc_app x with
  | Server => (1 <=? lc_interval x) && o20 (lc_script x) (lc_obs x) false false 0
              || negb (1 <=? lc_interval x)
  | Client => true
  end.

Definition b2z (b : bool) : Z := if b then 1 else 0.
Definition check_gen {A} (f g : A -> bool) (l : list A) : list (Z * Z * Z) :=
  let fix go (i : Z) (l : list A) :=
    match l with
    | [] => []
    | x :: r => (i, b2z (f x), b2z (g x)) :: go (i + 1) r
    end in
  List.filter (fun t => negb (Z.eqb (snd (fst t)) 1 && Z.eqb (snd t) 1)) (go 0 l).
Definition check_mcases := @check_gen mcase.
Definition check_lcases := @check_gen lcase.

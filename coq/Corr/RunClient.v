(** Correspondence and oracles for client runs (C06-C11, C15 client side). *)
From Hermes Require Export Corr.Eqb Model.Client.

Record oq := OQ { oq_num : Z; oq_remote : option cev; oq_local : cev; oq_msg : bool }.
Record citer := CIter {
  ci_now : Z; ci_restart : bool;
  ci_bus : list (Z * cev);        (* every data event of the bus with offset <= limit *)
  ci_calls : list call;           (* observed handler invocations of the iteration *)
  ci_worlds : list world;         (* remote live/trash, remote complete live/trash, local ... (8) *)
  ci_queue : list oq;
  ci_next : Z; ci_exc : bool; ci_limit : Z;
  ci_ret : option Z;              (* trashbin retention in force (may change across a restart) *)
  ci_skips : list Z               (* offsets <= limit of bus events that carry no data for the model
                                     (a 'dataschema' event that leaves the client's mapping alone):
                                     consumed without effect, the offset moves past them *)
}.
Record ccase := CCase { k_cfg : ccfg; k_outcomes : list hres; k_iters : list citer;
                        k_qobs : list (list (N * Z * obj)) (* per handler invocation: the objects having queue entries *) }.

(** the harness gives the bus once; every iteration sees the events up to its limit *)
Definition mk_ccase (c : ccfg) (outs : list hres) (bus : list (Z * cev)) (its : list citer) : ccase :=
  CCase c outs
    (map (fun it => CIter (ci_now it) (ci_restart it)
                          (List.filter (fun p => (fst p <=? ci_limit it)%Z) bus)
                          (ci_calls it) (ci_worlds it) (ci_queue it) (ci_next it) (ci_exc it) (ci_limit it) (ci_ret it) (ci_skips it)) its) [].
Definition with_qobs (x : ccase) (q : list (list (N * Z * obj))) : ccase :=
  CCase (k_cfg x) (k_outcomes x) (k_iters x) q.

Definition MIN_TS : Z := (-63902908800)%Z.   (* datetime(1,1,1) in seconds from the harness epoch *)

Definition cev_eqb (a b : cev) : bool :=
  N.eqb (ce_t a) (ce_t b) && Z.eqb (ce_k a) (ce_k b) && ekind_eqb (ce_kind a) (ce_kind b)
  && Z.eqb (ce_step a) (ce_step b) && Bool.eqb (ce_partial a) (ce_partial b).
Definition ocev_eqb (a b : option cev) : bool :=
  match a, b with Some x, Some y => cev_eqb x y | None, None => true | _, _ => false end.
Definition oobj_eqb (a b : option obj) : bool :=
  match a, b with Some x, Some y => obj_eqb x y | None, None => true | _, _ => false end.
Definition hkind_eqb (a b : hkind) : bool :=
  match a, b with
  | HAdded, HAdded | HModified, HModified | HRemoved, HRemoved | HTrashed, HTrashed | HRecycled, HRecycled => true
  | _, _ => false end.
Definition hres_eqb (a b : hres) : bool :=
  match a, b with HOk, HOk | HFail, HFail | HFailPartial _, HFailPartial _ => true | _, _ => false end.
(* objects handed to handlers are compared without the internal trashbin timestamp *)
Definition call_eqb (ts : N) (a b : call) : bool :=
  hkind_eqb (cl_kind a) (cl_kind b) && N.eqb (cl_t a) (cl_t b) && Z.eqb (cl_k a) (cl_k b)
  && ekind_eqb (cl_attrs a) (cl_attrs b)
  && oobj_eqb (option_map (delete ts) (cl_new a)) (cl_new b)
  && oobj_eqb (option_map (delete ts) (cl_old a)) (cl_old b)
  && Z.eqb (cl_step a) (cl_step b) && Bool.eqb (cl_partial a) (cl_partial b)
  && Bool.eqb (cl_retry a) (cl_retry b) && hres_eqb (cl_out a) (cl_out b).
Definition q_eqb (m : qentry) (o : oq) : bool :=
  Z.eqb (q_num m) (oq_num o) && ocev_eqb (q_remote m) (oq_remote o) && cev_eqb (q_local m) (oq_local o)
  && Bool.eqb (q_msg m) (oq_msg o).
Fixpoint list_eqb2 {A B} (f : A -> B -> bool) (a : list A) (b : list B) : bool :=
  match a, b with [] , [] => true | x :: r, y :: r' => f x y && list_eqb2 f r r' | _, _ => false end.

Definition outcome_of (l : list hres) (n : nat) : hres := nth n l HOk.

(** restart: what is persisted survives (since the repair of F22 that includes the bus
    timestamp of queued events; purely local events never had one); parents index rebuilt *)
Definition restart_state (c : ccfg) (st : cstate) : cstate :=
  let strip e := e in
  let q := map (fun e => QEntry (q_num e) (option_map strip (q_remote e)) (strip (q_local e)) (q_msg e)
                                 (entry_parents c (l_live st) (lc_live st) (q_local e))) (queue st) in
  CState (r_live st) (r_trash st) (rc_live st) (rc_trash st) (l_live st) (l_trash st) (lc_live st) (lc_trash st)
         q (ncall st) [] 0 false false false false [].

Definition worlds_of (st : cstate) : list world :=
  [r_live st; r_trash st; rc_live st; rc_trash st; l_live st; l_trash st; lc_live st; lc_trash st].

Definition run_iter (c : ccfg) (outs : list hres) (cl : client) (it : citer) : client :=
  let cl0 := if ci_restart it then Client (restart_state c (cl_st cl)) (cl_next cl) else cl in
  let st0 := cl_st cl0 in
  let st0' := CState (r_live st0) (r_trash st0) (rc_live st0) (rc_trash st0) (l_live st0) (l_trash st0)
                     (lc_live st0) (lc_trash st0) (queue st0) (ncall st0) [] (curstep st0) (curpartial st0)
                     false false (force_retry st0) (poison st0) in
  let evs := List.filter (fun p => (cl_next cl0 <=? fst p)%Z) (ci_bus it) in
  let c' := CCfg (cc_types c) (ci_ret it) (cc_fkpolicy c) (cc_remed c) (cc_ts c) (cc_alltypes c) in
  let cl1 := client_iter c' (outcome_of outs) (Client st0' (cl_next cl0)) (ci_now it) evs in
  if exc (cl_st cl1) then cl1
  else Client (cl_st cl1) (fold_left (fun n s => if (s =? n)%Z then (n + 1)%Z else n) (ci_skips it) (cl_next cl1)).

Definition corr_iter (ts : N) (cl : client) (it : citer) : bool * bool * bool * bool * bool :=
  (list_eqb (call_eqb ts) (calls (cl_st cl)) (ci_calls it),
   list_eqb world_eqb (worlds_of (cl_st cl)) (ci_worlds it),
   list_eqb2 q_eqb (queue (cl_st cl)) (ci_queue it),
   Z.eqb (cl_next cl) (ci_next it),
   Bool.eqb (exc (cl_st cl)) (ci_exc it)).

Fixpoint corr_iters (c : ccfg) (outs : list hres) (cl : client) (its : list citer)
  : list (bool * bool * bool * bool * bool) :=
  match its with
  | [] => []
  | it :: r => let cl' := run_iter c outs cl it in corr_iter (cc_ts c) cl' it :: corr_iters c outs cl' r
  end.
Definition client0 : client := Client cstate0 3.
Definition corr_detail (x : ccase) := corr_iters (k_cfg x) (k_outcomes x) client0 (k_iters x).
Definition corr_ccase (x : ccase) : bool :=
  forallb (fun t => match t with (a, b, c, d, e) => a && b && c && d && e end) (corr_detail x).

Definition check_ccases (f g : ccase -> bool) (l : list ccase) : list (Z * Z * Z) :=
  let fix go (i : Z) (l : list ccase) :=
    match l with
    | [] => []
    | x :: r => (i, b2z (f x), b2z (g x)) :: go (i + 1)%Z r
    end in
  List.filter (fun t => negb (Z.eqb (snd (fst t)) 1%Z && Z.eqb (snd t) 1%Z)) (go 0%Z l).

(** ** Oracles (specification level, independent of the client model) *)
Definition rapply (w : world) (e : cev) : world :=
  match ce_kind e with
  | KAdded a => <[ce_id e := a]> w
  | KModified d => alter (apply_mod d) (ce_id e) w
  | KRemoved => delete (ce_id e) w
  end.
Definition rreplay (evs : list cev) : world := fold_left rapply evs ∅.
Definition project (c : ccfg) (w : world) : world :=
  map_imap (fun i o => match find_ctype c (fst i) with Some ct => Some (conv_obj ct o) | None => None end) w.
Definition delivered (it : citer) : list cev :=
  map snd (List.filter (fun p => (fst p <? ci_next it)%Z) (ci_bus it)).
Definition nthw (it : citer) (n : nat) : world := nth n (ci_worlds it) ∅.
Definition wempty (w : world) : bool := match map_to_list w with [] => true | _ => false end.

(** the handler invocation a healthy client owes to one event, given the remote state before it *)
Definition expected_call (c : ccfg) (w : world) (e : cev) : option call :=
  match convert c false e, find_ctype c (ce_t e) with
  | Some lev, Some ct =>
      let old := option_map (conv_obj ct) (w !! ce_id e) in
      match ce_kind lev with
      | KAdded a => Some (Call HAdded (ce_t e) (ce_k e) (ce_kind lev) (Some a) None 0 false false HOk)
      | KModified d =>
          Some (Call HModified (ce_t e) (ce_k e) (ce_kind lev) (option_map (apply_mod d) old) old 0 false false HOk)
      | KRemoved => Some (Call HRemoved (ce_t e) (ce_k e) KRemoved None old 0 false false HOk)
      end
  | _, _ => None
  end.
Fixpoint expected_calls (c : ccfg) (w : world) (evs : list cev) : list call :=
  match evs with
  | [] => []
  | e :: r => match expected_call c w e with
              | Some cl => cl :: expected_calls c (rapply w e) r
              | None => expected_calls c (rapply w e) r end
  end.

(** C06: healthy client, no trashbin: one call per relevant event, in order, with the
    mapped attributes and the complete new / previous object; caches mirror the bus *)
Fixpoint c06_iters (c : ccfg) (seen : Z) (its : list citer) : bool :=
  match its with
  | [] => true
  | it :: r =>
      let before := map snd (List.filter (fun p => (fst p <? seen)%Z) (ci_bus it)) in
      let fresh := map snd (List.filter (fun p => (seen <=? fst p)%Z && (fst p <? ci_next it)%Z) (ci_bus it)) in
      list_eqb (call_eqb (cc_ts c)) (expected_calls c (rreplay before) fresh) (ci_calls it)
      && world_eqb (nthw it 0) (rreplay (delivered it))
      && world_eqb (nthw it 4) (project c (nthw it 0))
      && world_eqb (nthw it 2) (nthw it 0) && world_eqb (nthw it 6) (nthw it 4)
      && wempty (nthw it 1) && wempty (nthw it 5)
      && match ci_queue it with [] => true | _ => false end
      && negb (ci_exc it)
      && (ci_next it =? ci_limit it + 1)%Z
      && c06_iters c (ci_next it) r
  end.
Definition c06_case (x : ccase) : bool := c06_iters (k_cfg x) 3 (k_iters x).

(** C07: whatever the failures, the 'expected state' caches follow the bus; per object,
    the successful invocations are a prefix of what a healthy client would do, in order;
    at the end (faults over, retries done) everything has healed *)
(* successful invocations of one object; the forced empty 'modified' events the client
   queues for an object that already has errors (so that its order is kept) carry no change *)
Definition ok_calls_of (i : N * Z) (l : list call) : list call :=
  List.filter (fun cl => idq (cl_t cl, cl_k cl) i && hres_eqb (cl_out cl) HOk
                         && negb (match cl_attrs cl with KModified d => md_empty d | _ => false end)) l.
Definition call_core_eqb (ts : N) (a b : call) : bool :=
  hkind_eqb (cl_kind a) (cl_kind b) && ekind_eqb (cl_attrs a) (cl_attrs b)
  && oobj_eqb (option_map (delete ts) (cl_new a)) (cl_new b)
  && oobj_eqb (option_map (delete ts) (cl_old a)) (cl_old b).
Fixpoint is_prefix {A} (eqb : A -> A -> bool) (p l : list A) : bool :=
  match p, l with
  | [], _ => true
  | x :: r, y :: r' => eqb x y && is_prefix eqb r r'
  | _ :: _, [] => false
  end.
Definition all_calls (its : list citer) : list call := flat_map ci_calls its.
Definition ids_in (l : list cev) : list (N * Z) := remove_dups (map ce_id l).
Definition c07_fifo (c : ccfg) (its : list citer) : bool :=
  match rev its with
  | [] => true
  | last :: _ =>
      let evs := map snd (ci_bus last) in
      forallb (fun i => is_prefix (call_core_eqb (cc_ts c))
                           (ok_calls_of i (all_calls its))
                           (ok_calls_of i (expected_calls c ∅ evs)))
              (ids_in evs)
  end.
Definition c07_complete (c : ccfg) (its : list citer) : bool :=
  forallb (fun it => implb (negb (ci_exc it))
                     (world_eqb (nthw it 2) (rreplay (delivered it))
                      && world_eqb (nthw it 6) (project c (nthw it 2)))) its.
Definition c07_healed (c : ccfg) (its : list citer) : bool :=
  match rev its with
  | [] => true
  | last :: _ =>
      match ci_queue last with [] => true | _ => false end
      && world_eqb (nthw last 0) (nthw last 2) && world_eqb (nthw last 4) (nthw last 6)
      && world_eqb (nthw last 0) (rreplay (map snd (ci_bus last)))
      && negb (ci_exc last)
  end.
(** "parked together with its progress marker": when the last handler invocation of an iteration on
    an object raised, the oldest queue entry of that object (the one that was processed) carries
    the marker that invocation left: (step, partial) reported by a failure after partial processing,
    else the marker the handler was entered with.  Observation only: handler log, outcomes given to
    the handlers, queue at the end of the iteration. *)
Definition hkind_matches (h : hkind) (k : ekind) : bool :=
  match h, k with
  | HAdded, KAdded _ | HRecycled, KAdded _ | HModified, KModified _ | HRemoved, KRemoved | HTrashed, KRemoved => true
  | _, _ => false end.
Definition marker_ok_iter (outs : list hres) (n0 : nat) (it : citer) : bool :=
  let calls := combine (seq n0 (length (ci_calls it))) (ci_calls it) in
  forallb (fun ncl =>
     let n := fst ncl in let cl := snd ncl in
     match cl_out cl with
     | HOk => true
     | _ =>
       let i := (cl_t cl, cl_k cl) in
       if existsb (fun mcl => Nat.ltb n (fst mcl) && idq (cl_t (snd mcl), cl_k (snd mcl)) i) calls then true else
       match List.find (fun e => idq (ce_id (oq_local e)) i) (ci_queue it) with
       | None => true
       | Some e =>
           if negb (hkind_matches (cl_kind cl) (ce_kind (oq_local e))) then true else
           let sp := match nth n outs HOk with HFailPartial s => (s, true) | _ => (cl_step cl, cl_partial cl) end in
           Z.eqb (ce_step (oq_local e)) (fst sp) && Bool.eqb (ce_partial (oq_local e)) (snd sp)
       end
     end) calls.
(** ... and an event parked without any handler invocation (queued behind its object's or its
    child's errors) carries no progress at all: a new entry whose object saw no raising invocation
    of that kind in the iteration has step 0 and is not partially processed *)
Definition fresh_marker_ok_iter (prev : list Z) (it : citer) : bool :=
  forallb (fun e =>
     existsb (Z.eqb (oq_num e)) prev
     || existsb (fun cl => match cl_out cl with HOk => false | _ => true end
                           && idq (cl_t cl, cl_k cl) (ce_id (oq_local e))
                           && hkind_matches (cl_kind cl) (ce_kind (oq_local e))) (ci_calls it)
     || (Z.eqb (ce_step (oq_local e)) 0 && negb (ce_partial (oq_local e)))) (ci_queue it).
Fixpoint marker_ok_iters (outs : list hres) (n0 : nat) (prev : list Z) (its : list citer) : bool :=
  match its with
  | [] => true
  | it :: r => marker_ok_iter outs n0 it && fresh_marker_ok_iter prev it
               && marker_ok_iters outs (n0 + length (ci_calls it)) (map oq_num (ci_queue it)) r
  end.
Definition c07_marker_case (x : ccase) : bool := marker_ok_iters (k_outcomes x) 0 [] (k_iters x).

Definition c07_case (x : ccase) : bool :=
  c07_fifo (k_cfg x) (k_iters x) && c07_complete (k_cfg x) (k_iters x) && c07_healed (k_cfg x) (k_iters x)
  && c07_marker_case x.

Definition c07_fifo_case (x : ccase) : bool := c07_fifo (k_cfg x) (k_iters x).
Definition c07_complete_case (x : ccase) : bool := c07_complete (k_cfg x) (k_iters x).
Definition c07_healed_case (x : ccase) : bool := c07_healed (k_cfg x) (k_iters x).

(** ** unit level: two queued 'modified' events of one object merged by the real ErrorQueue *)
Record mucase := MUCase { mu_o : obj; mu_p : mdiff; mu_l : mdiff; mu_merged : option mdiff (* None = not merged *) }.
Definition corr_mucase (x : mucase) : bool :=
  match mu_merged x with
  | Some m => mdiff_eqb m (merge_mod (mu_p x) (mu_l x))
  | None => false
  end.
Definition c08_mucase (x : mucase) : bool :=
  match mu_merged x with
  | Some m => obj_eqb (apply_mod m (mu_o x)) (apply_mod (mu_l x) (apply_mod (mu_p x) (mu_o x)))
  | None => false
  end.
Definition check_mucases (f g : mucase -> bool) (l : list mucase) : list (Z * Z * Z) :=
  let fix go (i : Z) (l : list mucase) :=
    match l with
    | [] => []
    | x :: r => (i, b2z (f x), b2z (g x)) :: go (i + 1)%Z r
    end in
  List.filter (fun t => negb (Z.eqb (snd (fst t)) 1%Z && Z.eqb (snd t) 1%Z)) (go 0%Z l).

(** several oracles at once: bit j of the result is the verdict of the j-th oracle *)
Definition check_bits (fs : list (ccase -> bool)) (l : list ccase) : list (Z * Z * Z) :=
  let fix go (i : Z) (l : list ccase) :=
    match l with
    | [] => []
    | x :: r => (i, fold_right (fun f acc => (2 * acc + b2z (f x))%Z) 0%Z fs, 0%Z) :: go (i + 1)%Z r
    end in go 0%Z l.

(** ** C09: no parent is touched ahead of its child's pending errors.
    Observation-only oracles (handler log, queue content seen by each handler invocation,
    bus): they do not use the client model. *)
Definition tapply (w : world) (cl : call) : world :=
  if negb (hres_eqb (cl_out cl) HOk) then w else
  match cl_kind cl, cl_new cl with
  | HAdded, Some o | HRecycled, Some o | HModified, Some o => <[(cl_t cl, cl_k cl) := o]> w
  | HRemoved, _ | HTrashed, _ => delete (cl_t cl, cl_k cl) w
  | _, _ => w
  end.
(** C08 speaks of the target and the local data only: once drained, the local data equal the
    mapped projection of the replayed bus, and the target obtained
    by replaying the successful handler invocations equals the local data. (The expected-state copies are C07's business; the *remote* cache
    may lag behind after a cancelled merge; that is outside C08.) *)
Definition target_of (its : list citer) : world :=
  fold_left (fun w it => fold_left tapply (ci_calls it) w) its ∅.
Definition c08_healed (c : ccfg) (its : list citer) : bool :=
  match rev its with
  | [] => true
  | last :: _ =>
      match ci_queue last with [] => true | _ => false end
      && negb (ci_exc last)
      && world_eqb (nthw last 4) (project c (rreplay (map snd (ci_bus last))))
      && world_eqb (target_of its) (nthw last 4)
  end.
Definition c08_healed_case (x : ccase) : bool := c08_healed (k_cfg x) (k_iters x).

Definition children_of (c : ccfg) (w : world) (p : N * Z) : list (N * Z) :=
  omap (fun io => match find_ctype c (fst (fst io)) with
                  | Some ct => if existsb (fun ap => N.eqb (snd ap) (fst p) &&
                                                     match fk_key (snd io) (fst ap) with Some k => Z.eqb k (snd p) | None => false end)
                                          (ct_fks ct)
                               then Some (fst io) else None
                  | None => None end) (map_to_list w).
(** objects removed and later added again on the bus (the scenario of finding F5) *)
Fixpoint readded_go (bus : list (Z * cev)) (removed : list (N * Z)) : list (N * Z) :=
  match bus with
  | [] => []
  | (_, e) :: r =>
      match ce_kind e with
      | KRemoved => readded_go r (ce_id e :: removed)
      | KAdded _ => (if existsb (fun i => N.eqb (fst i) (ce_t e) && Z.eqb (snd i) (ce_k e)) removed then [ce_id e] else [])
                    ++ readded_go r removed
      | _ => readded_go r removed
      end
  end.
Definition readded (x : ccase) : list (N * Z) :=
  match List.last (map Some (k_iters x)) None with Some it => readded_go (ci_bus it) [] | None => [] end.
Definition id_in (i : N * Z) (l : list (N * Z)) : bool :=
  existsb (fun j => N.eqb (fst i) (fst j) && Z.eqb (snd i) (snd j)) l.

(** (a) target consequence: a successful removed/trashed call never hits a parent that
    still has a child on the target replica (rebuilt from the successful calls) *)
Fixpoint c09_calls (c : ccfg) (skip : list (N * Z)) (w : world) (cls : list call) : bool :=
  match cls with
  | [] => true
  | cl :: r =>
      let ok := hres_eqb (cl_out cl) HOk in
      (match cl_kind cl with
       | HRemoved | HTrashed => negb ok || id_in (cl_t cl, cl_k cl) skip
                                || match children_of c w (cl_t cl, cl_k cl) with [] => true | _ => false end
       | _ => true end)
      && c09_calls c skip (tapply w cl) r
  end.
(** (b) the policy itself: when a handler is invoked for an event kind covered by the
    policy on an object present on the target, no other object with queue entries has it
    among its (transitive) parents - parents follow from the key components alone *)
Definition pk_obj (c : ccfg) (t : N) (k : Z) : obj :=
  match find_ctype c t with
  | Some ct => mk_obj (map (fun ap => (fst ap, VInt k)) (ct_fks ct))
  | None => mk_obj [] end.
Fixpoint ancestors (c : ccfg) (fuel : nat) (t : N) (o : obj) : list (N * Z) :=
  match fuel with
  | O => []
  | S f => match find_ctype c t with
           | None => []
           | Some ct => flat_map (fun ap => match fk_key o (fst ap) with
                                            | Some pk => (snd ap, pk) :: ancestors c f (snd ap) (pk_obj c (snd ap) pk)
                                            | None => [] end) (ct_fks ct)
           end
  end.
Definition covered (p : fkpolicy) (k : hkind) : bool :=
  match p, k with
  | FKDisabled, _ => false
  | FKOnRemove, (HRemoved | HTrashed) => true
  | FKOnRemove, _ => false
  | FKOnEvery, _ => true
  end.
Definition pending_child (c : ccfg) (p : N * Z) (q : list (N * Z * obj)) : bool :=
  existsb (fun e => negb (id_in (fst e) [p])
                    && id_in p (ancestors c (S (length (cc_types c))) (fst (fst e)) (snd e))) q.
Fixpoint c09_direct (c : ccfg) (pol : fkpolicy) (skip : list (N * Z)) (w : world) (cls : list call)
         (qs : list (list (N * Z * obj))) : bool :=
  match cls, qs with
  | cl :: r, q :: qr =>
      let p := (cl_t cl, cl_k cl) in
      (negb (covered pol (cl_kind cl)) || id_in p skip
       || match w !! p with None => true
          | Some _ => negb (pending_child c p (List.filter (fun e => negb (id_in (fst e) skip)) q)) end)
      && c09_direct c pol skip (tapply w cl) r qr
  | [], [] => true
  | _, _ => false      (* every call must come with its queue observation *)
  end.
(** policy [disabled] is the control: [c09_target] is evaluated as if a policy were set *)
Definition c09_target (x : ccase) : bool := c09_calls (k_cfg x) [] ∅ (all_calls (k_iters x)).
Definition c09_policy (x : ccase) : bool :=
  c09_direct (k_cfg x) (cc_fkpolicy (k_cfg x)) [] ∅ (all_calls (k_iters x)) (k_qobs x).
Definition c09_case (x : ccase) : bool := c09_target x && c09_policy x.
(** the same, excusing the parents (and pending children) that are removed and re-added on
    the bus (finding F5: their queued events are purged or stuck) *)
Definition c09_case_noreadd (x : ccase) : bool :=
  c09_calls (k_cfg x) (readded x) ∅ (all_calls (k_iters x))
  && c09_direct (k_cfg x) (cc_fkpolicy (k_cfg x)) (readded x) ∅ (all_calls (k_iters x)) (k_qobs x).
(** finding F21: the parent index of a queue entry is computed when the entry is appended,
    from the parents present in the local cache at that moment.  [stale] collects the pairs
    (child, parent) such that a handler failed on the child while the parent or the child
    itself was absent from the target (a 'removed' appended behind a pending 'added' finds
    the child in no cache and registers no parent either); the [_nostale] variants excuse
    exactly those pairs. *)
Definition pair_in (cp : (N * Z) * (N * Z)) (l : list ((N * Z) * (N * Z))) : bool :=
  existsb (fun x => id_in (fst cp) [fst x] && id_in (snd cp) [snd x]) l.
(** the parents the code registers for an entry: those reached from the child through links
    present on the target ([parents_of], the lookup of [ErrorQueue._addParentObjs]), provided the
    child itself is known - on the target, or in the expected state (an 'added' entry: attribute
    0 of a queue observation holds the kind of the entry, 0 = added). Every other (child,
    ancestor) pair is stale: the policy cannot see it (finding F21). *)
Definition qk_added (o : obj) : bool := match o !! 0%N with Some (VInt 0) => true | _ => false end.
Definition unregistered (c : ccfg) (w : world) (known : bool) (t : N) (o : obj) : list (N * Z) :=
  let anc := ancestors c (S (length (cc_types c))) t o in
  if known then List.filter (fun p => negb (id_in p (parents_of c w (S (length (cc_types c))) t o))) anc else anc.
Definition on_target (w : world) (i : N * Z) : bool := match w !! i with Some _ => true | None => false end.
Definition stale_step (c : ccfg) (w : world) (cl : call) (st : list ((N * Z) * (N * Z))) :=
  if hres_eqb (cl_out cl) HOk then st else
  let ch := (cl_t cl, cl_k cl) in
  let o := match cl_new cl, cl_old cl with Some o, _ => o | None, Some o => o | None, None => mk_obj [] end in
  let known := match cl_kind cl with HAdded | HRecycled => true | _ => on_target w ch end in
  map (fun p => (ch, p)) (unregistered c w known (cl_t cl) o) ++ st.
(** ... and the same for every entry seen by a handler invocation: the entry may have been
    appended by a deferral, without any failed call of its own *)
Definition stale_snap (c : ccfg) (w : world) (q : list (N * Z * obj)) (st : list ((N * Z) * (N * Z))) :=
  flat_map (fun e => map (fun p => (fst e, p))
                         (unregistered c w (qk_added (snd e) || on_target w (fst e)) (fst (fst e)) (snd e))) q ++ st.
Fixpoint c09_direct_ns (c : ccfg) (pol : fkpolicy) (skip : list (N * Z)) (st : list ((N * Z) * (N * Z)))
         (w : world) (cls : list call) (qs : list (list (N * Z * obj))) : bool :=
  match cls, qs with
  | cl :: r, q :: qr =>
      let p := (cl_t cl, cl_k cl) in
      let st := stale_snap c w q st in
      (negb (covered pol (cl_kind cl)) || id_in p skip
       || match w !! p with None => true
          | Some _ => negb (pending_child c p (List.filter (fun e => negb (pair_in (fst e, p) st) && negb (id_in (fst e) skip)) q)) end)
      && c09_direct_ns c pol skip (stale_step c w cl st) (tapply w cl) r qr
  | [], [] => true
  | _, _ => false
  end.
Fixpoint c09_calls_ns (c : ccfg) (skip : list (N * Z)) (st : list ((N * Z) * (N * Z))) (w : world) (cls : list call)
         (qs : list (list (N * Z * obj))) : bool :=
  match cls, qs with
  | cl :: r, q :: qr =>
      let ok := hres_eqb (cl_out cl) HOk in
      let p := (cl_t cl, cl_k cl) in
      let st := stale_snap c w q st in
      (match cl_kind cl with
       | HRemoved | HTrashed => negb ok || id_in p skip
                                || match List.filter (fun ch => negb (pair_in (ch, p) st)) (children_of c w p) with [] => true | _ => false end
       | _ => true end)
      && c09_calls_ns c skip (stale_step c w cl st) (tapply w cl) r qr
  | [], [] => true
  | _, _ => false
  end.
Definition c09_case_nostale (x : ccase) : bool :=
  c09_calls_ns (k_cfg x) [] [] ∅ (all_calls (k_iters x)) (k_qobs x)
  && c09_direct_ns (k_cfg x) (cc_fkpolicy (k_cfg x)) [] [] ∅ (all_calls (k_iters x)) (k_qobs x).
Definition c09_case_excused (x : ccase) : bool :=
  c09_calls_ns (k_cfg x) (readded x) [] ∅ (all_calls (k_iters x)) (k_qobs x)
  && c09_direct_ns (k_cfg x) (cc_fkpolicy (k_cfg x)) (readded x) [] ∅ (all_calls (k_iters x)) (k_qobs x).

(* debugging aids *)
Fixpoint c09_first (c : ccfg) (w : world) (cls : list call) (i : Z) : option (Z * list (N * Z)) :=
  match cls with
  | [] => None
  | cl :: r =>
      let ok := hres_eqb (cl_out cl) HOk in
      match cl_kind cl with
      | HRemoved | HTrashed =>
          if ok then match children_of c w (cl_t cl, cl_k cl) with [] => c09_first c (tapply w cl) r (i + 1) | l => Some (i, l) end
          else c09_first c (tapply w cl) r (i + 1)
      | _ => c09_first c (tapply w cl) r (i + 1) end
  end.
Definition c09_where (x : ccase) := c09_first (k_cfg x) ∅ (all_calls (k_iters x)) 0.
Fixpoint c09_dfirst (c : ccfg) (pol : fkpolicy) (w : world) (cls : list call) (qs : list (list (N * Z * obj))) (i : Z)
  : list (Z * list (N * Z)) :=
  match cls, qs with
  | cl :: r, q :: qr =>
      let p := (cl_t cl, cl_k cl) in
      (if (negb (covered pol (cl_kind cl)) || match w !! p with None => true | Some _ => negb (pending_child c p q) end)
       then [] else [(i, map fst q)]) ++ c09_dfirst c pol (tapply w cl) r qr (i + 1)
  | _, _ => []
  end.
Definition c09_dwhere (x : ccase) := c09_dfirst (k_cfg x) (cc_fkpolicy (k_cfg x)) ∅ (all_calls (k_iters x)) (k_qobs x) 0.
Definition c09_stale (x : ccase) :=
  (fix go w st cls := match cls with [] => st | cl :: r => go (tapply w cl) (stale_step (k_cfg x) w cl st) r end)
    (∅ : world) [] (all_calls (k_iters x)).
Definition wdiff (a b : world) : list (N * Z * option (list (N * value)) * option (list (N * value))) :=
  omap (fun k => let x := a !! k in let y := b !! k in
                 if oobj_eqb x y then None else Some (k, option_map map_to_list x, option_map map_to_list y))
       (remove_dups (map fst (map_to_list a) ++ map fst (map_to_list b))).
Fixpoint corr_wdiff_go (c : ccfg) (outs : list hres) (cl : client) (its : list citer) (n : nat) :=
  match its with
  | [] => []
  | it :: r => let cl' := run_iter c outs cl it in
               match n with
               | O => imap (fun i ab => (i, wdiff (fst ab) (snd ab))) (zip (worlds_of (cl_st cl')) (ci_worlds it))
               | S m => corr_wdiff_go c outs cl' r m end
  end.
Definition corr_wdiff (x : ccase) (n : nat) :=
  List.filter (fun p => match snd p with [] => false | _ => true end) (corr_wdiff_go (k_cfg x) (k_outcomes x) client0 (k_iters x) n).
Fixpoint corr_mcalls_go (c : ccfg) (outs : list hres) (cl : client) (its : list citer) (n : nat) :=
  match its with
  | [] => []
  | it :: r => let cl' := run_iter c outs cl it in
               match n with
               | O => map (fun x => (cl_kind x, cl_t x, cl_k x, cl_retry x, cl_out x, option_map map_to_list (cl_old x))) (calls (cl_st cl'))
               | S m => corr_mcalls_go c outs cl' r m end
  end.
Definition corr_mcalls (x : ccase) (n : nat) := corr_mcalls_go (k_cfg x) (k_outcomes x) client0 (k_iters x) n.
Fixpoint c06_detail_go (c : ccfg) (seen : Z) (its : list citer) : list (list bool) :=
  match its with
  | [] => []
  | it :: r =>
      let before := map snd (List.filter (fun p => (fst p <? seen)%Z) (ci_bus it)) in
      let fresh := map snd (List.filter (fun p => (seen <=? fst p)%Z && (fst p <? ci_next it)%Z) (ci_bus it)) in
      [list_eqb (call_eqb (cc_ts c)) (expected_calls c (rreplay before) fresh) (ci_calls it);
       world_eqb (nthw it 0) (rreplay (delivered it));
       world_eqb (nthw it 4) (project c (nthw it 0));
       world_eqb (nthw it 2) (nthw it 0); world_eqb (nthw it 6) (nthw it 4);
       wempty (nthw it 1); wempty (nthw it 5);
       match ci_queue it with [] => true | _ => false end; negb (ci_exc it); (ci_next it =? ci_limit it + 1)%Z]
      :: c06_detail_go c (ci_next it) r
  end.
Definition c06_detail (x : ccase) := c06_detail_go (k_cfg x) 3 (k_iters x).

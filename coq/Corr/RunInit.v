(** Initialisation cases (C12): correspondence of [Model/Init.v] with the real client, and
    the observation-only oracle. *)
From Hermes Require Export Corr.RunClient Model.Init.

Record iiter := IIter {
  ii_limit : Z; ii_budget : option nat; ii_restart : bool;
  ii_calls : list call; ii_worlds : list world; ii_queue : list oq;
  ii_next : option Z; ii_start : option Z; ii_stop : option Z; ii_exc : bool
}.
Record icase := ICase { ic_cfg : ccfg; ic_first : bool; ic_bus : ibus; ic_iters : list iiter }.

Definition visible (b : ibus) (limit : Z) : ibus := List.filter (fun p => (fst p <=? limit)%Z) b.
Definition oz_eqb (a b : option Z) : bool :=
  match a, b with Some x, Some y => Z.eqb x y | None, None => true | _, _ => false end.

(** ** correspondence *)
Definition irun_iter (x : icase) (ic : iclient) (n : nat) (it : iiter) : iclient :=
  let ic0 := if ii_restart it then IClient (restart_state (ic_cfg x) (i_st ic)) (i_next ic) (i_start ic) (i_stop ic) (i_schema ic) else ic in
  let st0 := i_st ic0 in
  let st0' := CState (r_live st0) (r_trash st0) (rc_live st0) (rc_trash st0) (l_live st0) (l_trash st0)
                     (lc_live st0) (lc_trash st0) (queue st0) (ncall st0) [] (curstep st0) (curpartial st0)
                     false false (force_retry st0) (poison st0) in
  init_iter (ic_cfg x) (fun _ => HOk) (ic_first x) (IClient st0' (i_next ic0) (i_start ic0) (i_stop ic0) (i_schema ic0))
            (visible (ic_bus x) (ii_limit it)) (ii_budget it) (100 + 10 * Z.of_nat n).
(** an uninitialised client has no data sources yet: the harness reports them as empty *)
Definition icorr_iter (ts : N) (ic : iclient) (it : iiter) : list bool :=
  [list_eqb (call_eqb ts) (calls (i_st ic)) (ii_calls it);
   match ii_worlds it with
   | [] => true
   | ws => list_eqb world_eqb (worlds_of (i_st ic)) ws end;
   list_eqb2 q_eqb (queue (i_st ic)) (ii_queue it);
   oz_eqb (i_next ic) (ii_next it); oz_eqb (i_start ic) (ii_start it); oz_eqb (i_stop ic) (ii_stop it)].
Fixpoint icorr_iters (x : icase) (ic : iclient) (n : nat) (its : list iiter) : list (list bool) :=
  match its with
  | [] => []
  | it :: r => let ic' := irun_iter x ic n it in icorr_iter (cc_ts (ic_cfg x)) ic' it :: icorr_iters x ic' (S n) r
  end.
Definition icorr_detail (x : icase) := icorr_iters x iclient0 0 (ic_iters x).
Definition corr_icase (x : icase) : bool := forallb (forallb id) (icorr_detail x).

(** ** oracle: what the property says, from the bus and the observations alone *)
(** complete sequences of a bus: an init-start, then the first init-stop after it, with no
    other init-start in between *)
Fixpoint complete_from (b : ibus) : option Z :=     (* the init-stop closing a sequence begun just before [b] *)
  match b with
  | [] => None
  | (_, BStart) :: _ => None
  | (off, BStop) :: _ => Some off
  | _ :: r => complete_from r
  end.
Fixpoint complete_seqs (b : ibus) : list (Z * Z) :=
  match b with
  | [] => []
  | (off, BStart) :: r => (match complete_from r with Some e => [(off, e)] | None => [] end) ++ complete_seqs r
  | _ :: r => complete_seqs r
  end.
Definition seq_events (b : ibus) (s e : Z) : list cev :=
  omap (fun p => match snd p with BData true ev => if (s <? fst p)%Z && (fst p <? e)%Z then Some ev else None | _ => None end) b.
Definition base_between (b : ibus) (lo hi : Z) : list cev :=     (* lo < offset < hi *)
  omap (fun p => match snd p with BData false ev => if (lo <? fst p)%Z && (fst p <? hi)%Z then Some ev else None | _ => None end) b.
Definition last_offset (b : ibus) : Z := fold_left (fun m p => Z.max m (fst p)) b 0%Z.

Definition choose (first : bool) (l : list (Z * Z)) : option (Z * Z) := if first then head l else last l.

(** the sequence the client must load: the one designated when a complete sequence first
    becomes visible to it *)
Fixpoint designated (first : bool) (b : ibus) (its : list iiter) : option (Z * Z) :=
  match its with
  | [] => None
  | it :: r => match choose first (complete_seqs (visible b (ii_limit it))) with
               | Some p => Some p
               | None => designated first b r end
  end.

Definition iall_calls (its : list iiter) : list call := flat_map ii_calls its.
Definition inth (it : iiter) (n : nat) : world := nth n (ii_worlds it) ∅.

(** 1. nothing happens while no complete sequence is visible *)
Definition c12_idle (x : icase) : bool :=
  (fix go (its : list iiter) (initialised : bool) :=
     match its with
     | [] => true
     | it :: r =>
         let none_yet := negb initialised && match complete_seqs (visible (ic_bus x) (ii_limit it)) with [] => true | _ => false end in
         (negb none_yet || (match ii_calls it with [] => true | _ => false end
                            && oz_eqb (ii_start it) None && oz_eqb (ii_stop it) None))
         && go r (initialised || negb none_yet)
     end) (ic_iters x) false.

(** 2. choice + one-shot: while the client is not initialised, the sequence it records is
    the oldest / newest complete sequence visible at that iteration; once it is initialised
    (saved offset beyond the recorded init-stop) the record never changes *)
Definition oseq_eqb (a b : option (Z * Z)) : bool :=
  match a, b with
  | Some (s, e), Some (s', e') => Z.eqb s s' && Z.eqb e e'
  | None, None => true
  | _, _ => false end.
Definition rec_of (it : iiter) : option (Z * Z) :=
  match ii_start it, ii_stop it with Some s, Some e => Some (s, e) | _, _ => None end.
Definition c12_choice (x : icase) : bool :=
  (fix go (its : list iiter) (prev : option (Z * Z)) (initialised begun : bool) :=
     match its with
     | [] => true
     | it :: r =>
         let seqs := complete_seqs (visible (ic_bus x) (ii_limit it)) in
         let want := if initialised then prev else
                     match choose (ic_first x) seqs with
                     | Some p => Some p | None => prev end in
         (oseq_eqb (rec_of it) want
          (* or: the client goes on with the sequence it had begun to load *)
          || (negb initialised && begun && oseq_eqb (rec_of it) prev
              && match prev with Some p => existsb (fun q => oseq_eqb (Some p) (Some q)) seqs | None => false end))
         && oz_eqb (match ii_start it with Some _ => None | None => ii_stop it end) None
         && go r (rec_of it)
               (match rec_of it, ii_next it with Some (_, e), Some n => (e <=? n)%Z | _, _ => false end)
               (match rec_of it, ii_next it with Some (s, _), Some n => (s <? n)%Z | _, _ => false end)
     end) (ic_iters x) None false false.
(** the sequence finally loaded *)
Definition loaded (x : icase) : option (Z * Z) :=
  match last (ic_iters x) with Some it => rec_of it | None => None end.

(** 3. exclusive: the handler calls of the whole run are exactly those owed to the events of
    the sequence finally recorded followed by the base events located after its end (up to the
    saved offset), in order - nothing from other sequences, nothing from before its end *)
Definition c12_exclusive (x : icase) : bool :=
  match loaded x, last (ic_iters x) with
  | Some (s, e), Some lastit =>
      let upto := match ii_next lastit with Some n => n | None => s end in
      let evs := List.filter (fun _ => true) (seq_events (ic_bus x) s (Z.min e upto)) ++ base_between (ic_bus x) e upto in
      list_eqb (call_eqb (cc_ts (ic_cfg x))) (expected_calls (ic_cfg x) ∅ evs) (iall_calls (ic_iters x))
  | None, _ => match iall_calls (ic_iters x) with [] => true | _ => false end
  | _, None => true
  end.

(** 4. ends equal to the server view: once everything visible is consumed, the remote cache
    is the replay of all base events of the bus and the target cache its projection *)
Definition c12_final (x : icase) : bool :=
  match loaded x, last (ic_iters x) with
  | Some _, Some lastit =>
      let allbase := omap (fun p => match snd p with BData false ev => Some ev | _ => None end) (ic_bus x) in
      oz_eqb (ii_next lastit) (Some (last_offset (ic_bus x) + 1)%Z)
      && world_eqb (inth lastit 0) (rreplay allbase)
      && world_eqb (inth lastit 4) (project (ic_cfg x) (rreplay allbase))
      && negb (ii_exc lastit)
  | _, _ => true
  end.

(** 5. server side: every complete sequence carries the state published before it *)
Definition c12_sequence_is_state (x : icase) : bool :=
  forallb (fun se => world_eqb (rreplay (seq_events (ic_bus x) (fst se) (snd se)))
                               (rreplay (base_between (ic_bus x) 0 (fst se))))
          (complete_seqs (ic_bus x)).

Definition c12_case (x : icase) : bool :=
  c12_idle x && c12_choice x && c12_exclusive x && c12_final x && c12_sequence_is_state x.

Definition check_icases (f g : icase -> bool) (l : list icase) : list (Z * Z * Z) :=
  let fix go (i : Z) (l : list icase) :=
    match l with
    | [] => []
    | x :: r => (i, b2z (f x), b2z (g x)) :: go (i + 1)%Z r
    end in
  List.filter (fun t => negb (Z.eqb (snd (fst t)) 1%Z && Z.eqb (snd t) 1%Z)) (go 0%Z l).
Definition check_ibits (fs : list (icase -> bool)) (l : list icase) : list (Z * Z * Z) :=
  let fix go (i : Z) (l : list icase) :=
    match l with
    | [] => []
    | x :: r => (i, fold_right (fun f acc => (2 * acc + b2z (f x))%Z) 0%Z fs, 0%Z) :: go (i + 1)%Z r
    end in go 0%Z l.
